package main

import (
	"go/token"
	"go/types"
	"strings"

	"golang.org/x/tools/go/ssa"
)

// Value provenance: where does a value come from, seen through the things refactorings introduce - spilled parameters,
// captured variables, local struct literals, by-value struct copies, helper parameters (mapped back to the caller's arguments
// through a call chain) and bound-method receivers. The answer is a root value (ideally a Parameter of the outermost function
// or a FreeVar-free Alloc) and the field path selected from it.

type prov struct {
	root   ssa.Value
	fields []string
	chain  []*ssa.Call // the call chain in whose innermost frame root lives
}

func (p prov) String() string {
	s := "?"
	switch r := p.root.(type) {
	case nil:
		s = "?"
	case *ssa.Parameter:
		s = "param:" + pname(r)
	case *ssa.Alloc:
		s = "local:" + r.Comment
	case *ssa.Const:
		s = "const:" + r.String()
	default:
		s = path(r)
	}
	if len(p.fields) > 0 {
		s += "." + strings.Join(p.fields, ".")
	}
	return s
}

func (p prov) isParamField(param *ssa.Parameter, fields ...string) bool {
	if p.root != ssa.Value(param) || len(p.fields) != len(fields) {
		return false
	}
	for i := range fields {
		if p.fields[i] != fields[i] {
			return false
		}
	}
	return true
}

type provEnv struct {
	chain []*ssa.Call                // call chain from the root function (outermost first)
	bind  map[*ssa.FreeVar]ssa.Value // extra free-variable bindings (bound-method receivers)
	depth int
}

func valueProv(v ssa.Value, env provEnv) prov {
	if env.depth > 24 || v == nil {
		return prov{root: v, chain: env.chain}
	}
	env.depth++
	switch x := v.(type) {
	case *ssa.Parameter:
		// map to the caller's argument when the parameter belongs to the innermost callee of the chain
		for i := len(env.chain) - 1; i >= 0; i-- {
			cal := staticCallee(&env.chain[i].Call)
			if cal == nil || origin(x.Parent()) != cal {
				continue
			}
			idx := -1
			for k, p := range x.Parent().Params {
				if p == x {
					idx = k
				}
			}
			args := env.chain[i].Call.Args
			if idx < 0 || idx >= len(args) {
				break
			}
			e2 := env
			e2.chain = env.chain[:i]
			return valueProv(args[idx], e2)
		}
		return prov{root: x, chain: env.chain}
	case *ssa.FreeVar:
		if b, ok := env.bind[x]; ok {
			return valueProv(b, env)
		}
		if b := bindingOf(x); b != nil {
			return valueProv(b, env)
		}
		return prov{root: x, chain: env.chain}
	case *ssa.UnOp:
		if x.Op != token.MUL {
			return prov{root: x, chain: env.chain}
		}
		a := addrProv(x.X, env)
		return loadProv(a, env)
	case *ssa.Field:
		p := valueProv(x.X, env)
		if isPromotedHop(x.X.Type(), x.Field) {
			return p
		}
		return prov{p.root, append(append([]string{}, p.fields...), fieldName(x.X.Type(), x.Field)), p.chain}
	case *ssa.ChangeType:
		return valueProv(x.X, env)
	case *ssa.MakeInterface:
		return valueProv(x.X, env)
	case *ssa.Convert:
		if types.Identical(x.X.Type().Underlying(), x.Type().Underlying()) {
			return valueProv(x.X, env)
		}
	}
	return prov{root: v, chain: env.chain}
}

// loadProv: the value stored in the variable denoted by address provenance a.
func loadProv(a prov, env provEnv) prov {
	cell, ok := a.root.(*ssa.Alloc)
	if !ok {
		return a // a pointer value (receiver, parameter, …): fields select through it
	}
	var whole []*ssa.Store
	fieldStores := map[string][]*ssa.Store{}
	anyOther := false
	visit := func(fn *ssa.Function) {}
	var walk func(fn *ssa.Function)
	walk = func(fn *ssa.Function) {
		for _, b := range fn.Blocks {
			for _, in := range b.Instrs {
				st, ok := in.(*ssa.Store)
				if !ok {
					continue
				}
				switch ad := st.Addr.(type) {
				case *ssa.Alloc:
					if ad == cell {
						whole = append(whole, st)
					}
				case *ssa.FreeVar:
					if cellOf(ad) == cell {
						whole = append(whole, st)
					}
				case *ssa.FieldAddr:
					if base, ok := ad.X.(*ssa.Alloc); ok && base == cell {
						fn := fieldName(ad.X.Type(), ad.Field)
						fieldStores[fn] = append(fieldStores[fn], st)
					} else if fv, ok := ad.X.(*ssa.FreeVar); ok && cellOf(fv) == cell {
						fn := fieldName(ad.X.Type(), ad.Field)
						fieldStores[fn] = append(fieldStores[fn], st)
					}
				}
			}
		}
		for _, an := range fn.AnonFuncs {
			walk(an)
		}
	}
	_ = visit
	walk(cell.Parent())
	// does the cell's address escape into a call (written elsewhere)? keep it simple: ignore
	_ = anyOther
	if len(whole) == 1 && (len(a.fields) == 0 || len(fieldStores[a.fields[0]]) == 0) {
		p := valueProv(whole[0].Val, env)
		return prov{p.root, append(append([]string{}, p.fields...), a.fields...), p.chain}
	}
	if len(whole) == 0 && len(a.fields) > 0 && len(fieldStores[a.fields[0]]) == 1 {
		p := valueProv(fieldStores[a.fields[0]][0].Val, env)
		return prov{p.root, append(append([]string{}, p.fields...), a.fields[1:]...), p.chain}
	}
	return a
}

// addrProv: which variable (root + field path) does this address denote?
func addrProv(a ssa.Value, env provEnv) prov {
	if env.depth > 24 {
		return prov{root: a, chain: env.chain}
	}
	env.depth++
	switch x := a.(type) {
	case *ssa.Alloc:
		return prov{root: x, chain: env.chain}
	case *ssa.FreeVar:
		if b, ok := env.bind[x]; ok {
			return addrOrValue(b, env)
		}
		if b := bindingOf(x); b != nil {
			return addrOrValue(b, env)
		}
		return prov{root: x, chain: env.chain}
	case *ssa.FieldAddr:
		base := addrOrValue(x.X, env)
		if isPromotedHop(x.X.Type(), x.Field) {
			return base
		}
		return prov{base.root, append(append([]string{}, base.fields...), fieldName(x.X.Type(), x.Field)), base.chain}
	}
	// any other pointer-typed value: a pointer value whose provenance selects through
	return valueProv(a, env)
}

// addrOrValue: x is pointer-typed; if it is a variable's address (Alloc / FreeVar / FieldAddr) return that variable, otherwise
// the provenance of the pointer value itself (so that p.f through a pointer parameter p reads as param:p.f).
func addrOrValue(x ssa.Value, env provEnv) prov {
	switch x.(type) {
	case *ssa.Alloc, *ssa.FreeVar, *ssa.FieldAddr:
		return addrProv(x, env)
	}
	return valueProv(x, env)
}

// funcAndReceiver resolves a function value to its body and, for a bound method value (x.m), the receiver value bound at the
// MakeClosure. Closures: the function literal itself.
func funcAndReceiver(v ssa.Value) (fn *ssa.Function, recv ssa.Value) {
	v = stripChange(v)
	mc, ok := v.(*ssa.MakeClosure)
	if !ok {
		if f := resolveFuncValue(v, 0); f != nil {
			return f, nil
		}
		return nil, nil
	}
	f := mc.Fn.(*ssa.Function)
	if strings.HasSuffix(f.Name(), "$bound") && len(mc.Bindings) == 1 {
		// the wrapper calls the method with its single free variable as receiver
		var target *ssa.Function
		instrs(f, func(b *ssa.BasicBlock, i int, in ssa.Instruction) {
			if cc := callCommon(in); cc != nil && target == nil {
				target = calleeOf(cc)
			}
		})
		if target != nil {
			return target, mc.Bindings[0]
		}
	}
	return f, nil
}

func stripChange(v ssa.Value) ssa.Value {
	for {
		switch x := v.(type) {
		case *ssa.ChangeType:
			v = x.X
		case *ssa.MakeInterface:
			v = x.X
		default:
			return v
		}
	}
}

// valueLeaves expands a value into the alternatives it can stand for: phi edges, results of in-package helpers (each Return,
// with the helper's parameters mapped back through the call), spilled variables. A leaf is a value that is none of these.
type leafVal struct {
	v     ssa.Value
	chain []*ssa.Call
}

func valueLeaves(v ssa.Value, chain []*ssa.Call, depth int) []leafVal {
	return valueLeavesOpt(v, chain, depth, false)
}

// cellLeaves: like valueLeaves, but a load of a (captured) local variable is a leaf - for rules that identify a variable.
func cellLeaves(v ssa.Value, chain []*ssa.Call, depth int) []leafVal {
	return valueLeavesOpt(v, chain, depth, true)
}

func valueLeavesOpt(v ssa.Value, chain []*ssa.Call, depth int, stopAtCells bool) []leafVal {
	if depth > 8 {
		return []leafVal{{v, chain}}
	}
	switch x := v.(type) {
	case *ssa.ChangeType:
		return valueLeavesOpt(x.X, chain, depth+1, stopAtCells)
	case *ssa.Phi:
		var out []leafVal
		for _, e := range x.Edges {
			if e == ssa.Value(x) {
				continue
			}
			out = append(out, valueLeavesOpt(e, chain, depth+1, stopAtCells)...)
		}
		return out
	case *ssa.Parameter:
		for i := len(chain) - 1; i >= 0; i-- {
			cal := staticCallee(&chain[i].Call)
			if cal == nil || origin(x.Parent()) != cal {
				continue
			}
			for k, p := range x.Parent().Params {
				if p == x {
					args := chain[i].Call.Args
					if k < len(args) {
						return valueLeavesOpt(args[k], chain[:i], depth+1, stopAtCells)
					}
					// f(g()): the arguments are the results of the single tuple-valued argument
					if len(args) == 1 {
						if _, isTuple := args[0].Type().(*types.Tuple); isTuple {
							return []leafVal{{&tupleElem{args[0], k}, chain[:i]}}
						}
					}
				}
			}
		}
		// a parameter of a function literal that is started / called right where it is written, with arguments (go func(ctx
		// context.Context, src Stream[T], items chan<- T) {...}(bgCtx, s, c)): the argument
		if a := literalCallArg(x); a != nil {
			return valueLeavesOpt(a, nil, depth+1, stopAtCells)
		}
		// a parameter of a function literal that is handed to an in-package helper which calls it (c.with(func(cur …) {…})):
		// the values the helper passes at that position
		if ls := closureParamLeaves(x, depth); ls != nil {
			return ls
		}
	case *ssa.Field:
		if ls := structFieldLeaves(x.X, x.Field, chain, depth, stopAtCells); ls != nil {
			return ls
		}
	case *ssa.Call:
		if ls := helperResultLeaves(x, 0, chain, depth); ls != nil {
			return ls
		}
	case *ssa.Extract:
		if call, ok := x.Tuple.(*ssa.Call); ok {
			if ls := helperResultLeaves(call, x.Index, chain, depth); ls != nil {
				return ls
			}
		}
	case *ssa.UnOp:
		if x.Op == token.MUL {
			// the same through the spill of a value receiver (t0 = local l; *t0 = l; … *&t0.present)
			if fa, isFA := x.X.(*ssa.FieldAddr); isFA {
				if al, isAl := fa.X.(*ssa.Alloc); isAl {
					var whole []ssa.Value
					fieldStores := false
					for _, ref := range refsOf(al) {
						switch y := ref.(type) {
						case *ssa.Store:
							if y.Addr == ssa.Value(al) {
								whole = append(whole, y.Val)
							}
						case *ssa.FieldAddr:
							for _, r2 := range refsOf(y) {
								if st, isSt := r2.(*ssa.Store); isSt && st.Addr == ssa.Value(y) {
									fieldStores = true
								}
							}
						}
					}
					if len(whole) == 1 && !fieldStores {
						_, isP := whole[0].(*ssa.Parameter)
						_, isCall := whole[0].(*ssa.Call) // signal := newChangeSignal(); … signal.c
						if isP || isCall {
							if ls := structFieldLeaves(whole[0], fa.Field, chain, depth, stopAtCells); ls != nil {
								return ls
							}
						}
					}
				}
			}
			if cell := cellOf(x.X); cell != nil && !stopAtCells {
				sts := storesTo(cell)
				if len(sts) > 0 && len(sts) <= 4 {
					var out []leafVal
					for _, st := range sts {
						out = append(out, valueLeavesOpt(st.Val, chain, depth+1, stopAtCells)...)
					}
					return out
				}
			}
		}
	}
	return []leafVal{{v, chain}}
}

// tupleElem stands for element #idx of a tuple-valued call used as the whole argument list of another call (f(g())).
type tupleElem struct {
	tuple ssa.Value
	idx   int
}

func (t *tupleElem) Name() string                  { return "tuple-elem" }
func (t *tupleElem) String() string                { return "tuple-elem" }
func (t *tupleElem) Type() types.Type              { return t.tuple.Type().(*types.Tuple).At(t.idx).Type() }
func (t *tupleElem) Parent() *ssa.Function         { return nil }
func (t *tupleElem) Referrers() *[]ssa.Instruction { return nil }
func (t *tupleElem) Pos() token.Pos                { return t.tuple.Pos() }

func helperResultLeaves(call *ssa.Call, idx int, chain []*ssa.Call, depth int) []leafVal {
	cal := staticCallee(&call.Call)
	if cal == nil || cal.Blocks == nil || call.Parent() == nil || rootFn(cal).Pkg == nil || rootFn(cal).Pkg != rootFn(call.Parent()).Pkg {
		if cal == nil || cal.Blocks == nil || call.Parent() == nil {
			return nil
		}
		// generic instantiations have no package: accept when the origin lives in the caller's package
		if o := origin(cal); o == nil || rootFn(o).Pkg != rootFn(call.Parent()).Pkg {
			return nil
		}
	}
	for _, cc := range chain {
		if staticCallee(&cc.Call) == cal {
			return nil
		}
	}
	var out []leafVal
	sub := append(append([]*ssa.Call{}, chain...), call)
	// w.publish(t, true): the returns a constant flag of this call switches off do not contribute
	withChainFlags([]*ssa.Call{call}, func() {
		instrs(cal, func(b *ssa.BasicBlock, i int, in ssa.Instruction) {
			if ret, ok := in.(*ssa.Return); ok && idx < len(ret.Results) {
				out = append(out, valueLeaves(returnedValue(ret, idx), sub, depth+1)...)
			}
		})
	})
	return out
}

// closureParamLeaves: p is a parameter of a function literal F. Every use of F's closure value as an argument of a static
// in-package callee H is followed into H: the calls of the corresponding parameter of H supply p's values.
func closureParamLeaves(p *ssa.Parameter, depth int) []leafVal {
	f := p.Parent()
	if f == nil || f.Parent() == nil {
		return nil
	}
	pidx := -1
	for k, q := range f.Params {
		if q == p {
			pidx = k
		}
	}
	var out []leafVal
	instrs(f.Parent(), func(b *ssa.BasicBlock, i int, in ssa.Instruction) {
		// the closure value: a MakeClosure, or the function itself when it captures nothing
		var fv ssa.Value
		var uses []ssa.Instruction
		if mc, ok := in.(*ssa.MakeClosure); ok && mc.Fn == ssa.Value(f) && mc.Referrers() != nil {
			fv = mc
			uses = *mc.Referrers()
		} else if call, ok := in.(*ssa.Call); ok {
			for _, a := range call.Call.Args {
				if a == ssa.Value(f) {
					fv = f
					uses = []ssa.Instruction{call}
				}
			}
		}
		if fv == nil {
			return
		}
		for _, ref := range uses {
			call, ok := ref.(*ssa.Call)
			if !ok {
				continue
			}
			h := staticCallee(&call.Call)
			if h == nil || h.Blocks == nil {
				continue
			}
			for ai, a := range call.Call.Args {
				if a != fv || ai >= len(h.Params) {
					continue
				}
				hp := h.Params[ai]
				instrs(h, func(_ *ssa.BasicBlock, _ int, in2 ssa.Instruction) {
					c2, ok := in2.(*ssa.Call)
					if !ok || c2.Call.Value != ssa.Value(hp) || pidx >= len(c2.Call.Args) {
						return
					}
					out = append(out, valueLeaves(c2.Call.Args[pidx], []*ssa.Call{call}, depth+1)...)
				})
			}
		}
	})
	return out
}

// leavesKeepingChain is valueLeaves; every leaf carries the chain of the frame it was found in.
func leavesKeepingChain(v ssa.Value, chain []*ssa.Call, depth int) []leafVal {
	return valueLeaves(v, chain, depth)
}

// closureCallSite: function literal lit is handed (as argument of the static call outer) to an in-package helper, which calls
// it through the corresponding func-typed parameter at inner.
type closureCallSite struct {
	inner, outer *ssa.Call
}

func closureCallSites(lit *ssa.Function) []closureCallSite {
	if lit == nil || lit.Parent() == nil {
		return nil
	}
	var out []closureCallSite
	instrs(lit.Parent(), func(_ *ssa.BasicBlock, _ int, in ssa.Instruction) {
		var fv ssa.Value
		var uses []ssa.Instruction
		if mc, ok := in.(*ssa.MakeClosure); ok && mc.Fn == ssa.Value(lit) && mc.Referrers() != nil {
			fv = mc
			uses = *mc.Referrers()
		} else if call, ok := in.(*ssa.Call); ok {
			for _, a := range call.Call.Args {
				if a == ssa.Value(lit) {
					fv = lit
					uses = []ssa.Instruction{call}
				}
			}
		}
		if fv == nil {
			return
		}
		for _, ref := range uses {
			call, ok := ref.(*ssa.Call)
			if !ok {
				continue
			}
			h := staticCallee(&call.Call)
			if h == nil || h.Blocks == nil {
				continue
			}
			for ai, a := range call.Call.Args {
				if a != fv || ai >= len(h.Params) {
					continue
				}
				hp := h.Params[ai]
				instrs(h, func(_ *ssa.BasicBlock, _ int, in2 ssa.Instruction) {
					if c2, ok := in2.(*ssa.Call); ok && c2.Call.Value == ssa.Value(hp) {
						out = append(out, closureCallSite{c2, call})
					}
				})
			}
		}
	})
	return out
}

// literalCallArg: p is a parameter of a function literal whose only use is one go / call / defer statement of its enclosing
// function that passes arguments: the argument for p (a value of the enclosing function), else nil.
func literalCallArg(p *ssa.Parameter) ssa.Value {
	lit := p.Parent()
	if lit == nil || lit.Parent() == nil {
		return nil
	}
	k := -1
	for i, q := range lit.Params {
		if q == p {
			k = i
		}
	}
	if k < 0 {
		return nil
	}
	var arg ssa.Value
	n := 0
	// the call may sit in the enclosing function or in a sibling literal that reaches this one through the local variable
	// that holds it (deliver := func(b []T) bool {...}; flush := func() bool { if !deliver(batch) {...} })
	for _, host := range withAnon(rootFn(lit)) {
		if host == lit {
			continue
		}
		instrs(host, func(_ *ssa.BasicBlock, _ int, in ssa.Instruction) {
			cc := callCommon(in)
			if cc == nil || cc.IsInvoke() {
				return
			}
			var f *ssa.Function
			switch v := cc.Value.(type) {
			case *ssa.MakeClosure:
				f, _ = v.Fn.(*ssa.Function)
			case *ssa.Function:
				f = v
			case *ssa.UnOp:
				f = resolveFuncValue(v, 0)
			}
			if f != lit || k >= len(cc.Args) {
				return
			}
			n++
			arg = cc.Args[k]
		})
	}
	if n != 1 {
		return nil
	}
	return arg
}

// structFieldLeaves: field #field of the struct value base. l.present inside func (l lookup[V]) typed(), called as l.typed() on
// a local `var l lookup[V]` whose fields were assigned one by one (l.stored, l.present = m.m.Load(key)): what was stored into
// that field of the variable. nil when it cannot be told.
func structFieldLeaves(base ssa.Value, field int, chain []*ssa.Call, depth int, stopAtCells bool) []leafVal {
	bchain := chain
	for d := 0; d < 4; d++ {
		ct, isCT := base.(*ssa.ChangeType)
		if !isCT {
			break
		}
		base = ct.X
	}
	if prm, isP := base.(*ssa.Parameter); isP {
		mapped := false
		for i := len(chain) - 1; i >= 0 && !mapped; i-- {
			cal := staticCallee(&chain[i].Call)
			if cal == nil || origin(prm.Parent()) != cal {
				continue
			}
			for k, q := range prm.Parent().Params {
				if q == prm && k < len(chain[i].Call.Args) {
					base, bchain = chain[i].Call.Args[k], chain[:i]
					mapped = true
				}
			}
			break
		}
		if !mapped {
			return nil
		}
	}
	// signal := newChangeSignal(); … signal.c: the struct value is what a constructor of the module returns - the field of the
	// literal it builds
	if call, isCall := base.(*ssa.Call); isCall {
		cal := staticCallee(&call.Call)
		if cal == nil || cal.Blocks == nil || curCtx == nil || !curCtx.inModule(cal) || depth > 6 {
			return nil
		}
		var out []leafVal
		sub := append(append([]*ssa.Call{}, bchain...), call)
		for _, rv := range returnedBy(origin(cal), 0) {
			ls := structFieldLeaves(rv, field, sub, depth+1, stopAtCells)
			if ls == nil {
				return nil
			}
			out = append(out, ls...)
		}
		return out
	}
	ld, isLd := base.(*ssa.UnOp)
	if !isLd || ld.Op != token.MUL {
		return nil
	}
	al, isAl := ld.X.(*ssa.Alloc)
	if !isAl {
		return nil
	}
	var vals []ssa.Value
	for _, ref := range refsOf(al) {
		switch y := ref.(type) {
		case *ssa.FieldAddr:
			if y.Field != field {
				continue
			}
			for _, r2 := range refsOf(y) {
				if st, isSt := r2.(*ssa.Store); isSt && st.Addr == ssa.Value(y) {
					vals = append(vals, st.Val)
				}
			}
		case *ssa.Store:
			if y.Addr == ssa.Value(al) {
				return nil
			}
		}
	}
	if len(vals) == 0 || len(vals) > 4 {
		return nil
	}
	var out []leafVal
	for _, sv := range vals {
		out = append(out, valueLeavesOpt(sv, bchain, depth+1, stopAtCells)...)
	}
	return out
}
