package main

import (
	"fmt"
	"go/constant"
	"go/token"
	"go/types"
	"strings"

	"golang.org/x/tools/go/ssa"
)

// path renders an SSA value as a source-like access path ("d.front", "h.a[i]", "len(h.a)-1").
// go/ssa does no CSE, so two loads of d.front are two values; rules compare paths, and separately
// check that nothing writes the path in between where that matters.
func path(v ssa.Value) string { return pathD(v, 0) }

func pathD(v ssa.Value, d int) string {
	if v == nil {
		return "<nil>"
	}
	if d > 12 {
		return v.Name()
	}
	switch x := v.(type) {
	case *ssa.Parameter:
		if fv, ok := forwardedParam[x]; ok {
			return pathD(fv, d+1)
		}
		return pname(x)
	case *ssa.FreeVar:
		return canonLocalName(x.Parent(), x.Name())
	case *ssa.Global:
		return x.Name()
	case *ssa.Alloc:
		if x.Comment != "" && x.Comment != "complit" && !strings.HasPrefix(x.Comment, "new") && !strings.HasPrefix(x.Comment, "make") {
			return canonLocalName(x.Parent(), x.Comment)
		}
		return x.Comment + "@" + x.Name()
	case *ssa.FieldAddr:
		if isPromotedHop(x.X.Type(), x.Field) {
			return pathD(x.X, d+1)
		}
		return pathD(x.X, d+1) + "." + fieldName(x.X.Type(), x.Field)
	case *ssa.Field:
		if isPromotedHop(x.X.Type(), x.Field) {
			return pathD(x.X, d+1)
		}
		return pathD(x.X, d+1) + "." + fieldName(x.X.Type(), x.Field)
	case *ssa.IndexAddr:
		return pathD(x.X, d+1) + "[" + pathD(x.Index, d+1) + "]"
	case *ssa.Index:
		return pathD(x.X, d+1) + "[" + pathD(x.Index, d+1) + "]"
	case *ssa.Lookup:
		return pathD(x.X, d+1) + "[" + pathD(x.Index, d+1) + "]"
	case *ssa.UnOp:
		switch x.Op {
		case token.MUL:
			return pathD(x.X, d+1)
		case token.ARROW:
			return "<-" + pathD(x.X, d+1)
		case token.NOT:
			return "!" + pathD(x.X, d+1)
		case token.SUB:
			return "-" + pathD(x.X, d+1)
		}
		return x.Op.String() + pathD(x.X, d+1)
	case *ssa.Const:
		if x.Value == nil {
			return "nil"
		}
		return x.Value.ExactString()
	case *ssa.BinOp:
		return "(" + pathD(x.X, d+1) + x.Op.String() + pathD(x.Y, d+1) + ")"
	case *ssa.Convert:
		return pathD(x.X, d+1)
	case *ssa.ChangeType:
		return pathD(x.X, d+1)
	case *ssa.ChangeInterface:
		return pathD(x.X, d+1)
	case *ssa.MakeInterface:
		return pathD(x.X, d+1)
	case *ssa.Slice:
		lo, hi := "", ""
		if x.Low != nil {
			lo = pathD(x.Low, d+1)
		}
		if x.High != nil {
			hi = pathD(x.High, d+1)
		}
		return pathD(x.X, d+1) + "[" + lo + ":" + hi + "]"
	case *ssa.Extract:
		return pathD(x.Tuple, d+1) + "#" + fmt.Sprint(x.Index)
	case *ssa.Call:
		// l.Front() where Front is `return l.front`: a thin accessor reads as the field it returns
		if recv, fld, ok := thinGetter(x); ok {
			return pathD(recv, d+1) + "." + fld
		}
		var args []string
		for _, a := range x.Call.Args {
			args = append(args, pathD(a, d+1))
		}
		return calleeName(&x.Call) + "(" + strings.Join(args, ",") + ")"
	case *ssa.Phi:
		if x.Comment != "" {
			return "phi:" + x.Comment
		}
		return "phi:" + x.Name()
	case *ssa.TypeAssert:
		return pathD(x.X, d+1) + ".(" + x.AssertedType.String() + ")"
	case *ssa.MakeClosure:
		return "closure:" + x.Fn.Name()
	case *ssa.Function:
		return x.Name()
	case *ssa.Builtin:
		return x.Name()
	}
	return v.Name()
}

func fieldName(t types.Type, i int) string {
	if p, ok := t.Underlying().(*types.Pointer); ok {
		t = p.Elem()
	}
	if s, ok := t.Underlying().(*types.Struct); ok && i < s.NumFields() {
		return canonField(t, s.Field(i).Name())
	}
	return fmt.Sprintf("f%d", i)
}

// calleeName gives a short stable name for the target of a call: "Type.Method", "pkg.Func",
// "builtin", "invoke:Method" for interface calls, or the path of a func-typed value.
func calleeName(cc *ssa.CallCommon) string {
	if cc.IsInvoke() {
		return "invoke:" + cc.Method.Name()
	}
	switch f := cc.Value.(type) {
	case *ssa.Builtin:
		return f.Name()
	case *ssa.Function:
		// func (h Heap[T]) itemAt(i int) T { return h.inner.Item(i) }: a thin forwarder is named after what it forwards to
		if t := thinForwardTarget(f); t != nil {
			return funcShort(t)
		}
		return funcShort(f)
	case *ssa.MakeClosure:
		return funcShort(f.Fn.(*ssa.Function))
	}
	return "dyn:" + path(cc.Value)
}

func funcShort(f *ssa.Function) string {
	f = origin(f)
	if recv := f.Signature.Recv(); recv != nil {
		t := recv.Type()
		if p, ok := t.(*types.Pointer); ok {
			t = p.Elem()
		}
		if n, ok := t.(*types.Named); ok {
			return canonType(n) + "." + f.Name()
		}
	}
	if f.Pkg != nil && f.Parent() == nil {
		return f.Pkg.Pkg.Name() + "." + f.Name()
	}
	return f.Name()
}

// staticCallee resolves the target of a call: static functions, immediately applied closures, and
// local closure variables (a cell with a single store of a MakeClosure, possibly reached through a
// captured variable). Returns the generic origin.
func staticCallee(cc *ssa.CallCommon) *ssa.Function {
	if cc.IsInvoke() {
		return nil
	}
	return origin(resolveFuncValue(cc.Value, 0))
}

func resolveFuncValue(v ssa.Value, d int) *ssa.Function {
	if d > 6 {
		return nil
	}
	switch x := v.(type) {
	case *ssa.Function:
		return x
	case *ssa.MakeClosure:
		return x.Fn.(*ssa.Function)
	case *ssa.ChangeType:
		return resolveFuncValue(x.X, d+1)
	case *ssa.Parameter:
		// a func-typed parameter of a helper, bound (for the analysis under way) to the literal the caller passes
		if f, ok := funcParamBinding[x]; ok {
			return f
		}
		return nil
	case *ssa.Extract:
		// c, trigger := newTrigger(): one of several results of such a constructor
		if call, isCall := x.Tuple.(*ssa.Call); isCall {
			return funcResultOfCtor(call, x.Index)
		}
		return nil
	case *ssa.Call:
		if x.Call.Signature().Results().Len() != 1 {
			return nil
		}
		return funcResultOfCtor(x, 0)
	case *ssa.UnOp:
		if x.Op != token.MUL {
			return nil
		}
		// a func-typed field of a struct type of the package that is only ever assigned one function literal (stop: func() {
		// cancel(); workers.Wait() } in the constructor, called as s.stop() by Close): that literal
		if fa, ok := x.X.(*ssa.FieldAddr); ok && curCtx != nil && x.Parent() != nil {
			if _, isSig := derefType(fa.Type()).Underlying().(*types.Signature); isSig {
				if nt, ok := derefType(fa.X.Type()).(*types.Named); ok {
					fld := fieldName(fa.X.Type(), fa.Field)
					var only *ssa.Function
					n, bad := 0, false
					for _, f2 := range curCtx.Funcs {
						if rootFn(f2).Pkg != rootFn(x.Parent()).Pkg {
							continue
						}
						instrs(f2, func(_ *ssa.BasicBlock, _ int, in ssa.Instruction) {
							st, ok := in.(*ssa.Store)
							if !ok {
								return
							}
							fa2, ok := st.Addr.(*ssa.FieldAddr)
							if !ok || fieldName(fa2.X.Type(), fa2.Field) != fld {
								return
							}
							if nt2, ok := derefType(fa2.X.Type()).(*types.Named); !ok || nt2.Origin() != nt.Origin() {
								return
							}
							if isNilConst(st.Val) {
								return // reset to "nothing pending": calls through the field are nil-guarded (own rule where it matters)
							}
							n++
							mc, isMC := st.Val.(*ssa.MakeClosure)
							if !isMC {
								bad = true
								return
							}
							f, _ := mc.Fn.(*ssa.Function)
							if f != nil && strings.HasSuffix(f.Name(), "$bound") {
								// a bound method value kept in the field (wait: eg.Wait): the method itself (its receiver is the
								// bound one; callers that need it read the closure's binding)
								var target *ssa.Function
								for _, tb := range f.Blocks {
									for _, tin := range tb.Instrs {
										if tc, ok := tin.(*ssa.Call); ok && target == nil {
											target = tc.Call.StaticCallee()
										}
									}
								}
								f = target
							}
							if f == nil || (only != nil && only != f) {
								bad = true
								return
							}
							only = f
						})
					}
					if n > 0 && !bad && only != nil {
						return only
					}
				}
			}
			return nil
		}
		cell := cellOf(x.X)
		if cell == nil {
			return nil
		}
		var found *ssa.Function
		n := 0
		for _, st := range storesTo(cell) {
			n++
			found = resolveFuncValue(st.Val, d+1)
		}
		if n == 1 {
			return found
		}
	}
	return nil
}

// cellOf maps an address value to the Alloc it denotes, following a FreeVar to the captured Alloc
// of the enclosing function.
func cellOf(v ssa.Value) *ssa.Alloc {
	switch x := v.(type) {
	case *ssa.Alloc:
		return x
	case *ssa.FreeVar:
		fn := x.Parent()
		parent := fn.Parent()
		if parent == nil {
			return nil
		}
		idx := -1
		for i, fv := range fn.FreeVars {
			if fv == x {
				idx = i
			}
		}
		if idx < 0 {
			return nil
		}
		// find the MakeClosure for fn in parent
		for _, b := range parent.Blocks {
			for _, in := range b.Instrs {
				if mc, ok := in.(*ssa.MakeClosure); ok && mc.Fn == fn && idx < len(mc.Bindings) {
					return cellOf(mc.Bindings[idx])
				}
			}
		}
	}
	return nil
}

// storesTo lists every store whose address is the cell itself, in the allocating function and in
// every closure that captures it.
func storesTo(cell *ssa.Alloc) []*ssa.Store {
	var out []*ssa.Store
	var visit func(fn *ssa.Function)
	visit = func(fn *ssa.Function) {
		for _, b := range fn.Blocks {
			for _, in := range b.Instrs {
				if st, ok := in.(*ssa.Store); ok {
					if cellOf(st.Addr) == cell {
						out = append(out, st)
					}
				}
			}
		}
		for _, a := range fn.AnonFuncs {
			visit(a)
		}
	}
	visit(cell.Parent())
	return out
}

// instrs iterates over all instructions of a function.
func instrs(fn *ssa.Function, f func(b *ssa.BasicBlock, i int, in ssa.Instruction)) {
	for _, b := range fn.Blocks {
		if (activeSpec != nil || len(activeCellFlags) > 0 || len(activeParamFlags) > 0) && specDead(b) {
			continue // not live under the flag value the rule is looking at (variants.go)
		}
		for i, in := range b.Instrs {
			f(b, i, in)
		}
	}
}

// withAnon returns fn and all closures nested in it.
func withAnon(fn *ssa.Function) []*ssa.Function {
	out := []*ssa.Function{fn}
	for _, a := range fn.AnonFuncs {
		out = append(out, withAnon(a)...)
	}
	return out
}

// callCommon returns the CallCommon of a call-like instruction (Call, Go, Defer).
func callCommon(in ssa.Instruction) *ssa.CallCommon {
	switch x := in.(type) {
	case *ssa.Call:
		return &x.Call
	case *ssa.Go:
		return &x.Call
	case *ssa.Defer:
		return &x.Call
	}
	return nil
}

// storedField: if addr is the address of field f of something, returns the field name and the base path.
func storedField(addr ssa.Value) (base ssa.Value, field string, ok bool) {
	if fa, isFA := addr.(*ssa.FieldAddr); isFA {
		return fa.X, fieldName(fa.X.Type(), fa.Field), true
	}
	return nil, "", false
}

// rootField walks an address expression (IndexAddr/FieldAddr/Slice chains and loads) down to the first
// FieldAddr and returns its field name: for &d.a[i] it is "a", for &x.keys[i] "keys".
func rootField(addr ssa.Value) (field string, base ssa.Value, ok bool) {
	for d := 0; d < 10; d++ {
		switch x := addr.(type) {
		case *ssa.FieldAddr:
			return fieldName(x.X.Type(), x.Field), x.X, true
		case *ssa.IndexAddr:
			addr = x.X
		case *ssa.Slice:
			addr = x.X
		case *ssa.UnOp:
			if x.Op != token.MUL {
				return "", nil, false
			}
			addr = x.X
		case *ssa.ChangeType:
			addr = x.X
		case *ssa.Convert:
			addr = x.X
		default:
			return "", nil, false
		}
	}
	return "", nil, false
}

func isNamedType(t types.Type, pkgSuffix, name string) bool {
	if p, ok := t.(*types.Pointer); ok {
		t = p.Elem()
	}
	n, ok := t.(*types.Named)
	if !ok {
		return false
	}
	if canonType(n) != name {
		// a struct that the named type embeds by value (Deque{ringSpan{front, back}, ...}) is part of that object: its fields
		// are the named type's own (promotion), and the rules ask for them under the outer name
		return embeddedInNamed(n, pkgSuffix, name)
	}
	if n.Obj().Pkg() == nil {
		return pkgSuffix == ""
	}
	return strings.HasSuffix(n.Obj().Pkg().Path(), pkgSuffix)
}

var embeddedMemo = map[string]bool{}

// embeddedInNamed: the module's type pkgSuffix.name is a struct that embeds inner (a struct type of the same package) by value.
func embeddedInNamed(inner *types.Named, pkgSuffix, name string) bool {
	if inner.Obj().Pkg() == nil || pkgSuffix == "" || !strings.HasSuffix(inner.Obj().Pkg().Path(), pkgSuffix) {
		return false
	}
	if _, isStruct := inner.Underlying().(*types.Struct); !isStruct {
		return false
	}
	key := inner.Obj().Pkg().Path() + "." + inner.Obj().Name() + "<" + name
	if v, ok := embeddedMemo[key]; ok {
		return v
	}
	res := false
	scope := inner.Obj().Pkg().Scope()
	for _, nm := range scope.Names() {
		tn, ok := scope.Lookup(nm).(*types.TypeName)
		if !ok {
			continue
		}
		outer, ok := tn.Type().(*types.Named)
		if !ok || canonType(outer) != name {
			continue
		}
		st, ok := outer.Underlying().(*types.Struct)
		if !ok {
			continue
		}
		for i := 0; i < st.NumFields(); i++ {
			f := st.Field(i)
			if !f.Embedded() {
				continue
			}
			if fn, ok := f.Type().(*types.Named); ok && fn.Origin() == inner.Origin() {
				res = true
			}
		}
	}
	embeddedMemo[key] = res
	return res
}

// edgeDominates reports whether control can reach block b only through the edge from -> from.Succs[idx].
func edgeDominates(from *ssa.BasicBlock, idx int, b *ssa.BasicBlock) bool {
	s := from.Succs[idx]
	if !s.Dominates(b) {
		return false
	}
	// the other successor must not be the same block
	for j, o := range from.Succs {
		if j != idx && o == s {
			return false
		}
	}
	for _, p := range s.Preds {
		if p == from {
			continue
		}
		if !s.Dominates(p) { // another way into s that does not come through s itself (not a back edge)
			return false
		}
	}
	return true
}

// A guard is one branch condition known to hold on every path to a block.
type guard struct {
	cond ssa.Value // the If condition
	val  bool      // its value on the dominating edge
	blk  *ssa.BasicBlock
	via  *ssa.Call // set when the fact was read off the body of a boolean helper: cond lives in that helper's frame
}

// guardsOf returns every branch condition that dominates b (edge-dominance), innermost first.
func guardsOfRaw(b *ssa.BasicBlock) []guard {
	var out []guard
	for d := b.Idom(); d != nil; d = d.Idom() {
		if len(d.Instrs) == 0 {
			continue
		}
		iff, ok := d.Instrs[len(d.Instrs)-1].(*ssa.If)
		if !ok {
			continue
		}
		for idx := 0; idx < 2; idx++ {
			if edgeDominates(d, idx, b) {
				out = append(out, guard{cond: iff.Cond, val: idx == 0, blk: d})
			}
		}
	}
	// b itself may be the target of the edge
	return out
}

// cmp describes a normalised comparison "x op y" that is known true.
type cmpFact struct {
	op   token.Token
	x, y ssa.Value
	via  *ssa.Call // the tiny boolean helper whose body the comparison comes from (x, y live in ITS frame), or nil
}

// env: the provenance environment in which x and y are to be read (maps the helper's parameters to the call's arguments).
func (cf cmpFact) env() provEnv {
	if cf.via == nil {
		return provEnv{}
	}
	return provEnv{chain: []*ssa.Call{cf.via}}
}

// asCmp decomposes a guard into a comparison known to be true (negating the operator for a false edge).
func (g guard) asCmp() (cmpFact, bool) {
	v := g.cond
	val := g.val
	for {
		if u, ok := v.(*ssa.UnOp); ok && u.Op == token.NOT {
			v = u.X
			val = !val
			continue
		}
		break
	}
	b, ok := v.(*ssa.BinOp)
	via := g.via
	if !ok {
		if hb, isHelper := boolHelperCmp(v); isHelper {
			b, ok = hb, true
			via, _ = v.(*ssa.Call)
		}
	}
	if !ok {
		return cmpFact{}, false
	}
	op := b.Op
	switch op {
	case token.EQL, token.NEQ, token.LSS, token.LEQ, token.GTR, token.GEQ:
	default:
		return cmpFact{}, false
	}
	if !val {
		op = negate(op)
	}
	return cmpFact{op, b.X, b.Y, via}, true
}

func negate(op token.Token) token.Token {
	switch op {
	case token.EQL:
		return token.NEQ
	case token.NEQ:
		return token.EQL
	case token.LSS:
		return token.GEQ
	case token.GEQ:
		return token.LSS
	case token.GTR:
		return token.LEQ
	case token.LEQ:
		return token.GTR
	}
	return op
}

func flip(op token.Token) token.Token {
	switch op {
	case token.LSS:
		return token.GTR
	case token.GTR:
		return token.LSS
	case token.LEQ:
		return token.GEQ
	case token.GEQ:
		return token.LEQ
	}
	return op
}

// boolGuard: the guard is a plain boolean value (e.g. the ok of a comma-ok) known true/false.
func (g guard) boolVal() (ssa.Value, bool) {
	v := g.cond
	val := g.val
	for {
		if u, ok := v.(*ssa.UnOp); ok && u.Op == token.NOT {
			v = u.X
			val = !val
			continue
		}
		break
	}
	return v, val
}

func isConstInt(v ssa.Value, n int64) bool {
	c, ok := v.(*ssa.Const)
	if !ok || c.Value == nil {
		return false
	}
	if c.Value.Kind() != constant.Int {
		return false
	}
	iv, exact := constant.Int64Val(c.Value)
	return exact && iv == n
}

func isIntegerish(t types.Type) bool {
	b, ok := t.Underlying().(*types.Basic)
	return ok && b.Info()&types.IsInteger != 0
}

func isNilConst(v ssa.Value) bool {
	c, ok := v.(*ssa.Const)
	return ok && c.Value == nil
}

func posOf(in ssa.Instruction) token.Pos {
	if p := in.Pos(); p.IsValid() {
		return p
	}
	// fall back to any operand/instruction position in the block
	if b := in.Block(); b != nil {
		for _, o := range b.Instrs {
			if o.Pos().IsValid() {
				return o.Pos()
			}
		}
		return in.Parent().Pos()
	}
	return token.NoPos
}

// calleeOf returns the generic origin of a statically resolved callee (instances created inside generic
// bodies have Pkg == nil and names such as "OnceValue[T]").
func calleeOf(cc *ssa.CallCommon) *ssa.Function {
	if cc.IsInvoke() {
		return nil
	}
	return origin(cc.StaticCallee())
}

// baseName strips type arguments from an instantiated function name.
func baseName(f *ssa.Function) string {
	n := f.Name()
	if i := strings.Index(n, "["); i >= 0 {
		n = n[:i]
	}
	return n
}

// isCallTo: static call of pkgPath.(recv).name ("" recv for package-level functions).
func isCallTo(cc *ssa.CallCommon, pkgPath, recv, name string) bool {
	f := calleeOf(cc)
	if f == nil || baseName(f) != name {
		return false
	}
	if recv == "" {
		return f.Signature.Recv() == nil && f.Pkg != nil && f.Pkg.Pkg.Path() == pkgPath
	}
	if f.Signature.Recv() == nil {
		return false
	}
	return isNamedType(f.Signature.Recv().Type(), pkgPath, recv)
}

// expandGuard turns a branch on a short-circuit boolean (a phi produced by `a && b` / `a || b` evaluated as a value,
// e.g. in a tagless switch case) into the atomic facts it implies: `(a && b)` true ⇒ a true, b true;
// `(a || b)` false ⇒ a false, b false. Facts are returned outermost first.
func expandGuard(g guard, depth int) []guard {
	if depth > 4 {
		return []guard{g}
	}
	v, val := g.boolVal()
	// a boolean helper with a single return (`func (it *iter) exhausted() bool { return it.d.Len() == 0 || it.done }`): what
	// its result being val says about the values in ITS frame (consumers map them through guard.via / cmpFact.via)
	if hc, isCall := v.(*ssa.Call); isCall && g.via == nil {
		if cal := staticCallee(&hc.Call); cal != nil && cal.Blocks != nil && hc.Parent() != nil && rootFn(origin(cal)).Pkg == rootFn(hc.Parent()).Pkg {
			o := origin(cal)
			var rets []*ssa.Return
			instrs(o, func(_ *ssa.BasicBlock, _ int, in ssa.Instruction) {
				if r, ok := in.(*ssa.Return); ok {
					rets = append(rets, r)
				}
			})
			if len(rets) == 1 && len(rets[0].Results) == 1 {
				if _, isPhi := returnedValue(rets[0], 0).(*ssa.Phi); isPhi {
					var out []guard
					for _, g2 := range expandGuard(guard{cond: returnedValue(rets[0], 0), val: val, blk: rets[0].Block()}, depth+1) {
						g2.via = hc
						out = append(out, g2)
					}
					if len(out) > 0 {
						return append([]guard{g}, out...) // the call itself stays a fact (rules that know the helper by name)
					}
				}
			}
		}
	}
	phi, ok := v.(*ssa.Phi)
	if !ok {
		return []guard{g}
	}
	if b, isB := phi.Type().Underlying().(*types.Basic); !isB || b.Kind() != types.Bool {
		return []guard{g}
	}
	var nonConst ssa.Value
	var pred *ssa.BasicBlock
	n := 0
	for i, e := range phi.Edges {
		if c, ok := e.(*ssa.Const); ok && c.Value != nil && c.Value.Kind() == constant.Bool {
			if constant.BoolVal(c.Value) == val {
				return []guard{g} // the observed value can come from a constant edge: nothing follows
			}
			continue
		}
		n++
		nonConst = e
		pred = phi.Block().Preds[i]
	}
	if n != 1 {
		return []guard{g}
	}
	var out []guard
	// facts established on the way to the block that evaluated the last operand
	pg := append(guardsOfRaw(pred), guardsOfSelf(pred)...)
	for i := len(pg) - 1; i >= 0; i-- {
		out = append(out, pg[i])
	}
	out = append(out, expandGuard(guard{cond: nonConst, val: val, blk: pred}, depth+1)...)
	return out
}

// guardsOf returns every atomic branch fact that holds on every path to b (edge-dominance), innermost first,
// with short-circuit boolean values expanded.
func guardsOf(b *ssa.BasicBlock) []guard {
	var out []guard
	for _, g := range guardsOfRaw(b) {
		ex := expandGuard(g, 0)
		for i := len(ex) - 1; i >= 0; i-- {
			out = append(out, ex[i])
		}
	}
	return out
}

// resolveVal strips conversions and follows locals/captured variables that are assigned exactly once, so that a
// hoisted expression (`n := len(in)`, `nWorkers := uint32(parallelism)`) is recognised as the expression itself.
func resolveVal(v ssa.Value) ssa.Value {
	for d := 0; d < 8; d++ {
		switch x := v.(type) {
		case *ssa.Convert:
			v = x.X
			continue
		case *ssa.ChangeType:
			v = x.X
			continue
		case *ssa.UnOp:
			if x.Op == token.MUL {
				if cell := cellOf(x.X); cell != nil {
					sts := storesTo(cell)
					if len(sts) == 1 {
						v = sts[0].Val
						continue
					}
				}
			}
		}
		break
	}
	return v
}

// isLenOf: v is len(x) where x denotes the same variable as `of` (directly or through a single-assignment local).
func isLenOf(v ssa.Value, of ssa.Value) bool {
	v = resolveVal(v)
	call, ok := v.(*ssa.Call)
	if !ok {
		return false
	}
	bi, ok := call.Call.Value.(*ssa.Builtin)
	if !ok || bi.Name() != "len" || len(call.Call.Args) != 1 {
		return false
	}
	a := call.Call.Args[0]
	if a == of {
		return true
	}
	if ld, ok := a.(*ssa.UnOp); ok && ld.Op == token.MUL {
		if cell := cellOf(ld.X); cell != nil {
			for _, st := range storesTo(cell) {
				if st.Val == of {
					return true
				}
			}
		}
	}
	return false
}

// sameRootVar: a and b denote the same variable once conversions and single-assignment locals are peeled off.
func sameRootVar(a, b ssa.Value) bool {
	ra, rb := resolveVal(a), resolveVal(b)
	if ra == rb {
		return true
	}
	ca, cb := loadCell(ra), loadCell(rb)
	return ca != nil && ca == cb
}

// boolHelperCmp: if v is a call of a tiny helper whose body is `return <x> op <y>` (e.g. t.empty() { return t.root.n == 0 }),
// returns that comparison (in the helper's own value namespace).
func boolHelperCmp(v ssa.Value) (*ssa.BinOp, bool) {
	call, ok := v.(*ssa.Call)
	if !ok {
		return nil, false
	}
	cal := staticCallee(&call.Call)
	if cal == nil || len(cal.Blocks) != 1 {
		return nil, false
	}
	ret, ok := cal.Blocks[0].Instrs[len(cal.Blocks[0].Instrs)-1].(*ssa.Return)
	if !ok || len(ret.Results) != 1 {
		return nil, false
	}
	bin, ok := returnedValue(ret, 0).(*ssa.BinOp)
	if !ok {
		return nil, false
	}
	switch bin.Op {
	case token.EQL, token.NEQ, token.LSS, token.LEQ, token.GTR, token.GEQ:
		return bin, true
	}
	return nil, false
}

// tailCallee: if block b (an arm body) consists of a call to an in-package function whose results are returned
// directly, returns that callee (the arm's logic was extracted into a helper).
func tailCallee(b *ssa.BasicBlock) (*ssa.Function, *ssa.Call) {
	if b == nil || len(b.Instrs) == 0 {
		return nil, nil
	}
	ret, ok := b.Instrs[len(b.Instrs)-1].(*ssa.Return)
	if !ok {
		return nil, nil
	}
	for _, in := range b.Instrs {
		call, ok := in.(*ssa.Call)
		if !ok {
			continue
		}
		cal := staticCallee(&call.Call)
		if cal == nil || cal.Blocks == nil || rootFn(cal).Pkg != rootFn(b.Parent()).Pkg {
			continue
		}
		// every result of the return is an extract of this call (or the call itself)
		all := len(ret.Results) > 0
		for _, r := range ret.Results {
			if r == ssa.Value(call) {
				continue
			}
			if ex, ok := r.(*ssa.Extract); ok && ex.Tuple == ssa.Value(call) {
				continue
			}
			all = false
		}
		if all {
			return cal, call
		}
	}
	return nil, nil
}

// callSitesOf lists the static call sites of fn in its package.
func callSitesOf(c *Ctx, fn *ssa.Function) []*ssa.Call {
	var out []*ssa.Call
	for _, f := range c.Funcs {
		if rootFn(f).Pkg != rootFn(fn).Pkg {
			continue
		}
		instrs(f, func(b *ssa.BasicBlock, i int, in ssa.Instruction) {
			if call, ok := in.(*ssa.Call); ok {
				if cal := staticCallee(&call.Call); cal == fn {
					out = append(out, call)
				}
			}
		})
	}
	return out
}

// curCtx: the context of the tree being analysed (set by loadRepo), for helpers that need call sites but have no Ctx at hand.
var curCtx *Ctx

// callCommonsOf: every call, go and defer statement whose static target is fn.
func callCommonsOf(c *Ctx, fn *ssa.Function) []*ssa.CallCommon {
	var out []*ssa.CallCommon
	if c == nil {
		return nil
	}
	for _, f := range c.Funcs {
		if rootFn(f).Pkg != rootFn(fn).Pkg {
			continue
		}
		instrs(f, func(b *ssa.BasicBlock, i int, in ssa.Instruction) {
			if cc := callCommon(in); cc != nil {
				if cal := staticCallee(cc); cal == fn || (cal != nil && origin(cal) == origin(fn)) {
					out = append(out, cc)
				}
			}
		})
	}
	return out
}

// lvar: a local variable as rules see it - a (possibly captured) local, or one field of a local struct variable (refactorings
// like to group related locals into a small struct). Comparable.
type lvar struct {
	cell  *ssa.Alloc
	field string
}

func (v lvar) ok() bool { return v.cell != nil }

// lvarOf: the variable an address denotes.
func lvarOf(addr ssa.Value) lvar {
	if cell := cellOf(addr); cell != nil {
		return lvar{cell: cell}
	}
	if fa, ok := addr.(*ssa.FieldAddr); ok {
		if cell := cellOf(fa.X); cell != nil {
			if _, isStruct := cell.Type().(*types.Pointer).Elem().Underlying().(*types.Struct); isStruct {
				return lvar{cell: cell, field: fieldName(fa.X.Type(), fa.Field)}
			}
		}
		// bt.c inside a method of a small unexported helper type whose only receiver, at every call site, is the address of
		// one local struct variable: that variable's field
		if p, ok := fa.X.(*ssa.Parameter); ok {
			if cell := paramCell(p, 0); cell != nil {
				return lvar{cell: cell, field: fieldName(fa.X.Type(), fa.Field)}
			}
		}
	}
	return lvar{}
}

var paramCellMemo = map[*ssa.Parameter]*ssa.Alloc{}

// paramCell: the single local struct variable whose address every call site passes for pointer parameter p of an unexported
// top-level function (nil if there is no such unique variable).
func paramCell(p *ssa.Parameter, depth int) *ssa.Alloc {
	if c, ok := paramCellMemo[p]; ok {
		return c
	}
	paramCellMemo[p] = nil
	fn := p.Parent()
	if fn == nil || fn.Parent() != nil || token.IsExported(fn.Name()) || curCtx == nil || depth > 3 {
		return nil
	}
	pt, ok := p.Type().Underlying().(*types.Pointer)
	if !ok {
		return nil
	}
	if _, isStruct := pt.Elem().Underlying().(*types.Struct); !isStruct {
		return nil
	}
	idx := -1
	for i, q := range fn.Params {
		if q == p {
			idx = i
		}
	}
	var cell *ssa.Alloc
	sites := callCommonsOf(curCtx, fn)
	if idx < 0 || len(sites) == 0 {
		return nil
	}
	for _, cc := range sites {
		if idx >= len(cc.Args) {
			return nil
		}
		var c2 *ssa.Alloc
		switch a := cc.Args[idx].(type) {
		case *ssa.Parameter:
			if a == p {
				continue // recursion
			}
			c2 = paramCell(a, depth+1)
		default:
			c2 = cellOf(a)
		}
		if c2 == nil || (cell != nil && c2 != cell) {
			return nil
		}
		cell = c2
	}
	paramCellMemo[p] = cell
	return cell
}

// cellHelpers: the top-level functions that receive the address of cell (directly or from one another), i.e. the methods of a
// local helper-struct variable.
func cellHelpers(cell *ssa.Alloc) []*ssa.Function {
	var out []*ssa.Function
	seen := map[*ssa.Function]bool{}
	var visit func(f *ssa.Function)
	visit = func(f *ssa.Function) {
		instrs(f, func(b *ssa.BasicBlock, i int, in ssa.Instruction) {
			cc := callCommon(in)
			if cc == nil {
				return
			}
			cal := staticCallee(cc)
			if cal == nil || cal.Blocks == nil || seen[cal] || cal.Parent() != nil {
				return
			}
			for i, a := range cc.Args {
				if i < len(cal.Params) {
					if pp, ok := ssa.Value(cal.Params[i]).(*ssa.Parameter); ok && paramCell(pp, 0) == cell && (cellOf(a) == cell || isParamOfCell(a, cell)) {
						seen[cal] = true
						out = append(out, cal)
						visit(cal)
						return
					}
				}
			}
		})
	}
	for _, f := range withAnon(cell.Parent()) {
		visit(f)
	}
	return out
}

func isParamOfCell(a ssa.Value, cell *ssa.Alloc) bool {
	p, ok := a.(*ssa.Parameter)
	return ok && paramCell(p, 0) == cell
}

// loadVar: v is a load of a variable → that variable.
func loadVar(v ssa.Value) lvar {
	if ld, ok := v.(*ssa.UnOp); ok && ld.Op == token.MUL {
		return lvarOf(ld.X)
	}
	return lvar{}
}

// storesToVar: every store to the variable, in the function that declares it and in the closures nested there.
func storesToVar(v lvar) []*ssa.Store {
	if !v.ok() {
		return nil
	}
	if v.field == "" {
		return storesTo(v.cell)
	}
	var out []*ssa.Store
	for _, f := range append(withAnon(v.cell.Parent()), cellHelpers(v.cell)...) {
		instrs(f, func(b *ssa.BasicBlock, i int, in ssa.Instruction) {
			if st, ok := in.(*ssa.Store); ok && lvarOf(st.Addr) == v {
				out = append(out, st)
			}
		})
	}
	return out
}

// funcParamBinding: while a rule analyses one caller, the func-typed parameters of the in-package helpers it calls stand for
// the function literals that caller passes (g.runEachTime(func() bool { … select … }, f)): calls of the parameter are then
// followed like static calls by staticCallee and everything built on it (deep views, typestate summaries).
var funcParamBinding = map[*ssa.Parameter]*ssa.Function{}

// bindFuncParams binds, for every static in-package call in fn (and the literals nested in it), the callee's func-typed
// parameters to the literals / functions passed; the returned function removes the bindings.
func bindFuncParams(fn *ssa.Function) func() {
	var bound []*ssa.Parameter
	for _, g := range withAnon(fn) {
		instrs(g, func(_ *ssa.BasicBlock, _ int, in ssa.Instruction) {
			call, ok := in.(*ssa.Call)
			if !ok {
				return
			}
			cal := staticCallee(&call.Call)
			if cal == nil || cal.Blocks == nil || cal.Parent() != nil || rootFn(origin(cal)).Pkg != rootFn(fn).Pkg {
				return
			}
			o := origin(cal)
			for i, a := range call.Call.Args {
				if i >= len(o.Params) {
					continue
				}
				if _, isSig := o.Params[i].Type().Underlying().(*types.Signature); !isSig {
					continue
				}
				lit := resolveFuncValue(a, 0)
				if lit != nil && lit.Parent() == nil {
					// a method value (c.SeekFirst): the parameter stands for that method (its receiver is bound)
					if m, rv := funcAndReceiver(a); m != nil && rv != nil {
						lit = m
					} else if strings.HasSuffix(lit.Name(), "$thunk") {
						// a method expression ((*sync.Map).LoadOrStore): the parameter stands for that method
						var target *ssa.Function
						for _, tb := range lit.Blocks {
							for _, tin := range tb.Instrs {
								if tc, ok := tin.(*ssa.Call); ok && target == nil {
									target = tc.Call.StaticCallee()
								}
							}
						}
						lit = target
					} else {
						lit = nil
					}
				}
				if lit != nil {
					if _, dup := funcParamBinding[o.Params[i]]; !dup {
						funcParamBinding[o.Params[i]] = lit
						bound = append(bound, o.Params[i])
					}
				}
			}
		})
	}
	return func() {
		for _, p := range bound {
			delete(funcParamBinding, p)
		}
	}
}

// stripConvs: v without the conversions (Convert, ChangeType) wrapped around it.
func stripConvs(v ssa.Value) ssa.Value {
	for {
		switch x := v.(type) {
		case *ssa.Convert:
			v = x.X
		case *ssa.ChangeType:
			v = x.X
		default:
			return v
		}
	}
}

// isPromotedHop: field i of struct type t is an embedded struct held by value: its fields are promoted (l.front IS
// l.ends.front), so access paths leave the hop out and read the same with or without the grouping.
func isPromotedHop(t types.Type, i int) bool {
	if p, ok := t.Underlying().(*types.Pointer); ok {
		t = p.Elem()
	}
	s, ok := t.Underlying().(*types.Struct)
	if !ok || i >= s.NumFields() || !s.Field(i).Embedded() {
		return false
	}
	_, isStruct := s.Field(i).Type().Underlying().(*types.Struct)
	return isStruct
}

// funcResultOfCtor: a function value built by an in-package constructor (eg.Go(newContextWorker(ctx, &x, n, f))): the literal
// every return of the constructor yields as result #idx.
func funcResultOfCtor(x *ssa.Call, idx int) *ssa.Function {
	cal := origin(x.Call.StaticCallee()) // the generic body when the constructor is an instance (lessFromCompare[T])
	if cal == nil || cal.Blocks == nil || cal.Signature.Results().Len() <= idx || curCtx == nil || !curCtx.inModule(cal) {
		return nil
	}
	if _, isSig := cal.Signature.Results().At(idx).Type().Underlying().(*types.Signature); !isSig {
		return nil
	}
	var lit *ssa.Function
	nRet := 0
	for _, b := range cal.Blocks {
		for _, in := range b.Instrs {
			ret, ok := in.(*ssa.Return)
			if !ok || len(ret.Results) <= idx {
				continue
			}
			nRet++
			rv := returnedValue(ret, idx)
			for {
				ct, isCT := rv.(*ssa.ChangeType) // func literal returned as a named function type (xsort.Less[T])
				if !isCT {
					break
				}
				rv = ct.X
			}
			if mc, ok := rv.(*ssa.MakeClosure); ok {
				if f, ok := mc.Fn.(*ssa.Function); ok && f.Parent() == cal {
					lit = f
				}
			}
		}
	}
	if nRet == 1 {
		return lit
	}
	return nil
}

// atomicOp: call is an operation of sync/atomic on an integer - directly, or through a thin accessor of a small type of the
// module defined on that integer (func (f *atomicFlag) trySet() bool { return atomic.CompareAndSwapUint32((*uint32)(f), 0, 1) }):
// the operation's name and its arguments in the caller's terms (the address is the accessor's receiver). ne0 says the accessor
// hands back `result != 0` instead of the result itself (isSet()).
func atomicOp(call *ssa.Call) (name string, args []ssa.Value, ne0 bool, ok bool) {
	if call == nil {
		return "", nil, false, false
	}
	if f := call.Call.StaticCallee(); f != nil && f.Pkg != nil && f.Pkg.Pkg.Path() == "sync/atomic" {
		return f.Name(), call.Call.Args, false, true
	}
	cal := staticCallee(&call.Call)
	if cal == nil || len(cal.Blocks) != 1 || cal.Signature.Recv() == nil || curCtx == nil || !curCtx.inModule(cal) {
		return "", nil, false, false
	}
	var inner *ssa.Call
	for _, in := range cal.Blocks[0].Instrs {
		switch x := in.(type) {
		case *ssa.Call:
			if inner != nil {
				return "", nil, false, false
			}
			inner = x
		case *ssa.Convert, *ssa.ChangeType, *ssa.BinOp, *ssa.Return, *ssa.DebugRef:
		default:
			return "", nil, false, false
		}
	}
	if inner == nil {
		return "", nil, false, false
	}
	f := inner.Call.StaticCallee()
	if f == nil || f.Pkg == nil || f.Pkg.Pkg.Path() != "sync/atomic" {
		return "", nil, false, false
	}
	for _, a := range inner.Call.Args {
		v := a
		for {
			if cv, isCv := v.(*ssa.Convert); isCv {
				v = cv.X
				continue
			}
			if ct, isCT := v.(*ssa.ChangeType); isCT {
				v = ct.X
				continue
			}
			break
		}
		switch y := v.(type) {
		case *ssa.Const:
			args = append(args, y)
		case *ssa.Parameter:
			idx := paramIndex(y)
			if idx < 0 || idx >= len(call.Call.Args) {
				return "", nil, false, false
			}
			args = append(args, call.Call.Args[idx])
		default:
			return "", nil, false, false
		}
	}
	// what is handed back: the result (possibly converted), or result != 0
	ret, isRet := cal.Blocks[0].Instrs[len(cal.Blocks[0].Instrs)-1].(*ssa.Return)
	if !isRet || len(ret.Results) != 1 {
		return "", nil, false, false
	}
	rv := ret.Results[0]
	if bo, isBO := rv.(*ssa.BinOp); isBO {
		if bo.Op != token.NEQ || !isConstInt(bo.Y, 0) || bo.X != ssa.Value(inner) {
			return "", nil, false, false
		}
		return f.Name(), args, true, true
	}
	for {
		if cv, isCv := rv.(*ssa.Convert); isCv {
			rv = cv.X
			continue
		}
		break
	}
	if rv != ssa.Value(inner) {
		return "", nil, false, false
	}
	return f.Name(), args, false, true
}

var thinGetterMemo = map[*ssa.Function]int{}

// thinGetter: call is a call of a method of the module whose whole body is `return recv.f` (one block: field address, load,
// return): the receiver argument and the field's name.
func thinGetter(call *ssa.Call) (recv ssa.Value, field string, ok bool) {
	if call.Call.IsInvoke() || len(call.Call.Args) != 1 || curCtx == nil {
		return nil, "", false
	}
	cal := call.Call.StaticCallee()
	if cal == nil {
		return nil, "", false
	}
	o := origin(cal)
	if o == nil || o.Signature.Recv() == nil || len(o.Blocks) != 1 || len(o.Params) != 1 || !curCtx.inModule(o) {
		return nil, "", false
	}
	fi, seen := thinGetterMemo[o]
	if !seen {
		fi = -1
		var fa *ssa.FieldAddr
		var ld *ssa.UnOp
		okShape := true
		for _, in := range o.Blocks[0].Instrs {
			switch y := in.(type) {
			case *ssa.FieldAddr:
				if fa != nil || y.X != ssa.Value(o.Params[0]) {
					okShape = false
				}
				fa = y
			case *ssa.UnOp:
				if ld != nil || y.Op != token.MUL || fa == nil || y.X != ssa.Value(fa) {
					okShape = false
				}
				ld = y
			case *ssa.Return:
				if len(y.Results) != 1 || ld == nil || y.Results[0] != ssa.Value(ld) {
					okShape = false
				}
			case *ssa.DebugRef:
			default:
				okShape = false
			}
		}
		if okShape && fa != nil && ld != nil {
			fi = fa.Field
		}
		thinGetterMemo[o] = fi
	}
	if fi < 0 {
		return nil, "", false
	}
	return call.Call.Args[0], fieldName(o.Params[0].Type(), fi), true
}

var thinForwardMemo = map[*ssa.Function]*ssa.Function{}

// thinForwardTarget: f is an unexported method of the module whose whole body hands its own parameters, in order, to one
// method of a field of its receiver and returns what that returns (func (h Heap[T]) updateAt(i int, item T) {
// h.inner.UpdateAt(i, item) }): the method it forwards to, nil otherwise.
func thinForwardTarget(f *ssa.Function) *ssa.Function {
	o := origin(f)
	if o == nil || curCtx == nil {
		return nil
	}
	if t, ok := thinForwardMemo[o]; ok {
		return t
	}
	thinForwardMemo[o] = nil
	if o.Signature.Recv() == nil || token.IsExported(o.Name()) || len(o.Blocks) != 1 || len(o.Params) == 0 || !curCtx.inModule(o) {
		return nil
	}
	var call *ssa.Call
	for _, in := range o.Blocks[0].Instrs {
		switch x := in.(type) {
		case *ssa.Call:
			if call != nil {
				return nil
			}
			call = x
		case *ssa.FieldAddr, *ssa.Field, *ssa.UnOp, *ssa.Extract, *ssa.Return, *ssa.DebugRef, *ssa.Alloc, *ssa.Store:
		default:
			return nil
		}
	}
	if call == nil || call.Call.IsInvoke() {
		return nil
	}
	t := call.Call.StaticCallee()
	if t == nil || t.Signature.Recv() == nil || len(call.Call.Args) != len(o.Params) {
		return nil
	}
	// the receiver argument is a field of this receiver; the others are the parameters in order
	for i := 1; i < len(call.Call.Args); i++ {
		if call.Call.Args[i] != ssa.Value(o.Params[i]) {
			return nil
		}
	}
	okRecv := false
	switch r := call.Call.Args[0].(type) {
	case *ssa.UnOp:
		if fa, isFA := r.X.(*ssa.FieldAddr); isFA && r.Op == token.MUL {
			base := fa.X
			if al, isAl := base.(*ssa.Alloc); isAl {
				if sts := storesTo(al); len(sts) == 1 && sts[0].Val == ssa.Value(o.Params[0]) {
					okRecv = true // the spill of a value receiver
				}
			} else if base == ssa.Value(o.Params[0]) {
				okRecv = true
			}
		}
	case *ssa.Field:
		okRecv = r.X == ssa.Value(o.Params[0])
	case *ssa.FieldAddr:
		okRecv = r.X == ssa.Value(o.Params[0])
	}
	if !okRecv {
		return nil
	}
	thinForwardMemo[o] = origin(t)
	return origin(t)
}
