package main

import (
	"encoding/json"
	"flag"
	"fmt"
	"os"
	"path/filepath"
	"sort"
	"strconv"
	"strings"
	"time"
)

type report struct {
	Property   string       `json:"property"`
	Tier       string       `json:"tier"`
	Repo       string       `json:"repo"`
	Violations []Obligation `json:"violations"`
	Note       string       `json:"note,omitempty"`
}

func main() {
	prop := flag.String("prop", "", "property id (C01..C20) or 'all'")
	tier := flag.String("tier", "quick", "quick|thorough")
	repo := flag.String("repo", "/repo", "repository working tree to analyse")
	verif := flag.String("verif", "/verif", "verif directory (evidence/, reports/, known_findings.json)")
	replay := flag.String("replay", "", "report file: re-evaluate only the obligations it lists")
	list := flag.Bool("list", false, "list every obligation")
	noEvidence := flag.Bool("no-evidence", false, "do not write evidence/report files (used by the self-test)")
	describe := flag.Bool("describe", false, "print the rule catalogue (markdown) and exit")
	dumpLay := flag.Bool("dump-layout", false, "print layout_pinned.go (struct layouts of the loaded tree) and exit")
	flag.Parse()
	for _, f := range lateInits {
		f()
	}
	if *describe {
		var ids []string
		for id := range properties {
			ids = append(ids, id)
		}
		sort.Strings(ids)
		for _, id := range ids {
			p := properties[id]
			fmt.Printf("### %s — %s\n\n", id, p.Title)
			fmt.Printf("| rule | floor | decided clause |\n|------|-------|----------------|\n")
			for _, r := range p.Rules {
				fmt.Printf("| `%s` | %d | %s |\n", r.ID, r.Floor, strings.ReplaceAll(r.Clause, "|", "\\|"))
			}
			fmt.Printf("\nNot covered: %s\n\n", strings.Join(p.NotCovered, "; "))
		}
		return
	}
	if v := os.Getenv("VERIF_TIER"); v != "" && *tier == "quick" {
		if v == "thorough" {
			*tier = v
		}
	}
	seed := 0
	if v := os.Getenv("VERIF_SEED"); v != "" {
		seed, _ = strconv.Atoi(v) // recorded, not used: the analysis is deterministic
	}
	start := time.Now()
	var ids []string
	if *prop == "all" {
		for id := range properties {
			ids = append(ids, id)
		}
		sort.Strings(ids)
	} else if properties[*prop] != nil {
		ids = []string{*prop}
	} else {
		fmt.Fprintf(os.Stderr, "unknown property %q\n", *prop)
		fmt.Printf("VIOLATION property=%s replay=%s\n", *prop, "/dev/null")
		os.Exit(1)
	}
	var replayKeys map[string]bool
	if *replay != "" {
		b, err := os.ReadFile(*replay)
		if err != nil {
			fmt.Fprintln(os.Stderr, err)
			os.Exit(2)
		}
		var rp report
		if err := json.Unmarshal(b, &rp); err != nil {
			fmt.Fprintln(os.Stderr, err)
			os.Exit(2)
		}
		replayKeys = map[string]bool{}
		for _, o := range rp.Violations {
			replayKeys[o.Key] = true
		}
		if properties[rp.Property] != nil {
			ids = []string{rp.Property}
		}
	}

	c, err := loadRepo(*repo, nil)
	if *dumpLay && err == nil {
		fmt.Print(dumpLayout(c))
		return
	}
	if debugHook != nil && err == nil {
		debugHook(c)
	}
	exit := 0
	if err != nil {
		// Cannot analyse: never "held".
		for _, id := range ids {
			rp := report{Property: id, Tier: *tier, Repo: *repo, Note: "the repository could not be loaded/type-checked, nothing was decided: " + err.Error()}
			path := filepath.Join(*verif, "reports", id+"-load-error.json")
			if !*noEvidence {
				writeJSON(path, rp)
			}
			fmt.Printf("VIOLATION property=%s replay=%s\n", id, path)
		}
		fmt.Fprintln(os.Stderr, "load error:", err)
		os.Exit(1)
	}
	known, kerr := loadKnownFindings(filepath.Join(*verif, "known_findings.json"))
	if kerr != nil {
		fmt.Fprintln(os.Stderr, "warning: known_findings.json:", kerr)
	}
	for _, id := range ids {
		p := properties[id]
		pstart := time.Now()
		res := runProperty(c, p)
		var bad []Obligation
		var knownLines []string
		for _, o := range res.Obs {
			if replayKeys != nil && !replayKeys[o.Key] {
				continue
			}
			if *list || replayKeys != nil {
				fmt.Printf("%-10s %-28s %-34s %s  %s\n", o.Status, o.Rule, o.Pos, o.Key, o.Detail)
			}
			if o.Status != Violated && o.Status != Undecided {
				continue
			}
			matched := false
			for _, k := range known {
				if k.Status == "open" && k.Property == id && k.Construct == o.Key {
					matched = true
					line := fmt.Sprintf("KNOWN-FINDING: property=%s %s [%s at %s]", id, k.What, o.Key, o.Pos)
					knownLines = append(knownLines, line)
					fmt.Println(line)
				}
			}
			if !matched {
				bad = append(bad, o)
			}
		}
		if replayKeys != nil {
			if len(bad) > 0 {
				exit = 1
			}
			continue
		}
		// one report file per violated obligation
		for _, o := range bad {
			path := filepath.Join(*verif, "reports", id+"-"+keyHash(o.Key)+".json")
			if !*noEvidence {
				writeJSON(path, report{Property: id, Tier: *tier, Repo: *repo, Violations: []Obligation{o}})
			}
			fmt.Printf("%s: %s: %s [%s] %s\n", o.Pos, o.Status, o.Rule, o.Key, o.Detail)
			fmt.Printf("VIOLATION property=%s replay=%s\n", id, path)
			exit = 1
		}
		var controls map[string]interface{}
		if *tier == "thorough" && !*noEvidence {
			controls = runThorough(c, p, *repo, *verif)
			if n, _ := controls["alt_config_violations"].(int); n > 0 {
				exit = 1
			}
		}
		counts := map[string]int{}
		for _, o := range res.Obs {
			counts[o.Status]++
		}
		fmt.Printf("%s %s: %d obligations over %d rules: %d discharged, %d excepted, %d violated, %d undecided (%d known findings) [%d packages, %d functions] %.1fs\n",
			id, *tier, len(res.Obs), len(p.Rules), counts[Discharged], counts[Excepted], counts[Violated], counts[Undecided], len(knownLines), c.PkgCount, len(c.Funcs), time.Since(pstart).Seconds())
		if !*noEvidence {
			if err := writeEvidence(filepath.Join(*verif, "evidence"), c, res, *tier, seed, start, len(bad), knownLines, controls); err != nil {
				fmt.Fprintln(os.Stderr, "evidence:", err)
				exit = 1
			}
		}
	}
	os.Exit(exit)
}

func writeJSON(path string, v interface{}) {
	b, _ := json.MarshalIndent(v, "", " ")
	_ = os.MkdirAll(filepath.Dir(path), 0o755)
	_ = os.WriteFile(path, append(b, '\n'), 0o644)
}

var _ = strings.TrimSpace

var debugHook func(c *Ctx)
