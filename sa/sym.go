package main

import (
	"go/token"
	"strings"

	"golang.org/x/tools/go/ssa"
)

// Symbolic expressions: the value of an SSA operand written as an expression over the ROOT function's parameters (and the
// fields reachable from them), seeing through spilled variables (provenance), through parameters of helpers (mapped back to the
// arguments along a call chain) and through calls of small in-package helpers whose result is a single expression
// (d.after(i) ≡ (i+1) % len(d.a)). Rules that used to match an operand's text ("is this index reduced modulo len(d.a)?",
// "is front moved by -1?") ask the question of this expression instead, so extracting or inlining a helper does not change
// the answer.

type sx struct {
	op   string // "const", "leaf", "len", "cap", "call", or a binary operator token
	s    string // const text / leaf provenance string / callee name
	args []*sx
	v    ssa.Value // the SSA value this node was built from (innermost)
	inl  string    // name of the helper whose result this node is (when it was inlined)
}

func (e *sx) String() string {
	if e == nil {
		return "?"
	}
	switch e.op {
	case "const", "leaf":
		return e.s
	case "len", "cap":
		return e.op + "(" + e.args[0].String() + ")"
	case "phi":
		var as []string
		for _, a := range e.args {
			as = append(as, a.String())
		}
		return "phi(" + strings.Join(as, "|") + ")"
	case "iv":
		return "iv(" + e.args[0].String() + "..)"
	case "idx":
		return e.args[0].String() + "[" + e.args[1].String() + "]"
	case "fld":
		return e.args[0].String() + "." + e.s
	case "call":
		var as []string
		for _, a := range e.args {
			as = append(as, a.String())
		}
		return e.s + "(" + strings.Join(as, ",") + ")"
	}
	if len(e.args) == 2 {
		return "(" + e.args[0].String() + e.op + e.args[1].String() + ")"
	}
	if len(e.args) == 1 {
		return e.op + e.args[0].String()
	}
	return e.op
}

func (e *sx) isConst(n int64) bool {
	if e == nil || e.op != "const" {
		return false
	}
	return e.v != nil && isConstInt(e.v, n)
}

// isField: is e the load of field path `fields` of the root function's parameter #idx (0 = receiver)?
func (e *sx) isField(fn *ssa.Function, idx int, fields ...string) bool {
	if e == nil || e.op != "leaf" || idx >= len(fn.Params) {
		return false
	}
	want := "param:" + pname(fn.Params[idx])
	if len(fields) > 0 {
		want += "." + strings.Join(fields, ".")
	}
	return e.s == want
}

// fieldSuffix: e is a leaf whose provenance path ends with the given field (whatever the root).
func (e *sx) fieldSuffix(field string) bool {
	return e != nil && e.op == "leaf" && strings.HasSuffix(e.s, "."+field)
}

func symOf(v ssa.Value, env provEnv) *sx {
	if env.depth > 20 || v == nil {
		return &sx{op: "leaf", s: "?", v: v}
	}
	env.depth++
	switch x := v.(type) {
	case *ssa.Const:
		return &sx{op: "const", s: x.String(), v: x}
	case *ssa.BinOp:
		return &sx{op: x.Op.String(), args: []*sx{symOf(x.X, env), symOf(x.Y, env)}, v: x}
	case *ssa.UnOp:
		if x.Op == token.MUL {
			p := valueProv(x, env)
			if ia, ok := p.root.(*ssa.IndexAddr); ok && p.root != ssa.Value(x) || (ok && x.X == ssa.Value(ia)) {
				// an element of an array / slice variable (parent.children[i], and fields selected from it): base and index
				// are expressed in the root frame like everything else
				e2 := env
				e2.chain = p.chain
				base := addrOrValue(ia.X, e2)
				n := &sx{op: "idx", args: []*sx{{op: "leaf", s: base.String(), v: ia.X}, symOf(ia.Index, e2)}, v: x}
				if len(p.fields) > 0 {
					n = &sx{op: "fld", s: strings.Join(p.fields, "."), args: []*sx{n}, v: x}
				}
				return n
			}
			if p.root != nil && p.root != ssa.Value(x) {
				if len(p.fields) == 0 {
					// the variable holds a computed value: continue into it
					if _, isParam := p.root.(*ssa.Parameter); !isParam {
						if _, isAlloc := p.root.(*ssa.Alloc); !isAlloc {
							if inner := symOfResolved(p.root, p.chain, env); inner != nil {
								return inner
							}
						}
					}
				}
				return &sx{op: "leaf", s: p.String(), v: x}
			}
			return &sx{op: "leaf", s: path(x), v: x}
		}
		return &sx{op: x.Op.String(), args: []*sx{symOf(x.X, env)}, v: x}
	case *ssa.Parameter, *ssa.FreeVar, *ssa.Field:
		p := valueProv(x, env)
		if p.root != ssa.Value(x) {
			if _, isParam := p.root.(*ssa.Parameter); !isParam && len(p.fields) == 0 {
				if inner := symOfResolved(p.root, p.chain, env); inner != nil {
					return inner
				}
			}
		}
		return &sx{op: "leaf", s: p.String(), v: x}
	case *ssa.ChangeType:
		return symOf(x.X, env)
	case *ssa.Convert:
		return symOf(x.X, env)
	case *ssa.Phi:
		// a counting loop variable: starts at a value and only ever moves on by a positive constant (i := s; ...; i++)
		{
			var start ssa.Value
			counting := len(x.Edges) >= 2
			for _, ed := range x.Edges {
				if add, ok := ed.(*ssa.BinOp); ok && add.Op == token.ADD && add.X == ssa.Value(x) {
					if k, isK := add.Y.(*ssa.Const); isK && k.Value != nil && k.Int64() > 0 {
						continue
					}
				}
				if start != nil {
					counting = false
				}
				start = ed
			}
			if counting && start != nil {
				if _, nested := start.(*ssa.Phi); !nested {
					return &sx{op: "iv", args: []*sx{symOf(start, env)}, v: x}
				}
			}
		}
		e := &sx{op: "phi", v: x}
		for _, ed := range x.Edges {
			if ed == ssa.Value(x) {
				continue
			}
			if _, isPhi := ed.(*ssa.Phi); isPhi {
				return &sx{op: "leaf", s: path(x), v: x}
			}
			e.args = append(e.args, symOf(ed, env))
		}
		return e
	case *ssa.Extract:
		if call, ok := x.Tuple.(*ssa.Call); ok {
			if e := inlineCall(call, x.Index, env); e != nil {
				return e
			}
		}
		return &sx{op: "leaf", s: path(x), v: x}
	case *ssa.Call:
		if b, ok := x.Call.Value.(*ssa.Builtin); ok && (b.Name() == "len" || b.Name() == "cap") && len(x.Call.Args) == 1 {
			return &sx{op: b.Name(), args: []*sx{symOf(x.Call.Args[0], env)}, v: x}
		}
		if e := inlineCall(x, 0, env); e != nil {
			return e
		}
		name := calleeName(&x.Call)
		if cal := staticCallee(&x.Call); cal != nil {
			name = fname(cal)
		}
		e := &sx{op: "call", s: name, v: x}
		for _, a := range x.Call.Args {
			e.args = append(e.args, symOf(a, env))
		}
		return e
	}
	return &sx{op: "leaf", s: path(v), v: v}
}

// symOfResolved: v was produced by provenance resolution and lives in the frame described by chain.
func symOfResolved(v ssa.Value, chain []*ssa.Call, env provEnv) *sx {
	e2 := env
	e2.chain = chain
	switch v.(type) {
	case *ssa.BinOp, *ssa.Call, *ssa.Const, *ssa.Extract:
		return symOf(v, e2)
	}
	return nil
}

func parentOf(v ssa.Value) *ssa.Function {
	if in, ok := v.(ssa.Instruction); ok {
		return in.Parent()
	}
	switch x := v.(type) {
	case *ssa.Parameter:
		return x.Parent()
	case *ssa.FreeVar:
		return x.Parent()
	}
	return nil
}

// inlineCall: a call of an in-package helper with exactly one Return → the symbolic value of that result with the helper's
// parameters bound to the call's arguments. Helpers with several returns (or recursion) are left as opaque call nodes.
func inlineCall(call *ssa.Call, result int, env provEnv) *sx {
	cal := staticCallee(&call.Call)
	if cal == nil || cal.Blocks == nil || len(env.chain) > 4 {
		return nil
	}
	if call.Parent() != nil && rootFn(cal).Pkg != rootFn(call.Parent()).Pkg {
		if rootFn(cal).Pkg != nil && rootFn(call.Parent()).Pkg != nil {
			return nil
		}
	}
	for _, cc := range env.chain {
		if staticCallee(&cc.Call) == cal {
			return nil // recursion
		}
	}
	var rets []*ssa.Return
	instrs(cal, func(b *ssa.BasicBlock, i int, in ssa.Instruction) {
		if r, ok := in.(*ssa.Return); ok {
			rets = append(rets, r)
		}
	})
	if len(rets) == 0 || len(rets) > 4 || result >= len(rets[0].Results) {
		return nil
	}
	e2 := env
	e2.chain = append(append([]*ssa.Call{}, env.chain...), call)
	if len(rets) == 1 {
		e := symOf(returnedValue(rets[0], result), e2)
		cp := *e
		cp.inl = fname(cal)
		return &cp
	}
	e := &sx{op: "phi", v: call, inl: fname(cal)}
	for _, r := range rets {
		e.args = append(e.args, symOf(returnedValue(r, result), e2))
	}
	return e
}

// modLen: is e reduced modulo len(<something>.field)?  Accepts x % len(r.f) and positiveMod(x, len(r.f)) (any helper whose
// second argument is that length and whose name says Mod).
func (e *sx) modLen(field string) (*sx, bool) { return e.modLenSign(field, true) }

// nonNegShape: e cannot be negative by its shape alone: a non-negative constant, len/cap, a ring position (a leaf other than
// the `back` end, which is -1 for an empty deque), sums of those, back + k for k >= 1, and (x - 1) + len(...) for such an x.
func (e *sx) nonNegShape() bool {
	if e == nil {
		return false
	}
	switch e.op {
	case "const":
		if k, ok := e.v.(*ssa.Const); ok && k.Value != nil {
			return k.Int64() >= 0
		}
		return false
	case "len", "cap":
		return true
	case "leaf":
		return !e.fieldSuffix("back") && e.s != "?"
	case "+":
		if len(e.args) != 2 {
			return false
		}
		a, b := e.args[0], e.args[1]
		if a.nonNegShape() && b.nonNegShape() {
			return true
		}
		for _, pr := range [][2]*sx{{a, b}, {b, a}} {
			// back + k, k >= 1
			if pr[0].fieldSuffix("back") && pr[1].op == "const" {
				if k, ok := pr[1].v.(*ssa.Const); ok && k.Value != nil && k.Int64() >= 1 {
					return true
				}
			}
			// (x - 1) + len(a)
			if pr[0].op == "-" && len(pr[0].args) == 2 && pr[0].args[0].nonNegShape() && pr[0].args[1].isConst(1) && pr[1].op == "len" {
				return true
			}
		}
	case "*":
		return len(e.args) == 2 && e.args[0].nonNegShape() && e.args[1].nonNegShape()
	case "phi":
		for _, a := range e.args {
			if !a.nonNegShape() {
				return false
			}
		}
		return len(e.args) > 0
	case "iv":
		return len(e.args) == 1 && e.args[0].nonNegShape()
	}
	return false
}

// modLenSign: Go's % takes the sign of the dividend, so a plain `x % len(a)` is a reduction into [0, len) only for a dividend
// that cannot be negative; the positive-modulo idiom (and a helper implementing it) repairs the sign itself.
func (e *sx) modLenSign(field string, needNonNeg bool) (*sx, bool) {
	if e == nil {
		return nil, false
	}
	if e.op == "%" && len(e.args) == 2 && e.args[1].op == "len" && e.args[1].args[0].fieldSuffix(field) {
		if needNonNeg && !e.args[0].nonNegShape() {
			return nil, false
		}
		return e.args[0], true
	}
	if e.op == "phi" && len(e.args) > 0 {
		// the positive-modulo idiom: r := x % n; if r < 0 { r += n }
		var inner *sx
		for _, a := range e.args {
			cand := a
			if a.op == "+" && len(a.args) == 2 && a.args[1].op == "len" && a.args[1].args[0].fieldSuffix(field) {
				cand = a.args[0]
			}
			x, ok := cand.modLenSign(field, false)
			if !ok || (inner != nil && inner.String() != x.String()) {
				return nil, false
			}
			inner = x
		}
		return inner, true
	}
	if e.op == "call" && strings.Contains(strings.ToLower(e.s), "mod") && len(e.args) == 2 && e.args[1].op == "len" && e.args[1].args[0].fieldSuffix(field) {
		return e.args[0], true
	}
	return nil, false
}
