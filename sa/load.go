package main

import (
	"fmt"
	"go/ast"
	"go/token"
	"go/types"
	"os"
	"sort"
	"strings"

	"golang.org/x/tools/go/packages"
	"golang.org/x/tools/go/ssa"
	"golang.org/x/tools/go/ssa/ssautil"
)

const modPath = "github.com/bradenaw/juniper"

// Ctx is the loaded, type-checked and SSA-lowered repository.
type Ctx struct {
	RepoDir    string
	Fset       *token.FileSet
	Pkgs       map[string]*packages.Package // by path relative to the module ("stream", "container/tree")
	SSA        map[string]*ssa.Package
	Prog       *ssa.Program
	PkgCount   int
	Funcs      []*ssa.Function          // every function body of the non-internal, non-test packages, incl. closures
	byName     map[string]*ssa.Function // "stream.BatchFunc", "stream.batchStream.Next", "stream.BatchFunc$1"
	decls      map[string]*ast.FuncDecl // same keys (no closures)
	movedFuncs []string                 // pinned key <- current key, for helpers that changed receiver
	Errs       []string
}

func loadRepo(dir string, overlay map[string][]byte) (*Ctx, error) {
	env := []string{}
	for _, e := range os.Environ() {
		if strings.HasPrefix(e, "GOWORK=") || strings.HasPrefix(e, "GOFLAGS=") || strings.HasPrefix(e, "GOPROXY=") ||
			strings.HasPrefix(e, "GOSUMDB=") || strings.HasPrefix(e, "GOTOOLCHAIN=") || strings.HasPrefix(e, "GOOS=") || strings.HasPrefix(e, "GOARCH=") {
			continue
		}
		env = append(env, e)
	}
	env = append(env, "GOFLAGS=-mod=mod", "GOPROXY=off", "GOSUMDB=off", "GOTOOLCHAIN=local", "GOWORK=off")
	if v := os.Getenv("VERIF_GOOS"); v != "" {
		env = append(env, "GOOS="+v)
	}
	if v := os.Getenv("VERIF_GOARCH"); v != "" {
		env = append(env, "GOARCH="+v)
	}
	cfg := &packages.Config{
		Mode:    packages.LoadAllSyntax,
		Dir:     dir,
		Env:     env,
		Tests:   false,
		Overlay: overlay,
	}
	pkgs, err := packages.Load(cfg, "./...")
	if err != nil {
		return nil, err
	}
	c := &Ctx{RepoDir: dir, Pkgs: map[string]*packages.Package{}, SSA: map[string]*ssa.Package{}, byName: map[string]*ssa.Function{}, decls: map[string]*ast.FuncDecl{}}
	var errs []string
	packages.Visit(pkgs, nil, func(p *packages.Package) {
		for _, e := range p.Errors {
			errs = append(errs, e.Error())
		}
	})
	sort.Strings(errs)
	c.Errs = errs
	if len(errs) > 0 {
		return c, fmt.Errorf("type-check/load errors: %s", strings.Join(errs, "; "))
	}
	if len(pkgs) == 0 {
		return c, fmt.Errorf("no packages loaded from %s", dir)
	}
	c.Fset = pkgs[0].Fset
	prog, spkgs := ssautil.AllPackages(pkgs, ssa.GlobalDebug)
	prog.Build()
	c.Prog = prog
	for i, p := range pkgs {
		if !strings.HasPrefix(p.PkgPath, modPath) {
			continue
		}
		rel := strings.TrimPrefix(strings.TrimPrefix(p.PkgPath, modPath), "/")
		if rel == "" {
			rel = "."
		}
		c.Pkgs[rel] = p
		c.SSA[rel] = spkgs[i]
		c.PkgCount++
	}
	curLayout = nil
	curLayout = computeLayoutAliases(c)
	computeFuncAliases(c, curLayout)
	curCtx = c
	paramCellMemo = map[*ssa.Parameter]*ssa.Alloc{}
	fnKeyMemo = map[*ssa.Function]string{}
	chanFieldAliasMemo = map[string]string{}
	dualSwapMemo = map[string][3]int{}
	embeddedMemo = map[string]bool{}
	stateEnumMemo = map[*ssa.Function]*stateEnum{}
	thinGetterMemo = map[*ssa.Function]int{}
	thinForwardMemo = map[*ssa.Function]*ssa.Function{}
	permMemo = map[*ssa.Function][]string{}
	acquiredMemo = map[*ssa.Function]lockset{}
	// Enumerate functions: package members, methods of every named type (AllFunctions misses methods of
	// generic types that nothing references), closures recursively.
	var rels []string
	for rel := range c.Pkgs {
		rels = append(rels, rel)
	}
	sort.Strings(rels)
	for _, rel := range rels {
		sp := c.SSA[rel]
		if sp == nil {
			continue
		}
		var names []string
		for n := range sp.Members {
			names = append(names, n)
		}
		sort.Strings(names)
		for _, n := range names {
			switch m := sp.Members[n].(type) {
			case *ssa.Function:
				if m.Synthetic != "" && n != "init" {
					continue
				}
				if n == "init" {
					continue
				}
				c.addFunc(rel, canonFuncName(rel, "", n), m)
			case *ssa.Type:
				nt, ok := m.Type().(*types.Named)
				if !ok {
					continue
				}
				for i := 0; i < nt.NumMethods(); i++ {
					meth := nt.Method(i)
					fn := prog.FuncValue(meth)
					if fn == nil {
						continue
					}
					c.addFunc(rel, canonTypeName(rel, n)+"."+canonFuncName(rel, canonTypeName(rel, n), meth.Name()), fn)
				}
			}
		}
		for _, f := range c.Pkgs[rel].Syntax {
			for _, d := range f.Decls {
				fd, ok := d.(*ast.FuncDecl)
				if !ok {
					continue
				}
				key := rel + "." + canonFuncName(rel, "", fd.Name.Name)
				if fd.Recv != nil && len(fd.Recv.List) == 1 {
					rt := canonTypeName(rel, recvTypeName(fd.Recv.List[0].Type))
					key = rel + "." + rt + "." + canonFuncName(rel, rt, fd.Name.Name)
				}
				c.decls[key] = fd
			}
		}
	}
	c.bindFinalFuncGlobals()
	c.aliasMovedFuncs()
	curCtx = c
	c.aliasOutlinedBodies()
	paramCellMemo = map[*ssa.Parameter]*ssa.Alloc{}
	fnKeyMemo = map[*ssa.Function]string{}
	chanFieldAliasMemo = map[string]string{}
	dualSwapMemo = map[string][3]int{}
	embeddedMemo = map[string]bool{}
	stateEnumMemo = map[*ssa.Function]*stateEnum{}
	thinGetterMemo = map[*ssa.Function]int{}
	thinForwardMemo = map[*ssa.Function]*ssa.Function{}
	permMemo = map[*ssa.Function][]string{}
	acquiredMemo = map[*ssa.Function]lockset{}
	return c, nil
}

// aliasMovedFuncs: an unexported helper the rules know as a method of one type (btree.rotateLeft) may be turned into a free
// function or a method of another type of the package when it does not use its receiver (node.siblings): if the pinned key
// is gone and exactly one function of that name exists in the package elsewhere, the pinned key names it (and its closures).
func (c *Ctx) aliasMovedFuncs() {
	for rel, fs := range pinnedFuncs {
		for _, pf := range fs {
			key := rel + "." + pf.Name
			if pf.Recv != "" {
				key = rel + "." + pf.Recv + "." + pf.Name
			}
			if _, ok := c.byName[key]; ok {
				continue
			}
			var cands []string
			for k := range c.byName {
				if !strings.HasPrefix(k, rel+".") || strings.Contains(k, "$") {
					continue
				}
				rest := k[len(rel)+1:]
				if strings.Contains(rest, "/") {
					continue
				}
				if rest == pf.Name || strings.HasSuffix(rest, "."+pf.Name) {
					cands = append(cands, k)
				}
			}
			if len(cands) == 0 {
				// inlined into the only function that called it (mergeTwo into merge): the caller now holds its body, the
				// rules about the helper read it there
				if into, ok := pinnedSoleCaller[key]; ok {
					if _, there := c.byName[into]; there {
						cands = []string{into}
					}
				}
			}
			if len(cands) != 1 {
				continue
			}
			src := cands[0]
			for k, f := range c.byName {
				if k == src || strings.HasPrefix(k, src+"$") {
					c.byName[key+k[len(src):]] = f
				}
			}
			if d, ok := c.decls[src]; ok {
				c.decls[key] = d
			}
			c.movedFuncs = append(c.movedFuncs, key+" <- "+src)
		}
	}
}

// pinnedSoleCaller: unexported helpers of the pinned tree that are called from one function only (confirmed by reading); when
// such a helper has disappeared its body is looked for in that caller.
var pinnedSoleCaller = map[string]string{
	"container/tree.btree.mergeTwo":        "container/tree.btree.merge",
	"container/tree.btree.insertIntoLeaf":  "container/tree.btree.Put",
	"container/tree.btree.removeRightmost": "container/tree.btree.Delete",
	"container/tree.btree.overfill":        "container/tree.btree.Put",
	"container/tree.btree.rotateLeft":      "container/tree.btree.steal",
	"container/tree.btree.rotateRight":     "container/tree.btree.steal",
}

func recvTypeName(e ast.Expr) string {
	switch t := e.(type) {
	case *ast.StarExpr:
		return recvTypeName(t.X)
	case *ast.IndexExpr:
		return recvTypeName(t.X)
	case *ast.IndexListExpr:
		return recvTypeName(t.X)
	case *ast.Ident:
		return t.Name
	}
	return "?"
}

func (c *Ctx) addFunc(rel, name string, fn *ssa.Function) {
	if fn.Blocks == nil {
		return
	}
	key := rel + "." + name
	if _, dup := c.byName[key]; dup {
		return
	}
	c.byName[key] = fn
	if !strings.HasPrefix(rel, "internal/") || rel == "internal/heap" {
		c.Funcs = append(c.Funcs, fn)
	}
	var walk func(parent *ssa.Function, pkey string)
	walk = func(parent *ssa.Function, pkey string) {
		for i, a := range parent.AnonFuncs {
			k := fmt.Sprintf("%s$%d", pkey, i+1)
			c.byName[k] = a
			if !strings.HasPrefix(rel, "internal/") || rel == "internal/heap" {
				c.Funcs = append(c.Funcs, a)
			}
			walk(a, k)
		}
	}
	walk(fn, key)
}

// fn returns the named function or nil. Name: "pkg.Func", "pkg.Type.Method", "pkg.Func$1".
func (c *Ctx) fn(name string) *ssa.Function { return c.byName[name] }

// nameOf is the inverse of fn, for reports.
func (c *Ctx) nameOf(f *ssa.Function) string {
	// a function can have several keys (its own and the pinned one it stands for): the pinned one, else the smallest
	best := ""
	for k, v := range c.byName {
		if v != f {
			continue
		}
		_, kp := pinnedParams[k]
		_, bp := pinnedParams[best]
		if best == "" || (kp && !bp) || (kp == bp && k < best) {
			best = k
		}
	}
	if best != "" {
		return best
	}
	if f.Origin() != nil && f.Origin() != f {
		return c.nameOf(f.Origin())
	}
	return f.String()
}

// funcsIn returns the functions (incl. closures) of one package, sorted by name.
func (c *Ctx) funcsIn(rel string) []*ssa.Function {
	var keys []string
	for k := range c.byName {
		if strings.HasPrefix(k, rel+".") && !strings.Contains(k[len(rel)+1:], "/") {
			// make sure the package matches exactly: key = rel + "." + rest where rest has no further package part
			keys = append(keys, k)
		}
	}
	sort.Strings(keys)
	var out []*ssa.Function
	for _, k := range keys {
		f := c.byName[k]
		if f.Pkg != nil && f.Pkg == c.SSA[rel] || (f.Pkg == nil && f.Parent() != nil) {
			out = append(out, f)
		} else if f.Pkg == c.SSA[rel] {
			out = append(out, f)
		}
	}
	return out
}

// methodsOf returns "Type.Method" → function for a named type of a package (declared methods only).
func (c *Ctx) methodsOf(rel, typ string) map[string]*ssa.Function {
	out := map[string]*ssa.Function{}
	prefix := rel + "." + typ + "."
	for k, f := range c.byName {
		if strings.HasPrefix(k, prefix) && !strings.Contains(k[len(prefix):], "$") {
			out[k[len(prefix):]] = f
		}
	}
	return out
}

// origin maps an instantiated callee inside a generic body to its generic origin.
func origin(f *ssa.Function) *ssa.Function {
	if f == nil {
		return nil
	}
	if o := f.Origin(); o != nil {
		return o
	}
	return f
}

func (c *Ctx) decl(name string) *ast.FuncDecl { return c.decls[name] }

func (c *Ctx) info(rel string) *types.Info {
	if p := c.Pkgs[rel]; p != nil {
		return p.TypesInfo
	}
	return nil
}

func (c *Ctx) pos(p token.Pos) string {
	pp := c.Fset.Position(p)
	return fmt.Sprintf("%s:%d", relPath(c.RepoDir, pp.Filename), pp.Line)
}

// forwardedParam: parameters of an outlined body (see aliasOutlinedBodies) → the value the forwarder passes; path() prints the
// latter, so `senderErr` inside pipeRecv reads as s.senderErr.
var forwardedParam = map[*ssa.Parameter]ssa.Value{}

// aliasOutlinedBodies: a function the rules know by name whose body has been moved, whole, into an unexported helper of the
// package that takes the state as parameters (func (s *pipeStream[T]) Next(ctx) (T, error) { return pipeRecv(ctx, s.c,
// s.senderDone, s.senderErr) }): when the named function does nothing but load fields of its parameters, call that helper
// and return its results, and nobody else calls the helper, the name denotes the helper (its literals included) and the
// helper's parameters denote what the forwarder passes.
func (c *Ctx) aliasOutlinedBodies() {
	forwardedParam = map[*ssa.Parameter]ssa.Value{}
	aliasedHelpers := map[*ssa.Function]bool{}
	var keys []string
	for k := range c.byName {
		if !strings.Contains(k, "$") {
			keys = append(keys, k)
		}
	}
	sort.Strings(keys)
	for _, k := range keys {
		f := c.byName[k]
		if f == nil || f.Parent() != nil || len(f.Blocks) != 1 || len(f.AnonFuncs) > 0 {
			continue
		}
		var call *ssa.Call
		thin := true
		for _, in := range f.Blocks[0].Instrs {
			switch x := in.(type) {
			case *ssa.FieldAddr, *ssa.DebugRef, *ssa.Extract, *ssa.Return, *ssa.MakeInterface, *ssa.ChangeInterface, *ssa.ChangeType:
			case *ssa.UnOp:
				if x.Op != token.MUL {
					thin = false
				}
			case *ssa.Call:
				if call != nil {
					thin = false
				}
				call = x
			default:
				thin = false
			}
		}
		if !thin || call == nil {
			continue
		}
		h := origin(call.Call.StaticCallee())
		if h == nil || h.Blocks == nil || h.Parent() != nil || token.IsExported(h.Name()) || rootFn(h).Pkg != rootFn(f).Pkg || (len(h.Blocks) < 2 && len(h.AnonFuncs) == 0) || h == f {
			continue
		}
		if len(call.Call.Args) != len(h.Params) {
			continue
		}
		if len(callCommonsOf(c, h)) != 1 {
			// other callers are tolerated when the forwarder only passes its own parameters on, in order (func BatchFunc(s,
			// maxWait, full) Stream[T] { return startBatching(s, maxWait, full) }, with Batch calling startBatching too): the
			// helper's parameters are then the forwarder's under other names, whoever else calls it
			pass := len(call.Call.Args) == len(f.Params) && !aliasedHelpers[h]
			// (only for a helper that is new: one the pinned tree already had under this name - Group.spawn behind Do - is a
			// function in its own right, not an outlined body)
			for k2, f2 := range c.byName {
				if f2 == h {
					if _, pinned := pinnedParams[k2]; pinned {
						pass = false
					}
				}
			}
			for i, a := range call.Call.Args {
				if pass && (i >= len(f.Params) || a != ssa.Value(f.Params[i])) {
					pass = false
				}
			}
			if !pass {
				continue
			}
		}
		// the results are the helper's, unchanged
		okRet := false
		if ret, isRet := f.Blocks[0].Instrs[len(f.Blocks[0].Instrs)-1].(*ssa.Return); isRet {
			okRet = true
			for i, rv := range ret.Results {
				for {
					// the helper's concrete result handed back as the interface the name promises
					if mi, isMI := rv.(*ssa.MakeInterface); isMI {
						rv = mi.X
						continue
					}
					if ci, isCI := rv.(*ssa.ChangeInterface); isCI {
						rv = ci.X
						continue
					}
					if ct, isCT := rv.(*ssa.ChangeType); isCT {
						rv = ct.X
						continue
					}
					break
				}
				switch y := rv.(type) {
				case *ssa.Call:
					okRet = okRet && y == call && len(ret.Results) == 1
				case *ssa.Extract:
					okRet = okRet && y.Tuple == ssa.Value(call) && y.Index == i
				default:
					okRet = false
				}
			}
			if len(ret.Results) != h.Signature.Results().Len() {
				okRet = false
			}
		}
		if !okRet {
			continue
		}
		for i, p := range h.Params {
			forwardedParam[p] = call.Call.Args[i]
		}
		aliasedHelpers[h] = true
		c.byName[k] = h
		var walk func(parent *ssa.Function, pkey string)
		walk = func(parent *ssa.Function, pkey string) {
			for i, a := range parent.AnonFuncs {
				kk := fmt.Sprintf("%s$%d", pkey, i+1)
				c.byName[kk] = a
				walk(a, kk)
			}
		}
		walk(h, k)
		c.movedFuncs = append(c.movedFuncs, k+" <- body outlined into "+h.Name())
	}
}

// bindFinalFuncGlobals: an unexported package-level variable of function type that is given a function once, in its
// declaration, and is never assigned again or has its address taken (var newTimer = time.NewTimer) is another name for that
// function: calls through it are calls of the function. The call instructions are re-pointed, so that every rule sees the
// callee (the load of the variable stays where it is, unused).
func (c *Ctx) bindFinalFuncGlobals() {
	for _, sp := range c.SSA {
		if sp == nil {
			continue
		}
		var fns []*ssa.Function
		if init := sp.Func("init"); init != nil {
			fns = append(fns, init)
		}
		for _, f := range c.Funcs {
			if rootFn(f).Pkg == sp {
				fns = append(fns, f)
			}
		}
		type use struct {
			stores []*ssa.Store
			loads  []*ssa.UnOp
			other  bool
		}
		uses := map[*ssa.Global]*use{}
		for _, m := range sp.Members {
			g, ok := m.(*ssa.Global)
			if !ok || token.IsExported(g.Name()) {
				continue
			}
			if _, isSig := g.Type().(*types.Pointer).Elem().Underlying().(*types.Signature); isSig {
				uses[g] = &use{}
			}
		}
		if len(uses) == 0 {
			continue
		}
		for _, f := range fns {
			for _, b := range f.Blocks {
				for _, in := range b.Instrs {
					var ops [12]*ssa.Value
					for _, op := range in.Operands(ops[:0]) {
						g, ok := (*op).(*ssa.Global)
						if !ok || uses[g] == nil {
							continue
						}
						switch x := in.(type) {
						case *ssa.Store:
							if x.Addr == ssa.Value(g) && x.Val != ssa.Value(g) {
								uses[g].stores = append(uses[g].stores, x)
							} else {
								uses[g].other = true
							}
						case *ssa.UnOp:
							if x.Op == token.MUL {
								uses[g].loads = append(uses[g].loads, x)
							} else {
								uses[g].other = true
							}
						case *ssa.DebugRef:
						default:
							uses[g].other = true
						}
					}
				}
			}
		}
		for g, u := range uses {
			if u.other || len(u.stores) != 1 || u.stores[0].Parent().Name() != "init" {
				continue
			}
			target, ok := u.stores[0].Val.(*ssa.Function)
			if !ok {
				continue
			}
			for _, ld := range u.loads {
				for _, ref := range refsOf(ld) {
					if cc := callCommon(ref); cc != nil && cc.Value == ssa.Value(ld) {
						cc.Value = target
					}
				}
			}
			c.movedFuncs = append(c.movedFuncs, sp.Pkg.Name()+"."+g.Name()+" <- another name for "+target.String())
		}
	}
}
