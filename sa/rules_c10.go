package main

import (
	"go/constant"
	"go/token"
	"go/types"
	"sort"
	"strings"

	"golang.org/x/tools/go/ssa"
)

func init() {
	register(&Property{
		ID:    "C10",
		Title: "stream.Pipe: FIFO per sender, nothing sent-before-close lost, no stuck call",
		Rules: []*Rule{
			{ID: "C10.drain-before-terminal", Floor: 1, Clause: "a blocking select of a Next method with a receive arm on a possibly buffered data channel and an arm on a terminal (chan struct{}) channel drains the data channel non-blockingly, first thing in the terminal arm, and returns the drained item",
				Run: ruleDrainBeforeTerminal},
			{ID: "C10.ctx-arm", Floor: 12, Clause: "every potentially blocking channel operation in a function with a context.Context parameter is a select with a Done() arm of that parameter (repo-wide)",
				Run: ruleCtxArm},
			{ID: "C10.termination-arms", Floor: 3, Clause: "in methods of a struct, a blocking select that sends or receives on one of the struct's data channels also has a receive arm on every chan struct{} termination field of that struct it can receive from; TrySend's selects all have default",
				Run: ruleTerminationArms},
			{ID: "C10.trysend-order", Floor: 1, Clause: "TrySend attempts its send only on the default path of a non-blocking select over ctx.Done, streamDone and senderDone (no value can be queued behind an end the receiver may already have seen)",
				Run: ruleTrySendOrder},
			{ID: "C10.publish-before-signal", Floor: 5, Clause: "PipeSender.Close stores *senderErr before close(senderDone); every read of *senderErr happens in a senderDone arm; what is read is what is returned",
				Run: rulePipePublish},
			{ID: "C10.who-may-close", Floor: 4, Clause: "in package stream every close() is of a channel by its single designated closer: senderDone only in PipeSender.Close, streamDone only in pipeStream.Close, the Pipe data channel never; the only value source of pipeStream.Next's nil-error return is a receive from the data channel",
				Run: rulePipeWhoMayClose},
		},
		NotCovered: []string{"linearizability of arbitrary Send/Close/Next interleavings beyond these clauses", "fairness between senders", "that TrySend never blocks beyond its default arms"},
		Trusted:    []string{"Go select chooses only among ready arms; a closed channel is always ready to receive"},
	})
}

// may the channel stored in field `field` of type typ be buffered?
func mayBeBuffered(c *Ctx, rel, typ, field string) (bool, bool) {
	mcs := makeChansForField(c, rel, typ, field)
	if len(mcs) == 0 {
		return true, false // unknown creation site: assume it may be
	}
	for _, mc := range mcs {
		if !isConstInt(mc.Size, 0) {
			return true, true
		}
	}
	return false, true
}

func ruleDrainBeforeTerminal(c *Ctx, r *R) {
	for _, rel := range []string{"stream", "parallel"} {
		var names []string
		for n := range c.byName {
			if strings.HasPrefix(n, rel+".") && strings.HasSuffix(n, ".Next") {
				names = append(names, n)
			}
		}
		sort.Strings(names)
		for _, n := range names {
			fn := c.byName[n]
			typ := strings.Split(n[len(rel)+1:], ".")[0]
			for _, op := range chanOpsOf(fn) {
				if op.kind != "select" || !op.blocking {
					continue
				}
				sel := op.in.(*ssa.Select)
				var dataArms, termArms []chanArm
				for _, a := range op.arms {
					if a.send || a.kind != "data" {
						continue
					}
					if chanElemIsEmptyStruct(a.ch.Type()) {
						termArms = append(termArms, a)
					} else {
						dataArms = append(dataArms, a)
					}
				}
				if len(dataArms) == 0 || len(termArms) == 0 {
					continue
				}
				for _, d := range dataArms {
					df := fieldOfChan(d.ch)
					buffered, known := mayBeBuffered(c, rel, typ, df)
					for _, t := range termArms {
						key := n + "|data=" + df + "|terminal=" + fieldOfChan(t.ch)
						if !buffered && known {
							r.discharged(key, sel.Pos(), "data channel is always created unbuffered: nothing can be overtaken")
							continue
						}
						// the terminal arm's first block must hold a non-blocking select receiving from the same field
						okDrain := false
						detail := "the terminal arm does not start with a non-blocking receive from " + df
						tbody := t.body
						if cal, _ := tailCallee(tbody); cal != nil {
							tbody = cal.Blocks[0] // the arm's logic lives in a helper that the arm tail-calls
						}
						if tbody != nil {
							for _, in := range tbody.Instrs {
								if _, isRet := in.(*ssa.Return); isRet {
									break
								}
								// the non-blocking receive lives in a helper: `if x, ok := tryRecv(s.c); ok { return x, nil }`
								if call, ok := in.(*ssa.Call); ok {
									if cal := staticCallee(&call.Call); cal != nil && c.inModule(cal) {
										if ci, ok := tryRecvHelper(cal); ok && ci < len(call.Call.Args) && fieldOfChan(call.Call.Args[ci]) == df {
											var xv, okv ssa.Value
											for _, ref := range refsOf(call) {
												if ex, ok := ref.(*ssa.Extract); ok {
													if ex.Index == 0 {
														xv = ex
													} else if ex.Index == 1 {
														okv = ex
													}
												}
											}
											if iff, ok := tbody.Instrs[len(tbody.Instrs)-1].(*ssa.If); ok && okv != nil && iff.Cond == okv {
												body := tbody.Succs[0]
												if ret, ok := body.Instrs[len(body.Instrs)-1].(*ssa.Return); ok && len(ret.Results) == 2 && returnedValue(ret, 0) == xv && isNilConst(returnedValue(ret, 1)) {
													okDrain = true
												} else {
													detail = "the drained item is not returned with a nil error"
												}
											}
										}
									}
								}
								s2, ok := in.(*ssa.Select)
								if !ok || s2.Blocking {
									continue
								}
								for k, st := range s2.States {
									if st.Dir == types.RecvOnly && fieldOfChan(st.Chan) == df {
										// its body must return the received value with a nil error
										body := selectArmBody(s2, k)
										rv := recvValue(s2, k)
										// case item, ok := <-s.c: if ok { return item, nil }: the comma-ok form - the value is
										// handed out on the ok edge (the other edge, a closed data channel, falls through to the
										// terminal handling)
										if body != nil && len(body.Instrs) > 0 {
											if iff, isIf := body.Instrs[len(body.Instrs)-1].(*ssa.If); isIf {
												if ex, isEx := iff.Cond.(*ssa.Extract); isEx && ex.Tuple == ssa.Value(s2) && ex.Index == 1 {
													body = body.Succs[0]
												}
											}
										}
										if body != nil && rv != nil {
											if ret, ok := body.Instrs[len(body.Instrs)-1].(*ssa.Return); ok && len(ret.Results) == 2 && returnedValue(ret, 0) == rv && isNilConst(returnedValue(ret, 1)) {
												okDrain = true
											} else if drainedReachesReturn(fn, body, rv) {
												okDrain = true
											} else {
												detail = "the drained item is not returned with a nil error"
											}
										}
									}
								}
							}
						}
						r.ok(okDrain, key, sel.Pos(), detail+" (select picks uniformly among ready arms: a buffered value sent before Close can otherwise be overtaken by the end)")
					}
				}
			}
		}
	}
}

// C10.ctx-arm: repo-wide.
var ctxArmExceptions = map[string]string{
	"parallel.mapStream.Next|send:s.ready": "returns the slot token taken by the dispatcher for the item just yielded; ready has capacity bufferSize and at most bufferSize tokens exist, so the send cannot block (token pairing is decided by C14.slot-accounting)",
	"parallel.MapStream|send:ready":        "pre-fill loop: sends exactly bufferSize tokens into a channel created with capacity bufferSize (same SSA value), before any goroutine exists",
}

// blocksWithoutCtx: fn takes no context and can block for an unbounded time: a bare channel receive / send / range, a blocking
// select, or time.Sleep.
func blocksWithoutCtx(fn *ssa.Function) string {
	if fn == nil || fn.Blocks == nil || ctxParam(fn) != nil {
		return ""
	}
	why := ""
	for _, op := range chanOpsOf(fn) {
		if !op.blocking || why != "" {
			continue
		}
		// an operation that is a listed never-blocks exception (the slot-token send of MapStream) stays one in a helper
		excepted := false
		if op.kind != "select" {
			chPath := op.arms[0].chPath
			// the channel is the helper's parameter (func (t tokens) release() { t <- struct{}{} }): what the caller under
			// analysis passes
			if prm, isP := op.arms[0].ch.(*ssa.Parameter); isP {
				if b, bound := chanParamBinding[prm]; bound {
					chPath = path(b)
				}
			}
			for k := range ctxArmExceptions {
				if strings.HasSuffix(k, "|"+op.kind+":"+chPath) || (op.kind == "send" && strings.HasSuffix(chPath, ".ready") && strings.Contains(k, "send:") && strings.HasSuffix(k, ".ready")) {
					excepted = true
				}
			}
		}
		// a select one of whose arms receives from a channel parameter that is ctx.Done() at every call site
		// (readyBeforeDone(ctx.Done(), ch)) is interruptible through that argument
		if op.kind == "select" {
			for _, a := range op.arms {
				if !a.send && a.kind == "ctx-done" {
					excepted = true
				}
			}
		}
		// filling a channel the function has just made, up to its capacity, cannot block (filledTokenChan(n))
		if op.kind == "send" && isFreshPrefill(op) {
			excepted = true
		}
		if !excepted {
			why = "a blocking " + op.kind
		}
	}
	instrs(fn, func(b *ssa.BasicBlock, i int, in ssa.Instruction) {
		if call, ok := in.(*ssa.Call); ok && isCallTo(&call.Call, "time", "", "Sleep") && why == "" {
			why = "time.Sleep"
		}
	})
	return why
}

func ruleCtxArm(c *Ctx, r *R) { ruleCtxArmIn(c, r, "") }

// ruleCtxArmIn: the rule restricted to one package ("" = the whole module).
func ruleCtxArmIn(c *Ctx, r *R, onlyRel string) {
	for _, fn := range c.Funcs {
		p := ctxParam(fn)
		if p == nil || fn.Parent() != nil {
			continue
		}
		if onlyRel != "" && rootFn(fn).Pkg != c.SSA[onlyRel] {
			continue
		}
		// an unexported helper that is only ever called from function literals (the bodies of background goroutines, which
		// this rule does not look at either): its blocking operations are judged by the bg-cancellable rules
		if !token.IsExported(fn.Name()) {
			sites := callCommonsOf(c, fn)
			onlyFromLiterals := len(sites) > 0
			for _, f2 := range c.Funcs {
				instrs(f2, func(b *ssa.BasicBlock, i int, in ssa.Instruction) {
					if cc := callCommon(in); cc != nil && staticCallee(cc) != nil && origin(staticCallee(cc)) == origin(fn) && f2.Parent() == nil {
						onlyFromLiterals = false
					}
				})
			}
			if onlyFromLiterals {
				continue
			}
		}
		name := c.nameOf(fn)
		// calls that block without any way for the context to interrupt them: time.Sleep, or an in-module function that
		// takes no context and blocks on a channel (f.Wait() inside f.WaitContext)
		nc, nd := 0, 0
		// the channel parameters of the helpers fn calls stand for fn's own arguments while fn is judged (f.await(ctx.Done())
		// is interruptible here although Wait calls f.await(nil))
		unbindCh := bindChanParams(fn)
		instrs(fn, func(b *ssa.BasicBlock, i int, in ssa.Instruction) {
			call, ok := in.(*ssa.Call)
			if !ok {
				return
			}
			if isCallTo(&call.Call, "time", "", "Sleep") {
				nc++
				r.violated(name+"|time.Sleep#"+itoa(nc), call.Pos(), "time.Sleep in a function that takes a context: the sleep cannot be interrupted when the context ends (cancellation, parent cancellation)")
				return
			}
			// blocking delegated to a module helper that takes a context (chans.RecvContext(ctx, ch)): it must be given this
			// function's context (or one derived from it), not some other one
			if cal := staticCallee(&call.Call); cal != nil && c.inModule(cal) && cal.Parent() == nil && cal != fn {
				if cp := ctxParam(origin(cal)); cp != nil && len(origin(cal).Blocks) > 0 {
					blocks := false
					for _, op := range chanOpsOf(origin(cal)) {
						if op.blocking {
							blocks = true
						}
					}
					ci := -1
					for i, pp := range origin(cal).Params {
						if pp == cp {
							ci = i
						}
					}
					if blocks && ci >= 0 && ci < len(call.Call.Args) {
						nd++
						mine := true
						// (p itself is not traced further to what fn's own callers pass: the question is whether the helper waits on
						// fn's context, whatever that is)
						for _, o := range ctxOrigins(call.Call.Args[ci], map[ssa.Value]bool{ssa.Value(p): true}) {
							if o != ssa.Value(p) && !derivedFromCtx(o, p, 0) {
								mine = false
							}
						}
						r.ok(mine, name+"|ctx-delegated:"+fname(cal)+"#"+itoa(nd), call.Pos(), "the blocking helper "+funcShort(cal)+" must be given "+p.Name()+" (or a context derived from it): with any other context the wait cannot be interrupted when "+p.Name()+" ends")
					}
				}
			}
			// blocking delegated to a helper that is handed the Done() channel instead of the context
			// (readyBeforeDone(ctx.Done(), ch)): the channel must be this function's own context's
			if cal := staticCallee(&call.Call); cal != nil && c.inModule(cal) && cal.Parent() == nil && ctxParam(origin(cal)) == nil {
				if di := doneParamIndex(origin(cal)); di >= 0 && di < len(call.Call.Args) {
					nd++
					mine := false
					if dc, ok := resolveVal(call.Call.Args[di]).(*ssa.Call); ok && dc.Call.IsInvoke() && dc.Call.Method.Name() == "Done" {
						mine = true
						for _, o := range ctxOrigins(dc.Call.Value, map[ssa.Value]bool{}) {
							if o != ssa.Value(p) && !derivedFromCtx(o, p, 0) {
								mine = false
							}
						}
					}
					r.ok(mine, name+"|done-delegated:"+fname(cal)+"#"+itoa(nd), call.Pos(), "the blocking helper "+funcShort(cal)+" must be given "+p.Name()+".Done(): with any other channel the wait cannot be interrupted when "+p.Name()+" ends")
				}
			}
			if cal := staticCallee(&call.Call); cal != nil && c.inModule(cal) && cal.Parent() == nil {
				if why := blocksWithoutCtx(cal); why != "" {
					if alreadyClosedAt(c, call, origin(cal)) {
						nc++
						r.discharged(name+"|blocking-call:"+fname(cal)+"#"+itoa(nc), call.Pos(), "the callee only receives from a close-only channel that this path has already received from: it cannot block")
						return
					}
					nc++
					r.violated(name+"|blocking-call:"+fname(cal)+"#"+itoa(nc), call.Pos(), "call of "+funcShort(cal)+", which contains "+why+" and takes no context, in a function that takes a context: it cannot be interrupted when the context ends")
				}
			}
		})
		unbindCh()
		n := 0
		for _, op := range chanOpsOf(fn) {
			if !op.blocking {
				continue
			}
			n++
			desc := op.kind
			if op.kind != "select" {
				desc += ":" + op.arms[0].chPath
			} else {
				var parts []string
				for _, a := range op.arms {
					d := "recv "
					if a.send {
						d = "send "
					}
					parts = append(parts, d+a.chPath)
				}
				desc = "select[" + strings.Join(parts, ",") + "]"
			}
			key := name + "|" + desc
			if reason, ok := ctxArmExceptions[name+"|"+op.kind+":"+op.arms[0].chPath]; ok && op.kind != "select" {
				// decide what can be decided of the exception: MapStream's pre-fill bound equals the capacity
				if name == "parallel.MapStream" && !prefillBoundEqualsCap(op) {
					r.violated(key, posOf(op.in), "pre-fill loop bound is not the capacity of the channel it fills: the send can block forever")
					continue
				}
				r.excepted(key, posOf(op.in), reason)
				continue
			}
			if op.kind == "send" && isFreshPrefill(op) {
				r.discharged(key, posOf(op.in), "pre-fill of a channel made in this function, up to its capacity, before any goroutine is started: cannot block")
				continue
			}
			if op.kind != "select" {
				r.violated(key, posOf(op.in), "bare blocking "+op.kind+" in a function that takes a context: it cannot be interrupted when the context ends")
				continue
			}
			has := false
			for _, a := range op.arms {
				if a.kind == "ctx-done" && !a.send && a.ctx == ssa.Value(p) {
					has = true
				}
			}
			r.ok(has, key, posOf(op.in), "blocking select without a "+p.Name()+".Done() arm")
		}
	}
}

// ruleTrySendOrder: the (non-blocking) send of TrySend is attempted only after a non-blocking check found the pipe
// still open: otherwise a late TrySend puts a value behind the end marker and the receiver sees a value after End.
func ruleTrySendOrder(c *Ctx, r *R) {
	fn := c.fn("stream.PipeSender.TrySend")
	if fn == nil {
		r.undecided("stream.PipeSender.TrySend|missing", token.NoPos, "anchor not found")
		return
	}
	// typestate: bits 0..2 = arm of the non-blocking check select (ctx.Done / streamDone / senderDone) known NOT taken on this
	// path; the send on the data channel may be attempted only in state 7 (all three ruled out = the check's default path).
	// The check and the send may each live in a helper (finished(ctx) / offer(x)).
	isCheck := func(sel *ssa.Select) map[int]int {
		if sel.Blocking {
			return nil
		}
		which := map[int]int{}
		for i, st := range sel.States {
			if st.Dir != types.RecvOnly {
				return nil
			}
			if _, isCtx := ctxDoneOf(st.Chan); isCtx {
				which[i] = 0
				continue
			}
			switch fieldOfChan(st.Chan) {
			case "streamDone":
				which[i] = 1
			case "senderDone":
				which[i] = 2
			default:
				return nil
			}
		}
		if len(which) != 3 {
			return nil
		}
		return which
	}
	pkg := fn.Pkg
	pf := &PF{N: 8, DeepVisit: true, InScope: func(f *ssa.Function) bool { return f.Pkg == pkg && f.Blocks != nil && f != fn }}
	pf.Edge = func(f *ssa.Function, g guard, q int) (StateSet, bool) {
		cf, ok := g.asCmp()
		if !ok || cf.op != token.NEQ {
			return 0, false
		}
		ex, ok := cf.x.(*ssa.Extract)
		if !ok || ex.Index != 0 {
			return 0, false
		}
		sel, ok := ex.Tuple.(*ssa.Select)
		k, isK := cf.y.(*ssa.Const)
		if !ok || !isK || k.Value == nil {
			return 0, false
		}
		which := isCheck(sel)
		if which == nil {
			return 0, false
		}
		if bit, ok := which[int(k.Int64())]; ok {
			return ss(q | 1<<uint(bit)), true
		}
		return 0, false
	}
	good, sends := true, 0
	pf.Visit = func(f *ssa.Function, in ssa.Instruction, before StateSet) {
		sel, ok := in.(*ssa.Select)
		if !ok {
			return
		}
		for _, st := range sel.States {
			if st.Dir == types.SendOnly && fieldOfChan(st.Chan) == "c" {
				sends++
				if before != ss(7) {
					good = false
				}
			}
		}
	}
	pf.Exits(fn, ss(0))
	good = good && sends >= 1
	r.ok(good, "stream.PipeSender.TrySend|closed-check-before-send", fn.Pos(), "TrySend must first check (non-blockingly) ctx, streamDone and senderDone and attempt the send only on that select's default path: a send tried first succeeds on a closed pipe with buffer space, and the receiver gets a value after it was told about the end")
}

// isFreshPrefill: a send in a counting loop `for i := 0; i < n; i++ { ch <- x }` into a channel made in the same function with
// capacity n (the same value), with no goroutine started by the function before the loop: nobody else can hold the channel,
// and exactly cap(ch) values are sent - the send never blocks.
func isFreshPrefill(op chanOp) bool {
	snd, ok := op.in.(*ssa.Send)
	if !ok || !prefillBoundEqualsCap(op) {
		return false
	}
	fn := snd.Parent()
	mkHere := false
	if mc, ok := resolveVal(snd.Chan).(*ssa.MakeChan); ok && mc.Parent() == fn {
		mkHere = true
	}
	if !mkHere {
		return false
	}
	started := false
	instrs(fn, func(b *ssa.BasicBlock, _ int, in ssa.Instruction) {
		switch x := in.(type) {
		case *ssa.Go:
			if b == snd.Block() || reaches(b, snd.Block()) {
				started = true
			}
		case *ssa.Call:
			if cal := x.Call.StaticCallee(); cal != nil && cal.Name() == "Go" && (b == snd.Block() || reaches(b, snd.Block())) {
				started = true
			}
		}
	})
	return !started
}

func prefillBoundEqualsCap(op chanOp) bool {
	snd, ok := op.in.(*ssa.Send)
	if !ok {
		return false
	}
	return prefillLoopAround(snd, snd.Chan)
}

// prefillLoopAround: the instruction at (a send, or the call of a method of a channel type that only sends on its receiver)
// sits in a counting loop 0..cap-1 over the capacity the channel ch was made with, in at's own function.
func prefillLoopAround(at ssa.Instruction, chv ssa.Value) bool {
	type sendLike interface {
		ssa.Instruction
	}
	var snd sendLike = at
	for {
		if ct, isCT := chv.(*ssa.ChangeType); isCT {
			chv = ct.X
			continue
		}
		break
	}
	mc, ok := chv.(*ssa.MakeChan)
	if !ok {
		// the channel variable is captured by the goroutines, so it lives in a cell
		if ld, isLd := chv.(*ssa.UnOp); isLd && ld.Op == token.MUL {
			if cell, isCell := ld.X.(*ssa.Alloc); isCell {
				if sts := storesTo(cell); len(sts) == 1 {
					mc, ok = sts[0].Val.(*ssa.MakeChan)
				}
			}
		}
	}
	if !ok {
		return false
	}
	// the send sits in a loop whose condition is i < mc.Size
	for _, b := range snd.Parent().Blocks {
		if len(b.Instrs) == 0 {
			continue
		}
		iff, ok := b.Instrs[len(b.Instrs)-1].(*ssa.If)
		if !ok {
			continue
		}
		bin, ok := iff.Cond.(*ssa.BinOp)
		if ok && bin.Op == token.LSS && bin.Y == mc.Size && b.Succs[0].Dominates(snd.Block()) && reaches(snd.Block(), b) {
			// induction variable starts at 0 and steps by 1
			if phi, ok := bin.X.(*ssa.Phi); ok {
				zero, step := false, false
				for _, e := range phi.Edges {
					if isConstInt(e, 0) {
						zero = true
					}
					if add, ok := e.(*ssa.BinOp); ok && add.Op == token.ADD && add.X == ssa.Value(phi) && isConstInt(add.Y, 1) {
						step = true
					}
				}
				return zero && step
			}
		}
	}
	return false
}

// C10.termination-arms
func ruleTerminationArms(c *Ctx, r *R) {
	for _, rel := range []string{"stream"} {
		for _, typ := range []string{"PipeSender", "pipeStream"} {
			nt := c.lookupType(rel, typ)
			if nt == nil {
				r.undecided(rel+"."+typ+"|missing", token.NoPos, "type not found")
				continue
			}
			st := nt.Type().Underlying().(*types.Struct)
			meths := c.methodsOf(rel, typ)
			// the signal this half raises itself (it closes it) is not one it has to listen to; by direction when the field is
			// declared send-only, by use when it has a bidirectional / named channel type
			ownSignal := map[string]bool{}
			for _, m := range meths {
				for _, cs := range closeSites(m) {
					chv := cs.ch
					if ct, ok := chv.(*ssa.ChangeType); ok {
						chv = ct.X
					}
					if f := fieldOfChan(chv); f != "" {
						ownSignal[f] = true
					}
				}
			}
			var termFields []string
			for i := 0; i < st.NumFields(); i++ {
				f := st.Field(i)
				if ch, ok := f.Type().Underlying().(*types.Chan); ok && chanElemIsEmptyStruct(f.Type()) && ch.Dir() != types.SendOnly && !ownSignal[canonField(nt.Type(), f.Name())] {
					termFields = append(termFields, canonField(nt.Type(), f.Name()))
				}
			}
			var mn []string
			for n := range meths {
				mn = append(mn, n)
			}
			sort.Strings(mn)
			for _, m := range mn {
				fn := meths[m]
				k := 0
				for _, op := range chanOpsOf(fn) {
					if op.kind != "select" {
						if op.blocking {
							r.violated(rel+"."+typ+"."+m+"|bare-"+op.kind, posOf(op.in), "bare blocking channel operation in a Pipe method")
						}
						continue
					}
					k++
					key := rel + "." + typ + "." + m + "|select#" + itoa(k)
					if m == "TrySend" {
						r.ok(!op.blocking, key, posOf(op.in), "TrySend must never block: every select needs a default arm")
						continue
					}
					if !op.blocking {
						continue
					}
					touchesData := false
					have := map[string]bool{}
					for _, a := range op.arms {
						f := fieldOfChan(a.ch)
						if a.kind == "data" && !chanElemIsEmptyStruct(a.ch.Type()) {
							touchesData = true
						}
						if !a.send {
							have[f] = true
						}
					}
					if !touchesData {
						continue
					}
					var missing []string
					for _, tf := range termFields {
						if !have[tf] {
							missing = append(missing, tf)
						}
					}
					r.ok(len(missing) == 0, key, posOf(op.in), "blocking select on the data channel lacks a receive arm on "+strings.Join(missing, ", ")+": the call stays blocked when that side closes")
				}
			}
		}
	}
}

// C10.publish-before-signal
func rulePipePublish(c *Ctx, r *R) {
	cl := c.fn("stream.PipeSender.Close")
	if cl == nil {
		r.undecided("stream.PipeSender.Close|missing", token.NoPos, "anchor not found")
		return
	}
	// order: store through senderErr, then close(senderDone), both unconditional
	var storeIn, closeIn ssa.Instruction
	var storedVal ssa.Value
	instrs(cl, func(b *ssa.BasicBlock, i int, in ssa.Instruction) {
		switch x := in.(type) {
		case *ssa.Store:
			if strings.HasSuffix(path(x.Addr), ".senderErr") {
				storeIn = x
				storedVal = x.Val
			}
		case *ssa.Call:
			// s.senderErr.set(err): the slot is a small cell type with a setter
			if v, ok := errSlotSetterCall(x); ok {
				storeIn = x
				storedVal = v
			}
		}
	})
	for _, cs := range closeSites(cl) {
		chv := cs.ch
		if ct, ok := chv.(*ssa.ChangeType); ok {
			chv = ct.X
		}
		if fieldOfChan(chv) == "senderDone" && cs.uncond {
			closeIn = cs.at
		}
	}
	okOrder := storeIn != nil && closeIn != nil && storeIn.Block().Dominates(closeIn.Block()) && (storeIn.Block() != closeIn.Block() || idxIn(storeIn) < idxIn(closeIn)) && isParamValue(storedVal, cl)
	r.ok(okOrder, "stream.PipeSender.Close|store-then-close", cl.Pos(), "*senderErr = err must be stored (the parameter itself) before close(senderDone) on every path: receivers read it right after observing the close")
	// readers
	for _, name := range []string{"stream.PipeSender.Send", "stream.PipeSender.TrySend", "stream.pipeStream.Next"} {
		fn := c.fn(name)
		if fn == nil {
			r.undecided(name+"|missing", token.NoPos, "anchor not found")
			continue
		}
		// arms on senderDone
		var bodies []*ssa.BasicBlock
		var helpers []*ssa.Function
		for _, op := range chanOpsOf(fn) {
			for _, a := range op.arms {
				if !a.send && fieldOfChan(a.ch) == "senderDone" && a.body != nil {
					bodies = append(bodies, a.body)
					if cal, _ := tailCallee(a.body); cal != nil {
						// the helper runs only after senderDone was observed if every call site is such an arm
						only := true
						for _, site := range callSitesOf(c, cal) {
							okSite := false
							for _, op2 := range chanOpsOf(site.Parent()) {
								for _, a2 := range op2.arms {
									if !a2.send && fieldOfChan(a2.ch) == "senderDone" && a2.body != nil && a2.body.Dominates(site.Block()) {
										okSite = true
									}
								}
							}
							if !okSite {
								only = false
							}
						}
						if only {
							helpers = append(helpers, cal)
						}
					}
				}
			}
		}
		nreads := 0
		scan := []*ssa.Function{fn}
		scan = append(scan, helpers...)
		// helpers the function is built from (finished(ctx), …): a read there is judged by the arms of that helper itself
		ownBodies := map[*ssa.Function][]*ssa.BasicBlock{}
		frameChain := map[*ssa.Function][]*ssa.Call{}
		for _, fr := range deepFrames(fn, 2) {
			if fr.f == fn {
				continue
			}
			dup := false
			for _, h := range scan {
				if h == fr.f {
					dup = true
				}
			}
			if dup {
				continue
			}
			for _, op := range fr.chanOps() {
				for _, a := range op.arms {
					if !a.send && fieldOfChan(a.ch) == "senderDone" && a.body != nil {
						ownBodies[fr.f] = append(ownBodies[fr.f], a.body)
					}
				}
			}
			scan = append(scan, fr.f)
			frameChain[fr.f] = fr.chain
		}
		for _, sf := range scan {
			sf := sf
			withChainFlags(frameChain[sf], func() {
				instrs(sf, func(b *ssa.BasicBlock, i int, in ssa.Instruction) {
					ld, ok := in.(ssa.Value)
					if !ok || !errSlotRead(ld) {
						return
					}
					nreads++
					_, judgedLocally := ownBodies[sf]
					dom := sf != fn && !judgedLocally // inside a helper that is only reachable from a senderDone arm
					for _, bb := range bodies {
						if sf == fn && bb.Dominates(b) {
							dom = true
						}
					}
					for _, bb := range ownBodies[sf] {
						if bb.Dominates(b) {
							dom = true
						}
					}
					if !dom && sf == fn && len(bodies) > 0 {
						// not inside the arm, but every path to the read has passed through one (the arms leave through a shared exit
						// that tells them apart by a flag: if received { return item, nil }; err := *s.senderErr): typestate
						first := map[ssa.Instruction]bool{}
						for _, bb := range bodies {
							if len(bb.Instrs) > 0 {
								first[bb.Instrs[0]] = true
							}
						}
						pf := &PF{N: 2}
						pf.Instr = func(_ *ssa.Function, x ssa.Instruction, q int) (StateSet, bool) {
							if first[x] {
								return ss(1), true
							}
							return 0, false
						}
						seenRead, allObserved := false, true
						pf.Visit = func(_ *ssa.Function, x ssa.Instruction, before StateSet) {
							if x == in {
								seenRead = true
								if before != ss(1) {
									allObserved = false
								}
							}
						}
						pf.Exits(fn, ss(0))
						dom = seenRead && allObserved
					}
					key := name + "|read-senderErr#" + itoa(nreads)
					if !r.ok(dom, key, ld.Pos(), "*senderErr is read outside an arm that observed senderDone closed (data race with Close, and a stale value)") {
						return
					}
					// what is read is what is reported: every return in blocks dominated by this read that carries a
					// non-constant error carries this value; and a return of it exists
					found := false
					if ld.Referrers() != nil {
						for _, ref := range *ld.Referrers() {
							if ret, ok := ref.(*ssa.Return); ok && returnedValue(ret, len(ret.Results)-1) == ld {
								found = true
							}
						}
					}
					// … or reaches a return through a small helper that passes it on (errOrEnd(*s.senderErr): the error itself
					// when there is one, End otherwise)
					if !found {
						want := valueProv(ld, provEnv{}).String()
						instrs(sf, func(b2 *ssa.BasicBlock, j int, in2 ssa.Instruction) {
							ret, ok := in2.(*ssa.Return)
							if !ok || len(ret.Results) == 0 {
								return
							}
							e := symOf(returnedValue(ret, len(ret.Results)-1), provEnv{})
							nodes := []*sx{e}
							if e.op == "phi" {
								nodes = append(nodes, e.args...)
							}
							for _, nd := range nodes {
								if nd.op == "leaf" && nd.s == want && e.inl != "" {
									found = true
								}
							}
						})
					}
					r.ok(found, name+"|return-senderErr#"+itoa(nreads), ld.Pos(), "the error read from *senderErr is not the error operand of a return: the sender's close error would be replaced or dropped")
				})
			})
		}
		if nreads == 0 {
			r.violated(name+"|read-senderErr", fn.Pos(), "no read of *senderErr: the sender's close error can never be reported")
		}
	}
	// pipeStream.Next: on the err == nil edge it reports End
	nx := c.fn("stream.pipeStream.Next")
	if nx != nil {
		okEnd := false
		allEndsGuarded := true
		badEnd := nx.Pos()
		endFns := []*ssa.Function{nx}
		for _, op := range chanOpsOf(nx) {
			for _, a := range op.arms {
				if cal, _ := tailCallee(a.body); cal != nil {
					endFns = append(endFns, cal)
				}
			}
		}
		for _, ef := range endFns {
			for _, d := range deepInstrs(ef, 1) {
				ret, ok := d.in.(*ssa.Return)
				if !ok || len(ret.Results) == 0 {
					continue
				}
				if strings.HasSuffix(path(returnedValue(ret, len(ret.Results)-1)), "End") {
					under := false
					// `case item, ok := <-s.c: if !ok { return zero, End }` where nothing in the package ever closes the data
					// channel: a branch that cannot be taken decides nothing
					if deadClosedDataBranch(c, d.in.Block()) {
						continue
					}
					for _, g := range guardsOf(d.in.Block()) {
						if cf, ok := g.asCmp(); ok && cf.op == token.EQL && isNilConst(cf.y) && (strings.HasSuffix(path(argOf(cf.x, d.calls)), ".senderErr") || errSlotRead(argOf(cf.x, d.calls))) {
							okEnd = true
							under = true
						}
					}
					if !under {
						// an End that does not come from "the sender closed cleanly" (a cached 'drained' flag, …): a close
						// error would be reported once and then turn into a clean end
						allEndsGuarded = false
						badEnd = retPos(ret)
					}
				}
			}
		}
		r.ok(okEnd, "stream.pipeStream.Next|end-iff-nil", nx.Pos(), "End must be reported exactly on the path where the sender's close error is nil")
		r.ok(allEndsGuarded, "stream.pipeStream.Next|end-only-if-nil", badEnd, "every End the receiver reports must be decided by reading the sender's close error (nil) on that very path: an End from remembered state makes a close error non-sticky")
	}
}

func isParamValue(v ssa.Value, fn *ssa.Function) bool {
	for _, p := range fn.Params {
		if v == ssa.Value(p) {
			return true
		}
	}
	return false
}

// C10.who-may-close
func rulePipeWhoMayClose(c *Ctx, r *R) {
	allowed := map[string]string{ // channel field/variable → the only function that may close it
		"senderDone": "stream.PipeSender.Close",
		"streamDone": "stream.pipeStream.Close",
	}
	seen := map[string]bool{}
	for _, fn := range c.Funcs {
		if fn.Pkg != c.SSA["stream"] && (fn.Parent() == nil || rootFn(fn).Pkg != c.SSA["stream"]) {
			continue
		}
		name := c.nameOf(fn)
		for _, cs := range closeSites(fn) {
			in := cs.at
			chv := cs.ch
			if ct, ok := chv.(*ssa.ChangeType); ok {
				chv = ct.X
			}
			f := fieldOfChan(chv)
			p := path(chv)
			key := name + "|close(" + p + ")"
			recvT := ""
			if ld, ok := chv.(*ssa.UnOp); ok {
				if fa, ok := ld.X.(*ssa.FieldAddr); ok {
					base := fa.X
					for { // through structs embedded by value (pipeShared inside PipeSender)
						fa2, ok := base.(*ssa.FieldAddr)
						if !ok {
							break
						}
						base = fa2.X
					}
					recvT = typeShort(base.Type())
				}
			}
			if recvT == "PipeSender" || recvT == "pipeStream" {
				want, isTerm := allowed[f]
				if !isTerm {
					r.violated(key, in.Pos(), "the Pipe data channel must never be closed (a concurrent Send would panic)")
					continue
				}
				seen[f] = true
				r.ok(want == name, key, in.Pos(), f+" may only be closed by "+want)
				continue
			}
			if _, isParam := chv.(*ssa.Parameter); isParam && cs.at == cs.in {
				continue // a closing helper of a channel type: accounted for at its call sites
			}
			r.discharged(key, in.Pos(), "not a Pipe channel")
		}
	}
	for f, owner := range allowed {
		r.ok(seen[f], "closer-exists|"+f, token.NoPos, owner+" must close "+f)
	}
	// single carrier: nil-error returns of pipeStream.Next carry a value received from field c
	nx := c.fn("stream.pipeStream.Next")
	if nx == nil {
		return
	}
	k := 0
	instrs(nx, func(b *ssa.BasicBlock, i int, in ssa.Instruction) {
		ret, ok := in.(*ssa.Return)
		if !ok || len(ret.Results) != 2 || !isNilConst(returnedValue(ret, 1)) {
			return
		}
		k++
		fromData := func(v ssa.Value) bool {
			ex, ok := v.(*ssa.Extract)
			if !ok {
				return false
			}
			if sel, ok := ex.Tuple.(*ssa.Select); ok {
				for idx, st := range sel.States {
					if st.Dir == types.RecvOnly && fieldOfChan(st.Chan) == "c" && recvValue(sel, idx) == ssa.Value(ex) {
						return true
					}
				}
			}
			// … or the value a try-receive helper took from the data channel
			if call, isCall := ex.Tuple.(*ssa.Call); isCall && ex.Index == 0 {
				if cal := staticCallee(&call.Call); cal != nil && c.inModule(cal) {
					if ci, ok := tryRecvHelper(cal); ok && ci < len(call.Call.Args) && fieldOfChan(call.Call.Args[ci]) == "c" {
						return true
					}
				}
			}
			return false
		}
		// the value may be carried to a single exit in a local, under a flag set in the arms that received it (item = <-s.c;
		// received = true; ...; if received { return item, nil }): the alternatives the flag's value leaves possible
		alts := feasibleAlternatives(returnedValue(ret, 0), b)
		good := len(alts) > 0
		for _, a := range alts {
			if !fromData(a) {
				good = false
			}
		}
		r.ok(good, "stream.pipeStream.Next|value-source#"+itoa(k), retPos(ret), "a value returned with a nil error must be one received from the data channel")
	})
	// Send / TrySend: the only data effect is a send of the parameter on c
	for _, name := range []string{"stream.PipeSender.Send", "stream.PipeSender.TrySend"} {
		fn := c.fn(name)
		if fn == nil {
			continue
		}
		sends := 0
		good := true
		for _, fr := range deepFrames(fn, 2) {
			for _, op := range fr.chanOps() {
				for idx, a := range op.arms {
					if !a.send {
						continue
					}
					sends++
					var sent ssa.Value
					if sel, ok := op.in.(*ssa.Select); ok {
						sent = sel.States[idx].Send
					} else if s, ok := op.in.(*ssa.Send); ok {
						sent = s.X
					}
					okSent := sent != nil
					if okSent {
						for _, lf := range valueLeaves(sent, fr.chain, 0) {
							if p, isP := lf.v.(*ssa.Parameter); !isP || p.Parent() != fn {
								okSent = false
							}
						}
					}
					if fieldOfChan(a.ch) != "c" || !okSent {
						good = false
					}
					// the arm that sent returns nil / (true, nil)
				}
			}
		}
		r.ok(good && sends == 1, name+"|single-send", fn.Pos(), "exactly one send, of the parameter, on the data channel")
	}
}

func rootFn(fn *ssa.Function) *ssa.Function {
	for fn.Parent() != nil {
		fn = fn.Parent()
	}
	return fn
}

// derivedFromCtx: o is the context result of context.With*(p, …) (possibly nested).
func derivedFromCtx(o ssa.Value, p ssa.Value, d int) bool {
	if d > 3 {
		return false
	}
	if ex, ok := o.(*ssa.Extract); ok && ex.Index == 0 {
		o = ex.Tuple
	}
	call, ok := o.(*ssa.Call)
	if !ok {
		return false
	}
	cal := call.Call.StaticCallee()
	if cal == nil || cal.Pkg == nil || cal.Pkg.Pkg.Path() != "context" || !strings.HasPrefix(cal.Name(), "With") || len(call.Call.Args) == 0 {
		return false
	}
	for _, o2 := range ctxOrigins(call.Call.Args[0], map[ssa.Value]bool{}) {
		if o2 != p && !derivedFromCtx(o2, p, d+1) {
			return false
		}
	}
	return true
}

// tryRecvHelper: cal's body is one non-blocking select with a single receive arm on its channel parameter #ci; the arm returns
// (received value, true) and every other return reports false.
func tryRecvHelper(cal *ssa.Function) (int, bool) {
	cal = origin(cal)
	var sel *ssa.Select
	n := 0
	instrs(cal, func(b *ssa.BasicBlock, i int, in ssa.Instruction) {
		if s2, ok := in.(*ssa.Select); ok {
			sel = s2
			n++
		}
		switch in.(type) {
		case *ssa.Send, *ssa.Go, *ssa.Defer:
			n += 2
		}
		if u, ok := in.(*ssa.UnOp); ok && u.Op == token.ARROW {
			n += 2
		}
	})
	if n != 1 || sel.Blocking || len(sel.States) != 1 || sel.States[0].Dir != types.RecvOnly {
		return 0, false
	}
	ci := -1
	for i, p := range cal.Params {
		if sel.States[0].Chan == ssa.Value(p) {
			ci = i
		}
	}
	if ci < 0 {
		return 0, false
	}
	body := selectArmBody(sel, 0)
	rv := recvValue(sel, 0)
	good, sawTrue := true, false
	instrs(cal, func(b *ssa.BasicBlock, i int, in ssa.Instruction) {
		ret, ok := in.(*ssa.Return)
		if !ok {
			return
		}
		if len(ret.Results) != 2 {
			good = false
			return
		}
		k, isK := returnedValue(ret, 1).(*ssa.Const)
		if !isK || k.Value == nil {
			good = false
			return
		}
		if k.Value.String() == "true" {
			if body == nil || !(b == body || body.Dominates(b)) || returnedValue(ret, 0) != rv {
				good = false
			}
			sawTrue = true
		}
	})
	return ci, good && sawTrue
}

// doneParamIndex: h blocks in a select one arm of which receives from a channel parameter that every call site fills with a
// context's Done(); the index of that parameter, or -1.
func doneParamIndex(h *ssa.Function) int {
	if h.Blocks == nil {
		return -1
	}
	for _, op := range chanOpsOf(h) {
		if op.kind != "select" || !op.blocking {
			continue
		}
		for _, a := range op.arms {
			if a.send || a.kind != "ctx-done" {
				continue
			}
			if p, ok := a.ch.(*ssa.Parameter); ok {
				for i, q := range h.Params {
					if q == p {
						return i
					}
				}
			}
		}
	}
	return -1
}

// closeSite: a close of a channel performed by fn itself or, on its behalf, by an in-package helper that closes (one of) its
// channel parameters - `s.senderDone.raise()` with `func (sig pipeSignal) raise() { close(sig) }`. ch is the channel in fn's
// terms, at is the instruction of fn (the close itself or the call of the helper), uncond tells whether the helper reaches
// its close from its entry without a branch.
type closeSite struct {
	ch     ssa.Value
	at     ssa.Instruction
	in     ssa.Instruction
	uncond bool
}

func closeSites(fn *ssa.Function) []closeSite {
	var out []closeSite
	for _, di := range deepInstrs(fn, 2) {
		cc := callCommon(di.in)
		if cc == nil {
			continue
		}
		bi, ok := cc.Value.(*ssa.Builtin)
		if !ok || bi.Name() != "close" || len(cc.Args) != 1 {
			continue
		}
		if len(di.calls) == 0 {
			out = append(out, closeSite{cc.Args[0], di.in, di.in, true})
			continue
		}
		if _, isParam := cc.Args[0].(*ssa.Parameter); !isParam {
			continue // the helper closes something of its own: decided where the helper is analysed
		}
		uncond := di.in.Block() == di.in.Parent().Blocks[0]
		for _, via := range di.calls[1:] {
			if via.Block() != via.Parent().Blocks[0] {
				uncond = false
			}
		}
		chv := argOf(cc.Args[0], di.calls)
		if vi, isInstr := chv.(ssa.Instruction); isInstr && vi.Parent() != fn {
			continue // the channel belongs to an intermediate frame (fn calls X.Close(), which closes X's own channel)
		}
		if prm, isParam := chv.(*ssa.Parameter); isParam && prm.Parent() != fn {
			continue
		}
		out = append(out, closeSite{chv, di.calls[0], di.in, uncond})
	}
	return out
}

// C10.delivered-means-nil: the arm of Send's select in which the value was handed to the data channel reports success - the
// constant nil - whatever the context's state is by then. `select {...; case <-ctx.Done(): case s.c <- x: }; return ctx.Err()`
// reports an error for a value that WAS delivered when the context expires at the same moment: the sender re-sends it and the
// receiver sees it twice.
var _ = late(func() {
	p := properties["C10"]
	p.Rules = append(p.Rules, &Rule{ID: "C10.delivered-means-nil", Floor: 1, Clause: "every return of PipeSender.Send that is reached through the select arm that sent the value on the data channel yields the constant nil (a shared `return ctx.Err()` after the select turns a delivered value into a reported failure when the context has expired meanwhile)",
		Run: func(c *Ctx, r *R) {
			fn := c.fn("stream.PipeSender.Send")
			if fn == nil {
				r.undecided("stream.PipeSender.Send|missing", token.NoPos, "anchor not found")
				return
			}
			n := 0
			for _, fr := range deepFrames(fn, 2) {
				for _, op := range fr.chanOps() {
					if op.kind != "select" {
						continue
					}
					for _, a := range op.arms {
						if !a.send || a.body == nil || chanElemIsEmptyStruct(a.ch.Type()) {
							continue
						}
						// returns reached from the arm's body; the value on that way (through a merge at the return)
						instrs(fr.f, func(b *ssa.BasicBlock, _ int, in ssa.Instruction) {
							ret, ok := in.(*ssa.Return)
							if !ok || len(ret.Results) == 0 || !(b == a.body || reaches(a.body, b)) {
								return
							}
							last := len(ret.Results) - 1
							if _, isErr := returnedValue(ret, last).Type().Underlying().(*types.Interface); !isErr {
								return
							}
							for _, vr := range virtualReturnsOf(ret, last) {
								if !(vr.blk == a.body || reaches(a.body, vr.blk) || vr.blk == b) {
									continue
								}
								n++
								// return s.outcomeErr(ctx, outcome) with outcome a constant on the way from the sending arm: the
								// helper's returns that this constant selects
								if sel, ok := constSelectedReturns(vr.val, a.body); ok {
									allNil := len(sel) > 0
									for _, v := range sel {
										allNil = allNil && isNilConst(v)
									}
									r.ok(allNil, "stream.PipeSender.Send|sent-arm-return#"+itoa(n), retPos(ret), "the path on which the value was handed to the receiver returns "+path(vr.val)+", which is not nil for the outcome that path passes: a delivered value is reported as failed")
									continue
								}
								r.ok(isNilConst(vr.val), "stream.PipeSender.Send|sent-arm-return#"+itoa(n), retPos(ret), "the path on which the value was handed to the receiver returns "+path(vr.val)+" instead of nil: a delivered value is reported as failed when the context has expired by then (the caller re-sends it, the receiver gets it twice)")
							}
						})
					}
				}
			}
			if n == 0 {
				r.undecided("stream.PipeSender.Send|sent-arm-return", fn.Pos(), "no return reached from the sending arm found")
			}
		}})
})

// constSelectedReturns: v is a call of an in-package helper some of whose arguments are constants on the way from block `from`
// (a constant, or a merge whose edges that come from `from` all carry the same constant): the values the helper can return
// (last result) on the paths whose parameter-against-constant guards do not fold to false for those constants. ok is false
// when v is not such a call or no argument is a constant.
func constSelectedReturns(v ssa.Value, from *ssa.BasicBlock) ([]ssa.Value, bool) {
	call, ok := v.(*ssa.Call)
	if !ok {
		return nil, false
	}
	cal := staticCallee(&call.Call)
	if cal == nil || cal.Blocks == nil || rootFn(cal).Pkg != rootFn(call.Parent()).Pkg || cal.Signature.Results().Len() == 0 {
		return nil, false
	}
	bound := map[*ssa.Parameter]*ssa.Const{}
	for k, a := range call.Call.Args {
		if k >= len(cal.Params) {
			break
		}
		switch x := a.(type) {
		case *ssa.Const:
			bound[cal.Params[k]] = x
		case *ssa.Phi:
			var k0 *ssa.Const
			same := true
			for i, e := range x.Edges {
				pb := x.Block().Preds[i]
				if !(pb == from || reaches(from, pb)) {
					continue
				}
				kc, isK := e.(*ssa.Const)
				if !isK || kc.Value == nil || (k0 != nil && !constant.Compare(k0.Value, token.EQL, kc.Value)) {
					same = false
					break
				}
				k0 = kc
			}
			if same && k0 != nil {
				bound[cal.Params[k]] = k0
			}
		}
	}
	if len(bound) == 0 {
		return nil, false
	}
	last := cal.Signature.Results().Len() - 1
	var out []ssa.Value
	instrs(cal, func(b *ssa.BasicBlock, _ int, in ssa.Instruction) {
		ret, ok := in.(*ssa.Return)
		if !ok || len(ret.Results) == 0 {
			return
		}
		for _, vr := range virtualReturnsOf(ret, last) {
			feasible := true
			for _, g := range guardsOfRaw(vr.blk) {
				cf, ok := g.asCmp()
				if !ok {
					continue
				}
				x, y, op := cf.x, cf.y, cf.op
				if _, isK := x.(*ssa.Const); isK {
					x, y, op = y, x, flip(op)
				}
				ky, okY := y.(*ssa.Const)
				px, okX := resolveVal(x).(*ssa.Parameter)
				if !okX || !okY || ky.Value == nil {
					continue
				}
				kx := bound[px]
				if kx == nil || kx.Value == nil || kx.Value.Kind() != ky.Value.Kind() {
					continue
				}
				if !constant.Compare(kx.Value, op, ky.Value) {
					feasible = false
				}
			}
			if feasible {
				out = append(out, vr.val)
			}
		}
	})
	return out, true
}

// errSlotRead: v reads the sender's close error out of the shared slot: *(*s.senderErr), or s.senderErr.get() where get is an
// accessor of the slot's cell type (one return: a field of its receiver).
func errSlotRead(v ssa.Value) bool {
	switch x := v.(type) {
	case *ssa.UnOp:
		if x.Op != token.MUL {
			return false
		}
		return isErrSlotPtr(x.X, 0)
	case *ssa.Call:
		cal := staticCallee(&x.Call)
		if cal == nil || cal.Blocks == nil || len(x.Call.Args) != 1 || len(cal.Params) != 1 || curCtx == nil || !curCtx.inModule(cal) {
			return false
		}
		if !isErrSlotPtr(x.Call.Args[0], 0) {
			return false
		}
		rets := returnedBy(cal, 0)
		if len(rets) != 1 {
			return false
		}
		fl, ok := rets[0].(*ssa.UnOp)
		if !ok || fl.Op != token.MUL {
			return false
		}
		fa, ok := fl.X.(*ssa.FieldAddr)
		return ok && fa.X == ssa.Value(cal.Params[0])
	}
	return false
}

// errSlotSetterCall: call is s.senderErr.set(v) where set stores its parameter into a field of its receiver, unconditionally,
// and does nothing else; returns v.
func errSlotSetterCall(call *ssa.Call) (ssa.Value, bool) {
	cal := staticCallee(&call.Call)
	if cal == nil || cal.Blocks == nil || len(call.Call.Args) != 2 || len(cal.Params) != 2 || len(cal.Blocks) != 1 || curCtx == nil || !curCtx.inModule(cal) {
		return nil, false
	}
	if !isErrSlotPtr(call.Call.Args[0], 0) {
		return nil, false
	}
	stores := 0
	good := true
	for _, in := range cal.Blocks[0].Instrs {
		switch y := in.(type) {
		case *ssa.Store:
			fa, ok := y.Addr.(*ssa.FieldAddr)
			if ok && fa.X == ssa.Value(cal.Params[0]) && y.Val == ssa.Value(cal.Params[1]) {
				stores++
			} else {
				good = false
			}
		case *ssa.FieldAddr, *ssa.Return, *ssa.DebugRef:
		default:
			good = false
		}
	}
	if good && stores == 1 {
		return call.Call.Args[1], true
	}
	return nil, false
}

// isErrSlotPtr: v is the pointer kept in the senderErr field: a load of that field, or a parameter of an unexported helper
// that is given it (at its single forwarding call site, or at every call site).
func isErrSlotPtr(v ssa.Value, d int) bool {
	if d > 3 {
		return false
	}
	switch x := v.(type) {
	case *ssa.UnOp:
		if x.Op != token.MUL {
			return false
		}
		_, isField := x.X.(*ssa.FieldAddr)
		return isField && strings.HasSuffix(path(x.X), ".senderErr")
	case *ssa.Parameter:
		if fv, ok := forwardedParam[x]; ok {
			return isErrSlotPtr(fv, d+1)
		}
		fn := x.Parent()
		if fn == nil || fn.Parent() != nil || token.IsExported(fn.Name()) || curCtx == nil {
			return false
		}
		idx := -1
		for i, p := range fn.Params {
			if p == x {
				idx = i
			}
		}
		sites := callCommonsOf(curCtx, fn)
		if idx < 0 || len(sites) == 0 {
			return false
		}
		for _, cc := range sites {
			if idx >= len(cc.Args) || !isErrSlotPtr(cc.Args[idx], d+1) {
				return false
			}
		}
		return true
	}
	return false
}

// alreadyClosedAt: every blocking operation of callee is a plain receive from a channel field of its receiver; nothing in the
// package ever SENDS on that field (it is only closed, so a receive succeeds only once it is closed, and then for ever); and
// the call, made on the same receiver, is dominated by the body of a select arm (or follows a plain receive) on that very
// field: the channel is closed by then and the callee cannot block.
func alreadyClosedAt(c *Ctx, call *ssa.Call, callee *ssa.Function) bool {
	if len(callee.Params) == 0 || len(call.Call.Args) == 0 {
		return false
	}
	field := ""
	for _, op := range chanOpsOf(callee) {
		if !op.blocking {
			continue
		}
		if op.kind != "recv" || len(op.arms) != 1 {
			return false
		}
		ld, ok := stripChange(op.arms[0].ch).(*ssa.UnOp)
		if !ok || ld.Op != token.MUL {
			return false
		}
		fa, ok := ld.X.(*ssa.FieldAddr)
		if !ok || resolveVal(fa.X) != ssa.Value(callee.Params[0]) {
			return false
		}
		f := fieldName(fa.X.Type(), fa.Field)
		if field != "" && f != field {
			return false
		}
		field = f
	}
	if field == "" {
		return false
	}
	recvT := derefType(callee.Params[0].Type())
	sameField := func(ch ssa.Value) (ssa.Value, bool) {
		for _, lf := range valueLeaves(stripChange(ch), nil, 0) {
			ld, ok := stripChange(lf.v).(*ssa.UnOp)
			if !ok || ld.Op != token.MUL {
				return nil, false
			}
			fa, ok := ld.X.(*ssa.FieldAddr)
			if !ok || fieldName(fa.X.Type(), fa.Field) != field || !types.Identical(origType(derefType(fa.X.Type())), origType(recvT)) {
				return nil, false
			}
			return resolveVal(fa.X), true
		}
		return nil, false
	}
	// close-only: no send on that field anywhere in the package
	for _, f := range c.Funcs {
		if rootFn(f).Pkg != rootFn(callee).Pkg {
			continue
		}
		for _, op := range chanOpsOf(f) {
			for _, a := range op.arms {
				if a.send {
					if _, same := sameField(a.ch); same {
						return false
					}
				}
			}
		}
	}
	recv := resolveVal(call.Call.Args[0])
	for _, op := range chanOpsOf(call.Parent()) {
		for _, a := range op.arms {
			if a.send {
				continue
			}
			base, same := sameField(a.ch)
			if !same || base != recv {
				continue
			}
			if a.body != nil && (a.body == call.Block() || a.body.Dominates(call.Block())) {
				return true
			}
			if op.kind == "recv" && op.in.Block().Dominates(call.Block()) && (op.in.Block() != call.Block() || idxIn(op.in) < idxIn(call)) {
				return true
			}
		}
	}
	return false
}

// drainedReachesReturn: every return that can be reached after the arm (body) has drained the value rv yields that value
// with a nil error - also when the arm only parks the value in a local and a flag and leaves through a shared exit (item = v;
// received = true; ...; if received { return item, nil }). Typestate, flag-sensitive.
func drainedReachesReturn(fn *ssa.Function, body *ssa.BasicBlock, rv ssa.Value) bool {
	if len(body.Instrs) == 0 {
		return false
	}
	first := body.Instrs[0]
	pf := &PF{N: 2}
	pf.Instr = func(_ *ssa.Function, x ssa.Instruction, q int) (StateSet, bool) {
		if x == first {
			return ss(1), true
		}
		return 0, false
	}
	any, all := false, true
	for _, e := range pf.Exits(fn, ss(0)) {
		if !e.States.has(1) {
			continue
		}
		any = true
		if len(e.Ret.Results) != 2 || !isNilConst(returnedValue(e.Ret, 1)) {
			all = false
			continue
		}
		has := false
		for _, a := range feasibleAlternatives(returnedValue(e.Ret, 0), e.Ret.Block()) {
			if a == rv {
				has = true
			}
		}
		if !has {
			all = false
		}
	}
	return any && all
}

// deadClosedDataBranch: b is only reached when a comma-ok receive from the pipe's data channel reported the channel closed,
// and no function of package stream closes a channel reached through that field.
func deadClosedDataBranch(c *Ctx, b *ssa.BasicBlock) bool {
	var sel *ssa.Select
	closedSeen := false
	arm := -1
	for _, g := range guardsOf(b) {
		if v, val := g.boolVal(); !val {
			if ex, ok := v.(*ssa.Extract); ok && ex.Index == 1 {
				if s2, ok := ex.Tuple.(*ssa.Select); ok {
					sel, closedSeen = s2, true
				}
			}
		}
	}
	if !closedSeen {
		return false
	}
	for _, g := range guardsOf(b) {
		if cf, ok := g.asCmp(); ok && cf.op == token.EQL {
			if ex, ok := cf.x.(*ssa.Extract); ok && ex.Index == 0 && ex.Tuple == ssa.Value(sel) {
				if k, isK := cf.y.(*ssa.Const); isK && k.Value != nil {
					arm = int(k.Int64())
				}
			}
		}
	}
	if arm < 0 || arm >= len(sel.States) || sel.States[arm].Dir != types.RecvOnly {
		return false
	}
	field := fieldOfChan(sel.States[arm].Chan)
	if field == "" || chanElemIsEmptyStruct(sel.States[arm].Chan.Type()) {
		return false
	}
	closed := false
	for _, fn := range c.funcsOfPkg("stream") {
		instrs(fn, func(_ *ssa.BasicBlock, _ int, in ssa.Instruction) {
			if call, ok := in.(*ssa.Call); ok {
				if bi, isB := call.Call.Value.(*ssa.Builtin); isB && bi.Name() == "close" && len(call.Call.Args) == 1 && fieldOfChan(call.Call.Args[0]) == field {
					closed = true
				}
			}
		})
	}
	return !closed
}
