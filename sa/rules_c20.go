package main

import (
	"go/constant"
	"go/token"
	"go/types"
	"sort"
	"strings"

	"golang.org/x/tools/go/ssa"
)

func init() {
	register(&Property{
		ID:    "C20",
		Title: "xtime: SleepContext honours d and the deadline; JitterTicker keeps its spacing",
		Rules: []*Rule{
			{ID: "C20.positive-arg", Floor: 3, Clause: "every argument of rand.Int63n/Intn/Int31n is provably positive (positive constant, or dominated by a > 0 guard on the same value, closed under multiplication by a positive constant and widening conversions), or is a listed forwarding exception (repo-wide)",
				Run: rulePositiveArg},
			{ID: "C20.deadline-direction", Floor: 5, Clause: "DeadlineTooSoonError{remaining, d} is constructed only under a comparison implying remaining < d, with remaining = time.Until(ctx deadline) exactly and d the parameter; d <= 0 returns nil first; the timer runs for d; the ctx arm returns ctx.Err() and the timer arm nil",
				Run: ruleDeadlineDirection},
			{ID: "C20.lockset", Floor: 12, Clause: "JitterTicker.d, jitter, gen and timer are accessed only with t.m held, including inside the AfterFunc callback and at every call site of schedule",
				Run: func(c *Ctx, r *R) {
					for _, f := range []string{"d", "jitter", "gen", "timer"} {
						guardedAccesses(c, r, f, "xtime", "JitterTicker", f, "m")
					}
				}},
			{ID: "C20.tick-gate", Floor: 4, Clause: "the send on t.c is dominated by t.gen == gen (the generation captured when the timer was armed) under the lock and is non-blocking; Stop and schedule both bump gen; Stop stops the timer",
				Run: ruleTickGate},
			{ID: "C20.validation-siblings", Floor: 3, Clause: "NewJitterTicker and Reset contain the same panic guards over (d, jitter), each dominating every store of the validated values; schedule's next-interval formula is d + U[0,2·jitter) − jitter",
				Run: ruleValidationSiblings},
		},
		NotCovered: []string{"at least d elapsed / ticks >= d − jitter apart: wall-clock quantities; only the formula's operands and the guards are visible statically", "promptness of the context return"},
		Trusted:    []string{"time.Timer / time.AfterFunc semantics", "math/rand.Int63n(n) returns a value in [0,n) and panics iff n <= 0"},
	})
}

func isRandN(cc *ssa.CallCommon) bool {
	name := ""
	if cc.IsInvoke() {
		name = cc.Method.Name()
	} else if f := cc.StaticCallee(); f != nil && f.Pkg != nil && f.Pkg.Pkg.Path() == "math/rand" {
		name = f.Name()
	} else {
		return false
	}
	switch name {
	case "Intn", "Int63n", "Int31n":
		return len(cc.Args) >= 1
	}
	return false
}

// provablyPositive: v > 0 at instruction `at`.
func provablyPositive(v ssa.Value, at ssa.Instruction, depth int) (bool, string) {
	if depth > 6 {
		return false, "too deep"
	}
	switch x := v.(type) {
	case *ssa.Const:
		if x.Value != nil && isIntegerish(x.Type()) && x.Int64() > 0 {
			return true, "positive constant"
		}
		return false, "non-positive constant"
	case *ssa.Convert:
		return provablyPositive(x.X, at, depth+1)
	case *ssa.ChangeType:
		return provablyPositive(x.X, at, depth+1)
	case *ssa.BinOp:
		if x.Op == token.MUL {
			if k, ok := x.Y.(*ssa.Const); ok && k.Value != nil && k.Int64() > 0 {
				return provablyPositive(x.X, at, depth+1)
			}
			if k, ok := x.X.(*ssa.Const); ok && k.Value != nil && k.Int64() > 0 {
				return provablyPositive(x.Y, at, depth+1)
			}
		}
	}
	p := path(v)
	for _, g := range guardsOf(at.Block()) {
		cf, ok := g.asCmp()
		if !ok {
			continue
		}
		xs, ys := path(cf.x), path(cf.y)
		op := cf.op
		if ys == p && xs != p {
			xs, ys = ys, xs
			op = flip(op)
			cf.x, cf.y = cf.y, cf.x
		}
		if xs != p {
			continue
		}
		k, isK := cf.y.(*ssa.Const)
		if !isK || k.Value == nil {
			continue
		}
		if (op == token.GTR && k.Int64() >= 0) || (op == token.GEQ && k.Int64() >= 1) {
			// no store to the same location between the guard and the use (same function): conservative – none at all after the guard block
			if fieldStoredBetween(at.Parent(), v, g.blk, at) {
				return false, "the guarded location is written between the guard and the use"
			}
			return true, "dominated by " + xs + " " + op.String() + " " + ys
		}
	}
	return false, "no lower bound on " + p
}

func fieldStoredBetween(fn *ssa.Function, v ssa.Value, from *ssa.BasicBlock, at ssa.Instruction) bool {
	ld, ok := v.(*ssa.UnOp)
	if !ok || ld.Op != token.MUL {
		return false
	}
	target := path(ld.X)
	res := false
	instrs(fn, func(b *ssa.BasicBlock, i int, in ssa.Instruction) {
		st, ok := in.(*ssa.Store)
		if !ok || path(st.Addr) != target {
			return
		}
		if from.Dominates(b) && (reaches(b, at.Block()) || b == at.Block()) {
			res = true
		}
	})
	return res
}

var positiveArgExceptions = map[string]string{
	"xmath/xrand.defaultRand.Intn": "pure forwarding wrapper around rand.Intn: the precondition is inherited by its callers, which are checked",
	"xmath/xrand.sampler.Next":     "s.r.Intn(s.k): for k == 0 the skip computed just before is ±Inf/NaN and the function has already returned (the IsInf/IsNaN test dominates this call); k < 0 fails earlier in make([]T, k)",
}

func rulePositiveArg(c *Ctx, r *R) {
	for _, fn := range c.Funcs {
		name := c.nameOf(fn)
		n := 0
		instrs(fn, func(b *ssa.BasicBlock, i int, in ssa.Instruction) {
			cc := callCommon(in)
			if cc == nil || !isRandN(cc) {
				return
			}
			n++
			key := name + "|" + calleeName(cc) + "#" + itoa(n)
			arg := cc.Args[len(cc.Args)-1]
			if ok, why := provablyPositive(arg, in, 0); ok {
				r.discharged(key, in.Pos(), why)
				return
			}
			exName := name
			isSampler := false
			if rv := fn.Signature.Recv(); rv != nil && fn.Parent() == nil {
				// the sampler exception is about the construct `s.r.Intn(s.k)` in a method of sampler, whichever method the
				// skip computation lives in (Next, or a helper Next was split into)
				if nt, ok := derefType(rv.Type()).(*types.Named); ok && nt.Obj().Name() == "sampler" && strings.HasPrefix(name, "xmath/xrand.sampler.") {
					if ld, ok := arg.(*ssa.UnOp); ok && ld.Op == token.MUL {
						if fa, ok := ld.X.(*ssa.FieldAddr); ok && fa.X == ssa.Value(fn.Params[0]) && fieldName(fa.X.Type(), fa.Field) == "k" {
							exName = "xmath/xrand.sampler.Next"
							isSampler = true
						}
					}
				}
			}
			if reason, ok := positiveArgExceptions[exName]; ok && (isSampler || exName != "xmath/xrand.sampler.Next") {
				// decide what is decidable of the sampler exception: the IsInf/IsNaN early return dominates the call
				if isSampler {
					dom := false
					for _, g := range guardsOf(b) {
						if v, val := g.boolVal(); !val {
							if call, ok := v.(*ssa.Call); ok {
								if f := call.Call.StaticCallee(); f != nil && (f.Name() == "IsNaN" || f.Name() == "IsInf") {
									dom = true
								}
							}
						}
					}
					if !dom {
						r.violated(key, in.Pos(), "s.r.Intn(s.k) is no longer protected by the IsInf/IsNaN early return that makes k == 0 unreachable here")
						return
					}
				}
				r.excepted(key, in.Pos(), reason)
				return
			}
			_, why := provablyPositive(arg, in, 0)
			r.violated(key, in.Pos(), "argument of "+calleeName(cc)+" is not provably positive ("+why+"): rand panics for n <= 0")
		})
	}
}

func ruleDeadlineDirection(c *Ctx, r *R) {
	fn := c.fn("xtime.SleepContext")
	if fn == nil {
		r.undecided("xtime.SleepContext|missing", token.NoPos, "anchor not found")
		return
	}
	ctxP, dP := fn.Params[0], fn.Params[1]
	// construction sites of DeadlineTooSoonError
	n := 0
	isParamOf := func(v ssa.Value, chain []*ssa.Call, p *ssa.Parameter) bool {
		pv := valueProv(v, provEnv{chain: chain})
		return pv.root == ssa.Value(p) && len(pv.fields) == 0
	}
	for _, dd := range deepInstrs(fn, 2) {
		in, b, chain := dd.in, dd.in.Block(), dd.calls
		al, ok := in.(*ssa.Alloc)
		if !ok || !isNamedType(al.Type(), "xtime", "DeadlineTooSoonError") {
			continue
		}
		var R, D ssa.Value
		for _, ref := range *al.Referrers() {
			if fa, ok := ref.(*ssa.FieldAddr); ok {
				for _, r2 := range *fa.Referrers() {
					if st, ok := r2.(*ssa.Store); ok {
						switch fieldName(fa.X.Type(), fa.Field) {
						case "remaining":
							R = st.Val
						case "d":
							D = st.Val
						}
					}
				}
			}
		}
		if R == nil && D == nil {
			continue // a zero value (the "no error" result of a helper), not a reported error
		}
		n++
		key := "xtime.SleepContext|too-soon#" + itoa(n)
		if R == nil || D == nil {
			r.violated(key, al.Pos(), "DeadlineTooSoonError must carry both remaining and d")
			continue
		}
		r.ok(isParamOf(D, chain, dP), key+"|d-is-param", al.Pos(), "the d reported (and compared) must be the requested duration")
		// remaining is exactly time.Until(deadline) with deadline from ctx.Deadline()
		exact := false
		// remaining, ok := untilDeadline(ctx); ok && remaining < d: the pair comes from a helper of the package - where its
		// second result is true, the first is what the one return with a constant true yields, and that return's guards hold
		R0 := R
		helperHasDeadline := false
		var helperOK ssa.Value
		if ex, isEx := R.(*ssa.Extract); isEx {
			if hc, isCall := ex.Tuple.(*ssa.Call); isCall {
				if h := staticCallee(&hc.Call); h != nil && h.Blocks != nil && rootFn(origin(h)).Pkg == rootFn(fn).Pkg && h.Signature.Results().Len() == 2 && isBoolType(h.Signature.Results().At(1).Type()) && ex.Index == 0 {
					var trueRet *ssa.Return
					nTrue, clean := 0, true
					instrs(origin(h), func(_ *ssa.BasicBlock, _ int, in2 ssa.Instruction) {
						ret, ok := in2.(*ssa.Return)
						if !ok || len(ret.Results) != 2 {
							return
						}
						k, isK := returnedValue(ret, 1).(*ssa.Const)
						if !isK || k.Value == nil {
							clean = false
							return
						}
						if constant.BoolVal(k.Value) {
							nTrue++
							trueRet = ret
						}
					})
					if clean && nTrue == 1 {
						R = returnedValue(trueRet, 0)
						chain = append(append([]*ssa.Call{}, chain...), hc)
						for _, g := range guardsOf(trueRet.Block()) {
							if v, val := g.boolVal(); val {
								if e2, ok := v.(*ssa.Extract); ok && e2.Index == 1 {
									if dc, ok := e2.Tuple.(*ssa.Call); ok && dc.Call.IsInvoke() && dc.Call.Method.Name() == "Deadline" {
										helperHasDeadline = true
									}
								}
							}
						}
						for _, ref := range refsOf(hc) {
							if e1, ok := ref.(*ssa.Extract); ok && e1.Index == 1 {
								helperOK = e1
							}
						}
					}
				}
			}
		}
		if call, ok := R.(*ssa.Call); ok {
			if cal := call.Call.StaticCallee(); cal != nil && cal.Pkg != nil && cal.Pkg.Pkg.Path() == "time" {
				var dl ssa.Value
				switch {
				case fname(cal) == "Until" && len(call.Call.Args) == 1:
					dl = call.Call.Args[0]
				case fname(cal) == "Sub" && len(call.Call.Args) == 2:
					if nc, ok := call.Call.Args[1].(*ssa.Call); ok {
						if f := nc.Call.StaticCallee(); f != nil && f.Name() == "Now" {
							dl = call.Call.Args[0]
						}
					}
				}
				if ex, ok := dl.(*ssa.Extract); ok && ex.Index == 0 {
					if dc, ok := ex.Tuple.(*ssa.Call); ok && dc.Call.IsInvoke() && dc.Call.Method.Name() == "Deadline" && isParamOf(dc.Call.Value, chain, ctxP) {
						exact = true
					}
				}
			}
		}
		r.ok(exact, key+"|remaining-exact", al.Pos(), "remaining must be exactly the time until ctx's deadline (time.Until(deadline)); rounding or offsetting it moves the boundary of 'deadline closer than d'")
		// guard direction: at the place the value is built, or - the would-be error is built first and returned only `if
		// tooSoon.applies()` - at every return that reports it (the helper's comparison is read through the call)
		R, chain = R0, dd.calls
		env := provEnv{chain: chain}
		wantLT := []string{symOf(R, env).String() + " < " + symOf(D, env).String(), symOf(R, env).String() + " <= " + symOf(D, env).String(),
			symOf(D, env).String() + " > " + symOf(R, env).String(), symOf(D, env).String() + " >= " + symOf(R, env).String()}
		dirAt := func(blk *ssa.BasicBlock) (dir, hasDeadline bool) {
			for _, g := range guardsOf(blk) {
				if cf, ok := g.asCmp(); ok {
					if (cf.x == R && cf.y == D && (cf.op == token.LSS || cf.op == token.LEQ)) || (cf.x == D && cf.y == R && (cf.op == token.GTR || cf.op == token.GEQ)) {
						dir = true
					}
				}
				// ... or a comparison a boolean helper reported (tooSoon.applies()): read in the helper's frame, its parameters
				// standing for the call's arguments
				if cf, ok := g.asCmp(); ok && cf.via != nil {
					e2 := cf.env()
					e2.chain = append(append([]*ssa.Call{}, chain...), e2.chain...)
					fs := symDeref(cf.x, e2).String() + " " + cf.op.String() + " " + symDeref(cf.y, e2).String()
					for _, w := range wantLT {
						if fs == w {
							dir = true
						}
					}
				}
				if v, val := g.boolVal(); val {
					if ex, ok := v.(*ssa.Extract); ok && ex.Index == 1 {
						if dc, ok := ex.Tuple.(*ssa.Call); ok && dc.Call.IsInvoke() && dc.Call.Method.Name() == "Deadline" {
							hasDeadline = true
						}
					}
					if helperOK != nil && v == helperOK && helperHasDeadline {
						hasDeadline = true
					}
				}
			}
			return
		}
		dir, hasDeadline := dirAt(b)
		if !dir {
			var reportBlocks []*ssa.BasicBlock
			instrs(al.Parent(), func(rb *ssa.BasicBlock, _ int, in2 ssa.Instruction) {
				ret, ok := in2.(*ssa.Return)
				if !ok || len(ret.Results) == 0 {
					return
				}
				v := stripChange(returnedValue(ret, len(ret.Results)-1))
				if ld, ok := v.(*ssa.UnOp); ok && ld.Op == token.MUL && ld.X == ssa.Value(al) {
					reportBlocks = append(reportBlocks, rb)
				}
			})
			if len(reportBlocks) > 0 {
				dir, hasDeadline = true, true
				for _, rb := range reportBlocks {
					d2, h2 := dirAt(rb)
					dir, hasDeadline = dir && d2, hasDeadline && h2
				}
			}
		}
		r.ok(dir && hasDeadline, key+"|direction", al.Pos(), "DeadlineTooSoonError must be returned exactly when a deadline exists and remaining < d (the direction is fixed by what the error means)")
		// ... exactly then: no further condition in front of it (`ok && d >= shortSleep` lets a short sleep with a deadline that
		// is already too close wait for the deadline - or sleep the whole d - instead of failing at once)
		extra := ""
		if al.Parent() == fn && dir && hasDeadline {
			for _, g := range guardsOf(b) {
				if cf, ok := g.asCmp(); ok {
					if cf.via != nil {
						continue
					}
					if (cf.x == R && cf.y == D) || (cf.x == D && cf.y == R) {
						continue
					}
					if cf.x == ssa.Value(dP) && isConstInt(cf.y, 0) {
						continue // past the d <= 0 shortcut
					}
					if _, isExtr := cf.x.(*ssa.Extract); isExtr && isNilConst(cf.y) {
						continue
					}
					if isParamOf(cf.x, chain, dP) || isParamOf(cf.y, chain, dP) {
						extra = "a further test of d (" + path(cf.x) + " " + cf.op.String() + " " + path(cf.y) + ")"
					}
					continue
				}
			}
		}
		r.ok(extra == "", key+"|no-extra-condition", al.Pos(), "the deadline test is skipped under "+extra+": for such a d a deadline that is already closer than d is not reported at once - the call waits for the deadline (or sleeps the whole d) instead")
	}
	if n == 0 {
		r.violated("xtime.SleepContext|too-soon", fn.Pos(), "DeadlineTooSoonError is never returned")
	}
	// d <= 0 returns nil before anything else
	first := false
	if iff, ok := fn.Blocks[0].Instrs[len(fn.Blocks[0].Instrs)-1].(*ssa.If); ok {
		if cf, ok := (guard{cond: iff.Cond, val: true}).asCmp(); ok && cf.x == ssa.Value(dP) && cf.op == token.LEQ && isConstInt(cf.y, 0) {
			if ret, ok := fn.Blocks[0].Succs[0].Instrs[len(fn.Blocks[0].Succs[0].Instrs)-1].(*ssa.Return); ok && isNilConst(returnedValue(ret, 0)) {
				first = true
			}
		}
		// the same test the other way round (`if d > 0 { … }; return nil`): the edge on which d <= 0 leads, through blocks that
		// do nothing, to a return of nil
		if cf, ok := (guard{cond: iff.Cond, val: false}).asCmp(); ok && !first && cf.x == ssa.Value(dP) && cf.op == token.LEQ && isConstInt(cf.y, 0) {
			b := fn.Blocks[0].Succs[1]
			prev := fn.Blocks[0]
			for hops := 0; hops < 3 && b != nil; hops++ {
				idle := true
				for _, in := range b.Instrs {
					switch in.(type) {
					case *ssa.Phi, *ssa.Jump, *ssa.Return, *ssa.DebugRef:
					default:
						idle = false
					}
				}
				if !idle {
					break
				}
				if ret, ok := b.Instrs[len(b.Instrs)-1].(*ssa.Return); ok {
					v := returnedValue(ret, 0)
					if phi, isPhi := v.(*ssa.Phi); isPhi && phi.Block() == b {
						for pi, pb := range b.Preds {
							if pb == prev && pi < len(phi.Edges) {
								v = phi.Edges[pi]
							}
						}
					}
					first = isNilConst(v)
					break
				}
				if len(b.Succs) != 1 {
					break
				}
				prev, b = b, b.Succs[0]
			}
		}
	}
	r.ok(first, "xtime.SleepContext|nonpositive-first", fn.Pos(), "d <= 0 must return nil at once, before any deadline test")
	// the timer runs for d; select arms
	okTimer := false
	for _, dd := range deepInstrs(fn, 2) {
		if call, ok := dd.in.(*ssa.Call); ok {
			if cal := call.Call.StaticCallee(); cal != nil && fname(cal) == "NewTimer" && isParamOf(call.Call.Args[0], dd.calls, dP) {
				okTimer = true
			}
		}
	}
	r.ok(okTimer, "xtime.SleepContext|timer-for-d", fn.Pos(), "the sleep timer must be created with d itself")
	// ... and the timer whose channel the select waits on is, on every path, one created for this call with d: a timer taken from
	// a pool or a field and re-armed with Reset may still hold the expiry of its previous use in its channel (the sleep returns
	// at once)
	nArm := 0
	for _, fr := range deepFrames(fn, 2) {
		for _, op := range fr.chanOps() {
			for _, a := range op.arms {
				if a.send || a.kind != "timer" {
					continue
				}
				nArm++
				fresh := false
				why := "cannot tell which timer " + path(a.ch) + " belongs to"
				if ld, ok := a.ch.(*ssa.UnOp); ok && ld.Op == token.MUL {
					if fa, ok := ld.X.(*ssa.FieldAddr); ok {
						ls := valueLeaves(fa.X, fr.chain, 0)
						fresh = len(ls) > 0
						for _, lf := range ls {
							call, isCall := lf.v.(*ssa.Call)
							if !isCall {
								fresh, why = false, "the timer comes from "+path(lf.v)+", not from time.NewTimer(d) in this call"
								continue
							}
							cal := call.Call.StaticCallee()
							if cal == nil || fname(cal) != "NewTimer" || cal.Pkg == nil || cal.Pkg.Pkg.Path() != "time" {
								fresh, why = false, "the timer comes from "+calleeName(&call.Call)+", not from time.NewTimer(d) in this call"
								continue
							}
							if !isParamOf(call.Call.Args[0], lf.chain, dP) {
								fresh, why = false, "the timer is created for "+path(call.Call.Args[0])+", not for d"
							}
						}
					}
				}
				r.ok(fresh, "xtime.SleepContext|fresh-timer#"+itoa(nArm), posOf(op.in), "the select must wait on a timer freshly created with d on every path: "+why)
			}
		}
	}
	for _, fr := range deepFrames(fn, 2) {
		for _, op := range fr.chanOps() {
			for _, a := range op.arms {
				if a.body == nil {
					continue
				}
				ret, ok := a.body.Instrs[len(a.body.Instrs)-1].(*ssa.Return)
				if !ok {
					continue
				}
				// (in a helper frame - chans.RecvContext(ctx, timer.C) - the error is the helper's last result)
				ei := len(ret.Results) - 1
				if ei < 0 {
					continue
				}
				switch a.kind {
				case "ctx-done":
					okE := false
					if call, ok := returnedValue(ret, ei).(*ssa.Call); ok && call.Call.IsInvoke() && call.Call.Method.Name() == "Err" && isParamOf(call.Call.Value, fr.chain, ctxP) {
						okE = true
					}
					r.ok(okE, "xtime.SleepContext|ctx-arm-returns-err", retPos(ret), "the ctx.Done() arm must return ctx.Err()")
				default:
					r.ok(isNilConst(returnedValue(ret, ei)), "xtime.SleepContext|timer-arm-returns-nil", retPos(ret), "nil may be returned only from the arm in which the d-timer fired")
				}
			}
		}
	}
}

// tickerGen identifies, by role, the generation field of JitterTicker: the integer field that the timer callback (the function
// handed to time.AfterFunc by schedule, or a helper it calls) compares with a value that was captured in schedule when the
// timer was armed.
func tickerGen(c *Ctx) (genField string, callback *ssa.Function) {
	sch := c.fn("xtime.JitterTicker.schedule")
	if sch == nil {
		return "", nil
	}
	var cb *ssa.Function
	armChain = nil
	armRecv = nil
	for _, di := range deepInstrs(sch, 2) { // the timer may be armed by a helper of schedule (t.arm(next, t.gen))
		if call, ok := di.in.(*ssa.Call); ok && isCallTo(&call.Call, "time", "", "AfterFunc") && len(call.Call.Args) == 2 {
			if f, rv := funcAndReceiver(argOf(call.Call.Args[1], di.calls)); f != nil {
				cb = f
				armChain = di.calls
				armRecv = rv
			}
		}
	}
	if cb == nil {
		return "", nil
	}
	for _, d := range deepInstrs(cb, 2) {
		bin, ok := d.in.(*ssa.BinOp)
		if !ok || (bin.Op != token.EQL && bin.Op != token.NEQ) {
			continue
		}
		for _, pair := range [][2]ssa.Value{{bin.X, bin.Y}, {bin.Y, bin.X}} {
			if f := tickerIntField(pair[0]); f != "" && capturedInSchedule(pair[1], d.calls, sch) {
				return f, cb
			}
		}
	}
	return "", cb
}

// tickerIntField: v is a load of an int field of JitterTicker → its name.
func tickerIntField(v ssa.Value) string {
	ld, ok := resolveVal(v).(*ssa.UnOp)
	if !ok || ld.Op != token.MUL || !isIntType(ld.Type()) {
		return ""
	}
	fa, ok := ld.X.(*ssa.FieldAddr)
	if !ok || !isTickerOwned(fa.X.Type()) {
		return ""
	}
	return fieldName(fa.X.Type(), fa.Field)
}

// capturedInSchedule: v (seen through the call chain) is a value that lives in schedule (a captured local / a value computed
// there), not something read by the callback itself.
// armChain: the calls that lead from schedule to the frame in which the timer is armed (empty when schedule arms it itself);
// set by tickerGen.
var armChain []*ssa.Call

// armRecv: when the callback is a method value (time.AfterFunc(next, pending.fire)), the receiver it is bound to, in the arming
// frame; set by tickerGen.
var armRecv ssa.Value

// recvFieldInArmFrame: v reads field F of the callback's (value) receiver; the result is the value the arming frame stored into
// that field of the object the method value was taken from (pending := pendingTick{ticker: t, gen: t.gen}).
func recvFieldInArmFrame(v ssa.Value) ssa.Value {
	if armRecv == nil {
		return nil
	}
	field := ""
	isRecv := func(x ssa.Value) bool {
		p, ok := x.(*ssa.Parameter)
		if ok {
			return len(p.Parent().Params) > 0 && p.Parent().Params[0] == p && p.Parent().Signature.Recv() != nil
		}
		// the receiver spilled into a local because its address is taken
		if al, ok := x.(*ssa.Alloc); ok {
			sts := storesTo(al)
			if len(sts) == 1 {
				if pp, ok := sts[0].Val.(*ssa.Parameter); ok {
					return len(pp.Parent().Params) > 0 && pp.Parent().Params[0] == pp && pp.Parent().Signature.Recv() != nil
				}
			}
		}
		return false
	}
	switch x := v.(type) {
	case *ssa.Field:
		if isRecv(x.X) {
			field = fieldName(x.X.Type(), x.Field)
		}
	case *ssa.UnOp:
		if fa, ok := x.X.(*ssa.FieldAddr); ok && x.Op == token.MUL && isRecv(fa.X) {
			field = fieldName(fa.X.Type(), fa.Field)
		}
	}
	if field == "" {
		return nil
	}
	if in, ok := v.(ssa.Instruction); ok && armRecv != nil {
		if ar, ok := armRecv.(ssa.Instruction); ok && in.Parent() == ar.Parent() {
			return nil // a read in the arming frame itself, not in the callback
		}
	}
	// the object: a local of the arming frame (loaded when the method value is taken, or its address for a pointer receiver)
	var obj *ssa.Alloc
	switch r := armRecv.(type) {
	case *ssa.UnOp:
		obj, _ = r.X.(*ssa.Alloc)
	case *ssa.Alloc:
		obj = r
	}
	if obj == nil {
		return nil
	}
	var val ssa.Value
	n := 0
	instrs(obj.Parent(), func(_ *ssa.BasicBlock, _ int, in ssa.Instruction) {
		if st, ok := in.(*ssa.Store); ok {
			if fa, ok := st.Addr.(*ssa.FieldAddr); ok && fa.X == ssa.Value(obj) && fieldName(fa.X.Type(), fa.Field) == field {
				val = st.Val
				n++
			}
		}
	})
	if n != 1 {
		return nil
	}
	return val
}

func capturedInSchedule(v ssa.Value, chain []*ssa.Call, sch *ssa.Function) bool {
	_, ok := capturedValue(v, chain, sch)
	return ok
}

// capturedValue follows helper parameters back to the caller's arguments and answers with the variable of schedule (its cell)
// or the value computed in schedule that v stands for.
func capturedValue(v ssa.Value, chain []*ssa.Call, sch *ssa.Function) (ssa.Value, bool) {
	for d := 0; d < 6; d++ {
		if rv := recvFieldInArmFrame(v); rv != nil {
			v, chain = rv, nil
			continue
		}
		switch x := v.(type) {
		case *ssa.Parameter:
			mapped := false
			for i := len(chain) - 1; i >= 0; i-- {
				cal := staticCallee(&chain[i].Call)
				if cal == nil || origin(x.Parent()) != cal {
					continue
				}
				for k, p := range x.Parent().Params {
					if p == x && k < len(chain[i].Call.Args) {
						v = chain[i].Call.Args[k]
						chain = chain[:i]
						mapped = true
					}
				}
				break
			}
			if !mapped {
				// a parameter of the arming helper: what schedule passed for it
				for i := len(armChain) - 1; i >= 0 && !mapped; i-- {
					cal := staticCallee(&armChain[i].Call)
					if cal == nil || origin(x.Parent()) != origin(cal) {
						continue
					}
					for k, p := range x.Parent().Params {
						if p == x && k < len(armChain[i].Call.Args) {
							v = armChain[i].Call.Args[k]
							mapped = true
						}
					}
				}
			}
			if !mapped {
				return nil, false
			}
			continue
		case *ssa.UnOp:
			if x.Op == token.MUL {
				if cell := cellOf(x.X); cell != nil {
					if cell.Parent() == sch {
						return cell, true
					}
					// the spill of a parameter of the arming helper (captured by the callback): the parameter
					if sts := storesTo(cell); len(sts) == 1 && len(armChain) > 0 {
						if prm, ok := sts[0].Val.(*ssa.Parameter); ok && prm.Parent() == cell.Parent() {
							v = prm
							continue
						}
					}
					// captured in a helper that schedule calls to start the generation and that hands back the test as a
					// closure (current := t.newGeneration()): as good as schedule's own local
					if scheduleCalls(sch, cell.Parent()) {
						return cell, true
					}
					return nil, false
				}
				if x.Parent() == sch {
					return x, true // read in schedule itself (t.arm(next, t.gen))
				}
			}
			return nil, false
		case *ssa.ChangeType:
			v = x.X
			continue
		}
		if in, ok := v.(ssa.Instruction); ok && in.Parent() == sch {
			return v, true
		}
		return nil, false
	}
	return nil, false
}

// genGated: is (fn, block) reached only under <ticker>.gen == <captured generation>? Locally by a dominating guard, or - for an
// unexported helper - at every call site.
func genGated(c *Ctx, fn *ssa.Function, b *ssa.BasicBlock, chainUp []*ssa.Call, genF string, sch *ssa.Function, depth int) bool {
	for _, g := range guardsOf(b) {
		cf, ok := g.asCmp()
		if !ok || cf.op != token.EQL {
			continue
		}
		for _, pair := range [][2]ssa.Value{{cf.x, cf.y}, {cf.y, cf.x}} {
			if tickerIntField(pair[0]) != genF {
				continue
			}
			// the other side: captured in schedule, directly (closure) or through this helper's parameter at every call site
			if capturedInSchedule(pair[1], nil, sch) {
				return true
			}
			if pp, ok := pair[1].(*ssa.Parameter); ok && pp.Parent() == fn && depth < 3 {
				pi := -1
				for i, p := range fn.Params {
					if p == pp {
						pi = i
					}
				}
				sites := callSitesOf(c, fn)
				all := len(sites) > 0 && pi >= 0
				for _, site := range sites {
					if pi >= len(site.Call.Args) {
						all = false
						continue
					}
					if !capturedInSchedule(site.Call.Args[pi], nil, sch) {
						all = false
					}
				}
				if all {
					return true
				}
			}
		}
	}
	if depth < 3 && fn.Parent() == nil && !token.IsExported(fn.Name()) {
		sites := callSitesOf(c, fn)
		if len(sites) == 0 {
			return false
		}
		for _, site := range sites {
			if !genGated(c, site.Parent(), site.Block(), nil, genF, sch, depth+1) {
				return false
			}
		}
		return true
	}
	return false
}

// bumpsGen: fn increments the generation field unconditionally (itself, or through a helper it calls unconditionally).
func bumpsGen(fn *ssa.Function, genF string, depth int) (ssa.Instruction, bool) {
	uncond := func(in ssa.Instruction) bool {
		b := in.Block()
		return b == in.Parent().Blocks[0] || len(guardsOf(b)) == 0
	}
	// the increment itself, or - the counter being a named type with an advancing method (t.gen.advance(): *g++) - an
	// increment through the method's pointer receiver, which the call binds to the address of the generation field
	isBump := func(d deepInstr) bool {
		if isFieldIncDec(d.in, genF, +1) {
			return true
		}
		st, ok := d.in.(*ssa.Store)
		if !ok {
			return false
		}
		prm, ok := st.Addr.(*ssa.Parameter)
		if !ok || len(d.calls) == 0 {
			return false
		}
		bin, ok := st.Val.(*ssa.BinOp)
		if !ok || bin.Op != token.ADD || !isConstInt(bin.Y, 1) {
			return false
		}
		if ld, ok := bin.X.(*ssa.UnOp); !ok || ld.Op != token.MUL || ld.X != ssa.Value(prm) {
			return false
		}
		fa, ok := argOf(prm, d.calls).(*ssa.FieldAddr)
		return ok && isTickerOwned(fa.X.Type()) && fieldName(fa.X.Type(), fa.Field) == genF
	}
	for _, d := range deepInstrs(fn, 2) {
		if !isBump(d) || !uncond(d.in) || !uncond(d.site) {
			continue
		}
		// every call on the way down is unconditional too
		all := true
		for _, call := range d.calls {
			if !uncond(call) {
				all = false
			}
		}
		if all {
			return d.site, true
		}
	}
	return nil, false
}

func ruleTickGate(c *Ctx, r *R) {
	sch := c.fn("xtime.JitterTicker.schedule")
	stop := c.fn("xtime.JitterTicker.Stop")
	if sch == nil || stop == nil {
		r.undecided("xtime.JitterTicker|missing", token.NoPos, "anchor not found")
		return
	}
	genF, cb := tickerGen(c)
	if genF == "" {
		r.violated("xtime|generation", sch.Pos(), "the timer callback does not compare the ticker's generation with the one captured when the timer was armed: nothing stops a callback that is already running from ticking after Stop/Reset")
		return
	}
	// sends on the tick channel anywhere in xtime
	n := 0
	for _, fn := range c.Funcs {
		if rootFn(fn).Pkg != c.SSA["xtime"] {
			continue
		}
		for _, op := range chanOpsOf(fn) {
			for _, a := range op.arms {
				if !a.send {
					continue
				}
				// a send inside a method of a channel type / a helper that is handed the channel (t.c.offer(now)): judged at
				// each call site that hands in the ticker's channel field
				if prm, isP := a.ch.(*ssa.Parameter); isP && prm.Parent() == fn && fn.Parent() == nil {
					pi := paramIndex(prm)
					for _, site := range callSitesOf(c, fn) {
						if pi >= len(site.Call.Args) {
							continue
						}
						sld, ok := site.Call.Args[pi].(*ssa.UnOp)
						if !ok || sld.Op != token.MUL {
							continue
						}
						sfa, ok := sld.X.(*ssa.FieldAddr)
						if !ok || !isTickerOwned(sfa.X.Type()) {
							continue
						}
						n++
						key := "xtime|tick-send#" + itoa(n)
						host := site.Parent()
						r.ok(genGated(c, host, site.Block(), nil, genF, sch, 0), key+"|gen-gate", site.Pos(), "a tick may be sent only under t.gen == gen (the generation captured when this timer was armed); otherwise a callback that was already running delivers a tick after Stop/Reset")
						r.ok(!op.blocking, key+"|non-blocking", posOf(op.in), "the tick send must be non-blocking (it runs with the lock held)")
						held := locksIn(host, entryLocks(c, host, 0))
						locked := false
						for lk := range held[site] {
							if strings.HasSuffix(lk, ".m") {
								locked = true
							}
						}
						r.ok(locked, key+"|under-lock", site.Pos(), "the generation test and the send must happen with t.m held")
					}
					continue
				}
				// the ticker's own channel field
				ld, ok := a.ch.(*ssa.UnOp)
				if !ok {
					continue
				}
				fa, ok := ld.X.(*ssa.FieldAddr)
				if !ok || !isTickerOwned(fa.X.Type()) {
					continue
				}
				n++
				key := "xtime|tick-send#" + itoa(n)
				r.ok(genGated(c, fn, op.in.Block(), nil, genF, sch, 0), key+"|gen-gate", posOf(op.in), "a tick may be sent only under t.gen == gen (the generation captured when this timer was armed); otherwise a callback that was already running delivers a tick after Stop/Reset")
				r.ok(!op.blocking, key+"|non-blocking", posOf(op.in), "the tick send must be non-blocking (it runs with the lock held)")
				held := locksIn(fn, entryLocks(c, fn, 0))
				locked := false
				for lk := range held[op.in] {
					if strings.HasSuffix(lk, ".m") {
						locked = true
					}
				}
				r.ok(locked, key+"|under-lock", posOf(op.in), "the generation test and the send must happen with t.m held")
			}
		}
	}
	if n == 0 {
		r.violated("xtime|tick-send", sch.Pos(), "no tick is ever sent")
	}
	bumpAt, okS := bumpsGen(sch, genF, 0)
	r.ok(okS, "xtime.JitterTicker.schedule|bumps-gen", sch.Pos(), "schedule must bump gen unconditionally so callbacks of the previous timer become no-ops")
	_, okT := bumpsGen(stop, genF, 0)
	r.ok(okT, "xtime.JitterTicker.Stop|bumps-gen", stop.Pos(), "Stop must bump gen unconditionally: timer.Stop() cannot cancel a callback that already fired and is waiting for the lock; the generation bump is the only thing that turns it into a no-op")
	stops := false
	for _, d := range deepInstrs(stop, 2) {
		if call, ok := d.in.(*ssa.Call); ok {
			if cal := call.Call.StaticCallee(); cal != nil && cal.Name() == "Stop" && cal.Signature.Recv() != nil && isNamedType(cal.Signature.Recv().Type(), "time", "Timer") {
				stops = true
			}
			// t.stopPending(), the field only ever holding the pending timer's bound Stop method
			if !call.Call.IsInvoke() && call.Call.StaticCallee() == nil {
				if f := resolveFuncValue(call.Call.Value, 0); f != nil && f.Name() == "Stop" && f.Signature.Recv() != nil && isNamedType(f.Signature.Recv().Type(), "time", "Timer") {
					stops = true
				}
			}
		}
	}
	r.ok(stops, "xtime.JitterTicker.Stop|stops-timer", stop.Pos(), "Stop must stop the pending timer")
	// the captured generation is read after the bump: the value the callback compares with is produced, in schedule, by or
	// after the bumping instruction
	captured := false
	if cb != nil && bumpAt != nil {
		for _, d := range deepInstrs(cb, 2) {
			bin, ok := d.in.(*ssa.BinOp)
			if !ok || (bin.Op != token.EQL && bin.Op != token.NEQ) {
				continue
			}
			for _, pair := range [][2]ssa.Value{{bin.X, bin.Y}, {bin.Y, bin.X}} {
				if tickerIntField(pair[0]) != genF {
					continue
				}
				cv, okc := capturedValue(pair[1], d.calls, sch)
				if !okc {
					continue
				}
				src, ok := cv.(ssa.Instruction)
				if cell, isCell := cv.(*ssa.Alloc); isCell {
					ok = false
					for _, st := range storesTo(cell) {
						if st.Parent() == sch || st.Parent() == bumpAt.Parent() || scheduleCalls(sch, st.Parent()) {
							if vi, ok2 := st.Val.(ssa.Instruction); ok2 {
								src, ok = vi, true
							}
						}
					}
				}
				// (bump and capture may both live in a helper schedule calls: current := t.newGeneration())
				bumpAt := bumpAt
				if ok && src.Parent() != sch && src.Parent() != bumpAt.Parent() && scheduleCalls(sch, src.Parent()) {
					if hb, okH := bumpsGen(src.Parent(), genF, 0); okH && hb != nil {
						bumpAt = hb
					}
				}
				if !ok || (src.Parent() != sch && src.Parent() != bumpAt.Parent()) {
					continue
				}
				if src == bumpAt || (bumpAt.Block().Dominates(src.Block()) && (bumpAt.Block() != src.Block() || idxIn(bumpAt) < idxIn(src))) {
					captured = true
				}
				// `gen := t.gen + 1; t.gen = gen`: the bump stores the very value that is captured
				if bst, isSt := bumpAt.(*ssa.Store); isSt {
					if bv, ok := resolveVal(bst.Val).(ssa.Instruction); ok && bv == src {
						captured = true
					}
				}
			}
		}
	}
	r.ok(captured, "xtime.JitterTicker.schedule|captures-after-bump", sch.Pos(), "the generation handed to the callback must be read after the bump")
}

// dependsOn: does v (through arithmetic, conversions, phis, locals and tiny helpers) depend on a load of receiver field `field`?
func dependsOnField(v ssa.Value, field string, depth int) bool {
	if depth > 8 {
		return false
	}
	switch x := v.(type) {
	case *ssa.Parameter:
		// the period handed to schedule as arguments instead of being kept in fields
		return periodRole(x) == field
	case *ssa.UnOp:
		if x.Op == token.MUL {
			if fa, ok := x.X.(*ssa.FieldAddr); ok && fieldName(fa.X.Type(), fa.Field) == field {
				return true
			}
			if cell := cellOf(x.X); cell != nil {
				for _, st := range storesTo(cell) {
					if dependsOnField(st.Val, field, depth+1) {
						return true
					}
				}
			}
			return false
		}
		return dependsOnField(x.X, field, depth+1)
	case *ssa.BinOp:
		return dependsOnField(x.X, field, depth+1) || dependsOnField(x.Y, field, depth+1)
	case *ssa.Convert:
		return dependsOnField(x.X, field, depth+1)
	case *ssa.ChangeType:
		return dependsOnField(x.X, field, depth+1)
	case *ssa.Phi:
		for _, e := range x.Edges {
			if dependsOnField(e, field, depth+1) {
				return true
			}
		}
	case *ssa.Call:
		if cal := staticCallee(&x.Call); cal != nil && cal.Blocks != nil {
			for _, rv := range returnedBy(cal, 0) {
				if dependsOnField(rv, field, depth+1) {
					return true
				}
			}
		}
		for _, a := range x.Call.Args {
			if dependsOnField(a, field, depth+1) {
				return true
			}
		}
	}
	return false
}

func ruleValidationSiblings(c *Ctx, r *R) {
	sets := map[string][]string{}
	for _, name := range []string{"xtime.NewJitterTicker", "xtime.JitterTicker.Reset"} {
		fn := c.fn(name)
		if fn == nil {
			r.undecided(name+"|missing", token.NoPos, "anchor not found")
			continue
		}
		// role names by position from the end of the parameter list: ..., d, jitter
		role := func(v ssa.Value) string {
			np := len(fn.Params)
			for i, p := range fn.Params {
				if v == ssa.Value(p) {
					switch np - i {
					case 1:
						return "jitter"
					case 2:
						return "d"
					}
				}
			}
			return path(v)
		}
		var conds []string
		var sites []ssa.Instruction
		for _, di := range deepInstrs(fn, 2) {
			b := di.in.Block()
			if _, ok := di.in.(*ssa.Panic); !ok {
				continue
			}
			for _, g := range append(guardsOf(b), guardsOfSelf(b)...) {
				if g.blk.Succs[0] != b && g.blk.Succs[1] != b {
					continue
				}
				if cf, ok := g.asCmp(); ok {
					conds = append(conds, role(argOf(cf.x, di.calls))+cf.op.String()+role(argOf(cf.y, di.calls)))
					if len(di.calls) > 0 {
						sites = append(sites, di.site)
					} else {
						sites = append(sites, g.blk.Instrs[len(g.blk.Instrs)-1])
					}
				}
			}
		}
		// de-duplicate (a switch lists each guard once, but deep walks may revisit)
		seen := map[string]bool{}
		var uniq []string
		for _, cnd := range conds {
			if !seen[cnd] {
				seen[cnd] = true
				uniq = append(uniq, cnd)
			}
		}
		sort.Strings(uniq)
		sets[name] = uniq
		okDom := true
		instrs(fn, func(b *ssa.BasicBlock, i int, in ssa.Instruction) {
			if st, ok := in.(*ssa.Store); ok {
				if _, f, ok := storedField(st.Addr); ok && (f == "d" || f == "jitter") {
					for _, site := range sites {
						sb := site.Block()
						if !(sb.Dominates(b) && (sb != b || idxIn(site) < i)) {
							okDom = false
						}
					}
				}
			}
		})
		r.ok(okDom && len(uniq) >= 2, name+"|validate-first", fn.Pos(), "the panic guards over (d, jitter) must dominate every store of those values (a failing call leaves the ticker unchanged)")
	}
	a, b := sets["xtime.NewJitterTicker"], sets["xtime.JitterTicker.Reset"]
	r.ok(strings.Join(a, ";") == strings.Join(b, ";") && len(a) > 0, "xtime|sibling-guards", token.NoPos, "NewJitterTicker panics under {"+strings.Join(a, "; ")+"} but Reset under {"+strings.Join(b, "; ")+"}: the two validation blocks must agree")
	want := "d<=0;jitter>=d"
	r.ok(strings.Join(a, ";") == want, "xtime.NewJitterTicker|documented-guards", token.NoPos, "documented preconditions are d > 0 and jitter < d; found panic guards {"+strings.Join(a, "; ")+"}")
	// formula in schedule (possibly in a helper): next = t.d (+ Int63n(jitter*2) - jitter)
	sch := c.fn("xtime.JitterTicker.schedule")
	if sch == nil {
		return
	}
	okFormula := false
	usesD := false
	for _, di := range deepInstrs(sch, 2) {
		switch x := di.in.(type) {
		case *ssa.BinOp:
			if jy := path(stripConvs(x.Y)); x.Op == token.SUB && (strings.HasSuffix(jy, ".jitter") || isJitterParam(resolveVal(stripConvs(x.Y)))) {
				// Int63n(2·jitter) − jitter, the product written either way round, the same jitter on both sides
				if rc, ok := stripConvs(x.X).(*ssa.Call); ok && len(rc.Call.Args) > 0 && strings.HasSuffix(calleeName(&rc.Call), "Int63n") {
					if mul, ok := stripConvs(rc.Call.Args[len(rc.Call.Args)-1]).(*ssa.BinOp); ok && mul.Op == token.MUL {
						if (path(stripConvs(mul.X)) == jy && isConstInt(mul.Y, 2)) || (isConstInt(mul.X, 2) && path(stripConvs(mul.Y)) == jy) {
							okFormula = true
						}
					}
				}
			}
		case *ssa.Call:
			if cal := x.Call.StaticCallee(); cal != nil && fname(cal) == "AfterFunc" {
				if a0 := argOf(x.Call.Args[0], di.calls); dependsOnField(a0, "d", 0) && dependsOnField(a0, "jitter", 0) {
					usesD = true
				}
			}
		}
	}
	r.ok(okFormula && usesD, "xtime.JitterTicker.schedule|interval-formula", sch.Pos(), "the next interval must be d + rand[0, 2·jitter) − jitter (so it lies in [d − jitter, d + jitter))")
}

var _ = late(func() {
	p := properties["C20"]
	p.Rules = append(p.Rules, &Rule{ID: "C20.store-before-schedule", Floor: 2, Clause: "wherever d or jitter are stored and schedule() is called in the same function, every such store precedes the call (schedule computes the next interval from both fields)",
		Run: func(c *Ctx, r *R) {
			sch := c.fn("xtime.JitterTicker.schedule")
			if sch == nil {
				r.undecided("xtime.JitterTicker.schedule|missing", token.NoPos, "anchor not found")
				return
			}
			// the interval parameters, by role: the fields of the ticker that schedule (or a helper it calls) reads and never
			// writes - d and jitter, or a struct field that groups them
			tickerField := func(addr ssa.Value) string {
				for {
					fa, ok := addr.(*ssa.FieldAddr)
					if !ok {
						return ""
					}
					if isTickerOwned(fa.X.Type()) {
						return fieldName(fa.X.Type(), fa.Field)
					}
					addr = fa.X
				}
			}
			read, written := map[string]bool{}, map[string]bool{}
			for _, di := range deepInstrs(sch, 2) {
				switch x := di.in.(type) {
				case *ssa.UnOp:
					if x.Op == token.MUL {
						if f := tickerField(x.X); f != "" {
							if _, isMu := derefType(x.Type()).(*types.Named); !isMu || !isNamedType(x.Type(), "sync", "Mutex") {
								read[f] = true
							}
						}
					}
				case *ssa.Store:
					if f := tickerField(x.Addr); f != "" {
						written[f] = true
					}
				}
			}
			// a field that only ever receives schedule's own result (t.timer = t.schedule()) is its output kept by the callers,
			// not one of its inputs
			fromSch, other := map[string]bool{}, map[string]bool{}
			for _, fn := range c.funcsOfPkg("xtime") {
				instrs(fn, func(_ *ssa.BasicBlock, _ int, in ssa.Instruction) {
					st, ok := in.(*ssa.Store)
					if !ok {
						return
					}
					f := tickerField(st.Addr)
					if f == "" || isNilConst(st.Val) {
						return
					}
					if call, isCall := st.Val.(*ssa.Call); isCall && staticCallee(&call.Call) == sch {
						fromSch[f] = true
					} else {
						other[f] = true
					}
				})
			}
			params := map[string]bool{}
			for f := range read {
				if !written[f] && !(fromSch[f] && !other[f]) {
					params[f] = true
				}
			}
			// the period is not kept in fields at all but handed to schedule as arguments (schedule(d, jitter)): nothing can be
			// stored too late; what must hold instead is that every caller hands over its OWN period - Reset and
			// NewJitterTicker their validated parameters, the timer callback the values schedule itself was given - each in
			// its role
			for pi, sp := range sch.Params {
				role := periodRole(sp)
				if role == "" {
					continue
				}
				for _, fn := range c.funcsOfPkg("xtime") {
					k := 0
					name := c.nameOf(fn)
					instrs(fn, func(_ *ssa.BasicBlock, _ int, in ssa.Instruction) {
						call, ok := in.(*ssa.Call)
						if !ok || staticCallee(&call.Call) != sch || pi >= len(call.Call.Args) {
							return
						}
						k++
						a := resolveVal(call.Call.Args[pi])
						good := false
						if ap, isP := a.(*ssa.Parameter); isP {
							good = periodRole(ap) == role && (rootFn(fn) == sch || ap.Parent() == fn)
						}
						r.ok(good, name+"|period-arg:"+role+"#"+itoa(k), call.Pos(), "schedule must be handed the caller's own "+role+" (the validated parameter, or - in the timer callback - the value this schedule call was given): found "+path(a))
					})
				}
			}
			for _, fn := range c.funcsOfPkg("xtime") {
				var calls []*ssa.Call
				instrs(fn, func(b *ssa.BasicBlock, i int, in ssa.Instruction) {
					if call, ok := in.(*ssa.Call); ok {
						if cal := staticCallee(&call.Call); cal == sch {
							calls = append(calls, call)
						}
					}
				})
				if len(calls) == 0 {
					continue
				}
				name := c.nameOf(fn)
				k := 0
				instrs(fn, func(b *ssa.BasicBlock, i int, in ssa.Instruction) {
					st, ok := in.(*ssa.Store)
					if !ok {
						return
					}
					f := tickerField(st.Addr)
					if f == "" || !params[f] {
						return
					}
					k++
					good := true
					for _, call := range calls {
						before := st.Block().Dominates(call.Block()) && (st.Block() != call.Block() || idxIn(st) < idxIn(call))
						if !before {
							good = false
						}
					}
					r.ok(good, name+"|store:"+f+"#"+itoa(k), st.Pos(), "t."+f+" is stored after schedule() was called: the first interval after this call is computed from the new and the old parameters mixed (a tick can arrive far earlier than d - jitter)")
				})
			}
		}})
})

// C20.reset-rearms: Reset (and NewJitterTicker) put the new period into effect at once: every path through them reaches
// schedule(), which stops the armed timer and arms a new one from the new d and jitter. A Reset that leaves a running timer
// alone lets the first tick after it arrive on the OLD schedule - far earlier than d - jitter after the Reset when the ticker was
// slowed down.
var _ = late(func() {
	p := properties["C20"]
	p.Rules = append(p.Rules, &Rule{ID: "C20.reset-rearms", Floor: 2, Clause: "every path through JitterTicker.Reset and NewJitterTicker that stores the period calls schedule() before returning (typestate over their returns): the armed timer of the old period is replaced, not left to fire",
		Run: func(c *Ctx, r *R) {
			sch := c.fn("xtime.JitterTicker.schedule")
			if sch == nil {
				r.undecided("xtime.JitterTicker.schedule|missing", token.NoPos, "anchor not found")
				return
			}
			for _, name := range []string{"xtime.JitterTicker.Reset", "xtime.NewJitterTicker"} {
				fn := c.fn(name)
				if fn == nil {
					r.undecided(name+"|missing", token.NoPos, "anchor not found")
					continue
				}
				pkg := fn.Pkg
				// t.locked(func() { ...; t.schedule() }) / t.locked(t.schedule): the bracket helper's parameter stands for
				// what this caller passes
				unbind := bindFuncParams(fn)
				pf := &PF{N: 2, InScope: func(f *ssa.Function) bool {
					return rootFn(origin(f)).Pkg == pkg && f.Blocks != nil && origin(f) != fn && origin(f) != sch
				}}
				pf.Instr = func(f *ssa.Function, in ssa.Instruction, q int) (StateSet, bool) {
					if call, ok := in.(*ssa.Call); ok {
						if cal := staticCallee(&call.Call); cal != nil && origin(cal) == sch {
							return ss(1), true
						}
					}
					return 0, false
				}
				n := 0
				for _, e := range pf.Exits(fn, ss(0)) {
					n++
					r.ok(e.States == ss(1), name+"|rearmed#"+itoa(n), retPos(e.Ret), "a path returns without having called schedule(): the timer armed for the previous period stays armed and its tick arrives on the old schedule")
				}
				if n == 0 {
					r.undecided(name+"|returns", fn.Pos(), "no return found")
				}
				unbind()
			}
		}})
})

// symDeref: symOf, with a leaf that names a field of a local struct variable which is assigned exactly once (tooSoon :=
// DeadlineTooSoonError{remaining: …, d: d}) replaced by the expression assigned to that field.
func symDeref(v ssa.Value, env provEnv) *sx {
	pv := valueProv(v, env)
	if al, ok := pv.root.(*ssa.Alloc); ok && len(pv.fields) == 1 {
		var val ssa.Value
		n := 0
		for _, ref := range refsOf(al) {
			fa, ok := ref.(*ssa.FieldAddr)
			if !ok || fieldName(fa.X.Type(), fa.Field) != pv.fields[0] {
				continue
			}
			for _, r2 := range refsOf(fa) {
				if st, ok := r2.(*ssa.Store); ok && st.Addr == ssa.Value(fa) {
					val = st.Val
					n++
				}
			}
		}
		if n == 1 {
			e2 := env
			e2.chain = pv.chain
			return symOf(val, e2)
		}
	}
	return symOf(v, env)
}

// periodRole: p is one of exactly two time.Duration parameters of its function: the first is the period d, the second the
// jitter (the order NewJitterTicker, Reset - and a schedule that is handed the period - share); "" otherwise.
func periodRole(p *ssa.Parameter) string {
	fn := p.Parent()
	if fn == nil {
		return ""
	}
	var durs []*ssa.Parameter
	for _, q := range fn.Params {
		if isNamedType(q.Type(), "time", "Duration") {
			if _, isPtr := q.Type().(*types.Pointer); !isPtr {
				durs = append(durs, q)
			}
		}
	}
	if len(durs) != 2 {
		return ""
	}
	switch p {
	case durs[0]:
		return "d"
	case durs[1]:
		return "jitter"
	}
	return ""
}

func isJitterParam(v ssa.Value) bool {
	p, ok := v.(*ssa.Parameter)
	return ok && periodRole(p) == "jitter"
}

// isTickerOwned: t is JitterTicker, or a struct type of the package that JitterTicker holds by value in one of its fields (a
// group of the ticker's fields moved into a small struct: armed armedTimer{gen, timer}) - such fields are the ticker's own.
func isTickerOwned(t types.Type) bool {
	if isNamedType(t, "xtime", "JitterTicker") {
		return true
	}
	nt, ok := derefType(t).(*types.Named)
	if !ok || curCtx == nil || nt.Obj().Pkg() == nil {
		return false
	}
	tn := curCtx.lookupType("xtime", "JitterTicker")
	if tn == nil || tn.Pkg() != nt.Obj().Pkg() {
		return false
	}
	st, ok := tn.Type().Underlying().(*types.Struct)
	if !ok {
		return false
	}
	for i := 0; i < st.NumFields(); i++ {
		if ft, ok := st.Field(i).Type().(*types.Named); ok && ft.Origin() == nt.Origin() {
			if _, isSt := ft.Underlying().(*types.Struct); isSt {
				return true
			}
		}
	}
	return false
}

// scheduleCalls: sch contains a static call of f.
func scheduleCalls(sch, f *ssa.Function) bool {
	if f == nil || f.Parent() != nil {
		return false
	}
	found := false
	instrs(sch, func(_ *ssa.BasicBlock, _ int, in ssa.Instruction) {
		if call, ok := in.(*ssa.Call); ok {
			if cal := call.Call.StaticCallee(); cal != nil && origin(cal) == origin(f) {
				found = true
			}
		}
	})
	return found
}
