package main

import (
	"go/constant"
	"go/token"
	"go/types"
	"sort"
	"strings"

	"golang.org/x/tools/go/ssa"
)

func init() {
	register(&Property{
		ID:    "C18",
		Title: "Watchable/Future/Lazy/xsync.Map: latest value always seen, typed map = sync.Map",
		Rules: []*Rule{
			{ID: "C18.assert-safe", Floor: 3, Clause: "every type assertion whose operand comes from a sync.Map result (or a Range callback argument) is in comma-ok form: a nil interface fails x.(V) for every V",
				Run: ruleAssertSafe},
			{ID: "C18.map-delegates", Floor: 9, Clause: "each typed Map method calls the same-named sync.Map method exactly once with its own parameters in order and returns sync.Map's ok/loaded result",
				Run: ruleMapDelegates},
			{ID: "C18.future-order", Floor: 4, Clause: "Future.Fill stores x before close(c); Wait/WaitContext read x only after a receive from c; NewFuture creates c",
				Run: ruleFutureOrder},
			{ID: "C18.watchable", Floor: 6, Clause: "Watchable.Set allocates a fresh channel per value, swaps it in, and closes the previous cell's channel exactly when a previous cell exists; Value installs its empty cell by CompareAndSwap(nil, ·) only, returns it only when the CAS succeeded and otherwise re-loads; both return t and c of one and the same cell",
				Run: ruleWatchable},
			{ID: "C18.lazy-once", Floor: 1, Clause: "Lazy never calls f itself: f is handed to sync.OnceValue, or called only inside once.Do - and then the accessor reads the value only after Do and tests a completion mark set after the value was stored, so that a panicking f is not turned into a silent zero value for later callers",
				Run: ruleLazyOnce},
		},
		NotCovered: []string{"that an observer loop eventually sees the final value (liveness)", "equality with sync.Map beyond delegation and zero-value-on-absent"},
		Trusted:    []string{"sync.Map, atomic.Pointer, sync.OnceValue semantics"},
	})
}

func fromSyncMap(v ssa.Value, fn *ssa.Function) (bool, string) {
	switch x := v.(type) {
	case *ssa.Extract:
		if call, ok := x.Tuple.(*ssa.Call); ok {
			if cal := call.Call.StaticCallee(); cal != nil && cal.Signature.Recv() != nil && isNamedType(cal.Signature.Recv().Type(), "sync", "Map") {
				return true, "sync.Map." + fname(cal)
			}
		}
	case *ssa.Call:
		if cal := x.Call.StaticCallee(); cal != nil && cal.Signature.Recv() != nil {
			if isNamedType(cal.Signature.Recv().Type(), "sync", "Map") {
				return true, "sync.Map." + fname(cal)
			}
			if isNamedType(cal.Signature.Recv().Type(), "sync", "Pool") {
				return true, "sync.Pool." + fname(cal)
			}
		}
	case *ssa.Parameter:
		// parameter of an in-package helper (typedOrZero(x any)) that is fed sync.Map results by its callers
		if fn.Parent() == nil && theCtx != nil {
			idx := -1
			for i, p := range fn.Params {
				if p == x {
					idx = i
				}
			}
			for _, site := range callSitesOf(theCtx, fn) {
				if idx >= 0 && idx < len(site.Call.Args) {
					if ok, src := fromSyncMap(resolveVal(site.Call.Args[idx]), site.Parent()); ok {
						return true, src + " (via " + fn.Name() + ")"
					}
				}
			}
		}
		// parameter of a closure handed to sync.Map.Range
		if fn.Parent() != nil {
			if mc := makeClosureOf(fn); mc != nil {
				if refs := mc.(*ssa.MakeClosure).Referrers(); refs != nil {
					for _, ref := range *refs {
						if call, ok := ref.(*ssa.Call); ok {
							if cal := call.Call.StaticCallee(); cal != nil && fname(cal) == "Range" && cal.Signature.Recv() != nil && isNamedType(cal.Signature.Recv().Type(), "sync", "Map") {
								return true, "sync.Map.Range callback"
							}
						}
					}
				}
			}
		}
	}
	return false, ""
}

var theCtx *Ctx

func ruleAssertSafe(c *Ctx, r *R) {
	theCtx = c
	for _, fn := range c.Funcs {
		if rootFn(fn).Pkg != c.SSA["xsync"] {
			continue
		}
		name := c.nameOf(fn)
		n := 0
		instrs(fn, func(b *ssa.BasicBlock, i int, in ssa.Instruction) {
			ta, ok := in.(*ssa.TypeAssert)
			if !ok {
				return
			}
			from, src := fromSyncMap(ta.X, fn)
			if !from {
				return
			}
			n++
			key := name + "|assert#" + itoa(n) + "|" + src
			if strings.HasPrefix(src, "sync.Pool") {
				if ta.CommaOk {
					r.discharged(key, ta.Pos(), "comma-ok")
				} else {
					r.excepted(key, ta.Pos(), "Pool.Get is outside C18's statement (Pool with a New func never yields an absent value); recorded, not claimed")
				}
				return
			}
			safe := ta.CommaOk
			if !safe {
				// x.(V) under x != nil, when every value the package ever puts into a sync.Map is a V made into an interface:
				// a non-nil interface out of the map then holds a V (for an interface-typed V: a value that implements it)
				nonNil := false
				for _, g := range guardsOf(b) {
					if cf, ok := g.asCmp(); ok && cf.op == token.NEQ && isNilConst(cf.y) && cf.x == ta.X {
						nonNil = true
					}
				}
				if nonNil && syncMapOnlyHoldsV(c) {
					safe = true
				}
			}
			r.ok(safe, key, ta.Pos(), "single-result assertion on a value from "+src+": it panics when the interface is nil (absent key, or a nil value stored under an interface-typed V) instead of reporting the zero value")
		})
	}
}

func ruleMapDelegates(c *Ctx, r *R) {
	meths := c.methodsOf("xsync", "Map")
	var names []string
	for n := range meths {
		names = append(names, n)
	}
	sort.Strings(names)
	for _, n := range names {
		fn := meths[n]
		if !token.IsExported(n) {
			continue // a helper of the wrappers (m.storeWith(op, key, value)), seen from the wrappers that use it
		}
		key := "xsync.Map." + n
		var calls []*ssa.Call
		var callChain []*ssa.Call
		var site ssa.Instruction
		// a shared helper that is handed the sync.Map method as a method expression: its func-typed parameter stands for that
		// method while this wrapper is analysed
		unbindOp := bindFuncParams(fn)
		for _, d := range deepInstrs(fn, 2) {
			if call, ok := d.in.(*ssa.Call); ok {
				if strings.HasSuffix(call.Parent().Name(), "$thunk") {
					continue // the body of a method expression: the same delegation, seen at the call of the parameter it is bound to
				}
				if cal := staticCallee(&call.Call); cal != nil && cal.Signature.Recv() != nil && isNamedType(cal.Signature.Recv().Type(), "sync", "Map") && cal.Pkg != nil && cal.Pkg.Pkg.Path() == "sync" {
					calls = append(calls, call)
					callChain = d.calls
					site = d.site
				}
			}
		}
		if len(calls) != 1 {
			unbindOp()
			r.violated(key, fn.Pos(), "must delegate to exactly one sync.Map call, found "+itoa(len(calls)))
			continue
		}
		call := calls[0]
		cal := staticCallee(&call.Call)
		unbindOp()
		good := fname(cal) == n
		why := "calls sync.Map." + fname(cal)
		// arguments: the method's own parameters (after the receiver), in order, through MakeInterface
		args := append([]ssa.Value{}, call.Call.Args[1:]...)
		for i := range args { // seen from the wrapper when the call sits in a helper
			v := args[i]
			if mi, ok := v.(*ssa.MakeInterface); ok {
				v = mi.X
			}
			if ct, ok := v.(*ssa.ChangeType); ok {
				v = ct.X
			}
			if len(callChain) > 0 {
				args[i] = argOf(v, callChain)
			}
		}
		if n == "Range" {
			good = good && len(args) == 1
		} else {
			ps := fn.Params[1:]
			if len(args) != len(ps) {
				good = false
				why = "argument count differs"
			} else {
				for i, a := range args {
					v := a
					if mi, ok := v.(*ssa.MakeInterface); ok {
						v = mi.X
					}
					if ct, ok := v.(*ssa.ChangeType); ok {
						v = ct.X
					}
					if v != ssa.Value(ps[i]) {
						good = false
						why = "argument " + itoa(i) + " is " + path(a) + ", not parameter " + ps[i].Name()
					}
				}
			}
		}
		// no answer without asking sync.Map: the delegating call precedes every return (a shortcut such as "old == new, nothing
		// to do" answers true where sync.Map answers false for an absent key)
		instrs(fn, func(b *ssa.BasicBlock, i int, in ssa.Instruction) {
			if _, ok := in.(*ssa.Return); ok && site != nil && b != site.Block() && !site.Block().Dominates(b) {
				good = false
				why = "a path returns without having called sync.Map." + n
			}
		})
		// the bool result returned is sync.Map's own (on the path where it is not a constant)
		if fn.Signature.Results().Len() >= 1 {
			last := fn.Signature.Results().Len() - 1
			if b, ok := fn.Signature.Results().At(last).Type().Underlying().(interface{ Kind() interface{} }); ok {
				_ = b
			}
			okBool := false
			constOnly := true
			contradicts := false
			instrs(fn, func(b *ssa.BasicBlock, i int, in ssa.Instruction) {
				ret, ok := in.(*ssa.Return)
				if !ok || len(ret.Results) == 0 {
					return
				}
				for _, lf := range valueLeaves(returnedValue(ret, len(ret.Results)-1), nil, 0) {
					res := lf.v
					if k, isC := res.(*ssa.Const); isC {
						// `return typed, true` on a path where sync.Map's own ok is known to be true IS sync.Map's answer
						if k.Value != nil && k.Value.Kind() == constant.Bool {
							for _, g := range guardsOf(b) {
								cond, val := g.cond, g.val
								for {
									u, isU := cond.(*ssa.UnOp)
									if !isU || u.Op != token.NOT {
										break
									}
									cond, val = u.X, !val
								}
								if ex, ok := resolveVal(cond).(*ssa.Extract); ok && ex.Tuple == ssa.Value(call) {
									if val == constant.BoolVal(k.Value) {
										okBool = true
										constOnly = false
									} else {
										contradicts = true
									}
								}
							}
						}
						continue
					}
					constOnly = false
					if ex, ok := res.(*ssa.Extract); ok && ex.Tuple == ssa.Value(call) {
						okBool = true
					}
					if te, ok := res.(*tupleElem); ok && te.tuple == ssa.Value(call) && te.idx == call.Type().(*types.Tuple).Len()-1 {
						okBool = true
					}
					if res == ssa.Value(call) {
						okBool = true
					}
				}
			})
			if !okBool && !constOnly && fn.Signature.Results().Len() == 2 {
				good = false
				why = "the ok/loaded result is not the one sync.Map returned"
			}
			if contradicts && fn.Signature.Results().Len() == 2 {
				good = false
				why = "a path on which sync.Map's ok/loaded is known returns the opposite constant"
			}
			if constOnly && fn.Signature.Results().Len() == 2 {
				// e.g. `return value_.(V), true`: fine only under the matching guard; require at least one non-constant return
				good = false
				why = "ok/loaded is returned as a constant on every path"
			}
		}
		r.ok(good, key, fn.Pos(), "typed wrapper must forward to the same-named sync.Map method with its parameters in order: "+why)
	}
}

func ruleFutureOrder(c *Ctx, r *R) {
	fill := c.fn("xsync.Future.Fill")
	if fill == nil {
		r.undecided("xsync.Future.Fill|missing", token.NoPos, "anchor not found")
		return
	}
	var st, cl ssa.Instruction
	var deferredClose *ssa.Defer
	instrs(fill, func(b *ssa.BasicBlock, i int, in ssa.Instruction) {
		switch x := in.(type) {
		case *ssa.Store:
			if _, f, ok := storedField(x.Addr); ok && f == "x" && x.Val == ssa.Value(fill.Params[1]) {
				st = x
			}
		case *ssa.Call:
			if bi, ok := x.Call.Value.(*ssa.Builtin); ok && bi.Name() == "close" && fieldOfChan(x.Call.Args[0]) == "c" {
				cl = x
			}
		case *ssa.Defer:
			// defer close(f.c), registered first thing: the close is the last thing Fill does, after the store
			if bi, ok := x.Call.Value.(*ssa.Builtin); ok && bi.Name() == "close" && fieldOfChan(x.Call.Args[0]) == "c" && b == fill.Blocks[0] {
				deferredClose = x
			}
		}
	})
	if cl == nil && deferredClose != nil && st != nil && st.Block() == fill.Blocks[0] {
		nDefers := 0
		instrs(fill, func(_ *ssa.BasicBlock, _ int, in ssa.Instruction) {
			if _, ok := in.(*ssa.Defer); ok {
				nDefers++
			}
		})
		r.ok(nDefers == 1, "xsync.Future.Fill|store-then-close", fill.Pos(), "Fill must store x (the parameter) and then close(c), unconditionally: with several deferred calls the close is not known to be the last of them")
		cl = nil
		goto readers
	}
	if cl == nil {
		// close through a helper of the channel (`f.c.release()`): the helper closes its argument unconditionally (in its
		// entry block); the closing instruction of Fill is then the call of the helper
		for _, di := range deepInstrs(fill, 2) {
			x, ok := di.in.(*ssa.Call)
			if !ok || len(di.calls) == 0 || di.calls[0].Parent() != fill {
				continue
			}
			if bi, ok := x.Call.Value.(*ssa.Builtin); ok && bi.Name() == "close" && fieldOfChan(argOf(x.Call.Args[0], di.calls)) == "c" {
				uncond := x.Block() == x.Parent().Blocks[0]
				for _, h := range di.calls[1:] {
					if h.Block() != h.Parent().Blocks[0] {
						uncond = false
					}
				}
				if uncond {
					cl = di.calls[0]
				}
			}
		}
	}
	r.ok(st != nil && cl != nil && st.Block() == cl.Block() && idxIn(st) < idxIn(cl) && st.Block() == fill.Blocks[0], "xsync.Future.Fill|store-then-close", fill.Pos(), "Fill must store x (the parameter) and then close(c), unconditionally: waiters read x right after the close")
readers:
	for _, name := range []string{"xsync.Future.Wait", "xsync.Future.WaitContext"} {
		fn := c.fn(name)
		if fn == nil {
			r.undecided(name+"|missing", token.NoPos, "anchor not found")
			continue
		}
		// typestate: 0 = no receive from f.c observed yet, 1 = observed (directly, in a select arm, or inside a helper that
		// reports it through its boolean result)
		pkgOf := fn.Pkg
		unbind := bindChanParams(fn) // a shared select helper sees this function's channels (readyBeforeDone(done, f.c))
		pf := &PF{N: 2, InScope: func(f *ssa.Function) bool {
			return (rootFn(origin(f)).Pkg == pkgOf || ctxBlockingHelper(c, origin(f))) && f.Blocks != nil && origin(f) != fn
		}}
		isC := func(ch ssa.Value) bool { return fieldOfChan(ch) == "c" }
		pf.Instr = func(f *ssa.Function, in ssa.Instruction, q int) (StateSet, bool) {
			if u, ok := in.(*ssa.UnOp); ok && u.Op == token.ARROW && isC(u.X) {
				return ss(1), true
			}
			return 0, false
		}
		pf.Edge = func(f *ssa.Function, g guard, q int) (StateSet, bool) {
			cf, ok := g.asCmp()
			if !ok || cf.op != token.EQL {
				return 0, false
			}
			ex, ok := cf.x.(*ssa.Extract)
			if !ok || ex.Index != 0 {
				return 0, false
			}
			sel, ok := ex.Tuple.(*ssa.Select)
			k, isK := cf.y.(*ssa.Const)
			if !ok || !isK || k.Value == nil {
				return 0, false
			}
			idx := int(k.Int64())
			if idx >= 0 && idx < len(sel.States) && sel.States[idx].Dir == types.RecvOnly && isC(sel.States[idx].Chan) {
				return ss(1), true
			}
			// an arm on a channel parameter that this caller binds to nil (f.await(nil)) is never taken
			if idx >= 0 && idx < len(sel.States) {
				if prm, ok := sel.States[idx].Chan.(*ssa.Parameter); ok {
					if b, bound := chanParamBinding[prm]; bound && isNilConst(b) {
						return 0, true
					}
				}
			}
			return 0, false
		}
		before := map[ssa.Instruction]StateSet{}
		pf.Visit = func(f *ssa.Function, in ssa.Instruction, s StateSet) { before[in] = s }
		pf.Exits(fn, ss(0))
		unbind()
		n := 0
		instrs(fn, func(b *ssa.BasicBlock, i int, in ssa.Instruction) {
			ld, ok := in.(*ssa.UnOp)
			if !ok || ld.Op != token.MUL {
				return
			}
			fa, ok := ld.X.(*ssa.FieldAddr)
			if !ok || fieldName(fa.X.Type(), fa.Field) != "x" {
				return
			}
			n++
			st, seen := before[in]
			after := seen && !st.has(0)
			r.ok(after, name+"|read-x-after-recv#"+itoa(n), ld.Pos(), "f.x may be read only after a receive from f.c (happens-after Fill's close)")
			// and the value read is what is returned
			retd := false
			for _, ref := range *ld.Referrers() {
				if ret, ok := ref.(*ssa.Return); ok && returnedValue(ret, 0) == ssa.Value(ld) {
					retd = true
				}
				// carried to a single exit in the named result (value = f.x in the arm, one `return value, err` after the
				// select): the merge that is returned, with a nil error arriving over the same edge
				phi, isPhi := ref.(*ssa.Phi)
				if !isPhi || phi.Referrers() == nil {
					continue
				}
				for _, r2 := range *phi.Referrers() {
					ret, ok := r2.(*ssa.Return)
					if !ok || len(ret.Results) != 2 || returnedValue(ret, 0) != ssa.Value(phi) {
						continue
					}
					ep, isEP := returnedValue(ret, 1).(*ssa.Phi)
					for i, e := range phi.Edges {
						if e != ssa.Value(ld) {
							continue
						}
						if isEP && ep.Block() == phi.Block() && i < len(ep.Edges) && isNilConst(ep.Edges[i]) {
							retd = true
						}
						if !isEP && isNilConst(returnedValue(ret, 1)) {
							retd = true
						}
					}
				}
			}
			r.ok(retd, name+"|returns-x#"+itoa(n), ld.Pos(), "the value delivered must be the filled x")
		})
		if n == 0 {
			// Wait written as WaitContext under a context that is never done: the read is WaitContext's (decided there)
			delegated := false
			if wc := c.fn("xsync.Future.WaitContext"); wc != nil && wc != fn {
				instrs(fn, func(b *ssa.BasicBlock, i int, in ssa.Instruction) {
					ret, ok := in.(*ssa.Return)
					if !ok || len(ret.Results) != 1 {
						return
					}
					ex, ok := returnedValue(ret, 0).(*ssa.Extract)
					if !ok || ex.Index != 0 {
						return
					}
					call, ok := ex.Tuple.(*ssa.Call)
					if !ok || staticCallee(&call.Call) != wc || len(call.Call.Args) != 2 {
						return
					}
					if bg, ok := call.Call.Args[1].(*ssa.Call); ok {
						if cal := bg.Call.StaticCallee(); cal != nil && cal.Pkg != nil && cal.Pkg.Pkg.Path() == "context" && (cal.Name() == "Background" || cal.Name() == "TODO") {
							delegated = true
						}
					}
				})
			}
			// WaitContext handing over to Wait once the receive from f.c has been observed (return f.Wait(), nil): the read
			// is Wait's own (which must then read x itself, not delegate back)
			if wt := c.fn("xsync.Future.Wait"); wt != nil && wt != fn && !delegated {
				readsX := false
				instrs(wt, func(_ *ssa.BasicBlock, _ int, in ssa.Instruction) {
					if ld, ok := in.(*ssa.UnOp); ok && ld.Op == token.MUL {
						if fa, ok := ld.X.(*ssa.FieldAddr); ok && fieldName(fa.X.Type(), fa.Field) == "x" {
							readsX = true
						}
					}
				})
				instrs(fn, func(_ *ssa.BasicBlock, _ int, in ssa.Instruction) {
					ret, ok := in.(*ssa.Return)
					if !ok || len(ret.Results) == 0 {
						return
					}
					call, ok := returnedValue(ret, 0).(*ssa.Call)
					if !ok || staticCallee(&call.Call) != origin(wt) || len(call.Call.Args) != 1 || len(fn.Params) == 0 || resolveVal(call.Call.Args[0]) != ssa.Value(fn.Params[0]) {
						return
					}
					if stt, seen := before[call]; seen && !stt.has(0) && readsX {
						delegated = true
					}
				})
			}
			r.ok(delegated, name+"|read-x", fn.Pos(), "the filled value is never read (nor obtained from WaitContext under a context that is never done)")
		}
	}
	nf := c.fn("xsync.NewFuture")
	okMk := false
	if nf != nil {
		instrs(nf, func(b *ssa.BasicBlock, i int, in ssa.Instruction) {
			if st, ok := in.(*ssa.Store); ok {
				if _, f, ok := storedField(st.Addr); ok && f == "c" {
					if mc, ok := st.Val.(*ssa.MakeChan); ok && isConstInt(mc.Size, 0) {
						okMk = true
					}
				}
			}
		})
	}
	r.ok(okMk, "xsync.NewFuture|makes-c", token.NoPos, "NewFuture must create the channel that Fill closes")
}

func ruleWatchable(c *Ctx, r *R) {
	set := c.fn("xsync.Watchable.Set")
	val := c.fn("xsync.Watchable.Value")
	if set == nil || val == nil {
		r.undecided("xsync.Watchable|missing", token.NoPos, "anchor not found")
		return
	}
	// Set: new cell with t = param and c = fresh MakeChan (possibly built by a constructor helper); Swap; close(old.c) iff old != nil
	var swap *ssa.Call
	var swapArgs []ssa.Value
	instrs(set, func(b *ssa.BasicBlock, i int, in ssa.Instruction) {
		if x, ok := in.(*ssa.Call); ok {
			if op, args, ok := atomicPtrOp(x); ok && op == "Swap" {
				swap, swapArgs = x, args
			}
		}
	})
	okT, okC, okSwap := false, false, false
	if swap != nil && len(swapArgs) == 2 {
		arg := swapArgs[1]
		var helperCall *ssa.Call
		if hc, ok := resolveVal(arg).(*ssa.Call); ok {
			helperCall = hc
		}
		for _, v := range throughHelper(arg) {
			al, ok := v.(*ssa.Alloc)
			if !ok {
				continue
			}
			okSwap = true
			for _, ref := range refsOf(al) {
				fa, ok := ref.(*ssa.FieldAddr)
				if !ok {
					continue
				}
				for _, r2 := range refsOf(fa) {
					st, ok := r2.(*ssa.Store)
					if !ok {
						continue
					}
					switch fieldName(fa.X.Type(), fa.Field) {
					case "t":
						val := st.Val
						if helperCall != nil {
							val = argOf(val, []*ssa.Call{helperCall})
						}
						if val == ssa.Value(set.Params[1]) {
							okT = true
						}
					case "c":
						if _, ok := st.Val.(*ssa.MakeChan); ok {
							okC = true
						}
					default:
						// the channel lives in a small struct of its own embedded in the cell (changeSignal: newChangeSignal()): a
						// channel field of that value which is freshly made
						if stt, isSt := st.Val.Type().Underlying().(*types.Struct); isSt {
							for fi := 0; fi < stt.NumFields(); fi++ {
								if _, isCh := stt.Field(fi).Type().Underlying().(*types.Chan); !isCh {
									continue
								}
								for _, lf := range structFieldLeaves(st.Val, fi, nil, 0, false) {
									if _, isMk := lf.v.(*ssa.MakeChan); isMk {
										okC = true
									}
								}
							}
						}
					}
				}
			}
		}
	}
	r.ok(okT && okC, "xsync.Watchable.Set|fresh-cell", set.Pos(), "Set must build a new cell holding the new value and a freshly made channel")
	r.ok(okSwap, "xsync.Watchable.Set|swaps-new-cell", set.Pos(), "Set must atomically Swap the new cell in (so exactly one Set observes each previous cell)")
	nClose := 0
	for _, d := range deepInstrs(set, 2) {
		call, ok := d.in.(*ssa.Call)
		if !ok {
			continue
		}
		bi, ok := call.Call.Value.(*ssa.Builtin)
		if !ok || bi.Name() != "close" {
			continue
		}
		nClose++
		// operand is old.c where old is the Swap result; guarded by old != nil (here or in the helper that closes)
		env := provEnv{chain: d.calls}
		pv := valueProv(call.Call.Args[0], env)
		okOld := swap != nil && pv.root == ssa.Value(swap) && len(pv.fields) == 1 && pv.fields[0] == "c"
		guarded := false
		frames := append([]ssa.Instruction{}, d.in)
		for _, cc := range d.calls {
			frames = append(frames, cc)
		}
		for fi, in := range frames {
			chain := d.calls
			if fi > 0 {
				chain = d.calls[:fi-1]
			}
			for _, g := range guardsOf(in.Block()) {
				if cf, ok := g.asCmp(); ok && cf.op == token.NEQ && isNilConst(cf.y) {
					if gv := valueProv(cf.x, provEnv{chain: chain}); swap != nil && gv.root == ssa.Value(swap) && len(gv.fields) == 0 {
						guarded = true
					}
				}
			}
		}
		r.ok(okOld && guarded, "xsync.Watchable.Set|closes-previous", call.Pos(), "Set must close the channel of exactly the cell it replaced, when there was one")
	}
	if nClose != 1 {
		r.violated("xsync.Watchable.Set|closes-previous", set.Pos(), "expected exactly one close in Set, found "+itoa(nClose))
	}
	// the close must be reached whenever old != nil: its block is the true successor of the old != nil test (no further condition)
	// Value
	var cas *ssa.Call
	var casArgs []ssa.Value
	var empty ssa.Value
	unbind := bindFuncParams(val)
	defer unbind()
	for _, d := range deepInstrs(val, 2) {
		if call, ok := d.in.(*ssa.Call); ok {
			if len(d.calls) > 0 {
				if _, _, thin := atomicPtrOp(d.calls[len(d.calls)-1]); thin {
					continue // the inside of a thin accessor: judged at the accessor's call
				}
			}
			if op, args, ok := atomicPtrOp(call); ok && op == "CompareAndSwap" && len(args) == 3 {
				cas, casArgs = call, args
				if al, ok := args[2].(*ssa.Alloc); ok {
					empty = al
				} else if bc, ok := args[2].(*ssa.Call); ok && staticCallee(&bc.Call) != nil {
					// built by the constructor literal the caller hands to a generic install helper (loadOrInit(&w.p, func()
					// *inner { return &inner{c: make(chan struct{})} })): the call's result is that literal's fresh object
					if _, isParam := bc.Call.Value.(*ssa.Parameter); isParam {
						lit := staticCallee(&bc.Call)
						nRet, fresh := 0, false
						instrs(lit, func(_ *ssa.BasicBlock, _ int, in ssa.Instruction) {
							if rt, ok := in.(*ssa.Return); ok {
								nRet++
								if len(rt.Results) == 1 {
									if al, ok := rt.Results[0].(*ssa.Alloc); ok && al.Heap {
										fresh = true
									}
								}
							}
						})
						if nRet == 1 && fresh && lit.Parent() == val {
							empty = bc
						}
					}
				}
			}
		}
	}
	if cas == nil || empty == nil {
		r.violated("xsync.Watchable.Value|cas", val.Pos(), "Value must install its placeholder with CompareAndSwap")
		return
	}
	r.ok(isNilConst(casArgs[1]), "xsync.Watchable.Value|cas-from-nil", cas.Pos(), "the placeholder may replace only nil: any other old value would smash a real Set")
	// the CAS is attempted only when Load() returned nil
	loadNil := false
	for _, g := range guardsOf(cas.Block()) {
		if cf, ok := g.asCmp(); ok && cf.op == token.EQL && isNilConst(cf.y) {
			if lc, ok := cf.x.(*ssa.Call); ok && isAtomicPtrLoad(lc) {
				loadNil = true
			}
		}
	}
	r.ok(loadNil, "xsync.Watchable.Value|cas-only-when-empty", cas.Pos(), "the placeholder path must be taken only when Load() returned nil")
	// every return: (t, c) from one cell; the placeholder (its channel) may be returned only where the CAS succeeded; any
	// other cell comes from an atomic Load. Cells may travel through a helper's result and merges.
	casOK := func(b *ssa.BasicBlock) bool {
		for _, g := range guardsOf(b) {
			if v, vv := g.boolVal(); v == ssa.Value(cas) && vv {
				return true
			}
		}
		return false
	}
	// cellLeaves: where can the cell pointer v (used in block b) come from?  each leaf with the block it is produced/selected in
	type leaf struct {
		v ssa.Value
		b *ssa.BasicBlock
	}
	var leaves func(v ssa.Value, b *ssa.BasicBlock, d int) []leaf
	leaves = func(v ssa.Value, b *ssa.BasicBlock, d int) []leaf {
		if d > 5 || v == empty {
			return []leaf{{v, b}}
		}
		switch x := v.(type) {
		case *ssa.Phi:
			var out []leaf
			for i, e := range x.Edges {
				out = append(out, leaves(e, x.Block().Preds[i], d+1)...)
			}
			return out
		case *ssa.Call:
			if cal := staticCallee(&x.Call); cal != nil && cal.Blocks != nil && !isAtomicPtrLoad(x) {
				var out []leaf
				instrs(cal, func(bb *ssa.BasicBlock, i int, in ssa.Instruction) {
					if ret, ok := in.(*ssa.Return); ok && len(ret.Results) == 1 {
						out = append(out, leaves(returnedValue(ret, 0), bb, d+1)...)
					}
				})
				if len(out) > 0 {
					return out
				}
			}
		}
		return []leaf{{v, b}}
	}
	n := 0
	sawPlaceholder, sawLoaded := false, false
	instrs(val, func(b *ssa.BasicBlock, i int, in ssa.Instruction) {
		ret, ok := in.(*ssa.Return)
		if !ok || len(ret.Results) != 2 {
			return
		}
		// `return w.Value()`: a retry from the top; decided at the returns it ends in
		if e0, ok := returnedValue(ret, 0).(*ssa.Extract); ok {
			if e1, ok := returnedValue(ret, 1).(*ssa.Extract); ok && e0.Tuple == e1.Tuple && e0.Index == 0 && e1.Index == 1 {
				if call, ok := e0.Tuple.(*ssa.Call); ok && staticCallee(&call.Call) == val {
					return
				}
			}
		}
		n++
		key := "xsync.Watchable.Value|return#" + itoa(n)
		chv := returnedValue(ret, 1)
		// the placeholder's channel returned directly (the MakeChan stored into it, or its field)
		if fld, isF := chv.(*ssa.Field); isF {
			// signal := newChangeSignal(); emptyInner := &watchableInner[T]{changeSignal: signal}; … return zero, signal.c
			for _, lf := range structFieldLeaves(fld.X, fld.Field, nil, 0, false) {
				if mk, isMk := lf.v.(*ssa.MakeChan); isMk {
					chv = mk
				}
			}
		}
		if _, isMk := chv.(*ssa.MakeChan); !isMk {
			if ld, isLd := chv.(*ssa.UnOp); isLd && ld.Op == token.MUL {
				if fa, isFA := ld.X.(*ssa.FieldAddr); isFA {
					if al, isAl := fa.X.(*ssa.Alloc); isAl && !al.Heap {
						ls := valueLeaves(chv, nil, 0)
						if len(ls) == 1 {
							if mk, isMk := ls[0].v.(*ssa.MakeChan); isMk {
								chv = mk
							}
						}
					}
				}
			}
		}
		if _, ok := chv.(*ssa.MakeChan); ok {
			sawPlaceholder = true
			r.ok(casOK(b), key, retPos(ret), "the placeholder's channel may be returned only when the CompareAndSwap succeeded; otherwise no Set will ever close it and the observer blocks forever on a stale value")
			return
		}
		// the cell a returned value is a field of: `inner.t`, or result #k of an accessor of the cell (`inner.snapshot()`)
		// whose only return reads a field of its receiver / parameter
		fieldBase := func(v ssa.Value) ssa.Value {
			if ld, ok := v.(*ssa.UnOp); ok {
				if fa, ok := ld.X.(*ssa.FieldAddr); ok {
					// inner.c through an embedded struct (inner.changeSignal.c): the cell is the outermost base
					base := fa.X
					for {
						hop, isHop := base.(*ssa.FieldAddr)
						if !isHop || !isPromotedHop(hop.X.Type(), hop.Field) {
							break
						}
						base = hop.X
					}
					return base
				}
			}
			ex, ok := v.(*ssa.Extract)
			if !ok {
				return nil
			}
			call, ok := ex.Tuple.(*ssa.Call)
			if !ok {
				return nil
			}
			cal := staticCallee(&call.Call)
			if cal == nil || cal.Blocks == nil || !c.inModule(cal) {
				return nil
			}
			var base ssa.Value
			nRet := 0
			instrs(cal, func(_ *ssa.BasicBlock, _ int, in ssa.Instruction) {
				rt, ok := in.(*ssa.Return)
				if !ok {
					return
				}
				nRet++
				if ex.Index >= len(rt.Results) {
					return
				}
				if ld, ok := returnedValue(rt, ex.Index).(*ssa.UnOp); ok {
					if fa, ok := ld.X.(*ssa.FieldAddr); ok {
						if prm, ok := fa.X.(*ssa.Parameter); ok {
							for k, q := range cal.Params {
								if q == prm && k < len(call.Call.Args) {
									base = call.Call.Args[k]
								}
							}
						}
					}
				}
			})
			if nRet != 1 {
				return nil
			}
			return base
		}
		baseT, baseC := fieldBase(returnedValue(ret, 0)), fieldBase(chv)
		if baseC == empty {
			sawPlaceholder = true
			r.ok(casOK(b), key, retPos(ret), "the placeholder's channel may be returned only when the CompareAndSwap succeeded; otherwise no Set will ever close it and the observer blocks forever on a stale value")
			return
		}
		same := baseT != nil && baseT == baseC
		good := same
		why := "value and channel are not read from one and the same cell"
		if same {
			for _, lf := range leaves(baseT, b, 0) {
				if _, isAl := lf.v.(*ssa.Alloc); !isAl && lf.v == empty {
					sawPlaceholder = true
					if !casOK(lf.b) {
						good, why = false, "the placeholder is handed out on a path where the CompareAndSwap did not succeed: no Set will ever close its channel and the observer blocks forever on a stale value"
					}
					continue
				}
				switch x := lf.v.(type) {
				case *ssa.Call:
					if isAtomicPtrLoad(x) {
						sawLoaded = true
						continue
					}
					good, why = false, "the cell comes from "+calleeName(&x.Call)+", not from an atomic Load"
				case *ssa.Alloc:
					if ssa.Value(x) == empty {
						sawPlaceholder = true
						if !casOK(lf.b) {
							good, why = false, "the placeholder is handed out on a path where the CompareAndSwap did not succeed: no Set will ever close its channel and the observer blocks forever on a stale value"
						}
						continue
					}
					good, why = false, "the cell is a local object that was never published"
				default:
					good, why = false, "cannot tell where the cell "+path(lf.v)+" comes from"
				}
			}
		}
		r.ok(good, key, retPos(ret), "value and channel must be read from one and the same atomically loaded cell (after a failed CAS: from a fresh Load), or from the placeholder where its CAS succeeded: "+why)
	})
	if !(sawPlaceholder && sawLoaded) {
		r.violated("xsync.Watchable.Value|returns", val.Pos(), "expected a placeholder return and a loaded-cell return")
	} else {
		r.discharged("xsync.Watchable.Value|returns", val.Pos(), "both the placeholder and a loaded cell can be returned")
	}
}

func ruleLazyOnce(c *Ctx, r *R) {
	fn := c.fn("xsync.Lazy")
	if fn == nil {
		r.undecided("xsync.Lazy|missing", token.NoPos, "anchor not found")
		return
	}
	f := fn.Params[0]
	good := true
	why := ""
	handed := false
	for _, g := range withAnon(fn) {
		instrs(g, func(b *ssa.BasicBlock, i int, in ssa.Instruction) {
			call, ok := in.(*ssa.Call)
			if !ok {
				return
			}
			if call.Call.Value == ssa.Value(f) || (g != fn && path(call.Call.Value) == f.Name()) {
				// direct call of f: allowed only inside a closure handed to once.Do
				inOnce := false
				if mc := makeClosureOf(g); mc != nil {
					for _, ref := range *mc.(*ssa.MakeClosure).Referrers() {
						if oc, ok := ref.(*ssa.Call); ok {
							if cal := oc.Call.StaticCallee(); cal != nil && fname(cal) == "Do" && isNamedType(cal.Signature.Recv().Type(), "sync", "Once") {
								inOnce = true
							}
						}
					}
				}
				if !inOnce {
					good = false
					why = "f is called outside once.Do"
				} else {
					handed = true
				}
			}
			if isCallTo(&call.Call, "sync", "", "OnceValue") || isCallTo(&call.Call, "sync", "", "OnceValues") {
				for _, a := range call.Call.Args {
					if a == ssa.Value(f) {
						handed = true
					}
				}
			}
		})
	}
	r.ok(good && handed, "xsync.Lazy|once", fn.Pos(), "f must run at most once: "+why)
	// hand-written variant: the accessor reads the cached value only after once.Do returned, or under a 'done' flag that the
	// once-closure sets AFTER it stored the value (a flag raised before f() lets a concurrent caller return the zero value)
	var onceClo *ssa.Function
	var valCell *ssa.Alloc
	for _, g := range withAnon(fn) {
		if g == fn {
			continue
		}
		instrs(g, func(b *ssa.BasicBlock, i int, in ssa.Instruction) {
			st, ok := in.(*ssa.Store)
			if !ok {
				return
			}
			if call, ok := st.Val.(*ssa.Call); ok && (call.Call.Value == ssa.Value(f) || path(call.Call.Value) == pname(f)) {
				if cell := cellOf(st.Addr); cell != nil {
					onceClo, valCell = g, cell
				}
			}
		})
	}
	if onceClo == nil || valCell == nil {
		return // sync.OnceValue variant: nothing to check here
	}
	// a panicking f: sync.Once is done after the first Do whatever happened inside it, so with a bare `once.Do(func() { val =
	// f() }); return val` every caller after the one that saw the panic silently gets the zero value - a result f never
	// produced (sync.OnceValue re-panics for every caller). The hand-written variant needs a completion mark: a captured
	// variable other than the value, written in the once-closure after the value was stored (or in a deferred function of
	// it), that the accessor tests before it answers.
	marks := map[*ssa.Alloc]bool{}
	var valStore ssa.Instruction
	instrs(onceClo, func(_ *ssa.BasicBlock, _ int, in ssa.Instruction) {
		if st, ok := in.(*ssa.Store); ok && cellOf(st.Addr) == valCell {
			valStore = st
		}
	})
	for _, g := range withAnon(onceClo) {
		instrs(g, func(_ *ssa.BasicBlock, _ int, in ssa.Instruction) {
			var cell *ssa.Alloc
			switch x := in.(type) {
			case *ssa.Store:
				cell = cellOf(x.Addr)
			case *ssa.Call:
				if cal := x.Call.StaticCallee(); cal != nil && cal.Name() == "Store" && len(x.Call.Args) > 0 {
					cell = cellOf(x.Call.Args[0])
				}
			}
			if cell == nil || cell == valCell || rootFn(cell.Parent()) != fn {
				return
			}
			if g != onceClo {
				marks[cell] = true // written by a deferred / nested function of the once-closure
				return
			}
			if valStore != nil && ((valStore.Block() == in.Block() && idxIn(valStore) < idxIn(in)) || (valStore.Block() != in.Block() && valStore.Block().Dominates(in.Block()))) {
				marks[cell] = true
			}
		})
	}
	tested := false
	for _, g := range withAnon(fn) {
		if g == fn || g == onceClo || g.Parent() == onceClo {
			continue
		}
		instrs(g, func(_ *ssa.BasicBlock, _ int, in ssa.Instruction) {
			iff, ok := in.(*ssa.If)
			if !ok {
				return
			}
			var dep func(v ssa.Value, d int) bool
			dep = func(v ssa.Value, d int) bool {
				if d > 6 {
					return false
				}
				switch x := v.(type) {
				case *ssa.UnOp:
					if x.Op == token.MUL {
						if cell := cellOf(x.X); cell != nil && marks[cell] {
							return true
						}
						return false
					}
					return dep(x.X, d+1)
				case *ssa.BinOp:
					return dep(x.X, d+1) || dep(x.Y, d+1)
				case *ssa.Call:
					for _, a := range x.Call.Args {
						if cell := cellOf(a); cell != nil && marks[cell] {
							return true
						}
					}
				}
				return false
			}
			if dep(iff.Cond, 0) {
				tested = true
			}
		})
	}
	r.ok(tested, "xsync.Lazy|panic-safe", fn.Pos(), "hand-written once: when f panics sync.Once is done but the value was never assigned, and every later caller gets the zero value - which f never produced - instead of the panic (sync.OnceValue re-panics for each caller); the accessor must test a completion mark that the once-closure sets after storing the value")
	for _, g := range withAnon(fn) {
		if g == fn || g == onceClo {
			continue
		}
		n := 0
		instrs(g, func(b *ssa.BasicBlock, i int, in ssa.Instruction) {
			ld, ok := in.(*ssa.UnOp)
			if !ok || ld.Op != token.MUL || cellOf(ld.X) != valCell {
				return
			}
			n++
			after := false
			instrs(g, func(b2 *ssa.BasicBlock, j int, in2 ssa.Instruction) {
				if oc, ok := in2.(*ssa.Call); ok {
					if cal := oc.Call.StaticCallee(); cal != nil && cal.Name() == "Do" && cal.Signature.Recv() != nil && isNamedType(cal.Signature.Recv().Type(), "sync", "Once") {
						if (b2 == b && j < i) || (b2 != b && b2.Dominates(b)) {
							after = true
						}
					}
				}
			})
			if !after {
				// under a flag that is raised after the value was stored
				for _, gd := range guardsOf(b) {
					v, val := gd.boolVal()
					fc, ok := v.(*ssa.Call)
					if !ok || !val || fc.Call.StaticCallee() == nil || fc.Call.StaticCallee().Name() != "Load" || len(fc.Call.Args) == 0 {
						continue
					}
					flag := cellOf(fc.Call.Args[0])
					if flag == nil {
						continue
					}
					// in the once-closure: Store(true) on that flag after the store of the value, same block or dominated
					var valSt, flagSt ssa.Instruction
					instrs(onceClo, func(b3 *ssa.BasicBlock, k int, in3 ssa.Instruction) {
						if st, ok := in3.(*ssa.Store); ok && cellOf(st.Addr) == valCell {
							valSt = st
						}
						if sc, ok := in3.(*ssa.Call); ok && sc.Call.StaticCallee() != nil && sc.Call.StaticCallee().Name() == "Store" && len(sc.Call.Args) > 0 && cellOf(sc.Call.Args[0]) == flag {
							flagSt = sc
						}
					})
					if valSt != nil && flagSt != nil && ((valSt.Block() == flagSt.Block() && idxIn(valSt) < idxIn(flagSt)) || (valSt.Block() != flagSt.Block() && valSt.Block().Dominates(flagSt.Block()))) {
						after = true
					}
				}
			}
			r.ok(after, "xsync.Lazy|read-after-init#"+itoa(n), ld.Pos(), "the cached value is read on a path that neither follows once.Do nor is guarded by a flag raised after the value was stored: a caller that overlaps the first initialisation gets the zero value")
		})
	}
}

// C18.range-forwards: xsync.Map.Range hands every entry sync.Map.Range visits to f - the key and the value it was given,
// converted back to K and V - and returns what f returns. Re-reading the value with Load and skipping the entry when the
// re-read fails drops entries whose key cannot be looked up again (a NaN key), which sync.Map.Range visits.
var _ = late(func() {
	p := properties["C18"]
	p.Rules = append(p.Rules, &Rule{ID: "C18.range-forwards", Floor: 3, Clause: "the callback xsync.Map.Range gives to sync.Map.Range calls f exactly once on every path, with its own key and value parameters (type-asserted), and returns f's result: no entry is skipped and no value is substituted",
		Run: func(c *Ctx, r *R) {
			fn := c.fn("xsync.Map.Range")
			if fn == nil || len(fn.Params) < 2 {
				r.undecided("xsync.Map.Range|missing", token.NoPos, "anchor not found")
				return
			}
			userF := fn.Params[1]
			var cb *ssa.Function
			for _, di := range deepInstrs(fn, 2) {
				call, ok := di.in.(*ssa.Call)
				if !ok {
					continue
				}
				if cal := call.Call.StaticCallee(); cal != nil && cal.Name() == "Range" && cal.Pkg != nil && cal.Pkg.Pkg.Path() == "sync" && len(call.Call.Args) == 2 {
					if f, _ := funcAndReceiver(call.Call.Args[1]); f != nil && f.Blocks != nil {
						cb = f
					}
				}
			}
			if cb == nil || len(cb.Params) < 2 {
				r.undecided("xsync.Map.Range|callback", fn.Pos(), "the callback handed to sync.Map.Range was not found")
				return
			}
			// the callback's key and value: its parameters, after the receiver when a bound method value is handed over
			// (typedRangeFunc(f).callUntyped, mapRangeVisitor{f}.visitUntyped)
			cbParams := cb.Params
			if cb.Signature.Recv() != nil {
				cbParams = cbParams[1:]
			}
			// a call of the user's function: of f itself (through the capture), or - the callback's body living in a helper
			// that is handed f (visitTyped(f, key, value)) - of that helper's parameter; recognised by role: a dynamic call of a
			// two-argument function value that returns bool
			isUserCall := func(call *ssa.Call) bool {
				if call.Call.IsInvoke() {
					return false
				}
				switch call.Call.Value.(type) {
				case *ssa.Function, *ssa.Builtin, *ssa.MakeClosure:
					return false
				}
				sig := call.Call.Signature()
				if sig == nil || sig.Params().Len() != 2 || sig.Results().Len() != 1 {
					return false
				}
				if bt, ok := sig.Results().At(0).Type().Underlying().(*types.Basic); !ok || bt.Kind() != types.Bool {
					return false
				}
				_ = userF
				return true
			}
			// typestate: number of calls of f (0, 1, 2+)
			pf := &PF{N: 3, InScope: func(f *ssa.Function) bool {
				return rootFn(origin(f)).Pkg == rootFn(fn).Pkg && f.Blocks != nil && origin(f) != cb && !token.IsExported(f.Name())
			}}
			var fcalls []*ssa.Call
			pf.Instr = func(f *ssa.Function, in ssa.Instruction, q int) (StateSet, bool) {
				if call, ok := in.(*ssa.Call); ok && isUserCall(call) {
					if q < 2 {
						return ss(q + 1), true
					}
					return ss(2), true
				}
				return 0, false
			}
			for _, di := range deepInstrs(cb, 2) {
				if call, ok := di.in.(*ssa.Call); ok && isUserCall(call) {
					fcalls = append(fcalls, call)
					// arguments: the callback's own key / value, through type assertions only
					for ai, a := range call.Call.Args {
						src := argOf(a, di.calls)
						for d := 0; d < 4; d++ {
							switch x := src.(type) {
							case *ssa.Extract:
								src = x.Tuple
								continue
							case *ssa.TypeAssert:
								src = x.X
								continue
							case *ssa.ChangeType:
								src = x.X
								continue
							}
							break
						}
						src = argOf(src, di.calls)
						r.ok(ai < len(cbParams) && src == ssa.Value(cbParams[ai]), "xsync.Map.Range|f-arg#"+itoa(ai), call.Pos(), "f must be given the "+[]string{"key", "value"}[ai%2]+" that sync.Map.Range handed to the callback (converted), not "+path(a)+": a value re-read from the map differs from it under concurrent stores and is absent for keys that are not equal to themselves")
					}
				}
			}
			n := 0
			for _, e := range pf.Exits(cb, ss(0)) {
				n++
				r.ok(e.States == ss(1), "xsync.Map.Range|calls-f-once#"+itoa(n), retPos(e.Ret), "a path through the callback returns without having called f exactly once (reachable counts "+countDesc(e.States)+"): an entry that sync.Map.Range visits is skipped")
			}
			if len(fcalls) == 0 {
				r.violated("xsync.Map.Range|calls-f", cb.Pos(), "the callback never calls f")
			}
			// what the callback answers sync.Map.Range is f's own answer (false stops the iteration at once, as sync.Map does)
			k := 0
			instrs(cb, func(_ *ssa.BasicBlock, _ int, in ssa.Instruction) {
				ret, ok := in.(*ssa.Return)
				if !ok || len(ret.Results) != 1 {
					return
				}
				k++
				good := true
				for _, lf := range valueLeaves(returnedValue(ret, 0), nil, 0) {
					call, isCall := lf.v.(*ssa.Call)
					if isCall && isUserCall(call) {
						continue
					}
					// f's answer spelled out: if !f(k, v) { return false }; return true - a constant that a test of f's own
					// result on the way makes equal to that result
					same := false
					if kc, isK := lf.v.(*ssa.Const); isK && kc.Value != nil && kc.Value.Kind() == constant.Bool {
						for _, g := range guardsOf(ret.Block()) {
							if gv, val := g.boolVal(); val == constant.BoolVal(kc.Value) {
								if gc, ok := gv.(*ssa.Call); ok && isUserCall(gc) {
									same = true
								}
							}
						}
					}
					if !same {
						good = false
					}
				}
				r.ok(good, "xsync.Map.Range|returns-f-result#"+itoa(k), retPos(ret), "the callback must return what f returned: a constant true keeps calling f after it asked to stop (sync.Map.Range stops at once), a constant false stops after the first entry")
			})
		}})
})

// syncMapOnlyHoldsV: every value argument of a writing sync.Map method called in xsync (Store, LoadOrStore, Swap, the new value of
// CompareAndSwap) is a value of the type parameter V converted to an interface.
func syncMapOnlyHoldsV(c *Ctx) bool {
	n, ok := 0, true
	for _, fn := range c.funcsOfPkg("xsync") {
		instrs(fn, func(_ *ssa.BasicBlock, _ int, in ssa.Instruction) {
			call, isCall := in.(*ssa.Call)
			if !isCall {
				return
			}
			cal := call.Call.StaticCallee()
			if cal == nil || cal.Signature.Recv() == nil || !isNamedType(cal.Signature.Recv().Type(), "sync", "Map") {
				return
			}
			vi := -1
			switch cal.Name() {
			case "Store", "LoadOrStore", "Swap":
				vi = 2
			case "CompareAndSwap":
				vi = 3
			}
			if vi < 0 || vi >= len(call.Call.Args) {
				return
			}
			n++
			var from ssa.Value
			switch x := call.Call.Args[vi].(type) {
			case *ssa.MakeInterface:
				from = x.X
			case *ssa.ChangeType: // (how the uninstantiated generic body converts a type parameter to any)
				from = x.X
			case *ssa.ChangeInterface:
				from = x.X
			}
			if from == nil {
				ok = false
				return
			}
			tp, isTP := from.Type().(*types.TypeParam)
			if !isTP || tp.Obj().Name() != "V" {
				ok = false
			}
		})
	}
	return n > 0 && ok
}

// atomicPtrOp: call is a method call of sync/atomic.Pointer (Load, Store, Swap, CompareAndSwap) - directly, or through a thin
// accessor of the package whose whole body is that one call on a field of its receiver with its own parameters / constants
// as arguments, its result handed back unchanged (w.current(), w.publish(next), w.publishFirst(first)). The arguments are
// given in the terms of call's frame (args[0], the pointer operand, stays in the accessor's terms).
func atomicPtrOp(call *ssa.Call) (op string, args []ssa.Value, ok bool) {
	for _, name := range []string{"Load", "Store", "Swap", "CompareAndSwap"} {
		if isCallTo(&call.Call, "sync/atomic", "Pointer", name) {
			return name, call.Call.Args, true
		}
	}
	h := staticCallee(&call.Call)
	if h == nil || h.Blocks == nil || len(h.Blocks) != 1 || h.Parent() != nil || curCtx == nil || !curCtx.inModule(h) {
		return "", nil, false
	}
	var inner *ssa.Call
	for _, in := range h.Blocks[0].Instrs {
		switch x := in.(type) {
		case *ssa.FieldAddr, *ssa.DebugRef, *ssa.Return, *ssa.Extract:
		case *ssa.Call:
			if inner != nil {
				return "", nil, false
			}
			inner = x
		default:
			return "", nil, false
		}
	}
	if inner == nil {
		return "", nil, false
	}
	iop := ""
	for _, name := range []string{"Load", "Store", "Swap", "CompareAndSwap"} {
		if isCallTo(&inner.Call, "sync/atomic", "Pointer", name) {
			iop = name
		}
	}
	if iop == "" {
		return "", nil, false
	}
	// the result is the inner call's, unchanged
	if ret, isRet := h.Blocks[0].Instrs[len(h.Blocks[0].Instrs)-1].(*ssa.Return); isRet {
		for _, rv := range ret.Results {
			if rv != ssa.Value(inner) {
				return "", nil, false
			}
		}
	} else {
		return "", nil, false
	}
	for i, a := range inner.Call.Args {
		switch x := a.(type) {
		case *ssa.Parameter:
			args = append(args, argOf(x, []*ssa.Call{call}))
		case *ssa.Const:
			args = append(args, x)
		case *ssa.FieldAddr:
			if i != 0 {
				return "", nil, false
			}
			args = append(args, x)
		default:
			return "", nil, false
		}
	}
	return iop, args, true
}

func isAtomicPtrLoad(call *ssa.Call) bool {
	op, _, ok := atomicPtrOp(call)
	return ok && op == "Load"
}
