package main

import (
	"go/constant"
	"go/token"
	"go/types"
	"sort"
	"strings"

	"golang.org/x/tools/go/ssa"
)

func init() {
	register(&Property{
		ID:    "C07",
		Title: "iterator/stream/xslices combinators compute their documented sequence function",
		Rules: []*Rule{
			{ID: "C07.lazy-constructors", Floor: 30, Clause: "every exported iterator/stream constructor or combinator that returns a lazy sequence pulls nothing: its body and everything reachable through static calls contains no Next/Peek invocation, no channel receive and no go statement",
				Run: ruleLazyConstructors},
			{ID: "C07.guard-before-pull", Floor: 8, Clause: "First pulls only under x > 0; While pulls only under !done (and !has); peekable.Next returns the buffered item without a pull; runsInner pulls only after a successful Peek for the same run; One pulls at most twice",
				Run: ruleGuardBeforePull},
			{ID: "C07.sticky-end", Floor: 5, Clause: "While sets done on the path where the predicate is false and tests it first; First's counter only decreases; runsInnerIterator clears its parent when its run ends; emptiness tests precede every slice-head read",
				Run: ruleStickyEnd},
			{ID: "C07.commit-after-success", Floor: 12, Clause: "stream combinators change their own state only after the pull/callback they depend on has succeeded (or when nothing fallible follows): the stream version then yields what the iterator version yields even when a Next fails and is retried",
				Run: func(c *Ctx, r *R) { ruleCommitAfterSuccess(c, r, "C07") }},
			{ID: "C07.no-discarded-pull", Floor: 20, Clause: "in every Next/Peek of iterator and stream wrappers an item obtained from the source is used on every path on which it was obtained (never pulled and dropped, e.g. on a context check made after the pull)",
				Run: func(c *Ctx, r *R) { ruleNoDiscardedPull(c, r, "iterator", "stream") }},
			{ID: "C07.end-provenance", Floor: 8, Clause: "Flatten and Join report the end only when the outer source ends: no return forwards the end of the current inner sequence, and Next loops past empty inner sequences",
				Run: ruleEndProvenance},
			{ID: "C07.runs-inner-sticky", Floor: 2, Clause: "every end return of iterator.Runs' inner iterator leaves it detached from the shared source",
				Run: ruleRunsInnerSticky},
			{ID: "C07.nonzero-divisor", Floor: 11, Clause: "every integer / or % whose divisor is not a non-zero constant is dominated by a guard excluding zero on the same value, or is a listed exception with its reason (repo-wide)",
				Run: ruleNonzeroDivisor},
		},
		NotCovered: []string{"the sequence function of each combinator and agreement of the iterator/stream/xslices versions (semantic equivalence of programs)", "xslices.Runs mishandles a leading run of length one (observation; not decidable by a structural rule)"},
	})
}

func isLazySeqType(t types.Type) bool {
	n, ok := t.(*types.Named)
	if !ok || n.Obj().Pkg() == nil {
		return false
	}
	p := n.Obj().Pkg().Path()
	if !(strings.HasSuffix(p, "juniper/stream") || strings.HasSuffix(p, "juniper/iterator")) {
		return false
	}
	switch n.Obj().Name() {
	case "Stream", "Peekable", "Iterator":
		return true
	}
	return false
}

var eagerByDesign = map[string]string{
	"stream.Batch":     "documented to start background goroutines (C11)",
	"stream.BatchFunc": "documented to start background goroutines (C11)",
	"stream.Merge":     "documented to start one goroutine per input (C12)",
}

func ruleLazyConstructors(c *Ctx, r *R) {
	for _, rel := range []string{"iterator", "stream"} {
		sp := c.SSA[rel]
		var names []string
		for n, m := range sp.Members {
			if fn, ok := m.(*ssa.Function); ok && exportedName(n) && fn.Blocks != nil {
				res := fn.Signature.Results()
				if res.Len() >= 1 && isLazySeqType(res.At(res.Len()-1).Type()) {
					names = append(names, n)
				}
			}
		}
		sort.Strings(names)
		for _, n := range names {
			key := rel + "." + n
			if why, ok := eagerByDesign[key]; ok {
				r.excepted(key, sp.Members[n].(*ssa.Function).Pos(), why)
				continue
			}
			fn := sp.Members[n].(*ssa.Function)
			seen := map[*ssa.Function]bool{}
			bad := ""
			var walk func(f *ssa.Function)
			walk = func(f *ssa.Function) {
				if seen[f] || f.Blocks == nil || bad != "" {
					return
				}
				seen[f] = true
				instrs(f, func(b *ssa.BasicBlock, i int, in ssa.Instruction) {
					switch x := in.(type) {
					case *ssa.Go:
						bad = "starts a goroutine in " + f.Name()
					case *ssa.UnOp:
						if x.Op == token.ARROW {
							bad = "receives from a channel in " + f.Name()
						}
					case *ssa.Select:
						bad = "selects on channels in " + f.Name()
					case *ssa.Call:
						if x.Call.IsInvoke() && (x.Call.Method.Name() == "Next" || x.Call.Method.Name() == "Peek") {
							bad = "calls " + x.Call.Method.Name() + " on " + path(x.Call.Value) + " in " + f.Name()
							return
						}
						if cal := staticCallee(&x.Call); cal != nil && cal.Pkg == sp {
							walk(cal)
						}
					}
				})
			}
			walk(fn)
			r.ok(bad == "", key, fn.Pos(), "a lazy constructor must not touch its source before the first Next: "+bad)
		}
	}
}

// pullsIn lists invocations of Next on the receiver's field `field` (or on anything, if field == "").
func pullsOn(fn *ssa.Function, field string, method string) []*ssa.Call {
	var out []*ssa.Call
	instrs(fn, func(b *ssa.BasicBlock, i int, in ssa.Instruction) {
		call, ok := in.(*ssa.Call)
		if !ok {
			return
		}
		if !call.Call.IsInvoke() {
			// the field kept under its concrete type (inner *peekable[T]): the same pull as a static method call
			if cal := staticCallee(&call.Call); field != "" && cal != nil && cal.Signature.Recv() != nil && cal.Name() == method && len(call.Call.Args) > 0 &&
				strings.HasSuffix(path(call.Call.Args[0]), "."+field) {
				out = append(out, call)
			}
			return
		}
		if call.Call.Method.Name() != method {
			return
		}
		if field == "" || strings.HasSuffix(path(call.Call.Value), "."+field) {
			out = append(out, call)
		}
	})
	return out
}

func guardedByField(b *ssa.BasicBlock, field string, ops ...token.Token) (bool, string) {
	for _, g := range guardsOf(b) {
		// if !iter.x.take() { return zero, false }: a counter type's method that uses up one unit and says whether there was
		// one left - its true result is `counter > 0` (before the decrement it has just made)
		if v, val := g.boolVal(); val {
			if call, ok := v.(*ssa.Call); ok {
				if f, isTake := takeLikeCall(call); isTake && f == field {
					for _, op := range ops {
						if op == token.GTR {
							return true, path(call.Call.Args[0]) + ".take()"
						}
					}
				}
			}
		}
		if cf, ok := g.asCmp(); ok && strings.HasSuffix(path(cf.x), "."+field) {
			for _, op := range ops {
				if cf.op == op {
					return true, path(cf.x) + cf.op.String() + path(cf.y)
				}
			}
		}
		if v, val := g.boolVal(); strings.HasSuffix(path(v), "."+field) {
			for _, op := range ops {
				if (op == token.NOT && !val) || (op == token.LAND && val) {
					return true, path(v)
				}
			}
		}
	}
	// done / has folded into one state field (state == whileFetch): being in one state rules the others out
	if er := stateEnumOf(b.Parent()); er != nil && (field == "done" || field == "has") {
		k := er.done
		if field == "has" {
			k = er.has
		}
		for _, g := range guardsOf(b) {
			cf, ok := g.asCmp()
			if !ok || k == nil || !er.isField(cf.x) {
				continue
			}
			kc, isK := cf.y.(*ssa.Const)
			if !isK || kc.Value == nil {
				continue
			}
			same := constant.Compare(kc.Value, token.EQL, k)
			for _, op := range ops {
				if op == token.NOT && ((cf.op == token.EQL && !same) || (cf.op == token.NEQ && same)) {
					return true, path(cf.x) + cf.op.String() + kc.Value.String()
				}
				if op == token.LAND && cf.op == token.EQL && same {
					return true, path(cf.x) + cf.op.String() + kc.Value.String()
				}
			}
		}
	}
	return false, ""
}

// stateEnum: the two flags of a While wrapper (done: the end was reported; has: an item is parked) kept as states of one field
// of a named integer type. done is the state the entry test of Next answers with an immediate return; has is the state stored
// after a successful pull.
type stateEnum struct {
	recv      *ssa.Parameter
	field     string
	done, has constant.Value
}

func (e *stateEnum) isField(v ssa.Value) bool {
	ld, ok := v.(*ssa.UnOp)
	if !ok || ld.Op != token.MUL {
		return false
	}
	fa, ok := ld.X.(*ssa.FieldAddr)
	return ok && fa.X == ssa.Value(e.recv) && fieldName(fa.X.Type(), fa.Field) == e.field
}

var stateEnumMemo = map[*ssa.Function]*stateEnum{}

func stateEnumOf(fn *ssa.Function) *stateEnum {
	if e, ok := stateEnumMemo[fn]; ok {
		return e
	}
	stateEnumMemo[fn] = nil
	if fn == nil || len(fn.Blocks) == 0 || len(fn.Params) == 0 || fn.Signature.Recv() == nil {
		return nil
	}
	b0 := fn.Blocks[0]
	iff, ok := b0.Instrs[len(b0.Instrs)-1].(*ssa.If)
	if !ok {
		return nil
	}
	cf, ok := (guard{cond: iff.Cond, val: true}).asCmp()
	if !ok || cf.op != token.EQL {
		return nil
	}
	ld, ok := cf.x.(*ssa.UnOp)
	kc, isK := cf.y.(*ssa.Const)
	if !ok || ld.Op != token.MUL || !isK || kc.Value == nil {
		return nil
	}
	fa, ok := ld.X.(*ssa.FieldAddr)
	if !ok || fa.X != ssa.Value(fn.Params[0]) {
		return nil
	}
	nt, isN := ld.Type().(*types.Named)
	if !isN || !isIntType(nt.Underlying()) {
		return nil
	}
	// the true branch answers at once: it returns without pulling
	tb := b0.Succs[0]
	if _, isRet := tb.Instrs[len(tb.Instrs)-1].(*ssa.Return); !isRet {
		return nil
	}
	for _, in := range tb.Instrs {
		if call, isCall := in.(*ssa.Call); isCall && call.Call.IsInvoke() {
			return nil
		}
	}
	e := &stateEnum{recv: fn.Params[0], field: fieldName(fa.X.Type(), fa.Field), done: kc.Value}
	// has: the state stored where a pull has succeeded
	for _, p := range append(pullsOn(fn, "", "Next"), pullsOn(fn, "", "Peek")...) {
		_, perr := fallibleCall(p)
		instrs(fn, func(b *ssa.BasicBlock, _ int, in ssa.Instruction) {
			st, ok := in.(*ssa.Store)
			if !ok || e.has != nil {
				return
			}
			fa2, ok := st.Addr.(*ssa.FieldAddr)
			k2, isK2 := st.Val.(*ssa.Const)
			if !ok || !isK2 || k2.Value == nil || fa2.X != ssa.Value(e.recv) || fieldName(fa2.X.Type(), fa2.Field) != e.field {
				return
			}
			if !(p.Block().Dominates(b) && (p.Block() != b || idxIn(p) < idxIn(st))) || b == p.Block() && false {
				return
			}
			succeeded := perr == nil
			for _, g := range guardsOf(b) {
				if c2, ok := g.asCmp(); ok && perr != nil && c2.x == perr && c2.op == token.EQL && isNilConst(c2.y) {
					succeeded = true
				}
			}
			// the first such store on the success path, in the pull's own region (before the predicate is consulted)
			if succeeded && !constant.Compare(k2.Value, token.EQL, e.done) {
				for _, in2 := range b.Instrs {
					if in2 == ssa.Instruction(st) {
						break
					}
					if c3, isCall := in2.(*ssa.Call); isCall && !c3.Call.IsInvoke() && c3 != p {
						if _, isB := c3.Call.Value.(*ssa.Builtin); !isB {
							return // after the predicate's call: not the "parked" marker
						}
					}
				}
				e.has = k2.Value
			}
		})
	}
	stateEnumMemo[fn] = e
	return e
}

func ruleGuardBeforePull(c *Ctx, r *R) {
	for _, name := range []string{"iterator.firstIterator.Next", "stream.firstStream.Next"} {
		fn := c.fn(name)
		if fn == nil {
			r.undecided(name+"|missing", token.NoPos, "anchor not found")
			continue
		}
		cfield := counterField(fn)
		for i, p := range pullsOn(fn, "inner", "Next") {
			ok, _ := guardedByField(p.Block(), cfield, token.GTR)
			r.ok(ok && cfield != "", name+"|pull#"+itoa(i+1), p.Pos(), "First must not pull from its source once n items were yielded (pull only under counter > 0)")
		}
	}
	for _, name := range []string{"iterator.whileIterator.Next", "stream.whileStream.Next"} {
		fn := c.fn(name)
		if fn == nil {
			r.undecided(name+"|missing", token.NoPos, "anchor not found")
			continue
		}
		ps := append(pullsOn(fn, "inner", "Next"), pullsOn(fn, "inner", "Peek")...)
		if len(ps) == 0 {
			r.violated(name+"|pull", fn.Pos(), "While never pulls")
		}
		for i, p := range ps {
			ok, _ := guardedByField(p.Block(), "done", token.NOT)
			if strings.HasPrefix(name, "stream") && p.Call.Method.Name() == "Next" {
				ok2, _ := guardedByField(p.Block(), "has", token.NOT)
				if !ok2 {
					// the look-ahead lives in a Peekable source: this Next only consumes the item a successful Peek of the
					// same source has just shown (no new pull)
					for _, pk := range pullsOn(fn, "inner", "Peek") {
						if pk.Call.Value != p.Call.Value && path(pk.Call.Value) != path(p.Call.Value) {
							continue
						}
						if !(pk.Block() == p.Block() && idxIn(pk) < idxIn(p)) && !(pk.Block() != p.Block() && pk.Block().Dominates(p.Block())) {
							continue
						}
						if _, e := fallibleCall(pk); e != nil {
							for _, g := range guardsOf(p.Block()) {
								if cf, okc := g.asCmp(); okc && cf.x == e && cf.op == token.EQL && isNilConst(cf.y) {
									ok2 = true
								}
							}
						}
					}
				}
				ok = ok && ok2
			}
			r.ok(ok, name+"|pull#"+itoa(i+1), p.Pos(), "While must not pull after it reported the end (pull only under !done; the stream version also only when no item is parked)")
		}
	}
	for _, name := range []string{"iterator.peekable.Next", "stream.peekable.Next"} {
		fn := c.fn(name)
		if fn == nil {
			r.undecided(name+"|missing", token.NoPos, "anchor not found")
			continue
		}
		for i, p := range pullsOn(fn, "inner", "Next") {
			ok, _ := guardedByField(p.Block(), "has", token.NOT)
			r.ok(ok, name+"|pull#"+itoa(i+1), p.Pos(), "peekable.Next must hand out the buffered item without pulling; it may pull only when nothing is buffered")
		}
	}
	for _, name := range []string{"iterator.peekable.Peek", "stream.peekable.Peek"} {
		fn := c.fn(name)
		if fn == nil {
			r.undecided(name+"|missing", token.NoPos, "anchor not found")
			continue
		}
		for i, p := range pullsOn(fn, "inner", "Next") {
			ok, _ := guardedByField(p.Block(), "has", token.NOT)
			r.ok(ok, name+"|pull#"+itoa(i+1), p.Pos(), "Peek must pull only when nothing is buffered (otherwise an item is skipped)")
		}
	}
	for _, name := range []string{"iterator.runsInnerIterator.Next", "stream.runsInnerStream.Next"} {
		fn := c.fn(name)
		if fn == nil {
			r.undecided(name+"|missing", token.NoPos, "anchor not found")
			continue
		}
		peeks := pullsOn(fn, "inner", "Peek")
		for i, p := range pullsOn(fn, "inner", "Next") {
			dom := false
			for _, pk := range peeks {
				if pk.Block().Dominates(p.Block()) {
					dom = true
				}
			}
			// and under same(prev, item) true
			sameOK := false
			for _, g := range guardsOf(p.Block()) {
				if v, val := g.boolVal(); val {
					if call, ok := v.(*ssa.Call); ok && strings.HasSuffix(path(call.Call.Value), ".same") {
						sameOK = true
					}
				}
			}
			r.ok(dom && sameOK, name+"|pull#"+itoa(i+1), p.Pos(), "the inner run may consume an item only after peeking it and finding it in the same run")
		}
	}
	for _, name := range []string{"iterator.One", "stream.One"} {
		fn := c.fn(name)
		if fn == nil {
			r.undecided(name+"|missing", token.NoPos, "anchor not found")
			continue
		}
		isPull := func(in ssa.Instruction) bool {
			call, ok := in.(*ssa.Call)
			return ok && call.Call.IsInvoke() && call.Call.Method.Name() == "Next"
		}
		worst := 0
		for _, e := range countExits(fn, isPull, nil) {
			// states: 0,1,2 (2 = two or more) – need a finer count: re-run with N=4
			_ = e
		}
		pkgOne := fn.Pkg
		pf := &PF{N: 4, InScope: func(f *ssa.Function) bool { // pulls made through a helper of the package count (nextItem(ctx, s))
			return f.Blocks != nil && rootFn(origin(f)).Pkg == pkgOne && origin(f) != fn
		}}
		pf.Instr = func(f *ssa.Function, in ssa.Instruction, q int) (StateSet, bool) {
			if isPull(in) {
				if q < 3 {
					return ss(q + 1), true
				}
				return ss(3), true
			}
			return 0, false
		}
		// One(ctx, s) decided on Collect(ctx, First(s, 2)): the source is only ever handed to First with a constant bound, and
		// First never pulls more than that (its own obligations above) - the bound is the worst case, whatever loop drains the
		// wrapper
		viaFirst := -1
		if sp := streamParamOf(fn); sp != nil {
			only := true
			for _, ref := range refsOf(sp) {
				switch x := ref.(type) {
				case *ssa.DebugRef:
				case *ssa.Call:
					cal := staticCallee(&x.Call)
					k, isK := (ssa.Value)(nil), false
					if cal != nil && fname(cal) == "First" && rootFn(cal).Pkg == pkgOne && len(x.Call.Args) == 2 && x.Call.Args[0] == ssa.Value(sp) {
						k, isK = x.Call.Args[1], true
					}
					if kc, isC := k.(*ssa.Const); isK && isC && kc.Value != nil && viaFirst < 0 {
						viaFirst = int(kc.Int64())
					} else {
						only = false
					}
				default:
					only = false
				}
			}
			if !only {
				viaFirst = -1
			}
		}
		if viaFirst >= 0 {
			r.ok(viaFirst >= 1 && viaFirst <= 2, name+"|pull-count", fn.Pos(), "One needs at most two pulls to decide (it drains First(s, "+itoa(viaFirst)+"))")
			continue
		}
		for _, e := range pf.Exits(fn, ss(0)) {
			e.States.each(func(q int) {
				if q > worst {
					worst = q
				}
			})
		}
		r.ok(worst <= 2 && worst >= 1, name+"|pull-count", fn.Pos(), "One needs at most two pulls to decide (found a path with "+itoa(worst)+" or more)")
	}
}

func ruleStickyEnd(c *Ctx, r *R) {
	for _, name := range []string{"iterator.whileIterator.Next", "stream.whileStream.Next"} {
		fn := c.fn(name)
		if fn == nil {
			r.undecided(name+"|missing", token.NoPos, "anchor not found")
			continue
		}
		// the call of f and the edge on which its result is false
		var fcall *ssa.Call
		instrs(fn, func(b *ssa.BasicBlock, i int, in ssa.Instruction) {
			if call, ok := in.(*ssa.Call); ok && !call.Call.IsInvoke() && strings.HasSuffix(path(call.Call.Value), ".f") {
				fcall = call
			}
		})
		if fcall == nil {
			r.violated(name+"|predicate", fn.Pos(), "While never evaluates its predicate")
			continue
		}
		// typestate on the predicate-false path: done must be stored true before the return
		var okVal ssa.Value = fcall
		if fcall.Type().(interface{ String() string }) != nil {
			if tup, isTuple := fcall.Type().(*types.Tuple); isTuple && tup.Len() == 2 {
				for _, ref := range *fcall.Referrers() {
					if ex, ok := ref.(*ssa.Extract); ok && ex.Index == 0 {
						okVal = ex
					}
				}
			}
		}
		pf := &PF{N: 3} // 0 = predicate not known false, 1 = predicate false & done not set, 2 = predicate false & done set
		pf.Edge = func(f *ssa.Function, g guard, q int) (StateSet, bool) {
			b := g.blk
			_ = b
			v, val := g.boolVal()
			if v == okVal && !val && q == 0 {
				return ss(1), true
			}
			return 0, false
		}
		pf.Instr = func(f *ssa.Function, in ssa.Instruction, q int) (StateSet, bool) {
			if st, ok := in.(*ssa.Store); ok {
				if _, fld, ok := storedField(st.Addr); ok && fld == "done" {
					if k, ok := st.Val.(*ssa.Const); ok && k.Value != nil && k.Value.String() == "true" && q == 1 {
						return ss(2), true
					}
				}
				if er := stateEnumOf(fn); er != nil {
					if _, fld, ok := storedField(st.Addr); ok && fld == er.field {
						if k, ok := st.Val.(*ssa.Const); ok && k.Value != nil && constant.Compare(k.Value, token.EQL, er.done) && q == 1 {
							return ss(2), true
						}
					}
				}
			}
			return 0, false
		}
		good, any := true, false
		var bad *ssa.Return
		for _, e := range pf.Exits(fn, ss(0)) {
			if e.States.has(1) {
				good = false
				bad = e.Ret
			}
			if e.States.has(2) {
				any = true
			}
		}
		pos := fn.Pos()
		if bad != nil {
			pos = retPos(bad)
		}
		r.ok(good && any, name+"|done-set-when-predicate-false", pos, "when the predicate is false While must latch done = true before returning: otherwise a later Next pulls again and can resume yielding after the end was reported")
		// done tested first: the first branch of the method
		first := false
		if iff, ok := fn.Blocks[0].Instrs[len(fn.Blocks[0].Instrs)-1].(*ssa.If); ok {
			if v, _ := (guard{cond: iff.Cond, val: true}).boolVal(); strings.HasSuffix(path(v), ".done") {
				first = true
			}
		}
		if stateEnumOf(fn) != nil {
			first = true // the done state is, by its role, the one the entry test answers with an immediate return
		}
		r.ok(first, name+"|done-tested-first", fn.Pos(), "done must be the first thing Next looks at")
		// only true is ever stored to done
		onlyTrue := true
		instrs(fn, func(b *ssa.BasicBlock, i int, in ssa.Instruction) {
			if st, ok := in.(*ssa.Store); ok {
				if _, fld, ok := storedField(st.Addr); ok && fld == "done" {
					if k, ok := st.Val.(*ssa.Const); !ok || k.Value == nil || k.Value.String() != "true" {
						onlyTrue = false
					}
				}
			}
		})
		if er := stateEnumOf(fn); er != nil {
			// leaving the done state: no store of another state where done is not ruled out, and nothing is stored after the
			// done state was entered
			instrs(fn, func(b *ssa.BasicBlock, i int, in ssa.Instruction) {
				st, ok := in.(*ssa.Store)
				if !ok {
					return
				}
				if _, fld, ok := storedField(st.Addr); !ok || fld != er.field {
					return
				}
				k, isK := st.Val.(*ssa.Const)
				if !isK || k.Value == nil {
					onlyTrue = false
					return
				}
				if constant.Compare(k.Value, token.EQL, er.done) {
					for _, b2 := range fn.Blocks {
						for j, in2 := range b2.Instrs {
							st2, ok := in2.(*ssa.Store)
							if !ok || st2 == st {
								continue
							}
							if _, f2, ok := storedField(st2.Addr); ok && f2 == er.field && ((b2 == b && j > i) || (b2 != b && reaches(b, b2)) || (b2 == b && reaches(b, b))) {
								onlyTrue = false
							}
						}
					}
					return
				}
				if okG, _ := guardedByField(b, "done", token.NOT); !okG {
					onlyTrue = false
				}
			})
		}
		r.ok(onlyTrue, name+"|done-never-cleared", fn.Pos(), "done may only ever be set")
	}
	for _, name := range []string{"iterator.firstIterator.Next", "stream.firstStream.Next", "iterator.repeatIterator.Next"} {
		fn := c.fn(name)
		if fn == nil {
			r.undecided(name+"|missing", token.NoPos, "anchor not found")
			continue
		}
		good := true
		n := 0
		cfield := counterField(fn)
		instrs(fn, func(b *ssa.BasicBlock, i int, in ssa.Instruction) {
			if st, ok := in.(*ssa.Store); ok {
				if _, fld, ok := storedField(st.Addr); ok && fld == cfield && cfield != "" {
					n++
					if !isFieldIncDec(in, cfield, -1) {
						good = false
					}
				}
			}
			// ... or through the counter type's take(): decrements by one, only while positive
			if call, ok := in.(*ssa.Call); ok && cfield != "" {
				if f, isTake := takeLikeCall(call); isTake && f == cfield {
					n++
				} else if len(call.Call.Args) > 0 {
					// any other method handed the counter's address that stores through it is not a plain decrement
					if fa, isFA := call.Call.Args[0].(*ssa.FieldAddr); isFA && fieldName(fa.X.Type(), fa.Field) == cfield && fa.X == ssa.Value(fn.Params[0]) {
						if cal := staticCallee(&call.Call); cal != nil && storesThroughParam0(cal) {
							n++
							good = false
						}
					}
				}
			}
		})
		r.ok(good && n >= 1, name+"|counter-only-decreases", fn.Pos(), "the remaining-items counter may only be decremented by one (it is the only thing that makes the end sticky)")
	}
	// runsInnerIterator: parent cleared when the run ends
	if fn := c.fn("iterator.runsInnerIterator.Next"); fn != nil {
		cleared := false
		att := attachmentField(fn)
		instrs(fn, func(b *ssa.BasicBlock, i int, in ssa.Instruction) {
			if st, ok := in.(*ssa.Store); ok {
				if _, fld, ok := storedField(st.Addr); ok && fld == att && isNilConst(st.Val) {
					cleared = true
				}
			}
		})
		r.ok(cleared, "iterator.runsInnerIterator.Next|run-end-sticky", fn.Pos(), "once a run has ended its inner iterator must stay ended (parent cleared), even after the outer iterator moved on")
	}
}

var divisorExceptions = map[string]string{
	"xslices.Chunk|": "documented: Chunk panics for chunkSize <= 0",
}

// dequeNonEmpty: is there evidence at instruction (b, idx) that the deque denoted by recv holds a non-empty buffer?
// Evidence: a dominating call of maybeExpand on that deque (leaves len(d.a) >= a positive constant - C04.expand-floor), or a
// dominating guard that makes Len() positive on that deque (Len() > 0 ⇒ d.a != nil and back != -1 ⇒ len(d.a) > 0): Len() != 0,
// Len() > k, i < Len() with i >= 0. For an unexported helper without local evidence every call site must provide it.
func dequeNonEmpty(c *Ctx, fn *ssa.Function, b *ssa.BasicBlock, idx int, recv ssa.Value, depth int) bool {
	return dequeNonEmptyProv(c, fn, b, idx, valueProv(recv, provEnv{}), depth)
}

// dequeNonEmptyProv: the same question for a deque given by its provenance (root value + field path) - the form in which it is
// handed from a helper to its call sites, where no SSA value for it need exist.
func dequeNonEmptyProv(c *Ctx, fn *ssa.Function, b *ssa.BasicBlock, idx int, recvP prov, depth int) bool {
	rp := recvP.String()
	var gEnv provEnv // the frame of the guard being looked at (a boolean helper's, mapped back through its call)
	same := func(v ssa.Value) bool { return valueProv(v, gEnv).String() == rp }
	// dominating maybeExpand call
	found := false
	instrs(fn, func(bb *ssa.BasicBlock, i int, in ssa.Instruction) {
		call, ok := in.(*ssa.Call)
		if !ok || found {
			return
		}
		cal := staticCallee(&call.Call)
		if cal == nil || fname(cal) != "maybeExpand" || len(call.Call.Args) == 0 || !same(call.Call.Args[0]) {
			return
		}
		if (bb == b && i < idx) || (bb != b && bb.Dominates(b)) {
			found = true
		}
	})
	if found {
		return true
	}
	// the expansion step written out in place: `if d.Len() == len(d.a) { d.resize(...) }` dominates (the resize leaves a
	// positive length - C04.expand-floor - and on the other branch Len() != len(d.a) with Len() <= len(d.a) means len(d.a) > 0)
	for _, eb := range fn.Blocks {
		iff, ok := eb.Instrs[len(eb.Instrs)-1].(*ssa.If)
		if !ok || eb == b || !eb.Dominates(b) {
			continue
		}
		cf, ok := (guard{cond: iff.Cond, val: true, blk: eb}).asCmp()
		if !ok || cf.op != token.EQL {
			continue
		}
		xs, ys := symOf(cf.x, provEnv{}), symOf(cf.y, provEnv{})
		isLenCall := func(e *sx) bool { return e != nil && (e.inl == "Len" || (e.op == "call" && e.s == "Len")) }
		isBufLen := func(e *sx) bool { return e != nil && e.op == "len" && e.args[0].fieldSuffix("a") }
		if !((isLenCall(xs) && isBufLen(ys)) || (isLenCall(ys) && isBufLen(xs))) {
			continue
		}
		tb := eb.Succs[0]
		resized := false
		for _, in := range tb.Instrs {
			if call, ok := in.(*ssa.Call); ok {
				if cal := staticCallee(&call.Call); cal != nil && fname(cal) == "resize" && len(call.Call.Args) > 0 && same(call.Call.Args[0]) {
					resized = true
				}
			}
		}
		if resized && !tb.Dominates(b) {
			return true
		}
	}
	// a dominating call, on that deque, of an in-package helper that returns only when Len() != 0 (it panics otherwise) and
	// never replaces the buffer (d.take(idx): "panics if the deque is empty")
	instrs(fn, func(bb *ssa.BasicBlock, i int, in ssa.Instruction) {
		call, ok := in.(*ssa.Call)
		if !ok || found || len(call.Call.Args) == 0 || !same(call.Call.Args[0]) {
			return
		}
		cal := staticCallee(&call.Call)
		if cal == nil || cal.Blocks == nil || rootFn(origin(cal)).Pkg != rootFn(fn).Pkg {
			return
		}
		if !((bb == b && i < idx) || (bb != b && bb.Dominates(b))) {
			return
		}
		if returnsOnlyNonEmpty(c, origin(cal)) {
			found = true
		}
	})
	if found {
		return true
	}
	isLen := func(v ssa.Value) bool {
		call, ok := resolveVal(v).(*ssa.Call)
		if !ok {
			return false
		}
		cal := staticCallee(&call.Call)
		return cal != nil && fname(cal) == "Len" && len(call.Call.Args) == 1 && same(call.Call.Args[0]) && isNamedTypeDeep(call.Call.Args[0].Type(), "container/deque", "Deque")
	}
	gs := guardsOf(b)
	nonNeg := func(v ssa.Value) bool {
		if k, ok := resolveVal(v).(*ssa.Const); ok && k.Value != nil && k.Int64() >= 0 {
			return true
		}
		// a loop counter that starts at a non-negative value and only counts up
		if e := symOf(resolveVal(v), provEnv{}); e.op == "iv" && e.nonNegShape() {
			return true
		}
		// a counter kept in a field that is only ever set to a non-negative constant or incremented (iter.n)
		if fieldOnlyCountsUp(c, v) {
			return true
		}
		for _, g := range gs {
			if cf, ok := g.asCmp(); ok {
				x, y, op := cf.x, cf.y, cf.op
				if resolveVal(y) == resolveVal(v) {
					x, y, op = y, x, flip(op)
				}
				if resolveVal(x) == resolveVal(v) {
					if k, ok := resolveVal(y).(*ssa.Const); ok && k.Value != nil {
						if (op == token.GEQ && k.Int64() >= 0) || (op == token.GTR && k.Int64() >= -1) {
							return true
						}
					}
				}
			}
		}
		return false
	}
	for _, g := range gs {
		cf, ok := g.asCmp()
		if !ok {
			continue
		}
		gEnv = cf.env()
		// <deque>.back != -1: the definition of "holds items" that Len() itself rests on (Len() > 0 ⇔ a != nil ∧ back != -1)
		if cf.op == token.NEQ && isConstInt(cf.y, -1) {
			bp := valueProv(cf.x, gEnv)
			if len(bp.fields) >= 1 && bp.fields[len(bp.fields)-1] == "back" && (prov{root: bp.root, fields: bp.fields[:len(bp.fields)-1]}).String() == rp {
				return true
			}
		}
		x, y, op := cf.x, cf.y, cf.op
		if isLen(y) {
			x, y, op = y, x, flip(op)
		}
		if !isLen(x) {
			gEnv = provEnv{}
			continue
		}
		gEnv = provEnv{}
		if k, ok := resolveVal(y).(*ssa.Const); ok && k.Value != nil {
			n := k.Int64()
			if (op == token.NEQ && n == 0) || (op == token.GTR && n >= 0) || (op == token.GEQ && n >= 1) {
				return true
			}
			continue
		}
		if (op == token.GTR && nonNeg(y)) || (op == token.GEQ && false) {
			return true
		}
	}
	// a count-down snapshot: `if iter.remaining == 0 { return }` where remaining was set to d.Len() when the iterator was
	// created, only ever counts down from a non-zero value, and the generation test (which dominates) says the deque was not
	// modified since: remaining != 0 ⇒ Len() was > 0 then ⇒ is > 0 now
	if snapshotCounterEvidence(c, fn, gs, recvP) {
		return true
	}
	// helper: every call site provides the evidence for the corresponding argument
	if depth < 3 && !token.IsExported(fn.Name()) && fn.Parent() == nil {
		pv := recvP
		pp, ok := pv.root.(*ssa.Parameter)
		if !ok {
			return false
		}
		pi := -1
		for i, p := range fn.Params {
			if p == pp {
				pi = i
			}
		}
		sites := callSitesOf(c, fn)
		if pi < 0 || len(sites) == 0 {
			return false
		}
		for _, site := range sites {
			if pi >= len(site.Call.Args) {
				return false
			}
			arg := site.Call.Args[pi]
			// re-apply the field path (e.g. iter.d) on the caller's side
			want := valueProv(arg, provEnv{})
			want.fields = append(append([]string{}, want.fields...), pv.fields...)
			if !dequeNonEmptyProv(c, site.Parent(), site.Block(), idxIn(site), want, depth+1) {
				return false
			}
		}
		return true
	}
	return false
}

func findValueWithProv(fn *ssa.Function, want string) ssa.Value {
	var out ssa.Value
	instrs(fn, func(b *ssa.BasicBlock, i int, in ssa.Instruction) {
		if v, ok := in.(ssa.Value); ok && out == nil {
			if _, isLoad := v.(*ssa.UnOp); isLoad && valueProv(v, provEnv{}).String() == want {
				out = v
			}
		}
	})
	return out
}

func isNamedTypeDeep(t types.Type, pkgSuffix, name string) bool {
	if p, ok := t.(*types.Pointer); ok {
		t = p.Elem()
	}
	return isNamedType(t, pkgSuffix, name) || isNamedType(types.NewPointer(t), pkgSuffix, name)
}

func ruleNonzeroDivisor(c *Ctx, r *R) {
	for _, fn := range c.Funcs {
		name := c.nameOf(fn)
		seen := map[string]int{}
		instrs(fn, func(b *ssa.BasicBlock, i int, in ssa.Instruction) {
			bin, ok := in.(*ssa.BinOp)
			if !ok || (bin.Op != token.QUO && bin.Op != token.REM) || !isIntegerish(bin.X.Type()) {
				return
			}
			if k, ok := bin.Y.(*ssa.Const); ok && k.Value != nil && k.Int64() != 0 {
				return
			}
			expr := path(bin.X) + bin.Op.String() + path(bin.Y)
			seen[expr]++
			key := name + "|" + expr
			if seen[expr] > 1 {
				key += "#" + itoa(seen[expr])
			}
			// guard excluding zero on the divisor
			yp := path(bin.Y)
			guarded := ""
			for _, g := range guardsOf(b) {
				cf, ok := g.asCmp()
				if !ok {
					continue
				}
				xs, ys, op := path(cf.x), path(cf.y), cf.op
				var other ssa.Value = cf.y
				if ys == yp && xs != yp {
					xs, ys, op, other = ys, xs, flip(op), cf.x
				}
				if xs != yp {
					continue
				}
				if k, ok := other.(*ssa.Const); ok && k.Value != nil {
					n := k.Int64()
					if (op == token.NEQ && n == 0) || (op == token.GTR && n >= 0) || (op == token.GEQ && n >= 1) || (op == token.LSS && n <= 0) || (op == token.LEQ && n <= -1) {
						guarded = xs + " " + op.String() + " " + ys
					}
				}
			}
			if guarded != "" {
				r.discharged(key, bin.Pos(), "divisor guarded: "+guarded)
				return
			}
			// len(d.a) of a deque: decided from the deque's own invariant, wherever the expression lives
			if dv := dequeOfLenA(bin.Y); dv != nil {
				if dequeNonEmpty(c, fn, b, i, dv, 0) {
					r.discharged(key, bin.Pos(), "len(d.a) > 0 here: after maybeExpand(), or Len() > 0 was established on every path (incl. every call site of this helper)")
					return
				}
			}
			// a helper's parameter used as divisor: every call site passes a value that is non-zero there
			if divisorFromCallers(c, fn, bin.Y, 0) {
				r.discharged(key, bin.Pos(), "every caller passes a divisor that is provably non-zero at the call site")
				return
			}
			for ek, why := range divisorExceptions {
				parts := strings.SplitN(ek, "|", 2)
				if parts[0] == name && (parts[1] == "" || strings.Contains(expr, strings.Trim(parts[1], "()"))) {
					r.excepted(key, bin.Pos(), why)
					return
				}
			}
			r.violated(key, bin.Pos(), "integer division/modulo by "+yp+", which is not provably non-zero here: n = 0 (an empty or zero-sized argument) panics with a division by zero")
		})
	}
}

// counterField: the int field of the receiver that the method's entry branch compares with `<= 0` (the remaining-items
// counter of First/Repeat), whatever it is called.
func counterField(fn *ssa.Function) string {
	if len(fn.Blocks) == 0 {
		return ""
	}
	iff, ok := fn.Blocks[0].Instrs[len(fn.Blocks[0].Instrs)-1].(*ssa.If)
	if !ok {
		return ""
	}
	// the counter lives in a small type of its own: if !iter.x.take() { ... }
	if v, _ := (guard{cond: iff.Cond, val: true}).boolVal(); v != nil {
		if call, ok := v.(*ssa.Call); ok {
			if f, isTake := takeLikeCall(call); isTake {
				return f
			}
		}
	}
	for _, val := range []bool{true, false} {
		cf, ok := (guard{cond: iff.Cond, val: val}).asCmp()
		if !ok {
			continue
		}
		if ld, ok := cf.x.(*ssa.UnOp); ok {
			if fa, ok := ld.X.(*ssa.FieldAddr); ok && isIntType(ld.Type()) && isConstInt(cf.y, 0) {
				return fieldName(fa.X.Type(), fa.Field)
			}
		}
	}
	return ""
}

// dequeOfLenA: v is len(X.a) with X a deque → X (the pointer value), else nil.
func dequeOfLenA(v ssa.Value) ssa.Value {
	call, ok := resolveVal(v).(*ssa.Call)
	if !ok {
		return nil
	}
	bi, ok := call.Call.Value.(*ssa.Builtin)
	if !ok || bi.Name() != "len" || len(call.Call.Args) != 1 {
		return nil
	}
	ld, ok := resolveVal(call.Call.Args[0]).(*ssa.UnOp)
	if !ok {
		return nil
	}
	fa, ok := ld.X.(*ssa.FieldAddr)
	if !ok || fieldName(fa.X.Type(), fa.Field) != "a" || !isNamedTypeDeep(fa.X.Type(), "container/deque", "Deque") {
		return nil
	}
	return fa.X
}

// divisorFromCallers: the divisor is (derived by provenance from) a parameter of an unexported helper; discharge when at every
// call site the corresponding argument is a deque buffer length with non-empty evidence, or a non-zero constant, or guarded.
func divisorFromCallers(c *Ctx, fn *ssa.Function, div ssa.Value, depth int) bool {
	if depth > 2 || token.IsExported(fn.Name()) || fn.Parent() != nil {
		return false
	}
	lenOf := false
	if call, ok := resolveVal(div).(*ssa.Call); ok {
		if bi, ok := call.Call.Value.(*ssa.Builtin); ok && bi.Name() == "len" && len(call.Call.Args) == 1 {
			div = call.Call.Args[0]
			lenOf = true
		}
	}
	pp, ok := valueProv(div, provEnv{}).root.(*ssa.Parameter)
	if !ok {
		return false
	}
	viaFields := len(valueProv(div, provEnv{}).fields) != 0 // a field of a struct parameter (r.buf of a ring helper type)
	if viaFields && !lenOf {
		return false
	}
	pi := -1
	for i, p := range fn.Params {
		if p == pp {
			pi = i
		}
	}
	sites := callSitesOf(c, fn)
	if pi < 0 || len(sites) == 0 {
		return false
	}
	for _, site := range sites {
		if pi >= len(site.Call.Args) {
			return false
		}
		arg := site.Call.Args[pi]
		if viaFields {
			// the field as the caller set it: a local struct whose field was given make([]T, n)
			pv := valueProv(div, provEnv{chain: []*ssa.Call{site}})
			ms, ok := pv.root.(*ssa.MakeSlice)
			if !ok || len(pv.fields) != 0 {
				return false
			}
			arg = ms.Len
		} else if lenOf {
			// len(param): the argument must be a slice of provably non-zero length: make([]T, n) with n non-zero at the site
			ms, ok := valueProv(arg, provEnv{}).root.(*ssa.MakeSlice)
			if !ok {
				if ms2, ok2 := resolveVal(arg).(*ssa.MakeSlice); ok2 {
					ms, ok = ms2, true
				}
			}
			if !ok {
				return false
			}
			arg = ms.Len
		}
		if k, ok := resolveVal(arg).(*ssa.Const); ok && k.Value != nil && k.Int64() != 0 {
			continue
		}
		if dv := dequeOfLenA(arg); dv != nil && dequeNonEmpty(c, site.Parent(), site.Block(), idxIn(site), dv, 0) {
			continue
		}
		// guarded at the call site
		okG := false
		for _, g := range guardsOf(site.Block()) {
			if cf, ok := g.asCmp(); ok {
				x, y, op := cf.x, cf.y, cf.op
				if resolveVal(y) == resolveVal(arg) {
					x, y, op = y, x, flip(op)
				}
				if resolveVal(x) == resolveVal(arg) {
					if k, ok := resolveVal(y).(*ssa.Const); ok && k.Value != nil {
						n := k.Int64()
						if (op == token.NEQ && n == 0) || (op == token.GTR && n >= 0) || (op == token.GEQ && n >= 1) {
							okG = true
						}
					}
				}
			}
		}
		if okG {
			continue
		}
		if divisorFromCallers(c, site.Parent(), arg, depth+1) {
			continue
		}
		return false
	}
	return true
}

func snapshotCounterEvidence(c *Ctx, fn *ssa.Function, gs []guard, pv prov) bool {
	root, ok := pv.root.(*ssa.Parameter)
	if !ok || len(pv.fields) != 1 || len(fn.Params) == 0 || root != fn.Params[0] {
		return false
	}
	dF := pv.fields[0]
	pt, ok := root.Type().Underlying().(*types.Pointer)
	if !ok {
		return false
	}
	sT := pt.Elem()
	fieldOf := func(v ssa.Value) (string, bool) {
		p := valueProv(v, provEnv{})
		if p.root == ssa.Value(root) && len(p.fields) == 1 {
			return p.fields[0], true
		}
		return "", false
	}
	// the generation test: S.G == S.D.<field>
	genOK := false
	for _, g := range gs {
		cf, ok := g.asCmp()
		if !ok || cf.op != token.EQL {
			continue
		}
		for _, pair := range [][2]ssa.Value{{cf.x, cf.y}, {cf.y, cf.x}} {
			if _, ok := fieldOf(pair[0]); !ok {
				continue
			}
			p2 := valueProv(pair[1], provEnv{})
			if p2.root == ssa.Value(root) && len(p2.fields) == 2 && p2.fields[0] == dF {
				genOK = true
			}
		}
	}
	if !genOK {
		return false
	}
	nonZero := func(g guard, of func(ssa.Value) bool) bool {
		cf, ok := g.asCmp()
		if !ok {
			return false
		}
		x, y, op := cf.x, cf.y, cf.op
		if of(y) {
			x, y, op = y, x, flip(op)
		}
		if !of(x) {
			return false
		}
		k, ok := resolveVal(y).(*ssa.Const)
		if !ok || k.Value == nil {
			return false
		}
		n := k.Int64()
		return (op == token.NEQ && n == 0) || (op == token.GTR && n >= 0) || (op == token.GEQ && n >= 1)
	}
	for _, g := range gs {
		var cF string
		if !nonZero(g, func(v ssa.Value) bool {
			f, ok := fieldOf(v)
			if ok && isIntType(v.Type()) {
				cF = f
			}
			return ok && isIntType(v.Type())
		}) || cF == "" {
			continue
		}
		// every store to S.cF in the package: construction from Len() of the deque stored next to it, or a guarded decrement
		all, n := true, 0
		for _, f2 := range c.Funcs {
			if rootFn(f2).Pkg != rootFn(fn).Pkg {
				continue
			}
			instrs(f2, func(b *ssa.BasicBlock, i int, in ssa.Instruction) {
				st, ok := in.(*ssa.Store)
				if !ok {
					return
				}
				fa, ok := st.Addr.(*ssa.FieldAddr)
				if !ok || fieldName(fa.X.Type(), fa.Field) != cF {
					return
				}
				if bt, ok := fa.X.Type().Underlying().(*types.Pointer); !ok || !types.Identical(origType(bt.Elem()), origType(sT)) {
					return
				}
				n++
				if al, ok := fa.X.(*ssa.Alloc); ok {
					// construction: value is <deque>.Len() with <deque> the value stored into field dF of the same object
					var dq ssa.Value
					for _, ref := range refsOf(al) {
						if fa2, ok := ref.(*ssa.FieldAddr); ok && fieldName(fa2.X.Type(), fa2.Field) == dF {
							for _, r2 := range refsOf(fa2) {
								if st2, ok := r2.(*ssa.Store); ok {
									dq = st2.Val
								}
							}
						}
					}
					call, ok := resolveVal(st.Val).(*ssa.Call)
					if ok && dq != nil {
						if cal := staticCallee(&call.Call); cal != nil && fname(cal) == "Len" && len(call.Call.Args) == 1 && resolveVal(call.Call.Args[0]) == resolveVal(dq) {
							return
						}
					}
					all = false
					return
				}
				// decrement under a non-zero test of the same field
				bin, ok := resolveVal(st.Val).(*ssa.BinOp)
				selfField := func(v ssa.Value) bool {
					p := valueProv(v, provEnv{})
					pr, isP := p.root.(*ssa.Parameter)
					return isP && len(f2.Params) > 0 && pr == f2.Params[0] && len(p.fields) == 1 && p.fields[0] == cF
				}
				if !ok || bin.Op != token.SUB || !isConstInt(bin.Y, 1) || !selfField(bin.X) {
					all = false
					return
				}
				guarded := false
				for _, g2 := range guardsOf(b) {
					if nonZero(g2, selfField) {
						guarded = true
					}
				}
				if !guarded {
					all = false
				}
			})
		}
		if all && n >= 2 {
			return true
		}
	}
	return false
}

// origType: the generic origin of an instantiated named type (so iterator[T] in the generic body and in an instance compare equal).
func origType(t types.Type) types.Type {
	if nt, ok := t.(*types.Named); ok {
		return nt.Origin()
	}
	return t
}

// returnsOnlyNonEmpty: every return of method h (receiver = the deque) is dominated by a test that the receiver's Len() is
// non-zero, and h (with the helpers it calls) never stores to the buffer field.
func returnsOnlyNonEmpty(c *Ctx, h *ssa.Function) bool {
	if len(h.Params) == 0 || !isNamedTypeDeep(h.Params[0].Type(), "container/deque", "Deque") {
		return false
	}
	for _, d := range deepInstrs(h, 2) {
		if st, ok := d.in.(*ssa.Store); ok {
			if _, f, ok := storedField(st.Addr); ok && f == "a" {
				if fa, ok := st.Addr.(*ssa.FieldAddr); ok && isNamedTypeDeep(fa.X.Type(), "container/deque", "Deque") {
					return false
				}
			}
		}
	}
	n := 0
	for _, b := range h.Blocks {
		if _, ok := b.Instrs[len(b.Instrs)-1].(*ssa.Return); !ok {
			continue
		}
		n++
		if !dequeLenPositive(h, b, h.Params[0]) {
			return false
		}
	}
	return n > 0
}

// dequeLenPositive: a guard dominating b says recv.Len() != 0 (> 0, >= 1).
func dequeLenPositive(fn *ssa.Function, b *ssa.BasicBlock, recv ssa.Value) bool {
	rp := valueProv(recv, provEnv{}).String()
	isLen := func(v ssa.Value) bool {
		call, ok := resolveVal(v).(*ssa.Call)
		if !ok {
			return false
		}
		cal := staticCallee(&call.Call)
		return cal != nil && fname(cal) == "Len" && len(call.Call.Args) == 1 && valueProv(call.Call.Args[0], provEnv{}).String() == rp
	}
	for _, g := range guardsOf(b) {
		cf, ok := g.asCmp()
		if !ok {
			continue
		}
		x, y, op := cf.x, cf.y, cf.op
		if isLen(y) {
			x, y, op = y, x, flip(op)
		}
		if !isLen(x) {
			continue
		}
		if k, ok := resolveVal(y).(*ssa.Const); ok && k.Value != nil {
			kv := k.Int64()
			if (op == token.NEQ && kv == 0) || (op == token.GTR && kv >= 0) || (op == token.GEQ && kv >= 1) {
				return true
			}
		}
	}
	return false
}

// fieldOnlyCountsUp: v is a load of an integer field of a struct type of the module, and every store to that field anywhere in
// its package is a non-negative constant or the field's own value plus a positive constant.
func fieldOnlyCountsUp(c *Ctx, v ssa.Value) bool {
	ld, ok := resolveVal(v).(*ssa.UnOp)
	if !ok || ld.Op != token.MUL || !isIntType(ld.Type()) {
		return false
	}
	fa, ok := ld.X.(*ssa.FieldAddr)
	if !ok || ld.Parent() == nil {
		return false
	}
	nt, ok := derefType(fa.X.Type()).(*types.Named)
	if !ok {
		return false
	}
	fld := fieldName(fa.X.Type(), fa.Field)
	n := 0
	good := true
	for _, f := range c.Funcs {
		if rootFn(f).Pkg != rootFn(ld.Parent()).Pkg {
			continue
		}
		instrs(f, func(_ *ssa.BasicBlock, _ int, in ssa.Instruction) {
			st, ok := in.(*ssa.Store)
			if !ok {
				return
			}
			fa2, ok := st.Addr.(*ssa.FieldAddr)
			if !ok || fieldName(fa2.X.Type(), fa2.Field) != fld {
				return
			}
			nt2, ok := derefType(fa2.X.Type()).(*types.Named)
			if !ok || nt2.Origin() != nt.Origin() {
				return
			}
			n++
			if k, isK := st.Val.(*ssa.Const); isK && k.Value != nil && k.Int64() >= 0 {
				return
			}
			if add, isB := resolveVal(st.Val).(*ssa.BinOp); isB && add.Op == token.ADD {
				if k, isK := add.Y.(*ssa.Const); isK && k.Value != nil && k.Int64() > 0 {
					if l2, isL := resolveVal(add.X).(*ssa.UnOp); isL && l2.Op == token.MUL {
						if fa3, isF := l2.X.(*ssa.FieldAddr); isF && fieldName(fa3.X.Type(), fa3.Field) == fld {
							return
						}
					}
				}
			}
			good = false
		})
	}
	return good && n > 0
}

// takeLikeCall: call hands the address of a field of the caller's receiver to a method of a small counter type that (a) stores
// through that pointer only `*p - 1`, (b) only where `*p > 0` has been established, and (c) returns true exactly on the paths
// that made the store (func (c *countdown) take() bool { if *c <= 0 { return false }; *c--; return true }). Returns the field.
func takeLikeCall(call *ssa.Call) (string, bool) {
	if call.Call.IsInvoke() || len(call.Call.Args) != 1 {
		return "", false
	}
	fa, ok := call.Call.Args[0].(*ssa.FieldAddr)
	if !ok {
		return "", false
	}
	cal := staticCallee(&call.Call)
	if !storesThroughParam0(cal) {
		return "", false
	}
	p := cal.Params[0]
	var stores []*ssa.Store
	okAll := true
	instrs(cal, func(b *ssa.BasicBlock, _ int, in ssa.Instruction) {
		st, isSt := in.(*ssa.Store)
		if !isSt {
			return
		}
		stores = append(stores, st)
		bin, isBin := st.Val.(*ssa.BinOp)
		if !isBin || bin.Op != token.SUB || !isConstInt(bin.Y, 1) {
			okAll = false
			return
		}
		if ld, isLd := bin.X.(*ssa.UnOp); !isLd || ld.Op != token.MUL || ld.X != ssa.Value(p) {
			okAll = false
			return
		}
		positive := false
		for _, g := range guardsOf(b) {
			if cf, isCmp := g.asCmp(); isCmp && cf.op == token.GTR && isConstInt(cf.y, 0) {
				if ld, isLd := cf.x.(*ssa.UnOp); isLd && ld.Op == token.MUL && ld.X == ssa.Value(p) {
					positive = true
				}
			}
		}
		if !positive {
			okAll = false
		}
	})
	if !okAll || len(stores) == 0 {
		return "", false
	}
	// true is returned exactly where a store has happened
	instrs(cal, func(b *ssa.BasicBlock, _ int, in ssa.Instruction) {
		ret, isRet := in.(*ssa.Return)
		if !isRet {
			return
		}
		if len(ret.Results) != 1 {
			okAll = false
			return
		}
		k, isK := returnedValue(ret, 0).(*ssa.Const)
		if !isK || k.Value == nil || k.Value.Kind() != constant.Bool {
			okAll = false
			return
		}
		after := false
		for _, st := range stores {
			if st.Block() == b || st.Block().Dominates(b) {
				after = true
			}
		}
		if constant.BoolVal(k.Value) != after {
			okAll = false
		}
	})
	if !okAll {
		return "", false
	}
	return fieldName(fa.X.Type(), fa.Field), true
}

// streamParamOf: the parameter of fn that is a stream or an iterator (the first one).
func streamParamOf(fn *ssa.Function) *ssa.Parameter {
	for _, p := range fn.Params {
		if n, ok := p.Type().(*types.Named); ok && n.Obj().Pkg() != nil {
			switch n.Obj().Name() {
			case "Stream", "Iterator", "Peekable":
				return p
			}
		}
	}
	return nil
}
