package main

import (
	"go/token"
	"go/types"
	"sort"
	"strings"

	"golang.org/x/tools/go/ssa"
)

// E-OWN: stream ownership. Type-directed: an owned value is a parameter (or element of a slice
// parameter) whose type is an instantiation of stream.Stream / stream.Peekable.

var ownPkgs = []string{"stream", "parallel", "xmath/xrand"}

func isStreamNamed(t types.Type) bool {
	n, ok := t.(*types.Named)
	if !ok || n.Obj().Pkg() == nil {
		return false
	}
	if !strings.HasSuffix(n.Obj().Pkg().Path(), "juniper/stream") {
		return false
	}
	return n.Obj().Name() == "Stream" || n.Obj().Name() == "Peekable"
}

// streamKind: 1 = Stream-typed, 2 = slice of streams, 0 = neither.
func streamKind(t types.Type) int {
	if isStreamNamed(t) {
		return 1
	}
	if s, ok := t.Underlying().(*types.Slice); ok && isStreamNamed(s.Elem()) {
		return 2
	}
	return 0
}

// implementsStreamShape: a concrete type with Next and Close methods (e.g. *runsInnerStream).
func implementsStreamShape(t types.Type) bool {
	if isStreamNamed(t) {
		return true
	}
	ms := types.NewMethodSet(t)
	has := func(n string) bool {
		for i := 0; i < ms.Len(); i++ {
			if ms.At(i).Obj().Name() == n {
				return true
			}
		}
		return false
	}
	if _, isPtr := t.(*types.Pointer); !isPtr {
		return false
	}
	return has("Next") && has("Close")
}

// copiesOf returns v together with its interface-conversion copies.
func copiesOf(v ssa.Value) map[ssa.Value]bool {
	out := map[ssa.Value]bool{v: true}
	work := []ssa.Value{v}
	for len(work) > 0 {
		x := work[0]
		work = work[1:]
		if x.Referrers() == nil {
			continue
		}
		for _, ref := range *x.Referrers() {
			switch y := ref.(type) {
			case *ssa.MakeInterface, *ssa.ChangeInterface, *ssa.ChangeType:
				yv := y.(ssa.Value)
				if !out[yv] {
					out[yv] = true
					work = append(work, yv)
				}
			case *ssa.Store:
				// spilled into a variable (because a closure captures it): loads of that variable are copies as long as
				// nothing else is ever stored into it
				cell, ok := y.Addr.(*ssa.Alloc)
				if !ok || y.Val != x {
					continue
				}
				only := true
				for _, st := range storesTo(cell) {
					if !out[st.Val] {
						only = false
					}
				}
				if cell.Referrers() != nil {
					for _, cr := range *cell.Referrers() {
						if mc, ok := cr.(*ssa.MakeClosure); ok && !isLocalHelperClosure(mc) {
							only = false // captured by a goroutine / escaping closure: that is a different owner
						}
					}
				}
				if !only {
					continue
				}
				for _, f := range withAnon(cell.Parent()) {
					instrs(f, func(_ *ssa.BasicBlock, _ int, in ssa.Instruction) {
						if ld, ok := in.(*ssa.UnOp); ok && ld.Op == token.MUL && cellOf(ld.X) == cell && !out[ld] {
							out[ld] = true
							work = append(work, ld)
						}
					})
				}
			case *ssa.Phi:
				// a phi of only copies of v is a copy
				all := true
				for _, e := range y.Edges {
					if !out[e] {
						all = false
					}
				}
				if all && !out[y] {
					out[y] = true
					work = append(work, y)
				}
			}
		}
	}
	return out
}

type ownUse struct {
	kind  string         // next, close, defer-close, wrapped, handed, captured, other
	param *ssa.Parameter // captured: the literal receives the value as this parameter (go func(src Stream[T]) {...}(s))
	in    ssa.Instruction
	field string        // wrapped: field name
	strct *ssa.Alloc    // wrapped: struct literal
	fn    *ssa.Function // handed: callee; captured: closure
	argIx int
}

// usesOfOwned classifies every use of an owned value inside fn (not descending into closures).
func usesOfOwned(v ssa.Value) []ownUse {
	var uses []ownUse
	for cp := range copiesOf(v) {
		if cp.Referrers() == nil {
			continue
		}
		for _, ref := range *cp.Referrers() {
			switch x := ref.(type) {
			case *ssa.MakeInterface, *ssa.ChangeInterface, *ssa.ChangeType, *ssa.DebugRef:
				continue
			case *ssa.Phi:
				continue
			case *ssa.Call:
				if x.Call.IsInvoke() && x.Call.Value == cp {
					switch x.Call.Method.Name() {
					case "Close":
						uses = append(uses, ownUse{kind: "close", in: x})
					case "Next", "Peek":
						uses = append(uses, ownUse{kind: "next", in: x})
					default:
						uses = append(uses, ownUse{kind: "other", in: x})
					}
					continue
				}
				if _, isB := x.Call.Value.(*ssa.Builtin); isB {
					continue // len(in) etc. is not a hand-on
				}
				cal := staticCallee(&x.Call)
				ix := -1
				for i, a := range x.Call.Args {
					if a == cp {
						ix = i
					}
				}
				if cal != nil && ix >= 0 {
					uses = append(uses, ownUse{kind: "handed", in: x, fn: cal, argIx: ix})
				} else {
					uses = append(uses, ownUse{kind: "other", in: x})
				}
			case *ssa.Defer:
				if x.Call.IsInvoke() && x.Call.Value == cp && x.Call.Method.Name() == "Close" {
					uses = append(uses, ownUse{kind: "defer-close", in: x})
				} else {
					uses = append(uses, ownUse{kind: "other", in: x})
				}
			case *ssa.Store:
				if x.Val == cp {
					if fa, ok := x.Addr.(*ssa.FieldAddr); ok {
						if al, ok := fa.X.(*ssa.Alloc); ok {
							uses = append(uses, ownUse{kind: "wrapped", in: x, field: fieldName(fa.X.Type(), fa.Field), strct: al})
							continue
						}
						// a field of a struct embedded (by value) in the wrapper: &w.innerCloser.inner
						fld := fieldName(fa.X.Type(), fa.Field)
						base := fa.X
						for d := 0; d < 3; d++ {
							inner, ok := base.(*ssa.FieldAddr)
							if !ok {
								break
							}
							fld = fieldName(inner.X.Type(), inner.Field) + "." + fld
							base = inner.X
						}
						if al, ok := base.(*ssa.Alloc); ok {
							uses = append(uses, ownUse{kind: "wrapped", in: x, field: fld, strct: al})
							continue
						}
					}
					if al, ok := x.Addr.(*ssa.Alloc); ok {
						// spilled into a cell (captured by a closure): follow the cell
						uses = append(uses, cellUses(al)...)
						continue
					}
					uses = append(uses, ownUse{kind: "other", in: x})
				}
			case *ssa.MakeClosure:
				uses = append(uses, ownUse{kind: "captured", in: x, fn: x.Fn.(*ssa.Function)})
			case *ssa.Go:
				// go func(ctx context.Context, src Stream[T], items chan<- T) {...}(bgCtx, s, c): handed to the goroutine's
				// literal as an argument instead of being captured
				if mc, isMC := x.Call.Value.(*ssa.MakeClosure); isMC {
					lit := mc.Fn.(*ssa.Function)
					done := false
					for k, a := range x.Call.Args {
						if a == cp && k < len(lit.Params) {
							uses = append(uses, ownUse{kind: "captured", in: mc, fn: lit, param: lit.Params[k]})
							done = true
						}
					}
					if done {
						continue
					}
				}
				uses = append(uses, ownUse{kind: "other", in: x})
			case *ssa.IndexAddr:
				// element of an owned slice
				if x.X == cp {
					for _, ref2 := range *x.Referrers() {
						if ld, ok := ref2.(*ssa.UnOp); ok && ld.Op == token.MUL {
							uses = append(uses, usesOfOwned(ld)...)
						}
					}
				}
			case *ssa.Return:
				uses = append(uses, ownUse{kind: "returned", in: x})
			default:
				uses = append(uses, ownUse{kind: "other", in: ref})
			}
		}
	}
	return uses
}

// cellUses: the owned value lives in a cell (Alloc) because a closure captures it.
func cellUses(cell *ssa.Alloc) []ownUse {
	var uses []ownUse
	if cell.Referrers() == nil {
		return nil
	}
	for _, ref := range *cell.Referrers() {
		switch x := ref.(type) {
		case *ssa.MakeClosure:
			uses = append(uses, ownUse{kind: "captured", in: x, fn: x.Fn.(*ssa.Function)})
		case *ssa.UnOp:
			if x.Op == token.MUL {
				uses = append(uses, usesOfOwned(x)...)
			}
		}
	}
	return uses
}

// ownedValuesInClosure returns the loads inside closure fn of the free variable bound to the cell/value v.
func freeVarLoads(clo *ssa.MakeClosure, bound ssa.Value) []ssa.Value {
	fn := clo.Fn.(*ssa.Function)
	var out []ssa.Value
	for i, b := range clo.Bindings {
		if b != bound {
			continue
		}
		fv := fn.FreeVars[i]
		if fv.Referrers() == nil {
			continue
		}
		if _, isPtr := fv.Type().(*types.Pointer); isPtr && streamKind(fv.Type().(*types.Pointer).Elem()) != 0 {
			for _, ref := range *fv.Referrers() {
				if ld, ok := ref.(*ssa.UnOp); ok && ld.Op == token.MUL {
					out = append(out, ld)
				}
			}
		} else {
			out = append(out, fv)
		}
	}
	return out
}

type ownedParam struct {
	fn    *ssa.Function
	name  string
	param *ssa.Parameter
	kind  int
}

func ownedParams(c *Ctx) []ownedParam {
	var out []ownedParam
	for _, rel := range ownPkgs {
		sp := c.SSA[rel]
		if sp == nil {
			continue
		}
		var names []string
		for n, m := range sp.Members {
			if _, ok := m.(*ssa.Function); ok {
				names = append(names, n)
			}
		}
		sort.Strings(names)
		for _, n := range names {
			fn := sp.Members[n].(*ssa.Function)
			if fn.Blocks == nil || fn.Synthetic != "" {
				continue
			}
			for _, p := range fn.Params {
				if k := streamKind(p.Type()); k != 0 {
					if isBorrower(c, fn, p) {
						continue // an unexported helper that only reads from a stream its caller owns and closes
					}
					out = append(out, ownedParam{fn, rel + "." + n, p, k})
				}
			}
		}
		// methods that are handed a stream (iter.startReader(ctx, s))
		var meths []*ssa.Function
		for _, fn := range c.Funcs {
			if fn.Pkg == sp && fn.Parent() == nil && fn.Signature.Recv() != nil && fn.Blocks != nil && fn.Synthetic == "" {
				meths = append(meths, fn)
			}
		}
		sort.Slice(meths, func(i, j int) bool { return c.nameOf(meths[i]) < c.nameOf(meths[j]) })
		for _, fn := range meths {
			for pi, p := range fn.Params {
				if pi == 0 {
					continue // the receiver is the object itself, not something handed over
				}
				if k := streamKind(p.Type()); k != 0 && !isBorrower(c, fn, p) {
					out = append(out, ownedParam{fn, c.nameOf(fn), p, k})
				}
			}
		}
	}
	return out
}

// closedOnAllPaths: PF over fn; state 0 = open, 1 = closed. vals = alias set of the owned value.
// Returns (ok, useAfterClose position).
func closedOnAllPaths(fn *ssa.Function, isVal func(ssa.Value) bool) (allClosed bool, badRet *ssa.Return, useAfter ssa.Instruction, doubleClose ssa.Instruction) {
	pf := &PF{N: 2}
	pf.Instr = func(f *ssa.Function, in ssa.Instruction, q int) (StateSet, bool) {
		var cc *ssa.CallCommon
		switch x := in.(type) {
		case *ssa.Call:
			cc = &x.Call
		case deferredCall:
			cc = &x.Defer.Call
		default:
			return 0, false
		}
		if cc.IsInvoke() && isVal(cc.Value) {
			switch cc.Method.Name() {
			case "Close":
				if q == 1 && doubleClose == nil {
					doubleClose = in
				}
				return ss(1), true
			case "Next", "Peek":
				if q == 1 && useAfter == nil {
					useAfter = in
				}
			}
		}
		return 0, false
	}
	allClosed = true
	for _, e := range pf.Exits(fn, ss(0)) {
		if e.States.has(0) {
			allClosed = false
			if badRet == nil {
				badRet = e.Ret
			}
		}
	}
	return
}

func ruleOwnParams(c *Ctx, r *R) {
	universe := map[*ssa.Function]bool{}
	ops := ownedParams(c)
	for _, op := range ops {
		universe[op.fn] = true
	}
	for _, op := range ops {
		key := op.name + "|" + op.param.Name()
		uses := usesOfOwned(op.param)
		forms := map[string]bool{}
		nested := map[*ssa.Alloc]*ssa.Alloc{}
		var details []string
		otherUse := ""
		var heldUse ownUse
		for _, u := range uses {
			switch u.kind {
			case "next", "close", "defer-close":
				forms["here"] = true
			case "wrapped":
				// the struct must be what is returned
				if allocReturned(u.strct) {
					forms["wrapped"] = true
					details = append(details, "FIELD "+typeShort(u.strct.Type())+"."+u.field)
				} else if outer, ofield := enclosingReturnedAlloc(u.strct); outer != nil {
					// &runsStream{peek: &peekable{inner: s}}: the wrapper that holds s is itself held, under its own type, by
					// the wrapper that is returned (each wrapper's Close is judged by C09.close-forwards)
					forms["wrapped"] = true
					details = append(details, "FIELD "+typeShort(u.strct.Type())+"."+u.field+" INSIDE "+typeShort(outer.Type())+"."+ofield)
					nested[u.strct] = outer
				} else if heldByHelperObject(c, op, u) != nil {
					forms["held"] = true
					heldUse = u
				} else {
					otherUse = "stored into a struct that is not returned"
				}
			case "handed":
				if u.argIx < len(u.fn.Params) && isBorrower(c, u.fn, u.fn.Params[u.argIx]) {
					forms["here"] = true // lent to a helper that only reads it
				} else if call, isCall := u.in.(*ssa.Call); isCall && universe[u.fn] && neverClosedView(call, 0) {
					// indexed := stream.Map(s, tag) whose result is only ever read (Next / Peek), never closed, returned,
					// stored or handed on: the wrapper's ownership is never exercised - a view of s, not a second owner;
					// who closes s is decided by its other uses
					details = append(details, "VIEW through "+funcShort(u.fn))
				} else if universe[u.fn] && u.argIx < len(u.fn.Params) && streamKind(u.fn.Params[u.argIx].Type()) != 0 {
					forms["handed"] = true
					details = append(details, "HANDED-ON to "+funcShort(u.fn))
				} else {
					otherUse = "passed to " + funcShort(u.fn) + " which does not take ownership"
				}
			case "captured":
				if mc, ok := u.in.(*ssa.MakeClosure); ok && isLocalHelperClosure(mc) {
					// a function literal that is only ever called in place (advanceTo := func(…){… s.Next …}): its uses are
					// uses by this function
					forms["here"] = true
				} else {
					forms["goroutine"] = true
				}
			case "returned":
				otherUse = "returned unchanged"
			case "other":
				otherUse = "used by " + u.in.String()
			}
		}
		if otherUse != "" {
			r.undecided(key, op.param.Pos(), "unrecognised use of an owned stream: "+otherUse)
			continue
		}
		var fl []string
		for f := range forms {
			fl = append(fl, f)
		}
		sort.Strings(fl)
		if len(forms) == 0 {
			r.violated(key, op.param.Pos(), "owned stream parameter has no discharge form: it is neither closed here, nor wrapped into the returned stream, nor handed to an owning function, nor owned by a goroutine that closes it")
			continue
		}
		if len(forms) > 1 {
			r.violated(key, op.param.Pos(), "owned stream parameter has more than one discharge form ("+strings.Join(fl, "+")+"): it would be closed more than once or used by two owners")
			continue
		}
		switch fl[0] {
		case "here":
			cps := copiesOf(op.param)
			okc, badRet, useAfter, dbl := closedOnAllPaths(op.fn, func(v ssa.Value) bool { return cps[v] })
			switch {
			case !okc:
				r.violated(key, retPos(badRet), "a path returns without Close on the owned stream "+op.param.Name())
			case useAfter != nil:
				r.violated(key, posOf(useAfter), "Next/Peek after Close on "+op.param.Name())
			case dbl != nil:
				r.violated(key, posOf(dbl), "second Close on "+op.param.Name()+" on one path")
			default:
				r.discharged(key, op.param.Pos(), "closed-here on every path")
			}
		case "wrapped":
			// ... on EVERY return: a path that returns something else (an Empty() shortcut for n <= 0) drops the stream it took
			// ownership of - nobody will ever close it
			wrappers := map[ssa.Value]bool{}
			for _, u := range uses {
				if u.kind == "wrapped" && u.strct != nil {
					for cp := range copiesOf(u.strct) {
						wrappers[cp] = true
					}
					if outer := nested[u.strct]; outer != nil {
						for cp := range copiesOf(outer) {
							wrappers[cp] = true
						}
					}
				}
			}
			var dropRet *ssa.Return
			instrs(op.fn, func(_ *ssa.BasicBlock, _ int, in ssa.Instruction) {
				ret, ok := in.(*ssa.Return)
				if !ok || len(ret.Results) == 0 {
					return
				}
				for _, lf := range valueLeaves(returnedValue(ret, 0), nil, 0) {
					v := lf.v
					if mi, ok := v.(*ssa.MakeInterface); ok {
						v = mi.X
					}
					if !wrappers[v] {
						dropRet = ret
					}
				}
			})
			if dropRet != nil {
				r.violated(key, retPos(dropRet), "a path returns something other than the wrapper that holds the owned stream "+op.param.Name()+" (and does not close it): the stream is dropped and never closed")
				break
			}
			r.discharged(key, op.param.Pos(), "wrapped: "+strings.Join(details, ", ")+" (the wrapper's Close is checked by C09.close-forwards)")
		case "handed":
			// ... on every return
			var handCalls []ssa.Instruction
			for _, u := range uses {
				if u.kind == "handed" {
					handCalls = append(handCalls, u.in)
				}
			}
			var dropRet *ssa.Return
			instrs(op.fn, func(b *ssa.BasicBlock, _ int, in ssa.Instruction) {
				ret, ok := in.(*ssa.Return)
				if !ok {
					return
				}
				handed := false
				for _, hc := range handCalls {
					if hc.Block() == b || hc.Block().Dominates(b) {
						handed = true
					}
				}
				if !handed {
					dropRet = ret
				}
			})
			if dropRet != nil && len(handCalls) == 1 {
				r.violated(key, retPos(dropRet), "a path returns without having handed the owned stream "+op.param.Name()+" on (and does not close it): the stream is dropped and never closed")
				break
			}
			r.discharged(key, op.param.Pos(), strings.Join(details, ", "))
		case "goroutine":
			ruleOwnGoroutine(c, r, op, key, uses)
		case "held":
			ruleOwnHeld(c, r, op, key, heldUse)
		}
	}
}

func typeShort(t types.Type) string {
	if p, ok := t.(*types.Pointer); ok {
		t = p.Elem()
	}
	if n, ok := t.(*types.Named); ok {
		return canonType(n)
	}
	return t.String()
}

// allocReturned: the struct literal (its address, possibly converted to an interface) is a result of the function.
// enclosingReturnedAlloc: al (a wrapper struct of the package, with a Close method of its own) is stored, as a pointer of its
// own concrete type, into a field of another freshly allocated struct that is returned; that struct and the field.
func enclosingReturnedAlloc(al *ssa.Alloc) (*ssa.Alloc, string) {
	if ms := typeMethodSet(al.Type()); ms == nil || ms.Lookup(nil, "Close") == nil && lookupMethodAnyPkg(ms, "Close") == nil {
		return nil, ""
	}
	for cp := range copiesOf(al) {
		if cp.Referrers() == nil {
			continue
		}
		for _, ref := range *cp.Referrers() {
			st, ok := ref.(*ssa.Store)
			if !ok || st.Val != cp {
				continue
			}
			fa, ok := st.Addr.(*ssa.FieldAddr)
			if !ok {
				continue
			}
			outer, ok := fa.X.(*ssa.Alloc)
			if !ok || outer == al || !allocReturned(outer) {
				continue
			}
			if _, isIface := fa.Type().(*types.Pointer).Elem().Underlying().(*types.Interface); isIface {
				continue
			}
			return outer, fieldName(fa.X.Type(), fa.Field)
		}
	}
	return nil, ""
}

func typeMethodSet(t types.Type) *types.MethodSet { return types.NewMethodSet(t) }

func lookupMethodAnyPkg(ms *types.MethodSet, name string) *types.Selection {
	for i := 0; i < ms.Len(); i++ {
		if ms.At(i).Obj().Name() == name {
			return ms.At(i)
		}
	}
	return nil
}

func allocReturned(al *ssa.Alloc) bool {
	for cp := range copiesOf(al) {
		if cp.Referrers() == nil {
			continue
		}
		for _, ref := range *cp.Referrers() {
			if _, ok := ref.(*ssa.Return); ok {
				return true
			}
		}
	}
	return false
}

// ruleOwnGoroutine: the owned value is captured by closures. Exactly one closure may use it; that closure
// must be started by `go` or errgroup.Go, must `defer v.Close()` so that it dominates every Next, a `go`
// closure must register wg.Done() BEFORE the deferred Close (so Close runs before Done), and the returned
// stream's Close must cancel and wait.
func ruleOwnGoroutine(c *Ctx, r *R, op ownedParam, key string, uses []ownUse) {
	var users []*ssa.MakeClosure
	bound := map[*ssa.MakeClosure]ssa.Value{}
	boundParam := map[*ssa.MakeClosure]*ssa.Parameter{}
	for _, u := range uses {
		if u.kind != "captured" {
			continue
		}
		mc := u.in.(*ssa.MakeClosure)
		if u.param != nil {
			boundParam[mc] = u.param
			users = append(users, mc)
			continue
		}
		for _, b := range mc.Bindings {
			if b == ssa.Value(op.param) {
				bound[mc] = b
			} else if al, ok := b.(*ssa.Alloc); ok && cellHolds(al, op.param) {
				bound[mc] = b
			}
		}
		if onlyMeasures(mc, bound[mc]) {
			continue // a function literal that only asks for len(in) (the last-one-out test) does not use the streams
		}
		users = append(users, mc)
	}
	if len(users) != 1 {
		r.violated(key, op.param.Pos(), "owned stream is captured by "+itoa(len(users))+" closures; exactly one goroutine may own it")
		return
	}
	mc := users[0]
	clo := mc.Fn.(*ssa.Function)
	// how is the closure started?
	started := ""
	var goInstr ssa.Instruction
	if mc.Referrers() != nil {
		for _, ref := range *mc.Referrers() {
			switch x := ref.(type) {
			case *ssa.Go:
				started = "go"
				goInstr = x
			case *ssa.Call:
				if cal := x.Call.StaticCallee(); cal != nil && fname(cal) == "Go" && cal.Pkg != nil && strings.HasSuffix(cal.Pkg.Pkg.Path(), "errgroup") {
					started = "errgroup"
					goInstr = x
				} else if cal := staticCallee(&x.Call); cal != nil && cal.Blocks != nil && cal.Parent() == nil {
					// handed to a self-accounting launcher (out.spawn(func() { … })): wg.Done() is deferred by the launcher's
					// goroutine before the literal runs, so it follows the literal's own deferred Close
					for ai, a := range x.Call.Args {
						if a == ssa.Value(mc) && goLauncher(cal, ai) {
							started = "launcher"
							goInstr = x
						}
					}
				}
			}
		}
	}
	if started == "" {
		r.violated(key, mc.Pos(), "closure capturing the owned stream is not started as a goroutine (go / errgroup.Go)")
		return
	}
	loads := freeVarLoads(mc, bound[mc])
	if bp := boundParam[mc]; bp != nil {
		loads = []ssa.Value{bp}
	}
	// the variable (cell) the stream lives in, for uses inside function literals nested in the goroutine
	var ownCell *ssa.Alloc
	if al, ok := bound[mc].(*ssa.Alloc); ok {
		ownCell = al
	}
	isVal := func(v ssa.Value) bool {
		for _, l := range loads {
			if copiesOf(l)[v] {
				return true
			}
		}
		if ld, ok := v.(*ssa.UnOp); ok && ld.Op == token.MUL && ownCell != nil {
			if _, isFV := ld.X.(*ssa.FreeVar); isFV && cellOf(ld.X) == ownCell {
				return true
			}
		}
		// element of an owned slice: in[i]
		if op.kind == 2 {
			if ld, ok := v.(*ssa.UnOp); ok && ld.Op == token.MUL {
				if ia, ok := ld.X.(*ssa.IndexAddr); ok {
					for _, l := range loads {
						if ia.X == l {
							return true
						}
					}
				}
			}
		}
		return false
	}
	// the deferred Close must exist and dominate all Next; wg.Done must be deferred before it
	var deferClose, deferDone *ssa.Defer
	var firstNext ssa.Instruction
	var extraClose *ssa.Call
	instrs(clo, func(b *ssa.BasicBlock, i int, in ssa.Instruction) {
		switch x := in.(type) {
		case *ssa.Defer:
			if x.Call.IsInvoke() && x.Call.Method.Name() == "Close" && isVal(x.Call.Value) {
				if deferClose == nil {
					deferClose = x
				}
			}
			// a deferred function literal whose first block closes the stream (defer func() { close(c); s.Close() }())
			if f := staticCallee(&x.Call); f != nil && f.Blocks != nil && f.Parent() != nil && deferClose == nil {
				for _, y := range f.Blocks[0].Instrs {
					if call, ok := y.(*ssa.Call); ok && call.Call.IsInvoke() && call.Call.Method.Name() == "Close" && isVal(call.Call.Value) {
						deferClose = x
					}
				}
			}
			if cal := x.Call.StaticCallee(); cal != nil && fname(cal) == "Done" && isNamedType(cal.Signature.Recv().Type(), "sync", "WaitGroup") {
				if deferDone == nil {
					deferDone = x
				}
			}
		case *ssa.Call:
			if x.Call.IsInvoke() && (x.Call.Method.Name() == "Next" || x.Call.Method.Name() == "Peek") && isVal(x.Call.Value) && firstNext == nil {
				firstNext = x
			}
			// an explicit Close next to the deferred one (an eager release on the error path): that path closes twice
			if x.Call.IsInvoke() && x.Call.Method.Name() == "Close" && isVal(x.Call.Value) && extraClose == nil {
				extraClose = x
			}
			// lent to a helper that reads it
			if cal := staticCallee(&x.Call); cal != nil && firstNext == nil {
				for ai, a := range x.Call.Args {
					if isVal(a) && ai < len(cal.Params) && isBorrower(c, cal, cal.Params[ai]) {
						firstNext = x
					}
				}
			}
		}
	})
	// the goroutine's body is a named function of the package that takes the stream over (eg.Go(func() error { return
	// feed(ctx, s, …) })): that function's own parameter obligation (closed on every path) decides the closing
	delegated := false
	if deferClose == nil {
		for _, in := range clo.Blocks[0].Instrs {
			call, ok := in.(*ssa.Call)
			if !ok {
				continue
			}
			cal := staticCallee(&call.Call)
			if cal == nil || cal.Blocks == nil || cal.Parent() != nil || !c.inModule(cal) {
				continue
			}
			o := origin(cal)
			for ai, a := range call.Call.Args {
				if isVal(a) && ai < len(o.Params) && streamKind(o.Params[ai].Type()) != 0 && !isBorrower(c, o, o.Params[ai]) {
					delegated = true
				}
			}
		}
	}
	if deferClose == nil && !delegated {
		r.violated(key, clo.Pos(), "the goroutine that owns "+op.param.Name()+" does not `defer "+op.param.Name()+".Close()`")
		return
	}
	// seed C09-r12m2: the owning goroutine hands the pull to a goroutine of its own (`go func() { item, err = in[i].Next(ctx) }()`,
	// then a select with ctx.Done()) - the WaitGroup covers the owner only, so its deferred Close (and the Close of the returned
	// stream, which waits for the WaitGroup) can run while that Next is still executing
	for _, nf := range withAnon(clo) {
		var bad ssa.Instruction
		instrs(nf, func(_ *ssa.BasicBlock, _ int, in ssa.Instruction) {
			g, ok := in.(*ssa.Go)
			if !ok || bad != nil {
				return
			}
			var tgt *ssa.Function
			if mc2, ok := g.Call.Value.(*ssa.MakeClosure); ok {
				tgt, _ = mc2.Fn.(*ssa.Function)
			} else {
				tgt = staticCallee(&g.Call)
			}
			if tgt == nil || tgt.Blocks == nil {
				return
			}
			covered := false
			for _, y := range tgt.Blocks[0].Instrs {
				if d, ok := y.(*ssa.Defer); ok {
					if cal := d.Call.StaticCallee(); cal != nil && fname(cal) == "Done" && cal.Signature.Recv() != nil && isNamedType(cal.Signature.Recv().Type(), "sync", "WaitGroup") {
						covered = true
					}
				}
			}
			if covered {
				return
			}
			for _, tf := range withAnon(tgt) {
				instrs(tf, func(_ *ssa.BasicBlock, _ int, in2 ssa.Instruction) {
					cc, ok := in2.(ssa.CallInstruction)
					if !ok || !cc.Common().IsInvoke() {
						return
					}
					switch cc.Common().Method.Name() {
					case "Next", "Peek", "Close":
						if it, isI := cc.Common().Value.Type().Underlying().(*types.Interface); isI {
							for mi := 0; mi < it.NumMethods(); mi++ {
								if it.Method(mi).Name() == "Next" {
									bad = in2
								}
							}
						}
					}
				})
			}
		})
		if bad != nil {
			r.violated(key, bad.Pos(), "the goroutine that owns "+op.param.Name()+" lets a goroutine of its own, which no WaitGroup covers, use the stream: the owner's deferred Close - and the Close of the returned stream, which only waits for the owner - can run while that Next is still executing")
			return
		}
	}
	if deferClose != nil && extraClose != nil {
		r.violated(key, extraClose.Pos(), "the goroutine that owns "+op.param.Name()+" closes it explicitly here and again through its deferred Close when it returns: a second Close on one path (a Pipe receiver panics on it)")
		return
	}
	if delegated {
		deferClose = nil
	} else if deferClose.Block() != clo.Blocks[0] {
		r.violated(key, deferClose.Pos(), "the deferred Close of the owned stream is conditional; it must be registered on every path before the first Next")
		return
	}
	if !delegated && firstNext != nil && !(deferClose.Block().Dominates(firstNext.Block())) {
		r.violated(key, deferClose.Pos(), "the deferred Close does not dominate Next")
		return
	}
	if started == "go" && !delegated {
		if deferDone == nil {
			r.violated(key, clo.Pos(), "goroutine started with `go` has no deferred WaitGroup.Done: the returned stream's Close cannot wait for the source to be closed")
			return
		}
		if !(deferDone.Block() == clo.Blocks[0] && deferClose.Block() == clo.Blocks[0] && idxIn(deferDone) < idxIn(deferClose)) {
			r.violated(key, deferClose.Pos(), "wg.Done() is deferred after "+op.param.Name()+".Close(): defers run LIFO, so the waiter is released before the source is closed and Close of the returned stream can return with the source still open")
			return
		}
	}
	// only the closure (and spawn-loop bookkeeping like len(in)) may touch the stream
	for _, u := range uses {
		if u.kind == "handed" {
			// a never-closed view of the stream (indexed := stream.Map(s, tag)) that only this goroutine reads
			if call, isCall := u.in.(*ssa.Call); isCall && neverClosedView(call, 0) && viewCapturedOnlyBy(call, clo) {
				continue
			}
		}
		if u.kind != "captured" {
			r.violated(key, posOf(u.in), "the owned stream is also used outside the goroutine that owns it")
			return
		}
	}
	// slice: one goroutine per element
	if op.kind == 2 {
		if !inLoopBoundedByLen(goInstr, op.param) {
			r.violated(key, posOf(goInstr), "goroutines owning the elements of "+op.param.Name()+" are not started by a loop over 0..len("+op.param.Name()+")")
			return
		}
	}
	// no way out of the function that skips the spawn: an early return (a fast path for an already-cancelled context, …)
	// hands back something whose Close does not reach the stream, and nobody ever closes it
	if ret := returnSkippingSpawn(op.fn, goInstr, op); ret != nil {
		r.violated(key, retPos(ret), funcShort(op.fn)+" can return without having started the goroutine that owns and closes "+op.param.Name()+": on that path the stream is never closed")
		return
	}
	// the returned stream's Close must cancel and wait
	if wrapperCloseCancelsAndWaits(c, r, op, key) {
		r.discharged(key, op.param.Pos(), "goroutine-owned ("+started+"): sole user, deferred Close dominates Next, the returned stream's Close cancels then waits")
	}
}

// wrapperCloseCancelsAndWaits: the stream op.fn returns (or, for a method that starts the goroutine, its receiver) has a Close
// that cancels the goroutines' context and then waits for them. Reports the violation itself.
func wrapperCloseCancelsAndWaits(c *Ctx, r *R, op ownedParam, key string) bool {
	var wrapT types.Type
	if ret := returnedStruct(op.fn); ret != nil {
		wrapT = ret.Type()
	} else if wt := returnedWrapperType(op.fn); wt != nil {
		wrapT = wt // built by a constructor helper
	} else if op.fn.Signature.Recv() != nil && len(op.fn.Params) > 0 {
		// a method of the wrapper itself starts the goroutine (iter.startReader(ctx, s)): the wrapper is the receiver
		wrapT = op.fn.Params[0].Type()
	}
	if wrapT == nil {
		r.violated(key, op.fn.Pos(), "cannot find the returned wrapper whose Close waits for the goroutine")
		return false
	}
	ret := typedNil{wrapT}
	closeFn := c.fn(relOfPkg(op.fn.Pkg) + "." + typeShort(ret.Type()) + ".Close")
	if closeFn == nil {
		r.violated(key, op.fn.Pos(), "returned type "+typeShort(ret.Type())+" has no Close method in the package")
		return false
	}
	waits, cancels, order := closeWaits(closeFn)
	if !waits {
		r.violated(key, closeFn.Pos(), typeShort(ret.Type())+".Close does not wait (WaitGroup.Wait / errgroup.Wait) for the goroutine that closes the source")
		return false
	}
	if !cancels {
		r.violated(key, closeFn.Pos(), typeShort(ret.Type())+".Close does not cancel the goroutines' context before waiting")
		return false
	}
	if !order {
		r.violated(key, closeFn.Pos(), typeShort(ret.Type())+".Close waits before it cancels: the wait can never finish")
		return false
	}
	return true
}

func relOfPkg(p *ssa.Package) string {
	return strings.TrimPrefix(strings.TrimPrefix(p.Pkg.Path(), modPath), "/")
}

func cellHolds(al *ssa.Alloc, v ssa.Value) bool {
	if al.Referrers() == nil {
		return false
	}
	for _, ref := range *al.Referrers() {
		if st, ok := ref.(*ssa.Store); ok && st.Addr == al && copiesOf(v)[st.Val] {
			return true
		}
	}
	return false
}

// inLoopBoundedByLen: the spawn site sits in a loop whose condition is i < len(param).
func inLoopBoundedByLen(site ssa.Instruction, param ssa.Value) bool {
	if site == nil {
		return false
	}
	fn := site.Parent()
	for _, b := range fn.Blocks {
		if len(b.Instrs) == 0 {
			continue
		}
		iff, ok := b.Instrs[len(b.Instrs)-1].(*ssa.If)
		if !ok {
			continue
		}
		bin, ok := iff.Cond.(*ssa.BinOp)
		if !ok || bin.Op != token.LSS || !isLenOf(bin.Y, param) {
			continue
		}
		// the loop body (true successor) must dominate the site and the site's block must reach back to b
		if b.Succs[0].Dominates(site.Block()) && reaches(site.Block(), b) {
			return true
		}
	}
	return false
}

func isCellOf(addr ssa.Value, v ssa.Value) bool {
	al, ok := addr.(*ssa.Alloc)
	return ok && cellHolds(al, v)
}

func reaches(from, to *ssa.BasicBlock) bool {
	seen := map[*ssa.BasicBlock]bool{}
	work := []*ssa.BasicBlock{from}
	for len(work) > 0 {
		b := work[0]
		work = work[1:]
		for _, s := range b.Succs {
			if s == to {
				return true
			}
			if !seen[s] {
				seen[s] = true
				work = append(work, s)
			}
		}
	}
	return false
}

// returnedStruct: the struct literal whose address the function returns.
func returnedStruct(fn *ssa.Function) *ssa.Alloc {
	var out *ssa.Alloc
	instrs(fn, func(b *ssa.BasicBlock, i int, in ssa.Instruction) {
		ret, ok := in.(*ssa.Return)
		if !ok {
			return
		}
		for _, res := range ret.Results {
			v := res
			for {
				switch x := v.(type) {
				case *ssa.MakeInterface:
					v = x.X
					continue
				case *ssa.ChangeInterface:
					v = x.X
					continue
				}
				break
			}
			if al, ok := v.(*ssa.Alloc); ok {
				out = al
			}
			// `out := &T{...}` captured by a closure lives in a cell: return *cell
			if ld, ok := v.(*ssa.UnOp); ok && ld.Op == token.MUL {
				if cell, ok := ld.X.(*ssa.Alloc); ok {
					sts := storesTo(cell)
					if len(sts) == 1 {
						if al, ok := sts[0].Val.(*ssa.Alloc); ok {
							out = al
						}
					}
				}
			}
		}
	})
	return out
}

// closeWaits inspects a Close method: does it wait, does it cancel, and does cancel come first on all paths.
var closeWaitsDepth int

func closeWaits(fn *ssa.Function) (waits, cancels, order bool) {
	var waitIn, cancelIn ssa.Instruction
	innerOrder := false
	instrs(fn, func(b *ssa.BasicBlock, i int, in ssa.Instruction) {
		call, ok := in.(*ssa.Call)
		if !ok {
			return
		}
		if cal := staticCallee(&call.Call); cal != nil && fname(cal) == "Wait" && cal.Signature.Recv() != nil {
			rt := cal.Signature.Recv().Type()
			if isNamedType(rt, "sync", "WaitGroup") || isNamedType(rt, "errgroup", "Group") {
				waitIn = in
			}
			return
		}
		// iter.workers.stopAndWait(): a method of a small state type of the package (the cancel function and the WaitGroup
		// grouped in a struct of their own) - what it does happens here
		if cal := staticCallee(&call.Call); cal != nil && cal.Blocks != nil && cal != fn && closeWaitsDepth < 3 && cal.Signature.Recv() != nil && rootFn(origin(cal)).Pkg == rootFn(fn).Pkg && fname(cal) != "Close" {
			closeWaitsDepth++
			w2, c2, o2 := closeWaits(origin(cal))
			closeWaitsDepth--
			if w2 && c2 {
				if o2 && waitIn == nil {
					waitIn, cancelIn, innerOrder = in, in, true
				}
				return
			}
			if w2 {
				waitIn = in
				return
			}
			if c2 {
				cancelIn = in
				return
			}
		}
		// a call of a func-typed field that only ever holds one literal (s.stop(), with stop: func() { cancel(); workers.Wait() }):
		// what that literal does happens here
		if !call.Call.IsInvoke() {
			if _, isLd := call.Call.Value.(*ssa.UnOp); isLd {
				if lit := resolveFuncValue(call.Call.Value, 0); lit != nil && lit.Parent() != nil && lit != fn && len(call.Call.Args) == 0 {
					w2, c2, o2 := closeWaits(lit)
					if w2 && c2 {
						if o2 && waitIn == nil {
							waitIn, cancelIn, innerOrder = in, in, true
						}
						return
					}
					if w2 {
						waitIn = in
						return
					}
					if c2 {
						cancelIn = in
						return
					}
				}
			}
		}
		// a call of a func-typed field named cancel/bgCancel whose type is func()
		if !call.Call.IsInvoke() {
			if _, isFn := call.Call.Value.(*ssa.Function); !isFn {
				p := path(call.Call.Value)
				if strings.Contains(strings.ToLower(p), "cancel") && len(call.Call.Args) == 0 {
					cancelIn = in
				}
			}
		}
	})
	waits = waitIn != nil
	cancels = cancelIn != nil
	if waits && cancels {
		order = cancelIn.Block().Dominates(waitIn.Block()) && (cancelIn.Block() != waitIn.Block() || idxIn(cancelIn) < idxIn(waitIn))
		if cancelIn == waitIn {
			order = innerOrder
		}
	}
	return
}

// isLocalHelperClosure: the closure value is only called directly by the function that creates it (possibly through a local
// variable); it is never started as a goroutine, deferred, passed on, stored in the heap or returned.
func isLocalHelperClosure(mc *ssa.MakeClosure) bool {
	if mc.Referrers() == nil {
		return false
	}
	onlyCalled := func(v ssa.Value) bool {
		if v.Referrers() == nil {
			return false
		}
		n := 0
		for _, ref := range *v.Referrers() {
			switch x := ref.(type) {
			case *ssa.Call:
				if x.Call.Value != v {
					return false
				}
				n++
			case *ssa.DebugRef:
			default:
				return false
			}
		}
		return n > 0
	}
	called := false
	for _, ref := range *mc.Referrers() {
		switch x := ref.(type) {
		case *ssa.Call:
			if x.Call.Value != ssa.Value(mc) {
				// handed to a helper of the module that does nothing with it but call it, synchronously (rReservoir(r, k, func()
				// (T, bool, error) { … s.Next(ctx) … })): its uses are uses by this function
				handed := false
				if cal := staticCallee(&x.Call); cal != nil && cal.Blocks != nil && curCtx != nil && curCtx.inModule(cal) {
					for ai, a := range x.Call.Args {
						if a == ssa.Value(mc) && onlyCallsParam(cal, ai) {
							handed = true
						}
					}
				}
				if !handed {
					return false
				}
			}
			called = true
		case *ssa.Store:
			cell, ok := x.Addr.(*ssa.Alloc)
			if !ok || cell.Referrers() == nil {
				return false
			}
			for _, r2 := range *cell.Referrers() {
				switch y := r2.(type) {
				case *ssa.Store, *ssa.DebugRef:
				case *ssa.UnOp:
					if !onlyCalled(y) {
						return false
					}
					called = true
				case *ssa.MakeClosure:
					// captured by another local helper (or by itself, for recursion): accept only if that one is local too
					if y != mc && !isLocalHelperClosure(y) {
						return false
					}
				default:
					return false
				}
			}
		case *ssa.DebugRef:
		default:
			return false
		}
	}
	return called
}

// onlyMeasures: inside the closure the captured value bound to b is used only as the operand of len / cap.
func onlyMeasures(mc *ssa.MakeClosure, b ssa.Value) bool {
	if b == nil {
		return false
	}
	f := mc.Fn.(*ssa.Function)
	idx := -1
	for i, x := range mc.Bindings {
		if x == b {
			idx = i
		}
	}
	if idx < 0 || idx >= len(f.FreeVars) {
		return false
	}
	fv := f.FreeVars[idx]
	okAll := true
	var check func(v ssa.Value)
	check = func(v ssa.Value) {
		if v.Referrers() == nil {
			return
		}
		for _, ref := range *v.Referrers() {
			switch x := ref.(type) {
			case *ssa.DebugRef:
			case *ssa.UnOp:
				if x.Op == token.MUL {
					check(x)
				} else {
					okAll = false
				}
			case *ssa.Call:
				bi, ok := x.Call.Value.(*ssa.Builtin)
				if !ok || (bi.Name() != "len" && bi.Name() != "cap") {
					okAll = false
				}
			default:
				okAll = false
			}
		}
	}
	check(fv)
	return okAll
}

// isBorrower: fn is an unexported package-level helper whose stream parameter p is only read (Next / Peek) - never closed,
// stored, captured, returned or handed on - and that is called from somewhere: ownership stays with the caller.
func isBorrower(c *Ctx, fn *ssa.Function, p *ssa.Parameter) bool {
	if fn == nil || fn.Parent() != nil || token.IsExported(fn.Name()) || fn.Blocks == nil {
		return false
	}
	uses := usesOfOwned(p)
	if len(uses) == 0 {
		return false
	}
	for _, u := range uses {
		if u.kind != "next" {
			return false
		}
	}
	return len(callCommonsOf(c, fn)) > 0
}

type typedNil struct{ t types.Type }

func (t typedNil) Type() types.Type { return t.t }

// ---- owned streams held by a local helper object ---------------------------------------------------------------------------
//
// m := &merger[T]{in: in, …}; for i := range in { go func() { defer wg.Done(); m.forward(i) }() }: the owned slice is stored in
// a field of an unexported helper struct that is NOT what the function returns; the only code that touches the field's
// elements is one method H of that struct (m.in[i] with i a parameter of H), H closes its element on every path with a Close
// deferred in its entry block, H is called from exactly one function literal of the owning function, that literal is started
// as an accounted goroutine once per element, and the returned stream's Close cancels and waits.

type heldInfo struct {
	typ     *types.Named
	helper  *ssa.Function
	idx     *ssa.Parameter
	elems   map[ssa.Value]bool // loads of m.in[i] in the helper
	problem string
}

func heldByHelperObject(c *Ctx, op ownedParam, u ownUse) *heldInfo {
	nt, ok := derefType(u.strct.Type()).(*types.Named)
	if !ok || nt.Obj().Pkg() == nil || op.fn.Pkg == nil || nt.Obj().Pkg() != op.fn.Pkg.Pkg || token.IsExported(nt.Obj().Name()) {
		return nil
	}
	hi := &heldInfo{typ: nt, elems: map[ssa.Value]bool{}}
	for _, f := range c.Funcs {
		if rootFn(f).Pkg != op.fn.Pkg {
			continue
		}
		instrs(f, func(_ *ssa.BasicBlock, _ int, in ssa.Instruction) {
			ld, ok := in.(*ssa.UnOp)
			if !ok || ld.Op != token.MUL {
				return
			}
			fa, ok := ld.X.(*ssa.FieldAddr)
			if !ok || fieldName(fa.X.Type(), fa.Field) != u.field {
				return
			}
			if t2, ok := derefType(fa.X.Type()).(*types.Named); !ok || t2.Origin() != nt.Origin() {
				return
			}
			for _, ref := range refsOf(ld) {
				switch x := ref.(type) {
				case *ssa.DebugRef:
				case *ssa.Call:
					if bi, ok := x.Call.Value.(*ssa.Builtin); !ok || bi.Name() != "len" {
						hi.problem = "the held streams are passed to " + calleeName(&x.Call) + " in " + funcShort(f)
					}
				case *ssa.IndexAddr:
					p, isP := resolveVal(x.Index).(*ssa.Parameter)
					if !isP || f.Parent() != nil || (hi.helper != nil && hi.helper != f) || (hi.idx != nil && hi.idx != p) {
						hi.problem = "elements of the held slice are used in more than one place (" + funcShort(f) + ")"
						return
					}
					hi.helper, hi.idx = f, p
					for _, r2 := range refsOf(x) {
						if eld, ok := r2.(*ssa.UnOp); ok && eld.Op == token.MUL {
							for cp := range copiesOf(eld) {
								hi.elems[cp] = true
							}
						} else if _, isDbg := r2.(*ssa.DebugRef); !isDbg {
							hi.problem = "an element of the held slice is overwritten or its address escapes in " + funcShort(f)
						}
					}
				default:
					hi.problem = "the held slice is used by " + ref.String() + " in " + funcShort(f)
				}
			}
		})
	}
	if hi.helper == nil {
		return nil
	}
	return hi
}

func ruleOwnHeld(c *Ctx, r *R, op ownedParam, key string, u ownUse) {
	hi := heldByHelperObject(c, op, u)
	if hi == nil {
		r.undecided(key, op.param.Pos(), "unrecognised use of an owned stream: stored into a struct that is not returned")
		return
	}
	if hi.problem != "" {
		r.violated(key, op.param.Pos(), "owned streams held in "+typeShort(u.strct.Type())+"."+u.field+": "+hi.problem)
		return
	}
	h := hi.helper
	// the helper closes its element on every path, with a Close deferred in its entry block
	okc, badRet, useAfter, dbl := closedOnAllPaths(h, func(v ssa.Value) bool { return hi.elems[v] })
	switch {
	case !okc:
		r.violated(key, retPos(badRet), "a path through "+funcShort(h)+" returns without Close on its element of "+op.param.Name())
		return
	case useAfter != nil:
		r.violated(key, posOf(useAfter), "Next/Peek after Close in "+funcShort(h))
		return
	case dbl != nil:
		r.violated(key, posOf(dbl), "second Close on one path of "+funcShort(h))
		return
	}
	deferred := false
	for _, in := range h.Blocks[0].Instrs {
		if d, ok := in.(*ssa.Defer); ok && d.Call.IsInvoke() && d.Call.Method.Name() == "Close" && hi.elems[d.Call.Value] {
			deferred = true
		}
	}
	if !deferred {
		r.violated(key, h.Pos(), funcShort(h)+" must `defer` the Close of its element unconditionally, before the first Next")
		return
	}
	// exactly one call site, in a function literal of the owner, on the object that holds the streams
	sites := callCommonsOf(c, h)
	var site *ssa.Call
	for _, f := range withAnon(op.fn) {
		instrs(f, func(_ *ssa.BasicBlock, _ int, in ssa.Instruction) {
			if call, ok := in.(*ssa.Call); ok && staticCallee(&call.Call) != nil && origin(staticCallee(&call.Call)) == origin(h) {
				site = call
			}
		})
	}
	if len(sites) != 1 || site == nil || site.Parent().Parent() != op.fn {
		r.violated(key, h.Pos(), funcShort(h)+", which owns one element of "+op.param.Name()+" per call, must be called from exactly one goroutine literal of "+funcShort(op.fn))
		return
	}
	onObj := false
	for _, lf := range valueLeaves(site.Call.Args[0], nil, 0) {
		if lf.v == ssa.Value(u.strct) {
			onObj = true
		}
	}
	if !onObj {
		r.violated(key, site.Pos(), "the helper is not called on the object that holds the owned streams")
		return
	}
	g := site.Parent()
	// how is the literal started?
	started := ""
	var goInstr ssa.Instruction
	instrs(op.fn, func(_ *ssa.BasicBlock, _ int, in ssa.Instruction) {
		mc, ok := in.(*ssa.MakeClosure)
		if !ok || mc.Fn != ssa.Value(g) || mc.Referrers() == nil {
			return
		}
		for _, ref := range *mc.Referrers() {
			switch x := ref.(type) {
			case *ssa.Go:
				started, goInstr = "go", x
			case *ssa.Call:
				if cal := x.Call.StaticCallee(); cal != nil && cal.Name() == "Go" && cal.Pkg != nil && strings.HasSuffix(cal.Pkg.Pkg.Path(), "errgroup") {
					started, goInstr = "errgroup", x
				} else if cal := staticCallee(&x.Call); cal != nil && cal.Blocks != nil && cal.Parent() == nil {
					for ai, a := range x.Call.Args {
						if a == ssa.Value(mc) && goLauncher(cal, ai) {
							started, goInstr = "launcher", x
						}
					}
				}
			}
		}
	})
	if started == "" {
		r.violated(key, g.Pos(), "the function literal that calls "+funcShort(h)+" is not started as a goroutine (go / errgroup.Go)")
		return
	}
	if started == "go" {
		// wg.Done() deferred before the helper runs, so it follows the helper's own deferred Close
		doneFirst := false
		for _, in := range g.Blocks[0].Instrs {
			if d, ok := in.(*ssa.Defer); ok {
				if cal := d.Call.StaticCallee(); cal != nil && cal.Name() == "Done" && cal.Signature.Recv() != nil && isNamedType(cal.Signature.Recv().Type(), "sync", "WaitGroup") {
					doneFirst = true
				}
			}
			if in == ssa.Instruction(site) {
				break
			}
		}
		if !doneFirst || site.Block() != g.Blocks[0] {
			r.violated(key, g.Pos(), "the goroutine must `defer wg.Done()` before it calls "+funcShort(h)+": the returned stream's Close could otherwise return with a source still open")
			return
		}
	}
	if op.kind == 2 {
		if !inLoopBoundedByLen(goInstr, op.param) {
			r.violated(key, posOf(goInstr), "goroutines owning the elements of "+op.param.Name()+" are not started by a loop over 0..len("+op.param.Name()+")")
			return
		}
		// the element index handed to the helper is the loop's own index (a per-iteration copy), not a constant
		hidx := -1
		for k, p := range h.Params {
			if p == hi.idx {
				hidx = k
			}
		}
		varies := false
		if hidx >= 0 && hidx < len(site.Call.Args) {
			for _, lf := range valueLeaves(site.Call.Args[hidx], nil, 0) {
				// (the loop variable's phi is taken apart into its start value and its increment)
				if _, isK := lf.v.(*ssa.Const); !isK {
					varies = true
				}
			}
		}
		if !varies {
			r.violated(key, site.Pos(), "the element index handed to "+funcShort(h)+" is not the spawn loop's index: two goroutines would own the same stream and others none")
			return
		}
	}
	if wrapperCloseCancelsAndWaits(c, r, op, key) {
		r.discharged(key, op.param.Pos(), "goroutine-owned through "+funcShort(h)+" ("+started+"): one call per element, deferred Close, the returned stream's Close cancels then waits")
	}
}

// returnSkippingSpawn: a return of fn that is not preceded, on every path, by the spawn (for a spawn inside a loop: by the
// loop's condition block - a loop over zero elements owns nothing).
func returnSkippingSpawn(fn *ssa.Function, spawn ssa.Instruction, op ownedParam) *ssa.Return {
	if spawn == nil || spawn.Parent() != fn {
		return nil
	}
	anchor := spawn.Block()
	// innermost loop condition block that encloses the spawn
	for d := anchor.Idom(); d != nil; d = d.Idom() {
		if len(d.Instrs) == 0 {
			continue
		}
		if _, isIf := d.Instrs[len(d.Instrs)-1].(*ssa.If); isIf && reaches(spawn.Block(), d) {
			anchor = d
			break
		}
	}
	var bad *ssa.Return
	for _, b := range fn.Blocks {
		if len(b.Instrs) == 0 || b.Comment == "recover" {
			continue
		}
		ret, ok := b.Instrs[len(b.Instrs)-1].(*ssa.Return)
		if !ok {
			continue
		}
		if b == anchor || anchor.Dominates(b) {
			continue
		}
		// a slice of streams: returning early when it is empty leaves nothing unowned
		if op.kind == 2 {
			empty := false
			for _, g := range guardsOf(b) {
				if cf, ok := g.asCmp(); ok && isLenOf(cf.x, op.param) {
					if k, isK := resolveVal(cf.y).(*ssa.Const); isK && k.Value != nil {
						if (cf.op == token.EQL && k.Int64() == 0) || (cf.op == token.LEQ && k.Int64() == 0) || (cf.op == token.LSS && k.Int64() == 1) {
							empty = true
						}
					}
				}
			}
			if empty {
				continue
			}
		}
		if bad == nil {
			bad = ret
		}
	}
	return bad
}

// neverClosedView: the stream value a wrapper constructor returned is used only through Next / Peek - directly or inside the
// function literals that capture it - and is never closed, returned, stored, or handed to anything.
func neverClosedView(call *ssa.Call, depth int) bool {
	var w ssa.Value = call
	if tup, ok := call.Type().(*types.Tuple); ok {
		w = nil
		_ = tup
		for _, ref := range refsOf(call) {
			if ex, ok := ref.(*ssa.Extract); ok && ex.Index == 0 {
				w = ex
			}
		}
	}
	if w == nil || streamKind(w.Type()) == 0 {
		return false
	}
	var ok func(v ssa.Value, d int) bool
	ok = func(v ssa.Value, d int) bool {
		if d > 3 {
			return false
		}
		uses := usesOfOwned(v)
		if len(uses) == 0 {
			return d > 0
		}
		for _, u := range uses {
			switch u.kind {
			case "next":
			case "captured":
				mc, isMC := u.in.(*ssa.MakeClosure)
				if !isMC {
					return false
				}
				bound := false
				for _, b := range mc.Bindings {
					for _, ld := range freeVarLoads(mc, b) {
						if streamKind(ld.Type()) == 0 {
							continue
						}
						// only the binding that carries v
						if cell := cellOf(b); cell != nil {
							carries := false
							for _, st := range storesTo(cell) {
								if copiesOf(v)[st.Val] {
									carries = true
								}
							}
							if !carries {
								continue
							}
						} else if !copiesOf(v)[b] {
							continue
						}
						bound = true
						if !ok(ld, d+1) {
							return false
						}
					}
				}
				if !bound {
					return false
				}
			default:
				return false
			}
		}
		return true
	}
	return ok(w, depth)
}

// viewCapturedOnlyBy: every use of the stream value the call returned is a capture by function literal clo.
func viewCapturedOnlyBy(call *ssa.Call, clo *ssa.Function) bool {
	var w ssa.Value = call
	if _, ok := call.Type().(*types.Tuple); ok {
		w = nil
		for _, ref := range refsOf(call) {
			if ex, ok := ref.(*ssa.Extract); ok && ex.Index == 0 {
				w = ex
			}
		}
	}
	if w == nil {
		return false
	}
	uses := usesOfOwned(w)
	if len(uses) == 0 {
		return false
	}
	for _, u := range uses {
		if u.kind != "captured" || u.fn != clo {
			return false
		}
	}
	return true
}
