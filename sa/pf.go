package main

import (
	"go/constant"
	"go/token"
	"go/types"
	"sort"

	"golang.org/x/tools/go/ssa"
)

// E-PF: path-fact (typestate) dataflow. States are small integers; a StateSet is a bitmask of the
// automaton states reachable along ANY CFG path (powerset lattice, join = union).
type StateSet uint32

func ss(states ...int) StateSet {
	var s StateSet
	for _, q := range states {
		s |= 1 << uint(q)
	}
	return s
}
func (s StateSet) has(q int) bool { return s&(1<<uint(q)) != 0 }
func (s StateSet) each(f func(q int)) {
	for q := 0; q < 32; q++ {
		if s.has(q) {
			f(q)
		}
	}
}

type PF struct {
	N int // number of automaton states
	// Instr gives the successor states of state q across one instruction; nil/absent means q is unchanged.
	// It is consulted before a call's summary is applied.
	Instr func(fn *ssa.Function, in ssa.Instruction, q int) (StateSet, bool)
	// Edge refines state q by one atomic branch fact known to hold along a CFG edge (edge events: "err != nil",
	// "len(batch) > 0"). A branch on a short-circuit value (a boolean phi from `a && b` in a switch case or a
	// returned expression) is expanded into its atomic facts first. Returning 0 means the edge is infeasible from q.
	Edge func(fn *ssa.Function, g guard, q int) (StateSet, bool)
	// InScope says which callees are summarised (others are opaque and leave the state unchanged).
	InScope func(callee *ssa.Function) bool
	// AfterCall lets a rule act on a call after its summary was applied (rarely needed).
	summ       map[*ssa.Function][]StateSet
	inProgress map[*ssa.Function]bool
	Undecided  []string // unsupported idioms met (conditional defer, ...)
	// Visit, if set, is called with the state set holding *before* each instruction of the root analysis.
	Visit    func(fn *ssa.Function, in ssa.Instruction, before StateSet)
	boolMemo map[interface{}]StateSet
	preCall  map[*ssa.Call]StateSet // states in which each summarised call was entered (for result-sensitive refinement)
	// DeepVisit: Visit is also called for the instructions of summarised callees, with the states of the call contexts
	// reached from the root (union over contexts).
	DeepVisit bool
	deepSeen  map[*ssa.Function]StateSet
}

type pfExit struct {
	Ret    *ssa.Return
	States StateSet
}

// Summary returns, for each entry state q, the states possible at the normal returns of fn.
func (p *PF) Summary(fn *ssa.Function) []StateSet {
	if p.summ == nil {
		p.summ = map[*ssa.Function][]StateSet{}
		p.inProgress = map[*ssa.Function]bool{}
	}
	if s, ok := p.summ[fn]; ok && !p.inProgress[fn] {
		return s
	}
	if p.inProgress[fn] {
		if s, ok := p.summ[fn]; ok {
			return s
		}
		return make([]StateSet, p.N)
	}
	p.inProgress[fn] = true
	p.summ[fn] = make([]StateSet, p.N)
	for iter := 0; iter < 8; iter++ {
		changed := false
		for q := 0; q < p.N; q++ {
			var out StateSet
			for _, e := range p.run(fn, ss(q), nil) {
				out |= e.States
			}
			if out != p.summ[fn][q] {
				p.summ[fn][q] |= out
				changed = true
			}
		}
		if !changed {
			break
		}
	}
	p.inProgress[fn] = false
	return p.summ[fn]
}

// Exits analyses fn from the entry set and returns the state set at every normal return.
func (p *PF) Exits(fn *ssa.Function, entry StateSet) []pfExit {
	if p.summ == nil {
		p.summ = map[*ssa.Function][]StateSet{}
		p.inProgress = map[*ssa.Function]bool{}
	}
	return p.run(fn, entry, p.Visit)
}

func (p *PF) applySummary(callee *ssa.Function, s StateSet) StateSet {
	sum := p.Summary(callee)
	var out StateSet
	s.each(func(q int) { out |= sum[q] })
	return out
}

func (p *PF) step(fn *ssa.Function, in ssa.Instruction, s StateSet) StateSet {
	if p.Instr != nil {
		var out StateSet
		s.each(func(q int) {
			if ns, ok := p.Instr(fn, in, q); ok {
				out |= ns
			} else {
				out |= ss(q)
			}
		})
		s = out
	}
	switch x := in.(type) {
	case *ssa.Call:
		if callee := staticCallee(&x.Call); callee != nil && callee.Blocks != nil && p.InScope != nil && p.InScope(callee) {
			if p.preCall == nil {
				p.preCall = map[*ssa.Call]StateSet{}
			}
			p.preCall[x] |= s
			if spec := constBoolArgs(callee, &x.Call); spec != nil && len(activeParamFlags) < 4 {
				// a shared implementation selected by a constant flag (g.shutdown(true)): analysed for this call's flag value
				saved := activeParamFlags
				merged := map[*ssa.Parameter]bool{}
				for k, v := range saved {
					merged[k] = v
				}
				for k, v := range spec {
					merged[k] = v
				}
				activeParamFlags = merged
				sub := &PF{N: p.N, Instr: p.Instr, Edge: p.Edge, InScope: p.InScope, DeepVisit: p.DeepVisit}
				if p.DeepVisit {
					sub.Visit = p.Visit
				}
				var out StateSet
				for _, e := range sub.Exits(callee, s) {
					out |= e.States
				}
				activeParamFlags = saved
				s = out
			} else {
				s = p.applySummary(callee, s)
			}
		}
	case *ssa.RunDefers:
		// apply deferred in-scope callees, LIFO, for defers that dominate this point
		var defers []*ssa.Defer
		for _, b := range fn.Blocks {
			for _, i2 := range b.Instrs {
				if d, ok := i2.(*ssa.Defer); ok {
					defers = append(defers, d)
				}
			}
		}
		// order: later (dominated) defers run first
		sort.SliceStable(defers, func(i, j int) bool {
			bi, bj := defers[i].Block(), defers[j].Block()
			if bi == bj {
				return idxIn(defers[i]) > idxIn(defers[j])
			}
			return bi.Dominates(bj) == false && bj.Dominates(bi)
		})
		for _, d := range defers {
			callee := staticCallee(&d.Call)
			inScope := callee != nil && callee.Blocks != nil && p.InScope != nil && p.InScope(callee)
			if !d.Block().Dominates(in.Block()) {
				if inScope {
					p.Undecided = append(p.Undecided, "conditional defer of "+callee.Name()+" in "+fn.Name())
				}
				continue
			}
			if p.Instr != nil {
				// let the rule see the deferred call as an event at function exit
				var out StateSet
				s.each(func(q int) {
					if ns, ok := p.Instr(fn, deferredCall{d}, q); ok {
						out |= ns
					} else {
						out |= ss(q)
					}
				})
				s = out
			}
			if inScope {
				if spec := deferFlagSpec(fn, d, callee, in); spec != nil {
					// the literal tests captured flags whose value at THIS exit is known: analyse it for this exit alone
					saved := activeCellFlags
					activeCellFlags = spec
					sub := &PF{N: p.N, Instr: p.Instr, Edge: p.Edge, InScope: p.InScope, DeepVisit: p.DeepVisit}
					if p.DeepVisit {
						sub.Visit = p.Visit
					}
					var out StateSet
					for _, e := range sub.Exits(callee, s) {
						out |= e.States
					}
					activeCellFlags = saved
					s = out
				} else {
					s = p.applySummary(callee, s)
				}
			}
		}
	}
	return s
}

// deferFlagSpec: the deferred callee is a function literal of fn that captures boolean local variables of fn; for each such
// variable whose stores in fn are all constants and of which exactly one reaches the exit `at`, the value it has there.
func deferFlagSpec(fn *ssa.Function, d *ssa.Defer, callee *ssa.Function, at ssa.Instruction) map[*ssa.Alloc]bool {
	mc, ok := d.Call.Value.(*ssa.MakeClosure)
	if !ok || callee.Parent() != fn {
		return nil
	}
	var out map[*ssa.Alloc]bool
	for _, b := range mc.Bindings {
		cell, ok := b.(*ssa.Alloc)
		if !ok || cell.Parent() != fn {
			continue
		}
		bt, isB := cell.Type().(*types.Pointer).Elem().Underlying().(*types.Basic)
		if !isB || bt.Kind() != types.Bool {
			continue
		}
		allConst := true
		for _, st := range storesTo(cell) {
			if k, isK := st.Val.(*ssa.Const); !isK || k.Value == nil || st.Parent() != fn {
				allConst = false
			}
		}
		if !allConst {
			continue
		}
		rs := reachingStores(cell, at)
		if len(rs) != 1 {
			continue
		}
		k := rs[0].Val.(*ssa.Const)
		if out == nil {
			out = map[*ssa.Alloc]bool{}
		}
		out[cell] = constant.BoolVal(k.Value)
	}
	return out
}

// deferredCall wraps a Defer when it is replayed at RunDefers so rules can tell "defer registered"
// (the *ssa.Defer instruction in place) from "deferred call runs now".
type deferredCall struct{ *ssa.Defer }

func idxIn(in ssa.Instruction) int {
	for i, x := range in.Block().Instrs {
		if x == in {
			return i
		}
	}
	return -1
}

func (p *PF) run(fn *ssa.Function, entry StateSet, visit func(fn *ssa.Function, in ssa.Instruction, before StateSet)) []pfExit {
	if len(fn.Blocks) == 0 {
		return nil
	}
	in := make([]StateSet, len(fn.Blocks))
	in[0] = entry
	work := []*ssa.BasicBlock{fn.Blocks[0]}
	onWork := map[int]bool{0: true}
	visited := map[int]bool{}
	// edgeIn[b][i]: the states arriving at b from its i-th predecessor (for threading through flag tests)
	edgeIn := map[int][]StateSet{}
	for len(work) > 0 {
		b := work[0]
		work = work[1:]
		onWork[b.Index] = false
		visited[b.Index] = true
		s := in[b.Index]
		for _, instr := range b.Instrs {
			s = p.step(fn, instr, s)
		}
		for idx, succ := range b.Succs {
			es := s
			// a branch on the flag of the active specialisation (variants.go): only the live side is followed
			if (activeSpec != nil || len(activeCellFlags) > 0 || len(activeParamFlags) > 0) && len(b.Instrs) > 0 {
				if iff, isIf := b.Instrs[len(b.Instrs)-1].(*ssa.If); isIf {
					if v, ok := specFlagValue(iff.Cond); ok && v != (idx == 0) {
						continue
					}
				}
			}
			// jump threading: b only merges a boolean flag set to constants on its incoming edges and branches on it
			// (`woken := false; select { case …: woken = true }; if !woken {…}`): each incoming edge continues to the successor
			// its constant selects, instead of being merged with the others first
			if consts, pol, ok := flagTestBlock(b); ok && len(edgeIn[b.Index]) == len(b.Preds) {
				var t StateSet
				fphi := flagPhiOf(b)
				for pi := range b.Preds {
					if consts[pi] == nil {
						// the flag takes the value of a condition on this edge (`clean := a || (b && c)`): following the
						// successor means that condition had the value that selects it
						st := edgeIn[b.Index][pi]
						if p.Edge != nil && fphi != nil && pi < len(fphi.Edges) {
							if bt, isB := fphi.Edges[pi].Type().Underlying().(*types.Basic); isB && bt.Kind() == types.Bool {
								for _, g := range expandGuard(guard{cond: fphi.Edges[pi], val: pol == (idx == 0), blk: b.Preds[pi]}, 0) {
									var out StateSet
									st.each(func(q int) {
										if ns, ok := p.Edge(fn, g, q); ok {
											out |= ns
										} else {
											out |= ss(q)
										}
									})
									st = out
								}
							}
						}
						t |= st
						continue
					}
					if (*consts[pi] == pol) == (idx == 0) {
						t |= edgeIn[b.Index][pi]
					}
				}
				es = t
				for _, instr := range b.Instrs {
					es = p.step(fn, instr, es)
				}
			}
			if len(b.Instrs) > 0 {
				if iff, isIf := b.Instrs[len(b.Instrs)-1].(*ssa.If); isIf {
					for _, g := range expandGuard(guard{cond: iff.Cond, val: idx == 0, blk: b}, 0) {
						// a branch on the boolean result of a summarised helper: keep only the states the helper can
						// return that value in ("ok := f.tryRecv(); if ok { … }")
						if p.InScope != nil {
							bv, pol := g.boolVal()
							if call, ridx := boolResultCall(bv); call != nil {
								if callee := staticCallee(&call.Call); callee != nil && callee.Blocks != nil && p.InScope(callee) {
									entry := p.preCall[call]
									if entry == 0 {
										for q := 0; q < p.N; q++ {
											entry |= ss(q)
										}
									}
									es &= p.boolExits(callee, ridx, pol, entry)
								}
							}
						}
						// the same for the nil-ness of an interface / pointer result: "_, _, err := recv(ctx, ch); if err != nil { … }"
						if p.InScope != nil {
							if cf, ok := g.asCmp(); ok && (cf.op == token.EQL || cf.op == token.NEQ) {
								x, y := cf.x, cf.y
								if isNilConst(x) {
									x, y = y, x
								}
								// ... and for an enumeration result compared with one of its constants (switch g.awaitWake(timer, trigger)
								// { case wakeStopped: …; case wakeTimer: … })
								if call, ridx := resultCall(x); call != nil {
									if kc, isK := y.(*ssa.Const); isK && kc.Value != nil && kc.Value.Kind() == constant.Int && switchChain(call, b) {
										if callee := staticCallee(&call.Call); callee != nil && callee.Blocks != nil && p.InScope(callee) {
											entry := p.preCall[call]
											if entry == 0 {
												for q := 0; q < p.N; q++ {
													entry |= ss(q)
												}
											}
											// the constants already ruled out on the way here (earlier case tests of the same switch)
											var excl []constant.Value
											for d := b; d != call.Block() && d != nil && len(d.Preds) == 1; d = d.Preds[0] {
												pb := d.Preds[0]
												if iff2, ok := pb.Instrs[len(pb.Instrs)-1].(*ssa.If); ok {
													if bin, ok := iff2.Cond.(*ssa.BinOp); ok && bin.Op == token.EQL && pb.Succs[1] == d {
														if call2, r2 := resultCall(bin.X); call2 == call && r2 == ridx {
															if k2, ok := bin.Y.(*ssa.Const); ok && k2.Value != nil && k2.Value.Kind() == constant.Int {
																excl = append(excl, k2.Value)
															}
														}
													}
												}
											}
											es &= p.constExitsExcl(callee, ridx, kc.Value, cf.op == token.EQL, entry, excl)
										}
									}
								}
								if call, ridx := resultCall(x); call != nil && isNilConst(y) {
									if callee := staticCallee(&call.Call); callee != nil && callee.Blocks != nil && p.InScope(callee) {
										entry := p.preCall[call]
										if entry == 0 {
											for q := 0; q < p.N; q++ {
												entry |= ss(q)
											}
										}
										es &= p.nilExits(callee, ridx, cf.op == token.EQL, entry)
									}
								}
							}
						}
						if p.Edge == nil {
							continue
						}
						var out StateSet
						es.each(func(q int) {
							if ns, ok := p.Edge(fn, g, q); ok {
								out |= ns
							} else {
								out |= ss(q)
							}
						})
						es = out
					}
				}
			}
			if edgeIn[succ.Index] == nil {
				edgeIn[succ.Index] = make([]StateSet, len(succ.Preds))
			}
			edgeGrew := false
			for pi, pb := range succ.Preds {
				if pb == b && (len(b.Succs) < 2 || b.Succs[0] != b.Succs[1] || pi == predIndexOf(succ, b, idx)) {
					if edgeIn[succ.Index][pi]|es != edgeIn[succ.Index][pi] {
						edgeGrew = true
					}
					edgeIn[succ.Index][pi] |= es
				}
			}
			// (a flag-test block forwards each incoming edge separately: it must be looked at again when ONE edge brings new
			// states, even if the union over all edges did not grow)
			if es|in[succ.Index] != in[succ.Index] || (!visited[succ.Index] && es != 0) || edgeGrew {
				in[succ.Index] |= es
				if !onWork[succ.Index] {
					work = append(work, succ)
					onWork[succ.Index] = true
				}
			}
		}
	}
	var exits []pfExit
	for _, b := range fn.Blocks {
		if !visited[b.Index] {
			continue
		}
		s := in[b.Index]
		for _, instr := range b.Instrs {
			if visit != nil {
				visit(fn, instr, s)
				if p.DeepVisit {
					if call, ok := instr.(*ssa.Call); ok {
						if callee := staticCallee(&call.Call); callee != nil && callee.Blocks != nil && p.InScope != nil && p.InScope(callee) {
							// the callee sees the states after this call's own instruction event
							sc := s
							if p.Instr != nil {
								var out StateSet
								s.each(func(q int) {
									if ns, ok := p.Instr(fn, instr, q); ok {
										out |= ns
									} else {
										out |= ss(q)
									}
								})
								sc = out
							}
							if p.deepSeen == nil {
								p.deepSeen = map[*ssa.Function]StateSet{}
							}
							if spec := constBoolArgs(callee, &call.Call); spec != nil && len(activeParamFlags) < 4 {
								// a shared implementation selected by a constant flag: visited as this call runs it (see step)
								saved := activeParamFlags
								merged := map[*ssa.Parameter]bool{}
								for k, v := range saved {
									merged[k] = v
								}
								for k, v := range spec {
									merged[k] = v
								}
								activeParamFlags = merged
								p.run(callee, sc, visit)
								activeParamFlags = saved
							} else if sc|p.deepSeen[callee] != p.deepSeen[callee] {
								p.deepSeen[callee] |= sc
								p.run(callee, p.deepSeen[callee], visit)
							}
						}
					}
				}
			}
			if r, ok := instr.(*ssa.Return); ok {
				exits = append(exits, pfExit{r, s})
			}
			s = p.step(fn, instr, s)
		}
	}
	return exits
}

// retPos gives a usable position for a return (go/ssa gives implicit returns NoPos).
func retPos(r *ssa.Return) token.Pos {
	if r.Pos().IsValid() {
		return r.Pos()
	}
	return posOf(r)
}

// boolResultCall: v is the boolean result of a call (the call itself, or the Extract of a tuple result).
func boolResultCall(v ssa.Value) (*ssa.Call, int) {
	switch x := v.(type) {
	case *ssa.Call:
		if b, ok := x.Type().Underlying().(*types.Basic); ok && b.Kind() == types.Bool {
			return x, 0
		}
	case *ssa.Extract:
		if c, ok := x.Tuple.(*ssa.Call); ok {
			if b, ok := x.Type().Underlying().(*types.Basic); ok && b.Kind() == types.Bool {
				return c, x.Index
			}
		}
	}
	return nil, 0
}

// boolExits: the states in which callee can return with result #ridx equal to val (a result that is not a boolean constant
// counts for both values), over all entry states.
func (p *PF) boolExits(callee *ssa.Function, ridx int, val bool, entry StateSet) StateSet {
	type key struct {
		fn   *ssa.Function
		ridx int
		val  bool
		q    int
	}
	if p.boolMemo == nil {
		p.boolMemo = map[interface{}]StateSet{}
	}
	all := StateSet(0)
	for q := 0; q < p.N; q++ {
		all |= ss(q)
	}
	var out StateSet
	for q := 0; q < p.N; q++ {
		if !entry.has(q) {
			continue
		}
		k := key{callee, ridx, val, q}
		if s, ok := p.boolMemo[k]; ok {
			out |= s
			continue
		}
		p.boolMemo[k] = all // recursion guard: assume anything
		var one StateSet
		for _, e := range p.run(callee, ss(q), nil) {
			if ridx >= len(e.Ret.Results) {
				one |= e.States
				continue
			}
			rv := returnedValue(e.Ret, ridx)
			if kc, ok := rv.(*ssa.Const); ok && kc.Value != nil && kc.Value.Kind() == constant.Bool {
				if constant.BoolVal(kc.Value) != val {
					continue
				}
			}
			one |= e.States
		}
		p.boolMemo[k] = one
		out |= one
	}
	return out
}

// flagTestBlock: b consists of phis, (negations) and an If on one of its phis all of whose incoming values are boolean
// constants. Returns the constant per predecessor (nil if not constant) and the polarity: the If's true edge is taken when the
// flag equals pol.
func flagTestBlock(b *ssa.BasicBlock) ([]*bool, bool, bool) {
	if len(b.Instrs) == 0 || len(b.Succs) != 2 || len(b.Preds) < 2 {
		return nil, false, false
	}
	iff, ok := b.Instrs[len(b.Instrs)-1].(*ssa.If)
	if !ok {
		return nil, false, false
	}
	v := iff.Cond
	pol := true
	for {
		if u, ok := v.(*ssa.UnOp); ok && u.Op == token.NOT && u.Block() == b {
			v = u.X
			pol = !pol
			continue
		}
		break
	}
	// an enumeration instead of a boolean: `outcome := undecided; select { case …: outcome = x }; if outcome != undecided {…}`
	var cmp *ssa.BinOp
	var cmpK *ssa.Const
	if bin, ok := v.(*ssa.BinOp); ok && bin.Block() == b && (bin.Op == token.EQL || bin.Op == token.NEQ) {
		if k, ok := bin.Y.(*ssa.Const); ok && k.Value != nil && k.Value.Kind() == constant.Int {
			if _, isPhi := bin.X.(*ssa.Phi); isPhi {
				cmp, cmpK, v = bin, k, bin.X
			}
		}
	}
	phi, ok := v.(*ssa.Phi)
	if !ok || phi.Block() != b {
		return nil, false, false
	}
	for _, in := range b.Instrs[:len(b.Instrs)-1] {
		switch x := in.(type) {
		case *ssa.Phi, *ssa.DebugRef:
		case *ssa.UnOp:
			if x.Op != token.NOT {
				return nil, false, false
			}
		case *ssa.BinOp:
			if x != cmp {
				return nil, false, false
			}
		default:
			return nil, false, false
		}
	}
	consts := make([]*bool, len(phi.Edges))
	any := false
	for i, e := range phi.Edges {
		k, ok := e.(*ssa.Const)
		if !ok || k.Value == nil {
			continue
		}
		if cmp != nil {
			if k.Value.Kind() == constant.Int {
				bv := constant.Compare(k.Value, token.EQL, cmpK.Value) == (cmp.Op == token.EQL)
				consts[i] = &bv
				any = true
			}
			continue
		}
		if k.Value.Kind() == constant.Bool {
			bv := constant.BoolVal(k.Value)
			consts[i] = &bv
			any = true
		}
	}
	return consts, pol, any
}

// flagPhiOf: the boolean phi that b (a flagTestBlock) branches on.
func flagPhiOf(b *ssa.BasicBlock) *ssa.Phi {
	iff, ok := b.Instrs[len(b.Instrs)-1].(*ssa.If)
	if !ok {
		return nil
	}
	v := iff.Cond
	for {
		if u, ok := v.(*ssa.UnOp); ok && u.Op == token.NOT && u.Block() == b {
			v = u.X
			continue
		}
		break
	}
	phi, _ := v.(*ssa.Phi)
	if phi != nil && phi.Block() != b {
		return nil
	}
	return phi
}

func predIndexOf(succ, pred *ssa.BasicBlock, succIdx int) int {
	// when a block reaches succ through both of its edges the i-th occurrence of pred in succ.Preds is the i-th edge
	n := 0
	for i := 0; i < succIdx; i++ {
		if pred.Succs[i] == succ {
			n++
		}
	}
	k := 0
	for pi, pb := range succ.Preds {
		if pb == pred {
			if k == n {
				return pi
			}
			k++
		}
	}
	return -1
}

// resultCall: v is a result of a call (the call itself for a single result, or the Extract of a tuple result).
func resultCall(v ssa.Value) (*ssa.Call, int) {
	switch x := v.(type) {
	case *ssa.Call:
		if _, isTuple := x.Type().(*types.Tuple); !isTuple {
			return x, 0
		}
	case *ssa.Extract:
		if c, ok := x.Tuple.(*ssa.Call); ok {
			return c, x.Index
		}
	}
	return nil, 0
}

// nilExits: the states in which callee can return with result #ridx nil (isNil) / non-nil. A result that is the constant nil
// is nil; a result that is ctx.Err() evaluated in the arm of a completed receive from ctx.Done() is non-nil (context contract);
// any other result counts for both.
func (p *PF) nilExits(callee *ssa.Function, ridx int, isNil bool, entry StateSet) StateSet {
	type key struct {
		fn    *ssa.Function
		ridx  int
		isNil bool
		q     int
		nilK  bool
	}
	if p.boolMemo == nil {
		p.boolMemo = map[interface{}]StateSet{}
	}
	all := StateSet(0)
	for q := 0; q < p.N; q++ {
		all |= ss(q)
	}
	var out StateSet
	for q := 0; q < p.N; q++ {
		if !entry.has(q) {
			continue
		}
		k := key{callee, ridx, isNil, q, true}
		if s, ok := p.boolMemo[k]; ok {
			out |= s
			continue
		}
		p.boolMemo[k] = all
		var one StateSet
		for _, e := range p.run(callee, ss(q), nil) {
			if ridx >= len(e.Ret.Results) {
				one |= e.States
				continue
			}
			rv := returnedValue(e.Ret, ridx)
			if isNilConst(rv) {
				if !isNil {
					continue
				}
			} else if isCtxErrAfterDone(rv) || derefBeforeReturn(rv, e.Ret) {
				if isNil {
					continue
				}
			}
			one |= e.States
		}
		p.boolMemo[k] = one
		out |= one
	}
	return out
}

// isCtxErrAfterDone: v is ctx.Err() evaluated in a block dominated by the arm of a select (or a plain receive) on
// ctx.Done() of the same context.
func isCtxErrAfterDone(v ssa.Value) bool {
	call, ok := v.(*ssa.Call)
	if !ok || !call.Call.IsInvoke() || call.Call.Method.Name() != "Err" || !isContextType(call.Call.Value.Type()) {
		return false
	}
	for _, g := range guardsOf(call.Block()) {
		cf, ok := g.asCmp()
		if !ok || cf.op != token.EQL {
			continue
		}
		ex, ok := cf.x.(*ssa.Extract)
		if !ok || ex.Index != 0 {
			continue
		}
		sel, ok := ex.Tuple.(*ssa.Select)
		k, isK := cf.y.(*ssa.Const)
		if !ok || !isK || k.Value == nil {
			continue
		}
		idx := int(k.Int64())
		if idx >= 0 && idx < len(sel.States) && sel.States[idx].Dir == types.RecvOnly {
			if kind, _ := classifyChan(sel.States[idx].Chan); kind == "ctx-done" {
				return true
			}
		}
	}
	return false
}

// constBoolArgs: the boolean parameters of callee that this call binds to constants.
func constBoolArgs(callee *ssa.Function, cc *ssa.CallCommon) map[*ssa.Parameter]bool {
	var out map[*ssa.Parameter]bool
	o := origin(callee)
	for i, a := range cc.Args {
		if i >= len(o.Params) {
			break
		}
		k, ok := a.(*ssa.Const)
		if !ok || k.Value == nil || k.Value.Kind() != constant.Bool {
			continue
		}
		if out == nil {
			out = map[*ssa.Parameter]bool{}
		}
		out[o.Params[i]] = constant.BoolVal(k.Value)
	}
	return out
}

// constExits: the states in which callee can return with the integer result #ridx equal to k (eq) / different from k (!eq);
// a result that is not a constant counts for both.
func (p *PF) constExits(callee *ssa.Function, ridx int, k constant.Value, eq bool, entry StateSet) StateSet {
	type key struct {
		fn   *ssa.Function
		ridx int
		k    string
		eq   bool
		q    int
	}
	if p.boolMemo == nil {
		p.boolMemo = map[interface{}]StateSet{}
	}
	all := StateSet(0)
	for q := 0; q < p.N; q++ {
		all |= ss(q)
	}
	var out StateSet
	for q := 0; q < p.N; q++ {
		if !entry.has(q) {
			continue
		}
		kk := key{callee, ridx, k.ExactString(), eq, q}
		if s, ok := p.boolMemo[kk]; ok {
			out |= s
			continue
		}
		p.boolMemo[kk] = all // recursion guard
		var one StateSet
		for _, e := range p.run(callee, ss(q), nil) {
			if ridx >= len(e.Ret.Results) {
				one |= e.States
				continue
			}
			matched := false
			for _, vr := range virtualReturnsOf(e.Ret, ridx) {
				kc, isK := vr.val.(*ssa.Const)
				if !isK || kc.Value == nil || kc.Value.Kind() != constant.Int {
					matched = true
					continue
				}
				if constant.Compare(kc.Value, token.EQL, k) == eq {
					matched = true
				}
			}
			if matched {
				one |= e.States
			}
		}
		p.boolMemo[kk] = one
		out |= one
	}
	return out
}

// switchChain: block b tests the result of call right away: b is the call's own block with nothing but the comparison after
// the call, or is reached from it through blocks that only compare and branch (the case tests of a switch over the result) -
// so the typestate cannot have moved between the call and the test.
func switchChain(call *ssa.Call, b *ssa.BasicBlock) bool {
	pure := func(blk *ssa.BasicBlock, from int) bool {
		for _, in := range blk.Instrs[from:] {
			switch in.(type) {
			case *ssa.BinOp, *ssa.If, *ssa.DebugRef, *ssa.Extract, *ssa.UnOp:
			default:
				return false
			}
		}
		return true
	}
	cb := call.Block()
	if !pure(cb, idxIn(call)+1) {
		return false
	}
	for d := b; d != cb; d = d.Idom() {
		if d == nil || !pure(d, 0) || len(d.Preds) != 1 {
			return false
		}
	}
	return true
}

// constExitsExcl: constExits, with the returns whose constant is one of excl left out (they were ruled out before this test).
func (p *PF) constExitsExcl(callee *ssa.Function, ridx int, k constant.Value, eq bool, entry StateSet, excl []constant.Value) StateSet {
	if len(excl) == 0 {
		return p.constExits(callee, ridx, k, eq, entry)
	}
	var out StateSet
	for q := 0; q < p.N; q++ {
		if !entry.has(q) {
			continue
		}
		for _, e := range p.run(callee, ss(q), nil) {
			if ridx >= len(e.Ret.Results) {
				out |= e.States
				continue
			}
			matched := false
			for _, vr := range virtualReturnsOf(e.Ret, ridx) {
				kc, isK := vr.val.(*ssa.Const)
				if !isK || kc.Value == nil || kc.Value.Kind() != constant.Int {
					matched = true
					continue
				}
				out2 := false
				for _, x := range excl {
					if constant.Compare(kc.Value, token.EQL, x) {
						out2 = true
					}
				}
				if out2 {
					continue
				}
				if constant.Compare(kc.Value, token.EQL, k) == eq {
					matched = true
				}
			}
			if matched {
				out |= e.States
			}
		}
	}
	return out
}

// derefBeforeReturn: the pointer value v has been dereferenced (a field of *v addressed, or v used as the receiver of a method
// that takes it by pointer and was entered) in a block that dominates the return: it is not nil when it is returned (the
// function would have panicked). Also a freshly allocated object.
func derefBeforeReturn(v ssa.Value, ret *ssa.Return) bool {
	if _, isAlloc := v.(*ssa.Alloc); isAlloc {
		return true
	}
	if _, isPtr := v.Type().Underlying().(*types.Pointer); !isPtr || v.Referrers() == nil {
		return false
	}
	rb := ret.Block()
	for _, ref := range *v.Referrers() {
		switch x := ref.(type) {
		case *ssa.FieldAddr:
			if x.X != v {
				continue
			}
			// the address alone does not dereference; a load or store through it does
			if x.Referrers() == nil {
				continue
			}
			for _, r2 := range *x.Referrers() {
				in, ok := r2.(ssa.Instruction)
				if !ok {
					continue
				}
				switch r2.(type) {
				case *ssa.UnOp, *ssa.Store:
					if in.Block() == rb || in.Block().Dominates(rb) {
						return true
					}
				}
			}
		case *ssa.Call:
			// a method of the package called on v whose entry block reads through its receiver
			if len(x.Call.Args) == 0 || x.Call.Args[0] != v || x.Call.IsInvoke() {
				continue
			}
			if !(x.Block() == rb || x.Block().Dominates(rb)) {
				continue
			}
			cal := staticCallee(&x.Call)
			if cal == nil || cal.Blocks == nil || len(cal.Params) == 0 {
				continue
			}
			for _, in := range cal.Blocks[0].Instrs {
				ld, ok := in.(*ssa.UnOp)
				if !ok || ld.Op != token.MUL {
					continue
				}
				// a load in the entry block through the receiver: x.f, x.arr[i]
				a := ld.X
				for d := 0; d < 3; d++ {
					switch y := a.(type) {
					case *ssa.IndexAddr:
						a = y.X
						continue
					case *ssa.FieldAddr:
						if y.X == ssa.Value(cal.Params[0]) {
							return true
						}
						a = y.X
						continue
					}
					break
				}
			}
		}
	}
	return false
}

// blocksReachableUnder: the blocks of f that can be reached from its entry when each `if` on one of the given boolean
// parameters (or its negation) takes the branch the parameter's value selects.
func blocksReachableUnder(f *ssa.Function, flags map[*ssa.Parameter]bool) map[*ssa.BasicBlock]bool {
	f = origin(f)
	live := map[*ssa.BasicBlock]bool{}
	if len(f.Blocks) == 0 {
		return live
	}
	work := []*ssa.BasicBlock{f.Blocks[0]}
	for len(work) > 0 {
		b := work[len(work)-1]
		work = work[:len(work)-1]
		if live[b] {
			continue
		}
		live[b] = true
		succs := b.Succs
		if iff, ok := b.Instrs[len(b.Instrs)-1].(*ssa.If); ok && len(b.Succs) == 2 {
			cond, neg := iff.Cond, false
			for {
				if u, isU := cond.(*ssa.UnOp); isU && u.Op == token.NOT {
					cond, neg = u.X, !neg
					continue
				}
				break
			}
			if p, isP := cond.(*ssa.Parameter); isP {
				if v, known := flags[p]; known {
					if v != neg {
						succs = b.Succs[:1]
					} else {
						succs = b.Succs[1:]
					}
				}
			}
		}
		work = append(work, succs...)
	}
	return live
}
