package main

import (
	"go/token"
	"go/types"
	"sort"
	"strings"

	"golang.org/x/tools/go/ssa"
)

func init() {
	register(&Property{
		ID:    "C08",
		Title: "stream failures surface intact and never lose or duplicate items",
		Rules: []*Rule{
			{ID: "C08.err-propagate", Floor: 30, Clause: "for every call that can produce a source/callback error (Stream.Next, Peekable.Peek, a func-typed callback with an error result, errgroup.Wait) every exit reached while that error is still pending (not tested nil / End) delivers that very error value: as the return's error operand, into batchStream.err, to PipeSender.Close, or as the result of an errgroup.Go closure",
				Run: ruleErrPropagate},
			{ID: "C08.commit-after-success", Floor: 12, Clause: "in every Next/Peek of a stream wrapper a store to the receiver's state is dominated by a tested outcome (nil or End) of a fallible call, or is followed by no fallible call on any path (so a failed wait leaves the state a retry needs untouched); the only store allowed before the test is the simultaneous assignment of the failing call's own result",
				Run: func(c *Ctx, r *R) { ruleCommitAfterSuccess(c, r, "C08") }},
			{ID: "C08.first-error-wins", Floor: 2, Clause: "stream.Merge (same rule as C12.who-may-cancel): the shared context is cancelled only by the merged stream's Close and by the worker that has already won the first-error race; a cancel before the race lets a sibling that wakes with context.Canceled report that instead of the real error",
				Run: func(c *Ctx, r *R) { ruleMergeWhoMayCancel(c, r) }},
			{ID: "C08.no-discarded-pull", Floor: 22, Clause: "in every Next/Peek of stream and parallel wrappers an item taken from the source, the reorder heap or a data channel is used on every path on which it was obtained: a Next that fails (e.g. on its context) after taking an item would lose it",
				Run: func(c *Ctx, r *R) { ruleNoDiscardedPull(c, r, "stream", "parallel") }},
			{ID: "C08.batch-error-delivered", Floor: 2, Clause: "both places where batchStream.Next sees batchC closed return the source's error if there is one and End only otherwise",
				Run: func(c *Ctx, r *R) {
					sub := &R{rule: r.rule, c: c}
					ruleBatchDelivery(c, sub)
					for _, o := range sub.obs {
						if strings.Contains(o.Key, "closed-block") || strings.Contains(o.Key, "err-read-after-close") || strings.Contains(o.Key, "err-writer") {
							r.obs = append(r.obs, o)
						}
					}
				}},
			{ID: "C08.ctx-arm-pure", Floor: 3, Clause: "in batchStream.Next, pipeStream.Next, chanStream.Next and parallel.mapStream.Next the ctx.Done() arm returns ctx.Err() without consuming from the data channel or touching the receiver",
				Run: ruleCtxArmPure},
		},
		NotCovered: []string{"that the outputs delivered before the error are the right ones (C07's uncovered part)", "timing of faults inside goroutine-backed streams beyond the ctx-arm purity"},
		Trusted:    []string{"errgroup returns the first non-nil error of its functions"},
	})
}

var errType = types.Universe.Lookup("error").Type()

func lastIsError(sig *types.Signature) bool {
	n := sig.Results().Len()
	return n > 0 && types.Identical(sig.Results().At(n-1).Type(), errType)
}

// producerErr: if call is an error producer returns its error value.
func producerErr(call *ssa.Call) (ssa.Value, string) {
	cc := &call.Call
	kind := ""
	var sig *types.Signature
	switch {
	case cc.IsInvoke() && (cc.Method.Name() == "Next" || cc.Method.Name() == "Peek") && isStreamNamed(cc.Value.Type()):
		kind = "Stream." + cc.Method.Name()
		sig = cc.Method.Type().(*types.Signature)
	case cc.IsInvoke():
		return nil, ""
	default:
		switch v := cc.Value.(type) {
		case *ssa.Builtin:
			return nil, ""
		case *ssa.Function:
			f := origin(v)
			if f.Name() == "Wait" && f.Signature.Recv() != nil && isNamedType(f.Signature.Recv().Type(), "errgroup", "Group") {
				kind = "errgroup.Wait"
				sig = f.Signature
			} else if (f.Name() == "Next" || f.Name() == "Peek") && f.Signature.Recv() != nil && f.Signature.Params().Len() == 1 && isContextType(f.Signature.Params().At(0).Type()) {
				// statically dispatched call on a concrete stream type (s.curr.Next(ctx) with curr *runsInnerStream)
				kind = "Stream." + f.Name()
				sig = f.Signature
			} else {
				return nil, ""
			}
		case *ssa.MakeClosure:
			return nil, ""
		default:
			s, ok := cc.Value.Type().Underlying().(*types.Signature)
			if !ok {
				return nil, ""
			}
			if resolveFuncValue(cc.Value, 0) != nil {
				return nil, "" // a local closure, not a user callback
			}
			kind = "callback " + path(cc.Value)
			sig = s
		}
	}
	if sig == nil || !lastIsError(sig) {
		return nil, ""
	}
	n := sig.Results().Len()
	if n == 1 {
		return call, kind
	}
	if call.Referrers() != nil {
		for _, ref := range *call.Referrers() {
			if ex, ok := ref.(*ssa.Extract); ok && ex.Index == n-1 {
				return ex, kind
			}
		}
	}
	return nil, kind // error result unused
}

// returnedValue resolves a Return operand through the defer-spill cells go/ssa uses in functions with defer.
func returnedValue(ret *ssa.Return, idx int) ssa.Value {
	v := ret.Results[idx]
	if ld, ok := v.(*ssa.UnOp); ok && ld.Op == token.MUL {
		if al, ok := ld.X.(*ssa.Alloc); ok {
			b := ret.Block()
			var last ssa.Value
			for _, in := range b.Instrs {
				if in == ssa.Instruction(ret) {
					break
				}
				if st, ok := in.(*ssa.Store); ok && st.Addr == ssa.Value(al) {
					last = st.Val
				}
			}
			if last != nil {
				return last
			}
		}
	}
	return v
}

var errDropExceptions = map[string]string{
	"stream.mergeStream.Close|errgroup.Wait": "Close has no error result",
	"parallel.mapStream.Close|errgroup.Wait": "Close has no error result; the error is reported by Next",
}

func ruleErrPropagate(c *Ctx, r *R) {
	var fns []*ssa.Function
	for _, fn := range c.Funcs {
		root := rootFn(fn)
		if root.Pkg == c.SSA["stream"] || root.Pkg == c.SSA["parallel"] || root.Pkg == c.SSA["xmath/xrand"] {
			fns = append(fns, fn)
		}
	}
	sort.Slice(fns, func(i, j int) bool { return c.nameOf(fns[i]) < c.nameOf(fns[j]) })
	for _, fn := range fns {
		name := c.nameOf(fn)
		hasErrResult := lastIsError(fn.Signature)
		k := 0
		instrs(fn, func(b *ssa.BasicBlock, i int, in ssa.Instruction) {
			call, ok := in.(*ssa.Call)
			if !ok {
				return
			}
			e, kind := producerErr(call)
			if kind == "" {
				return
			}
			allErrs := map[ssa.Value]bool{}
			instrs(fn, func(_ *ssa.BasicBlock, _ int, in2 ssa.Instruction) {
				if c2, ok := in2.(*ssa.Call); ok {
					if e2, k2 := producerErr(c2); k2 != "" && e2 != nil {
						allErrs[e2] = true
					}
				}
			})
			k++
			key := name + "|" + kind + "#" + itoa(k)
			if reason, ok := errDropExceptions[name+"|"+kind]; ok && !hasErrResult {
				r.excepted(key, call.Pos(), reason)
				return
			}
			if e == nil {
				if reason, ok := errDropExceptions[name+"|"+kind]; ok {
					r.excepted(key, call.Pos(), reason)
				} else {
					r.violated(key, call.Pos(), "the error result of "+kind+" is discarded")
				}
				return
			}
			// tail-forward: return inner.Next(ctx)
			if tailForward(call) {
				r.discharged(key, call.Pos(), "tail-forward: the whole result tuple is returned untested")
				return
			}
			// states: 0 = inactive, 1 = pending, 2 = benign (nil / End / proven self-inflicted), 3 = delivered
			pf := &PF{N: 4}
			pf.Instr = func(f *ssa.Function, x ssa.Instruction, q int) (StateSet, bool) {
				if x == ssa.Instruction(call) {
					return ss(1), true
				}
				if q != 1 {
					return 0, false
				}
				switch y := x.(type) {
				case *ssa.Store:
					if y.Val == e {
						if _, f, ok := storedField(y.Addr); ok && f == "err" {
							return ss(3), true
						}
					}
				case *ssa.Call:
					if cal := staticCallee(&y.Call); cal != nil && fname(cal) == "Close" && cal.Signature.Recv() != nil && isNamedType(cal.Signature.Recv().Type(), "stream", "PipeSender") && len(y.Call.Args) == 2 && y.Call.Args[1] == e {
						return ss(3), true
					}
					// handed to a local function literal / in-package helper that delivers it to the sink (fail(err) →
					// sender.Close(err); record(err) → out.err = err)
					if helper := staticCallee(&y.Call); helper != nil && helper.Blocks != nil && rootFn(helper).Pkg == rootFn(fn).Pkg {
						for ai, a := range y.Call.Args {
							if a == e && ai < len(helper.Params) && paramReachesSink(helper, helper.Params[ai], 0) {
								return ss(3), true
							}
						}
					}
				}
				return 0, false
			}
			pf.Edge = func(f *ssa.Function, g guard, q int) (StateSet, bool) {
				blk := g.blk
				_ = blk
				if q != 1 {
					return 0, false
				}
				if cf, ok := g.asCmp(); ok {
					x, y := cf.x, cf.y
					if y == e || latestErrPhi(y, e, allErrs) {
						x, y = y, x
					}
					if x == e || latestErrPhi(x, e, allErrs) {
						isEnd := strings.HasSuffix(path(y), "End")
						if cf.op == token.EQL && (isNilConst(y) || isEnd) {
							return ss(2), true
						}
						return 0, false
					}
					// self-inflicted cancellation: bgCtx.Err() == context.Canceled with err == context.Canceled established
					if ec, ok := cf.x.(*ssa.Call); ok && ec.Call.IsInvoke() && ec.Call.Method.Name() == "Err" && cf.op == token.EQL && !isNilConst(cf.y) {
						for _, gd := range append(guardsOf(blk), g) {
							if c2, ok := gd.asCmp(); ok && c2.x == e && c2.op == token.EQL && strings.HasSuffix(path(c2.y), "Canceled") {
								return ss(2), true
							}
						}
					}
				}
				// first error wins: a failed CAS on the close-once flag means another worker already reported its error
				if v, val := g.boolVal(); !val {
					if cc, ok := v.(*ssa.Call); ok {
						if nm, _, ne0, ok := atomicOp(cc); ok && !ne0 && nm == "CompareAndSwapUint32" {
							return ss(2), true
						}
					}
				}
				return 0, false
			}
			bad := ""
			var badPos token.Pos
			for _, ex := range pf.Exits(fn, ss(0)) {
				if ex.Ret.Block().Comment == "recover" || !ex.States.has(1) {
					continue
				}
				if !hasErrResult {
					bad = "the function ends with the error of " + kind + " still pending: it reaches no sink (out.err, sender.Close(err))"
					badPos = retPos(ex.Ret)
					continue
				}
				rv := returnedValue(ex.Ret, len(ex.Ret.Results)-1)
				if rv == e {
					continue
				}
				if phi, ok := rv.(*ssa.Phi); ok {
					// a result variable (`var err error; for err == nil { ...; err = f(ctx, i) }; return err`): the value returned
					// is a merge - possibly through the loop header's own merge - that E flows into
					has := false
					seenPhi := map[*ssa.Phi]bool{}
					var walk func(p *ssa.Phi, d int)
					walk = func(p *ssa.Phi, d int) {
						if seenPhi[p] || d > 4 {
							return
						}
						seenPhi[p] = true
						for _, ed := range p.Edges {
							if ed == e {
								has = true
							}
							if p2, ok := ed.(*ssa.Phi); ok {
								walk(p2, d+1)
							}
						}
					}
					walk(phi, 0)
					if has {
						continue
					}
				}
				bad = "a path returns " + path(rv) + " while the error of " + kind + " is pending: the caller sees the normal end, another error, or silence instead of E"
				badPos = retPos(ex.Ret)
			}
			if bad != "" {
				r.violated(key, badPos, bad)
			} else {
				r.discharged(key, call.Pos(), "every exit reached with this error pending delivers it")
			}
		})
	}
}

func tailForward(call *ssa.Call) bool {
	if call.Referrers() == nil {
		return false
	}
	n := 0
	for _, ref := range *call.Referrers() {
		ex, ok := ref.(*ssa.Extract)
		if !ok {
			if _, isDbg := ref.(*ssa.DebugRef); isDbg {
				continue
			}
			return false
		}
		if ex.Referrers() == nil {
			return false
		}
		for _, r2 := range *ex.Referrers() {
			ret, ok := r2.(*ssa.Return)
			if !ok {
				if _, isDbg := r2.(*ssa.DebugRef); isDbg {
					continue
				}
				return false
			}
			if ex.Index >= len(ret.Results) || returnedValue(ret, ex.Index) != ssa.Value(ex) {
				return false
			}
		}
		n++
	}
	return n >= 2
}

// fallible: a call whose failure a caller may retry: Stream.Next/Peek, or a user callback with an error result.
func fallibleCall(in ssa.Instruction) (*ssa.Call, ssa.Value) {
	call, ok := in.(*ssa.Call)
	if !ok {
		return nil, nil
	}
	e, kind := producerErr(call)
	if kind == "errgroup.Wait" {
		return nil, nil
	}
	if kind == "" {
		// an in-package helper that pulls from a stream under the context and reports how that ended
		// (drain(ctx, s): nil once s reached End, the error otherwise)
		cal := staticCallee(&call.Call)
		if cal == nil || cal.Blocks == nil || cal.Parent() != nil || call.Parent() == nil || rootFn(origin(cal)).Pkg != rootFn(call.Parent()).Pkg || !lastIsError(origin(cal).Signature) || ctxParam(origin(cal)) == nil {
			return nil, nil
		}
		pulls := false
		instrs(origin(cal), func(_ *ssa.BasicBlock, _ int, in2 ssa.Instruction) {
			if c2, ok := in2.(*ssa.Call); ok {
				if _, k2 := producerErr(c2); strings.HasPrefix(k2, "Stream.") {
					pulls = true
				}
			}
		})
		if !pulls {
			return nil, nil
		}
		n := origin(cal).Signature.Results().Len()
		if n == 1 {
			return call, call
		}
		for _, ref := range refsOf(call) {
			if ex, ok := ref.(*ssa.Extract); ok && ex.Index == n-1 {
				return call, ex
			}
		}
		return call, nil
	}
	return call, e
}

func ruleCommitAfterSuccess(c *Ctx, r *R, prefix string) {
	for _, rel := range []string{"stream", "parallel"} {
		p := c.Pkgs[rel]
		scope := p.Types.Scope()
		names := scope.Names()
		sort.Strings(names)
		for _, tn := range names {
			if _, ok := scope.Lookup(tn).(*types.TypeName); !ok {
				continue
			}
			for _, mn := range []string{"Next", "Peek"} {
				fn := c.fn(rel + "." + tn + "." + mn)
				if fn == nil || !lastIsError(fn.Signature) {
					continue
				}
				recv := fn.Params[0]
				// does the method contain a fallible call at all?
				var fall []*ssa.Call
				instrs(fn, func(b *ssa.BasicBlock, i int, in ssa.Instruction) {
					if call, _ := fallibleCall(in); call != nil {
						fall = append(fall, call)
					}
				})
				if len(fall) == 0 {
					continue
				}
				// typestate: 0 = no fallible call pending, 1 = a fallible call returned and its outcome is untested on this
				// path, 2 = it failed (err != nil taken, not End)
				errOf := map[ssa.Value]bool{}
				for _, fc := range fall {
					if _, e := fallibleCall(fc); e != nil {
						errOf[e] = true
					}
				}
				pend := &PF{N: 3}
				pend.Instr = func(f *ssa.Function, in ssa.Instruction, q int) (StateSet, bool) {
					if fc, _ := fallibleCall(in); fc != nil {
						return ss(1), true
					}
					return 0, false
				}
				pend.Edge = func(f *ssa.Function, g guard, q int) (StateSet, bool) {
					cf, ok := g.asCmp()
					if !ok {
						return 0, false
					}
					x, y := cf.x, cf.y
					if errOf[y] {
						x, y = y, x
					}
					if !errOf[x] || q == 0 {
						return 0, false
					}
					isEnd := strings.HasSuffix(path(y), "End")
					switch {
					case cf.op == token.EQL && (isNilConst(y) || isEnd):
						return ss(0), true
					case cf.op == token.NEQ && isNilConst(y):
						return ss(2), true
					}
					return 0, false
				}
				pendingAt := map[ssa.Instruction]StateSet{}
				pend.Visit = func(f *ssa.Function, in ssa.Instruction, before StateSet) { pendingAt[in] |= before }
				pend.Exits(fn, ss(0))
				k := 0
				instrs(fn, func(b *ssa.BasicBlock, i int, in ssa.Instruction) {
					st, ok := in.(*ssa.Store)
					if !ok {
						return
					}
					fld, base, ok := rootField(st.Addr)
					if !ok || base != ssa.Value(recv) {
						return
					}
					k++
					key := rel + "." + tn + "." + mn + "|store:" + fld + "#" + itoa(k)
					// (0) a store that happens only on the FAILURE edge of a fallible call changes state exactly when the
					// caller is told to retry
					for _, g := range guardsOf(b) {
						cf, ok := g.asCmp()
						if !ok {
							continue
						}
						for _, fc := range fall {
							_, e := fallibleCall(fc)
							if e == nil || cf.x != e || !isNilConst(cf.y) || cf.op != token.NEQ {
								continue
							}
							// ... unless the same path also established e == End (a benign outcome)
							benign := false
							for _, g2 := range guardsOf(b) {
								if c2, ok := g2.asCmp(); ok && c2.x == e && c2.op == token.EQL && strings.HasSuffix(path(c2.y), "End") {
									benign = true
								}
							}
							if !benign {
								r.violated(key, st.Pos(), "the receiver's "+fld+" is changed on the failure path of "+calleeName(&fc.Call)+": a Next that fails while waiting must cost nothing, but here buffered state is modified exactly when the caller is told to retry")
								return
							}
						}
					}
					// (2) dominated by a tested outcome edge of a fallible call
					for _, g := range guardsOf(b) {
						cf, ok := g.asCmp()
						if !ok {
							continue
						}
						for _, fc := range fall {
							_, e := fallibleCall(fc)
							if e == nil {
								continue
							}
							x, y := cf.x, cf.y
							if y == e {
								x, y = y, x
							}
							if x != e {
								continue
							}
							if cf.op == token.EQL && (isNilConst(y) || strings.HasSuffix(path(y), "End")) {
								r.discharged(key, st.Pos(), "dominated by the tested outcome of "+path(fc.Call.Value)+"."+calleeName(&fc.Call))
								return
							}
						}
					}
					// (3) no fallible call can follow it
					follows := false
					for _, fc := range fall {
						if fc.Block() == b && idxIn(fc) > i {
							follows = true
						}
						if fc.Block() != b && reaches(b, fc.Block()) {
							follows = true
						}
						if fc.Block() == b && reaches(b, b) {
							follows = true
						}
					}
					// (1) simultaneous assignment of a fallible call's own first result (`s.curr, err = s.inner.Next(ctx)`): the field is
					// overwritten before the outcome is known, so what it held must have been dead - a dominating test says the
					// receiver holds nothing (`!s.has`, `s.curr == nil`, `len(s.buffer) == 0`) - or be put back on the failure path
					if ex, ok := st.Val.(*ssa.Extract); ok && ex.Index == 0 {
						if call, ok := ex.Tuple.(*ssa.Call); ok {
							if fc, e := fallibleCall(call); fc != nil {
								dead := false
								for _, g := range guardsOf(b) {
									if v, val := g.boolVal(); !val {
										if ld, ok := v.(*ssa.UnOp); ok && ld.Op == token.MUL {
											if _, base2, ok := rootField(ld.X); ok && base2 == ssa.Value(recv) {
												dead = true
											}
										}
									}
									// the receiver is in a named state (s.state == whileFetch): as good as a false flag
									if cf, ok := g.asCmp(); ok && cf.op == token.EQL {
										if ld, ok := cf.x.(*ssa.UnOp); ok && ld.Op == token.MUL {
											if _, base2, ok := rootField(ld.X); ok && base2 == ssa.Value(recv) {
												if nt, isN := ld.Type().(*types.Named); isN && isIntType(nt.Underlying()) {
													if _, isK := cf.y.(*ssa.Const); isK {
														dead = true
													}
												}
											}
										}
									}
									if cf, ok := g.asCmp(); ok {
										if ld, ok := cf.x.(*ssa.UnOp); ok && ld.Op == token.MUL && cf.op == token.EQL && isNilConst(cf.y) {
											if f2, base2, ok := rootField(ld.X); ok && base2 == ssa.Value(recv) && f2 == fld {
												dead = true
											}
										}
										if lc, ok := cf.x.(*ssa.Call); ok {
											if bi, ok := lc.Call.Value.(*ssa.Builtin); ok && bi.Name() == "len" {
												if ld, ok := lc.Call.Args[0].(*ssa.UnOp); ok && ld.Op == token.MUL {
													if f2, base2, ok := rootField(ld.X); ok && base2 == ssa.Value(recv) && f2 == fld {
														if (cf.op == token.LEQ && isConstInt(cf.y, 0)) || (cf.op == token.EQL && isConstInt(cf.y, 0)) || (cf.op == token.LSS && isConstInt(cf.y, 1)) {
															dead = true
														}
													}
												}
											}
										}
									}
								}
								restored := false
								if !dead && e != nil {
									instrs(fn, func(b2 *ssa.BasicBlock, _ int, in2 ssa.Instruction) {
										st2, ok := in2.(*ssa.Store)
										if !ok || st2 == st {
											return
										}
										if f2, base2, ok := rootField(st2.Addr); !ok || base2 != ssa.Value(recv) || f2 != fld {
											return
										}
										for _, g := range guardsOf(b2) {
											if cf, ok := g.asCmp(); ok && cf.x == e && cf.op == token.NEQ && isNilConst(cf.y) {
												restored = true
											}
										}
									})
								}
								if dead || restored {
									r.discharged(key, st.Pos(), "simultaneous assignment of the call's own result over a value that is dead (or put back on failure)")
								} else {
									r.violated(key, st.Pos(), "the receiver's "+fld+" is overwritten with the result of "+calleeName(&fc.Call)+" before the outcome is known, nothing says the old value was dead, and the failure path does not put it back: a failed pull destroys state a retry needs")
								}
								return
							}
						}
					}
					// (2') reached with the outcome of an earlier fallible call untested (or known bad) on some path: the store
					// also runs when that call failed - `s.has = err != End` latches a phantom item on a failed pull
					if ps := pendingAt[in]; ps.has(1) || ps.has(2) {
						recording := false
						for e := range errOf {
							if st.Val == e {
								recording = true // storing the error itself (a sticky failure) is the point of such a store
							}
						}
						if !recording {
							r.violated(key, st.Pos(), "the receiver's "+fld+" is changed on a path on which a pull that just returned has not been tested for success: the store also happens when the call failed, so a failed pull leaves a mark (a phantom item, a lost position) that a retry then sees")
							return
						}
					}
					if !follows {
						r.discharged(key, st.Pos(), "no fallible call can follow this store")
						return
					}
					r.violated(key, st.Pos(), "the receiver's "+fld+" is changed before the outcome of a call that can fail is known: if that call fails (context expired, transient source error) the change is kept, and a retry loses or duplicates an item")
				})
			}
		}
	}
}

func ruleCtxArmPure(c *Ctx, r *R) {
	for _, name := range []string{"stream.batchStream.Next", "stream.pipeStream.Next", "stream.chanStream.Next", "parallel.mapStream.Next"} {
		fn := c.fn(name)
		if fn == nil {
			r.undecided(name+"|missing", token.NoPos, "anchor not found")
			continue
		}
		n := 0
		var visit func(ops []chanOp)
		visit = func(ops []chanOp) {
			for _, op := range ops {
				for _, a := range op.arms {
					if a.kind != "ctx-done" || a.body == nil {
						continue
					}
					n++
					ret, isRet := a.body.Instrs[len(a.body.Instrs)-1].(*ssa.Return)
					pure := isRet
					for _, x := range a.body.Instrs {
						switch y := x.(type) {
						case *ssa.Store, *ssa.Send, *ssa.Select:
							pure = false
						case *ssa.UnOp:
							if y.Op == token.ARROW {
								pure = false
							}
						case *ssa.Call:
							if !(y.Call.IsInvoke() && y.Call.Method.Name() == "Err") {
								pure = false
							}
						}
					}
					okErr := false
					if isRet {
						if call, ok := returnedValue(ret, len(ret.Results)-1).(*ssa.Call); ok && call.Call.IsInvoke() && call.Call.Method.Name() == "Err" {
							okErr = true
						}
					}
					r.ok(pure && okErr, name+"|ctx-arm#"+itoa(n), posOf(op.in), "the ctx.Done() arm must return ctx.Err() and nothing else: it must not consume a value or change state, so a later Next continues exactly where this one left off")
				}
			}
		}
		visit(chanOpsOf(fn))
		if n == 0 {
			r.violated(name+"|ctx-arm", fn.Pos(), "no ctx.Done() arm")
		}
	}
}

// paramReachesSink: the helper hands its parameter p (an error) to an error sink - PipeSender.Close(p), a store into a field
// named err - (the helper is the delivery mechanism; a "first error wins" test inside it is the same benign drop as inline).
func paramReachesSink(helper *ssa.Function, p *ssa.Parameter, depth int) bool {
	found := false
	instrs(helper, func(b *ssa.BasicBlock, i int, in ssa.Instruction) {
		switch x := in.(type) {
		case *ssa.Store:
			if x.Val == ssa.Value(p) {
				if fa, ok := x.Addr.(*ssa.FieldAddr); ok && fieldName(fa.X.Type(), fa.Field) == "err" {
					found = true
				}
			}
		case *ssa.Call:
			cc := &x.Call
			if cal := staticCallee(cc); cal != nil {
				if fname(cal) == "Close" && cal.Signature.Recv() != nil && isNamedType(cal.Signature.Recv().Type(), "stream", "PipeSender") && len(cc.Args) == 2 && cc.Args[1] == ssa.Value(p) {
					found = true
				}
				if depth < 2 && cal.Blocks != nil && rootFn(cal).Pkg == rootFn(helper).Pkg {
					for ai, a := range cc.Args {
						if a == ssa.Value(p) && ai < len(cal.Params) && paramReachesSink(cal, cal.Params[ai], depth+1) {
							found = true
						}
					}
				}
			}
		}
	})
	return found
}

// latestErrPhi: v is the variable that holds the error of the latest pull in a three-clause loop (item, err := s.Next(ctx); for
// ; err == nil; item, err = s.Next(ctx)): a merge all of whose alternatives are error results of producer calls, e among them.
func latestErrPhi(v ssa.Value, e ssa.Value, allErrs map[ssa.Value]bool) bool {
	phi, ok := v.(*ssa.Phi)
	if !ok || e == nil {
		return false
	}
	mine := false
	for _, ed := range phi.Edges {
		if ed == e {
			mine = true
		}
		if !allErrs[ed] {
			return false
		}
	}
	return mine
}
