package main

import (
	"go/token"
	"go/types"
	"sort"
	"strings"

	"golang.org/x/tools/go/ssa"
)

// ruleNoDiscardedPull: in the Next/Peek methods of iterator/stream/parallel wrappers, an item obtained from the
// source (Next/Peek on an inner iterator or stream, Pop from the reorder heap, a receive from a data channel) must be
// used - returned, stored, appended, handed to a callback - on every path on which it was successfully obtained.
// A path that returns without using it has consumed an item from the source and lost it.
func ruleNoDiscardedPull(c *Ctx, r *R, rels ...string) {
	for _, rel := range rels {
		p := c.Pkgs[rel]
		if p == nil {
			continue
		}
		names := p.Types.Scope().Names()
		sort.Strings(names)
		for _, tn := range names {
			if _, ok := p.Types.Scope().Lookup(tn).(*types.TypeName); !ok {
				continue
			}
			for _, mn := range []string{"Next", "Peek"} {
				fn := c.fn(rel + "." + canonTypeName(rel, tn) + "." + mn)
				if fn == nil {
					continue
				}
				k := 0
				allOks := map[ssa.Value]bool{}
				instrs(fn, func(_ *ssa.BasicBlock, _ int, in ssa.Instruction) {
					if it, okv, _ := pulledItem(in); it != nil && okv != nil {
						allOks[okv] = true
					}
				})
				instrs(fn, func(b *ssa.BasicBlock, i int, in ssa.Instruction) {
					item, okv, what := pulledItem(in)
					if item == nil {
						return
					}
					k++
					key := rel + "." + canonTypeName(rel, tn) + "." + mn + "|" + what + "#" + itoa(k)
					// tail-forward (return inner.Next()) uses the item in the Return
					pf := &PF{N: 2} // 0 = nothing pending, 1 = item obtained and not yet used
					sel, isSel := in.(*ssa.Select)
					selArm := -1
					if isSel {
						for kk := range sel.States {
							if recvValue(sel, kk) == item {
								selArm = kk
							}
						}
					}
					pf.Instr = func(f *ssa.Function, x ssa.Instruction, q int) (StateSet, bool) {
						if x == in {
							if isSel {
								return ss(0), true // the item exists only inside the arm that received it
							}
							return ss(1), true
						}
						if q != 1 {
							return 0, false
						}
						if _, isDbg := x.(*ssa.DebugRef); isDbg {
							return 0, false
						}
						if st, isSt := x.(*ssa.Store); isSt {
							if _, local := st.Addr.(*ssa.Alloc); local {
								return 0, false // spilling into a local is not a use; loads from it are tracked
							}
						}
						for _, op := range x.Operands(nil) {
							if *op != nil && derivedFrom(*op, item, 0) {
								return ss(0), true
							}
						}
						return 0, false
					}
					pf.Edge = func(f *ssa.Function, g guard, q int) (StateSet, bool) {
						blk := g.blk
						_ = blk
						if isSel {
							// entering the arm that received the item
							if cf, ok := g.asCmp(); ok && cf.op == token.EQL && isConstInt(cf.y, int64(selArm)) {
								if ex, ok := cf.x.(*ssa.Extract); ok && ex.Tuple == ssa.Value(sel) && ex.Index == 0 {
									return ss(1), true
								}
							}
						}
						if q != 1 || okv == nil {
							return 0, false
						}
						if v, val := g.boolVal(); v == okv && !val {
							return ss(0), true // nothing was obtained
						} else if phi, isPhi := v.(*ssa.Phi); isPhi && !val {
							// for item, ok := src.Next(); ok; item, ok = src.Next(): the loop condition tests the ok of whichever
							// pull came last; when every alternative is the ok of a pull and this pull's is among them, a false test
							// means the last pull obtained nothing
							mine, all := false, true
							for _, e := range phi.Edges {
								if e == okv {
									mine = true
								}
								if !allOks[e] {
									all = false
								}
							}
							if mine && all {
								return ss(0), true
							}
						}
						if cf, ok := g.asCmp(); ok && (cf.x == okv || cf.y == okv) {
							// error result: err != nil (true) or err == End (true) ⇒ nothing obtained
							other := cf.y
							if cf.y == okv {
								other = cf.x
							}
							if (cf.op == token.NEQ && isNilConst(other)) || (cf.op == token.EQL && !isNilConst(other)) {
								return ss(0), true
							}
						}
						return 0, false
					}
					bad := false
					var badPos token.Pos
					for _, e := range pf.Exits(fn, ss(0)) {
						if e.States.has(1) {
							used := false
							for _, res := range e.Ret.Results {
								if derivedFrom(returnedValueOf(e.Ret, res), item, 0) {
									used = true
								}
							}
							if used {
								continue
							}
							bad = true
							badPos = retPos(e.Ret)
						}
					}
					if !badPos.IsValid() {
						badPos = in.Pos()
					}
					r.ok(!bad, key, badPos, "an item is taken from the source ("+what+") and a path then returns without using it (not returned, stored or passed on): the item is consumed and lost - a later Next continues after it")
				})
			}
		}
	}
}

// pulledItem: does the instruction obtain an item from a source? Returns the item value, the ok/err value (may be nil)
// and a description.
func pulledItem(in ssa.Instruction) (item ssa.Value, okOrErr ssa.Value, what string) {
	switch x := in.(type) {
	case *ssa.Call:
		name := ""
		if x.Call.IsInvoke() {
			name = x.Call.Method.Name()
		} else if cal := staticCallee(&x.Call); cal != nil && cal.Signature.Recv() != nil {
			name = fname(cal)
		}
		switch name {
		case "Next", "Peek":
			tup, ok := x.Type().(*types.Tuple)
			if !ok || tup.Len() != 2 {
				return nil, nil, ""
			}
			var it, okv ssa.Value
			for _, ref := range refsOf(x) {
				if ex, ok := ref.(*ssa.Extract); ok {
					if ex.Index == 0 {
						it = ex
					} else {
						okv = ex
					}
				}
			}
			if it == nil {
				return nil, nil, "" // the code never binds the item (deliberate drain)
			}
			recv := "source"
			if x.Call.IsInvoke() {
				recv = path(x.Call.Value)
			} else if len(x.Call.Args) > 0 {
				recv = path(x.Call.Args[0])
			}
			return it, okv, recv + "." + name + "()"
		case "Pop":
			if len(refsOf(x)) == 0 {
				return nil, nil, ""
			}
			return x, nil, "heap Pop()"
		}
	case *ssa.Select:
		for k, st := range x.States {
			if st.Dir != types.RecvOnly || chanElemIsEmptyStruct(st.Chan.Type()) {
				continue
			}
			if kind, _ := classifyChan(st.Chan); kind != "data" {
				continue
			}
			if rv := recvValue(x, k); rv != nil {
				// ok of the select
				var okv ssa.Value
				for _, ref := range refsOf(x) {
					if ex, ok := ref.(*ssa.Extract); ok && ex.Index == 1 {
						okv = ex
					}
				}
				return rv, okv, "receive from " + path(st.Chan)
			}
		}
	}
	return nil, nil, ""
}

// derivedFrom: v is item itself or a projection/copy of it.
func derivedFrom(v, item ssa.Value, d int) bool {
	if v == item {
		return true
	}
	if d > 4 {
		return false
	}
	switch x := v.(type) {
	case *ssa.Field:
		return derivedFrom(x.X, item, d+1)
	case *ssa.MakeInterface:
		return derivedFrom(x.X, item, d+1)
	case *ssa.ChangeType:
		return derivedFrom(x.X, item, d+1)
	case *ssa.Convert:
		return derivedFrom(x.X, item, d+1)
	case *ssa.UnOp:
		if x.Op == token.MUL {
			// load from a local the item was stored into (item := h.Pop() spilled because a field address is taken)
			if fa, ok := x.X.(*ssa.FieldAddr); ok {
				if al, ok := fa.X.(*ssa.Alloc); ok {
					for _, st := range storesTo(al) {
						if st.Val == item {
							return true
						}
					}
				}
			}
			if al, ok := x.X.(*ssa.Alloc); ok {
				for _, st := range storesTo(al) {
					if st.Val == item {
						return true
					}
				}
			}
		}
	}
	return false
}

// ruleEndProvenance: Flatten and Join must not report the end because a secondary source (the current inner
// sequence) ended: a return that forwards the inner sequence's ok/err untested is a violation.
func ruleEndProvenance(c *Ctx, r *R) {
	type spec struct{ fn, secondary string }
	for _, sp := range []spec{
		{"iterator.flattenIterator.Next", "curr"}, {"stream.flattenStream.Next", "curr"},
		{"iterator.joinIterator.Next", "iters"}, {"stream.joinStream.Next", "remaining"},
	} {
		fn := c.fn(sp.fn)
		if fn == nil {
			r.undecided(sp.fn+"|missing", token.NoPos, "anchor not found")
			continue
		}
		bad := ""
		var pos token.Pos
		n := 0
		instrs(fn, func(b *ssa.BasicBlock, i int, in ssa.Instruction) {
			call, ok := in.(*ssa.Call)
			if !ok {
				return
			}
			name, recv := "", ""
			if call.Call.IsInvoke() {
				name, recv = call.Call.Method.Name(), path(call.Call.Value)
			}
			if name != "Next" || !strings.Contains(recv, "."+sp.secondary) {
				return
			}
			n++
			var okv ssa.Value
			for _, ref := range refsOf(call) {
				if ex, ok := ref.(*ssa.Extract); ok && ex.Index == 1 {
					okv = ex
				}
			}
			if okv == nil {
				return
			}
			for _, ref := range refsOf(okv) {
				ret, ok := ref.(*ssa.Return)
				if !ok {
					continue
				}
				// forwarding is fine only when the path has established that the inner sequence did NOT end
				established := false
				for _, g := range guardsOf(ret.Block()) {
					if v, val := g.boolVal(); v == okv && val {
						established = true
					}
					if cf, ok := g.asCmp(); ok && cf.x == okv {
						if cf.op == token.NEQ && strings.HasSuffix(path(cf.y), "End") {
							established = true
						}
					}
				}
				if !established {
					bad = "a return forwards the end of the current inner sequence (" + recv + ".Next) as the end of the whole sequence"
					pos = retPos(ret)
				}
			}
		})
		if !pos.IsValid() {
			pos = fn.Pos()
		}
		r.ok(bad == "" && n > 0, sp.fn+"|end-only-when-outer-ends", pos, "the combined sequence ends only when the outer source ends; an empty inner sequence in the middle must be skipped: "+bad)
		// and the method must loop (skip empty inner sequences)
		loops := false
		for _, b := range fn.Blocks {
			if reaches(b, b) {
				loops = true
			}
		}
		r.ok(loops, sp.fn+"|skips-empty-inner", fn.Pos(), "Next must loop past exhausted/empty inner sequences")
	}
}

// ruleRunsInnerSticky: every (zero,false) return of runsInnerIterator.Next leaves the iterator detached (parent == nil).
func ruleRunsInnerSticky(c *Ctx, r *R) {
	fn := c.fn("iterator.runsInnerIterator.Next")
	if fn == nil {
		r.undecided("iterator.runsInnerIterator.Next|missing", token.NoPos, "anchor not found")
		return
	}
	att := attachmentField(fn)
	pf := &PF{N: 2} // 0 = parent possibly set, 1 = parent nil
	pf.Instr = func(f *ssa.Function, in ssa.Instruction, q int) (StateSet, bool) {
		if st, ok := in.(*ssa.Store); ok {
			if _, fld, ok := storedField(st.Addr); ok && fld == att {
				if isNilConst(st.Val) {
					return ss(1), true
				}
				return ss(0), true
			}
		}
		return 0, false
	}
	pf.Edge = func(f *ssa.Function, g guard, q int) (StateSet, bool) {
		b := g.blk
		_ = b
		if cf, ok := g.asCmp(); ok && strings.HasSuffix(path(cf.x), "."+att) && isNilConst(cf.y) {
			if cf.op == token.EQL {
				return ss(1), true
			}
		}
		return 0, false
	}
	k := 0
	for _, e := range pf.Exits(fn, ss(0)) {
		okc, isC := returnedValue(e.Ret, 1).(*ssa.Const)
		if !isC || okc.Value == nil || okc.Value.String() != "false" {
			continue
		}
		k++
		r.ok(e.States == ss(1), "iterator.runsInnerIterator.Next|end-detaches#"+itoa(k), retPos(e.Ret), "a run's inner iterator reports its end while still attached to the shared source (parent not cleared): when a later run has items that are `same` as this one, the stale iterator yields them again and steals them from that run")
	}
	if k == 0 {
		r.violated("iterator.runsInnerIterator.Next|end-detaches", fn.Pos(), "no end return found")
	}
}

func returnedValueOf(ret *ssa.Return, res ssa.Value) ssa.Value {
	for i, r := range ret.Results {
		if r == res {
			return returnedValue(ret, i)
		}
	}
	return res
}

// C07.equal-universal: iterator.Equal decides a universal statement ("all iterators yield the same sequence"). Inside the loop
// over the other iterators - after pulling from iters[i] and before the next one has been looked at - the only verdict that may
// be returned is the constant false; true may be returned only once every iterator has been compared for the current position.
func ruleEqualUniversal(c *Ctx, r *R) {
	fn := c.fn("iterator.Equal")
	if fn == nil {
		r.undecided("iterator.Equal|missing", token.NoPos, "anchor not found")
		return
	}
	// the per-iterator pull: Next() on an element of the variadic parameter selected by a non-constant index
	var pulls []*ssa.Call
	instrs(fn, func(b *ssa.BasicBlock, i int, in ssa.Instruction) {
		call, ok := in.(*ssa.Call)
		if !ok || !call.Call.IsInvoke() || call.Call.Method.Name() != "Next" {
			return
		}
		ld, ok := call.Call.Value.(*ssa.UnOp)
		if !ok {
			return
		}
		ia, ok := ld.X.(*ssa.IndexAddr)
		if !ok {
			return
		}
		if _, isConst := ia.Index.(*ssa.Const); isConst {
			return
		}
		pulls = append(pulls, call)
	})
	if len(pulls) == 0 {
		r.undecided("iterator.Equal|inner-pull", fn.Pos(), "no pull from iters[i] inside a loop found")
		return
	}
	n := 0
	for _, p := range pulls {
		instrs(fn, func(b *ssa.BasicBlock, i int, in ssa.Instruction) {
			ret, ok := in.(*ssa.Return)
			if !ok || len(ret.Results) != 1 {
				return
			}
			if !(p.Block().Dominates(b)) || (p.Block() == b && idxIn(p) > i) {
				return
			}
			// only returns taken before the inner loop moves on: the block does not lead back to the pull
			n++
			k, isConst := returnedValue(ret, 0).(*ssa.Const)
			good := isConst && k.Value != nil && k.Value.String() == "false"
			r.ok(good, "iterator.Equal|verdict-inside-loop#"+itoa(n), retPos(ret), "inside the loop over the other iterators Equal may only return the constant false: any other verdict is given before the remaining iterators were compared (Equal(a, a, longer) would be true)")
		})
	}
	if n == 0 {
		r.undecided("iterator.Equal|verdict-inside-loop", fn.Pos(), "no return inside the comparison loop found")
	}
}

var _ = late(func() {
	p := properties["C07"]
	p.Rules = append(p.Rules,
		&Rule{ID: "C07.equal-universal", Floor: 1, Clause: "iterator.Equal returns only the constant false from inside its loop over the other iterators (a universal verdict needs every iterator compared)", Run: ruleEqualUniversal},
		&Rule{ID: "C07.empty-in-empty-out", Floor: 10, Clause: "xslices (same rule as C19.empty-in-empty-out; xslices.Chunk is the oracle stream.Chunk / iterator.Chunk must agree with): no slice→slice function returns a non-empty result on a path an empty input can take", Run: ruleEmptyInEmptyOut},
		&Rule{ID: "C07.runs-adjacent", Floor: 3, Clause: "xslices.Runs (same rule as C19.runs-adjacent): consecutive runs are adjacent on every path into the loop, the last run is s[lo:] and is emitted for every non-empty input", Run: ruleRunsAdjacent},
	)
})

// attachmentField: the field of the run's inner iterator / stream through which it reaches the shared source and whose being
// nil means "this run has ended": by role, the receiver field that the entry block of Next tests against nil ("parent" in the
// pinned code; a copy of the source itself when the run keeps that instead of a pointer to its maker).
func attachmentField(fn *ssa.Function) string {
	if len(fn.Blocks) == 0 || len(fn.Params) == 0 {
		return "parent"
	}
	b := fn.Blocks[0]
	iff, ok := b.Instrs[len(b.Instrs)-1].(*ssa.If)
	if !ok {
		return "parent"
	}
	cf, ok := (guard{cond: iff.Cond, val: true}).asCmp()
	if !ok || !isNilConst(cf.y) {
		return "parent"
	}
	if ld, ok := cf.x.(*ssa.UnOp); ok && ld.Op == token.MUL {
		if fa, ok := ld.X.(*ssa.FieldAddr); ok && fa.X == ssa.Value(fn.Params[0]) {
			return fieldName(fa.X.Type(), fa.Field)
		}
	}
	return "parent"
}
