package main

import (
	"go/token"
	"go/types"
	"strings"

	"golang.org/x/tools/go/ssa"
)

var treeSeekDuality = newDuality(true, "first", "last", "greater", "less", "next", "prev", "forward", "backward", "lower", "upper", "leftmost", "rightmost")

func init() {
	register(&Property{
		ID:    "C02",
		Title: "tree iterators stay correct while the tree is modified between Next calls",
		Rules: []*Rule{
			{ID: "C02.tree-gen", Floor: 6, Clause: "every path of Put and Delete that changes the structure (n, keys, children, parent, root; callees summarised) bumps gen; the pure overwrite path does not need to",
				Run: ruleTreeGen},
			{ID: "C02.unlink-mark", Floor: 2, Clause: "the node whose entries are copied away in mergeTwo gets n = 0 on every path, and the root is replaced only under parent.n == 0 (lost() recognises a cursor parked in an unlinked node only by i >= n)",
				Run: ruleTreeUnlinkMark},
			{ID: "C02.cursor-validated", Floor: 10, Clause: "typestate over cursor users: a raw dereference of the cursor's node (keys[i], values[i], valueUnchecked) happens only after the cursor was validated (lost() false edge or a re-seek) AND its node was found non-nil after the last re-seek/step; inside lost() the slot read is guarded by curr != nil and i < n",
				Run: ruleCursorValidated},
			{ID: "C02.reseek-direction", Floor: 6, Clause: "a lost forward iterator re-seeks with the inclusive first->= seek and a backward one with the inclusive last-<= seek (its key is the next to yield); cursor.Next re-seeks strictly greater and Prev strictly less; the seek primitives' strictness matches their names; forward/backward twins are mirror images",
				Run: ruleReseekDirection},
			{ID: "C02.sticky-cutoff", Floor: 3, Clause: "iterator.While (used for range bounds) latches done when its predicate fails and tests it before pulling, so an exhausted range stays exhausted even if keys inside the bounds are inserted later",
				Run: func(c *Ctx, r *R) {
					ruleStickyWhile(c, r, "iterator.whileIterator.Next")
				}},
			{ID: "C02.parent-links", Floor: 8, Clause: "a child placed under X gets parent X (cursor.Next/Prev climb through parent pointers)",
				Run: ruleTreeParentLinks},
		},
		NotCovered: []string{"that lost() detects every displacement for every restructuring (depends on key values)", "no surviving key skipped, beyond the re-seek direction"},
	})
}

func ruleTreeGen(c *Ctx, r *R) {
	roots := map[string]*ssa.Function{}
	for _, n := range []string{"Put", "Delete"} {
		if f := bt(c, n); f != nil {
			roots["btree."+n] = f
		}
	}
	tp := c.SSA[treeRel]
	pf := &PF{N: 4, InScope: func(f *ssa.Function) bool { return f.Pkg == tp }}
	pf.Instr = func(fn *ssa.Function, in ssa.Instruction, q int) (StateSet, bool) {
		if st, ok := in.(*ssa.Store); ok {
			if fa, ok := st.Addr.(*ssa.FieldAddr); ok && fieldName(fa.X.Type(), fa.Field) == "gen" && isNamedType(fa.X.Type(), treeRel, "btree") {
				return ss(q | 2), true
			}
		}
		if m, _ := treeStructural(in); m {
			return ss(q | 1), true
		}
		return 0, false
	}
	for _, k := range []string{"btree.Delete", "btree.Put"} {
		fn := roots[k]
		if fn == nil {
			r.undecided(k+"|missing", token.NoPos, "anchor not found")
			continue
		}
		for i, e := range pf.Exits(fn, ss(0)) {
			key := k + "|return#" + itoa(i)
			r.ok(!e.States.has(1), key, retPos(e.Ret), "a path changes the tree's structure without bumping gen ("+describeStates(e.States)+"): lost() short-circuits on c.gen == c.t.gen, so a parked cursor keeps reading a slot that has shifted")
		}
	}
	for _, u := range pf.Undecided {
		r.undecided("idiom|"+u, token.NoPos, u)
	}
	// cursors snapshot gen when they (re)position
	for _, n := range []string{"SeekFirst", "SeekLast", "seek", "refind"} {
		fn := cur(c, n)
		if fn == nil {
			continue
		}
		snap := false
		for _, di := range deepInstrs(fn, 2) {
			if st, ok := di.in.(*ssa.Store); ok {
				fa, ok := st.Addr.(*ssa.FieldAddr)
				if !ok || !isNamedType(fa.X.Type(), treeRel, "cursor") || !isIntType(fa.Type().(*types.Pointer).Elem()) {
					continue
				}
				// the stored value: the tree's generation (an int field of the btree)
				if ld, ok := resolveVal(st.Val).(*ssa.UnOp); ok {
					if src, ok := ld.X.(*ssa.FieldAddr); ok && isNamedType(src.X.Type(), treeRel, "btree") && fieldName(src.X.Type(), src.Field) == "gen" {
						snap = true
					}
				}
			}
		}
		r.ok(snap, "cursor."+n+"|snapshots-gen", fn.Pos(), "a cursor that (re)positions itself must record the tree's current gen")
	}
}

func ruleTreeUnlinkMark(c *Ctx, r *R) {
	fn := bt(c, "mergeTwo")
	if fn == nil {
		r.undecided("tree.btree.mergeTwo|missing", token.NoPos, "anchor not found")
		return
	}
	// the node whose keys are copied out
	var src ssa.Value
	// (the copying may sit in a method of the surviving node: left.absorb(sepKey, sepValue, right) - the node is then the
	// argument that stands for the parameter copied out of)
	for _, d := range deepInstrs(fn, 2) {
		if call, ok := d.in.(*ssa.Call); ok {
			if bi, ok := call.Call.Value.(*ssa.Builtin); ok && bi.Name() == "copy" {
				if nd, arr, ok := nodeArray(call.Call.Args[1]); ok && arr == "keys" {
					src = argOf(resolveVal(nd), d.calls)
				}
			}
		}
	}
	if src == nil {
		r.violated("tree.btree.mergeTwo|merged-away-node", fn.Pos(), "cannot find the node whose keys are copied into its sibling")
		return
	}
	sp := path(src)
	pf := &PF{N: 2}
	pf.Instr = func(f *ssa.Function, in ssa.Instruction, q int) (StateSet, bool) {
		if st, ok := in.(*ssa.Store); ok {
			if fa, ok := st.Addr.(*ssa.FieldAddr); ok && fieldName(fa.X.Type(), fa.Field) == "n" && path(fa.X) == sp && isConstInt(st.Val, 0) {
				return ss(1), true
			}
		}
		return 0, false
	}
	good := true
	for _, e := range pf.Exits(fn, ss(0)) {
		if e.States.has(0) {
			good = false
		}
	}
	r.ok(good, "tree.btree.mergeTwo|unlinked-node-marked", fn.Pos(), sp+" is merged away (its entries are copied into its sibling and its slot is removed from the parent) but "+sp+".n is not set to 0 on every path: a cursor parked in it still passes lost()'s key test and walks the orphaned node")
	// root replacement under parent.n == 0
	okRoot := false
	instrs(fn, func(b *ssa.BasicBlock, i int, in ssa.Instruction) {
		if st, ok := in.(*ssa.Store); ok {
			if fa, ok := st.Addr.(*ssa.FieldAddr); ok && fieldName(fa.X.Type(), fa.Field) == "root" {
				for _, g := range guardsOf(b) {
					if cf, ok := g.asCmp(); ok && cf.op == token.EQL && isConstInt(cf.y, 0) && strings.HasSuffix(path(cf.x), ".n") {
						okRoot = true
					}
				}
			}
		}
	})
	r.ok(okRoot, "tree.btree.mergeTwo|root-collapse-guard", fn.Pos(), "the root may be replaced by its only child only when it has no keys left")
}

// cursorDeref: does the instruction dereference the cursor's node (c.curr.X / iter.c.curr.X) or call valueUnchecked?
func cursorDeref(in ssa.Instruction) (bool, string) {
	switch x := in.(type) {
	case *ssa.FieldAddr:
		if isNamedType(x.X.Type(), treeRel, "node") && strings.HasSuffix(path(x.X), ".curr") {
			return true, path(x)
		}
	case *ssa.Call:
		if cal := staticCallee(&x.Call); cal != nil && isUncheckedDerefMethod(cal) {
			return true, fname(cal) + "()"
		}
		if cal := staticCallee(&x.Call); cal != nil && (fname(cal) == "leftmostLeaf" || fname(cal) == "rightmostLeaf") && len(x.Call.Args) == 1 && strings.Contains(path(x.Call.Args[0]), ".curr.") {
			return false, ""
		}
	}
	return false, ""
}

func ruleCursorValidated(c *Ctx, r *R) {
	// states: bit0 = validated (not lost), bit1 = node known non-nil since the last move
	vf, vb := iterVariants(c)
	for _, name := range []string{treeRel + ".forwardIterator.Next", treeRel + ".backwardIterator.Next", treeRel + ".cursor.Next", treeRel + ".cursor.Prev"} {
		fn := c.fn(name)
		var spec *variant
		if vf != nil && name == vf.anchor {
			fn, spec = vf.fn, vf
		}
		if vb != nil && name == vb.anchor {
			fn, spec = vb.fn, vb
		}
		if fn == nil {
			r.undecided(name+"|missing", token.NoPos, "anchor not found")
			continue
		}
		spec.enter()
		isLostCall := func(v ssa.Value) bool {
			call, ok := v.(*ssa.Call)
			if !ok {
				return false
			}
			cal := staticCallee(&call.Call)
			return cal != nil && fname(cal) == "lost"
		}
		// accessor methods of the cursor (pair(), valueUnchecked(), ...) are analysed in place: their reads of the node count as
		// reads of the caller, under the caller's validation state and their own nil test
		isAccessor := func(f *ssa.Function) bool {
			if f == nil || f.Blocks == nil || f.Signature.Recv() == nil || !isNamedType(f.Signature.Recv().Type(), treeRel, "cursor") {
				return false
			}
			switch f.Name() {
			case "Next", "Prev", "lost", "refind", "find", "seek", "Ok", "Key", "Forward", "Backward", "Value":
				return false
			}
			return !strings.HasPrefix(f.Name(), "Seek")
		}
		pf := &PF{N: 4, DeepVisit: true, InScope: func(f *ssa.Function) bool { return isAccessor(origin(f)) && origin(f) != fn }}
		pf.Instr = func(f *ssa.Function, in ssa.Instruction, q int) (StateSet, bool) {
			switch x := in.(type) {
			case *ssa.Call:
				cal := staticCallee(&x.Call)
				if cal == nil {
					return 0, false
				}
				switch {
				case strings.HasPrefix(fname(cal), "Seek"):
					return ss(1), true // freshly positioned: valid, but may have run off the tree (curr == nil)
				case (fname(cal) == "Next" || fname(cal) == "Prev") && cal.Signature.Recv() != nil && isNamedType(cal.Signature.Recv().Type(), treeRel, "cursor"):
					return ss(q &^ 2), true // moved: node may be nil now
				}
			case *ssa.Store:
				// c.curr = <non-nil node expression> inside cursor.Next/Prev: leaf search or a checked parent
				if _, f2, ok := storedField(x.Addr); ok && f2 == "curr" {
					if isNilConst(x.Val) {
						return ss(q &^ 2), true
					}
					return ss(q | 2), true
				}
			}
			return 0, false
		}
		pf.Edge = func(f *ssa.Function, g guard, q int) (StateSet, bool) {
			b := g.blk
			_ = b
			if v, val := g.boolVal(); isLostCall(v) {
				if !val {
					return ss(q | 1), true
				}
				return ss(q &^ 1), true
			}
			if cf, ok := g.asCmp(); ok && strings.HasSuffix(path(cf.x), ".curr") && isNilConst(cf.y) {
				if cf.op == token.NEQ {
					return ss(q | 2), true
				}
				if cf.op == token.EQL {
					return ss(q &^ 2), true
				}
			}
			return 0, false
		}
		n := 0
		pf.Visit = func(f *ssa.Function, in ssa.Instruction, before StateSet) {
			isD, what := cursorDeref(in)
			if !isD {
				return
			}
			n++
			good := true
			before.each(func(q int) {
				if q != 3 {
					good = false
				}
			})
			r.ok(good, name+"|deref#"+itoa(n)+":"+what, posOf(in), "the cursor's node is dereferenced ("+what+") on a path where the cursor was not validated (lost() false / re-seek) or its node was not re-checked for nil after the last re-seek or step: after a re-seek that ran off the tree this is a nil dereference; without validation it reads a shifted slot")
		}
		pf.Exits(fn, ss(0))
		spec.leave()
		if n == 0 {
			r.violated(name+"|deref", fn.Pos(), "expected raw reads of the cursor's node")
		}
	}
	// inside lost(): the slot read is guarded by curr != nil and !(i >= n)
	lost := cur(c, "lost")
	if lost == nil {
		r.undecided("cursor.lost|missing", token.NoPos, "anchor not found")
		return
	}
	k := 0
	instrs(lost, func(b *ssa.BasicBlock, i int, in ssa.Instruction) {
		ia, ok := in.(*ssa.IndexAddr)
		if !ok {
			return
		}
		if _, arr, ok := nodeArray(ia); !ok || arr != "keys" {
			return
		}
		k++
		nonNil, inRange, genDiff := false, false, false
		extraGuard := ""
		for _, g := range guardsOf(b) {
			// ... and under nothing else: a further condition (`c.curr.leaf() && …`) exempts some nodes from the comparison - a
			// cursor parked on a separator is then not re-seeked when a delete or a rotation rewrites that slot in place
			if v, _ := g.boolVal(); v != nil {
				if call, isCall := v.(*ssa.Call); isCall {
					if cal := staticCallee(&call.Call); cal != nil && cal.Signature.Recv() != nil && isNamedTypeDeep(cal.Signature.Recv().Type(), "container/tree", "node") {
						extraGuard = calleeName(&call.Call)
					}
				}
			}
			if cf, ok := g.asCmp(); ok {
				if strings.Contains(path(cf.x), ".children") || strings.Contains(path(cf.y), ".children") {
					extraGuard = path(cf.x) + " " + cf.op.String() + " " + path(cf.y)
				}
			}
			if cf, ok := g.asCmp(); ok {
				xs, ys := path(cf.x), path(cf.y)
				if strings.HasSuffix(xs, ".curr") && isNilConst(cf.y) && cf.op == token.NEQ {
					nonNil = true
				}
				if xs == "c.i" && strings.HasSuffix(ys, ".curr.n") && cf.op == token.LSS {
					inRange = true
				}
				if strings.HasSuffix(xs, ".gen") && strings.HasSuffix(ys, ".gen") && cf.op == token.NEQ {
					genDiff = true
				}
			}
		}
		r.ok(nonNil && inRange, "cursor.lost|slot-read-guarded#"+itoa(k), ia.Pos(), "lost() may compare c.k with c.curr.keys[c.i] only under c.curr != nil and c.i < c.curr.n: slots >= n hold zero keys that may equal c.k, and an unlinked node (n = 0) is recognised only this way")
		_ = genDiff
		r.ok(extraGuard == "", "cursor.lost|slot-read-for-every-node#"+itoa(k), ia.Pos(), "lost() compares c.k with the slot only under a test of the node's kind ("+extraGuard+"): slots of internal nodes are rewritten in place too (a deleted separator is replaced by its predecessor, a rotation replaces the parent's separator, a child's split shifts them) without n shrinking - a cursor parked there is not re-seeked and yields a key that is gone, with another key's value")
	})
	if k == 0 {
		r.violated("cursor.lost|slot-read", lost.Pos(), "lost() must compare the remembered key with the slot it points at")
	}
	// lost() short-circuits on an unchanged gen and must be false for curr == nil
	res := false
	instrs(lost, func(b *ssa.BasicBlock, i int, in ssa.Instruction) {
		if bin, ok := in.(*ssa.BinOp); ok && (bin.Op == token.NEQ || bin.Op == token.EQL) && ((strings.HasSuffix(path(bin.X), "c.gen") && strings.HasSuffix(path(bin.Y), ".t.gen")) || (strings.HasSuffix(path(bin.Y), "c.gen") && strings.HasSuffix(path(bin.X), ".t.gen"))) {
			res = true
		}
	})
	r.ok(res, "cursor.lost|gen-shortcut", lost.Pos(), "lost() must compare the cursor's gen with the tree's")
}

func ruleReseekDirection(c *Ctx, r *R) {
	want := map[string]string{
		treeRel + ".forwardIterator.Next":  "SeekFirstGreaterOrEqual",
		treeRel + ".backwardIterator.Next": "SeekLastLessOrEqual",
		treeRel + ".cursor.Next":           "SeekFirstGreater",
		treeRel + ".cursor.Prev":           "SeekLastLess",
	}
	vf, vb := iterVariants(c)
	for _, name := range []string{treeRel + ".forwardIterator.Next", treeRel + ".backwardIterator.Next", treeRel + ".cursor.Next", treeRel + ".cursor.Prev"} {
		fn := c.fn(name)
		var spec *variant
		if vf != nil && name == vf.anchor {
			fn, spec = vf.fn, vf
		}
		if vb != nil && name == vb.anchor {
			fn, spec = vb.fn, vb
		}
		if fn == nil {
			r.undecided(name+"|missing", token.NoPos, "anchor not found")
			continue
		}
		spec.enter()
		var seeks []string
		var pos token.Pos
		okArg := true
		instrs(fn, func(b *ssa.BasicBlock, i int, in ssa.Instruction) {
			if call, ok := in.(*ssa.Call); ok {
				if cal := staticCallee(&call.Call); cal != nil && strings.HasPrefix(fname(cal), "Seek") {
					seeks = append(seeks, fname(cal))
					pos = call.Pos()
					// the key sought is the cursor's remembered key
					ap := path(call.Call.Args[1])
					if !(strings.HasSuffix(ap, ".k") || strings.Contains(ap, "Key(")) {
						okArg = false
					}
					// and the re-seek happens under lost()
					under := false
					for _, g := range guardsOf(b) {
						if v, val := g.boolVal(); val {
							if lc, ok := v.(*ssa.Call); ok {
								if lcal := staticCallee(&lc.Call); lcal != nil && lcal.Name() == "lost" {
									under = true
								}
							}
						}
					}
					if !under {
						okArg = false
					}
				}
			}
		})
		spec.leave()
		good := len(seeks) == 1 && seeks[0] == want[name] && okArg
		got := strings.Join(seeks, ",")
		r.ok(good, name+"|reseek", pos, "a lost cursor here must re-seek with "+want[name]+"(its remembered key) under lost(); found ["+got+"]: the exclusive seek skips a surviving key, the wrong direction moves the iterator backwards")
	}
	// strictness of the seek primitives is tied to their names
	byCases := map[string]bool{}
	type sk struct {
		name string
		op   token.Token // compare(k, c.k) OP 0 triggers the step
		step string
	}
	for _, s := range []sk{
		{"SeekFirstGreater", token.GEQ, "Next"}, {"SeekFirstGreaterOrEqual", token.GTR, "Next"},
		{"SeekLastLess", token.LEQ, "Prev"}, {"SeekLastLessOrEqual", token.LSS, "Prev"},
	} {
		fn := cur(c, s.name)
		if fn == nil {
			r.undecided("cursor."+s.name+"|missing", token.NoPos, "anchor not found")
			continue
		}
		good := false
		instrs(fn, func(b *ssa.BasicBlock, i int, in ssa.Instruction) {
			call, ok := in.(*ssa.Call)
			if !ok {
				return
			}
			cal := staticCallee(&call.Call)
			if cal == nil || cursorStepKind(c, cal) != s.step {
				return
			}
			for _, g := range guardsOf(b) {
				if cf, ok := g.asCmp(); ok && isConstInt(cf.y, 0) && cf.op == s.op {
					cc, isCall := cf.x.(*ssa.Call)
					var chain []*ssa.Call
					// the comparison handed back by a helper that seeks first (order, ok := c.seekCompare(k)): the helper's
					// only non-constant result at that position
					if ex, isEx := cf.x.(*ssa.Extract); isEx && !isCall {
						if hc, ok := ex.Tuple.(*ssa.Call); ok {
							if hcal := staticCallee(&hc.Call); hcal != nil && hcal.Blocks != nil && rootFn(hcal).Pkg == rootFn(fn).Pkg {
								var only *ssa.Call
								n := 0
								for _, rv := range returnedBy(hcal, ex.Index) {
									if _, isK := rv.(*ssa.Const); isK {
										continue
									}
									n++
									only, _ = rv.(*ssa.Call)
								}
								if n == 1 && only != nil {
									cc, isCall, chain = only, true, []*ssa.Call{hc}
								}
							}
						}
					}
					if isCall && len(cc.Call.Args) == 2 && strings.HasSuffix(path(cc.Call.Value), ".compare") && path(argOf(cc.Call.Args[0], chain)) == "k" && path(cc.Call.Args[1]) == "c.k" {
						good = true
					}
				}
			}
		})
		if !good {
			// decided by cases over the sign of the comparison (a decision table, possibly in a shared helper with constant flags)
			other := "Prev"
			if s.step == "Prev" {
				other = "Next"
			}
			good = stepsExactlyWhen(fn, s.op, s.step, other)
			byCases[s.name] = good
		}
		r.ok(good, "cursor."+s.name+"|strictness", fn.Pos(), s.name+" lands on k's neighbourhood via seek() and must step with "+s.step+"() exactly when compare(k, c.k) "+s.op.String()+" 0")
	}
	for _, pr := range [][2]string{{"SeekFirstGreater", "SeekLastLess"}, {"SeekFirstGreaterOrEqual", "SeekLastLessOrEqual"}} {
		key := "tree|" + pr[0] + "~" + pr[1]
		if byCases[pr[0]] && byCases[pr[1]] && sameForwarders(cur(c, pr[0]), cur(c, pr[1])) {
			// both hand their k to one shared helper and differ only in constant flags: what the helper does for each pair
			// of flags was decided by cases above (the strictness obligations), everything else is the same code
			r.discharged(key, cur(c, pr[0]).Pos(), "both forward to one helper with constant flags; each flag pair decided by cases")
			continue
		}
		mirrorPair(c, r, key, treeRel+".cursor."+pr[0], treeRel+".cursor."+pr[1], treeSeekDuality)
	}
	if vf2, _ := iterVariants(c); vf2 != nil && vf2.merged {
		// one iterator type with a direction flag: the constructors differ in exactly that field
		useAstAliases(c, treeRel+".cursor.Forward")
		fa, fb := withoutFlagField(c.decl(treeRel+".cursor.Forward"), vf2.flag), withoutFlagField(c.decl(treeRel+".cursor.Backward"), vf2.flag)
		if fa == nil || fb == nil {
			r.undecided("tree|Forward~Backward", token.NoPos, "function not found")
		} else {
			oa, ob := multisetDiff(funcAtoms(c.Fset, fa, nil), funcAtoms(c.Fset, fb, treeSeekDuality))
			r.ok(len(oa) == 0 && len(ob) == 0, "tree|Forward~Backward", fb.Pos(), "Forward and Backward must build the same iterator, differing only in the direction flag: only in Forward: ["+strings.Join(oa, " | ")+"]; only in dual(Backward): ["+strings.Join(ob, " | ")+"]")
		}
	} else {
		mirrorPair(c, r, "tree|Forward~Backward", treeRel+".cursor.Forward", treeRel+".cursor.Backward", treeSeekDuality)
	}
	// the two iterator Next methods are mirrors except for the name of the method being defined
	d := newDuality(true, "first", "last", "greater", "less", "next", "prev", "forward", "backward")
	d.keep["Next"] = false
	mirrorPairIter(c, r)
}

// forwardIterator.Next / backwardIterator.Next: Next↔Prev applies to cursor method calls only.
func mirrorPairIter(c *Ctx, r *R) {
	fa, fb := c.decl(treeRel+".forwardIterator.Next"), c.decl(treeRel+".backwardIterator.Next")
	if vf, vb := iterVariants(c); vf != nil && vb != nil {
		fa, fb = vf.decl, vb.decl
		if vf.merged {
			fa, fb = specialisedDecl(vf.decl, vf.flag, vf.val), specialisedDecl(vb.decl, vb.flag, vb.val)
		}
	}
	if fa == nil || fb == nil {
		r.undecided("tree|forwardIterator.Next~backwardIterator.Next", token.NoPos, "function not found")
		return
	}
	d := newDuality(true, "first", "last", "greater", "less", "next", "prev")
	A := funcAtoms(c.Fset, fa, nil)
	B := funcAtoms(c.Fset, fb, d)
	oa, ob := multisetDiff(A, B)
	r.ok(len(oa) == 0 && len(ob) == 0, "tree|forwardIterator.Next~backwardIterator.Next", fb.Pos(), "the two iterator Next methods must be mirror images: only forward: ["+strings.Join(oa, " | ")+"]; only dual(backward): ["+strings.Join(ob, " | ")+"]")
}

func ruleStickyWhile(c *Ctx, r *R, name string) {
	sub := &R{rule: r.rule, c: c}
	ruleStickyEnd(c, sub)
	for _, o := range sub.obs {
		if strings.Contains(o.Key, name) {
			r.obs = append(r.obs, o)
		}
	}
	fn := c.fn(name)
	if fn != nil {
		for i, p := range pullsOn(fn, "inner", "Next") {
			ok, _ := guardedByField(p.Block(), "done", token.NOT)
			r.ok(ok, name+"|pull-under-not-done#"+itoa(i+1), p.Pos(), "While must not pull after it reported the end")
		}
	}
}

// isUncheckedDerefMethod: a cursor method (other than the navigation/validation ones) whose body dereferences
// c.curr without first testing it against nil - calling it is as good as a raw dereference at the call site.
func isUncheckedDerefMethod(f *ssa.Function) bool { return uncheckedDeref(f, 0) }

func uncheckedDeref(f *ssa.Function, depth int) bool {
	if depth > 3 {
		return false
	}
	if f.Signature.Recv() == nil || !isNamedType(f.Signature.Recv().Type(), treeRel, "cursor") {
		return false
	}
	switch f.Name() {
	case "Next", "Prev", "lost", "refind", "find", "seek", "Ok", "Key", "Forward", "Backward":
		return false
	}
	if strings.HasPrefix(f.Name(), "Seek") {
		return false
	}
	res := false
	instrs(f, func(b *ssa.BasicBlock, i int, in ssa.Instruction) {
		if call, isCall := in.(*ssa.Call); isCall {
			// a wrapper around another unchecked accessor (pairUnchecked → valueUnchecked)
			if cal := staticCallee(&call.Call); cal != nil && cal != f && uncheckedDeref(cal, depth+1) {
				nilChecked := false
				for _, g := range guardsOf(b) {
					if cf, ok := g.asCmp(); ok && strings.HasSuffix(path(cf.x), ".curr") && isNilConst(cf.y) && cf.op == token.NEQ {
						nilChecked = true
					}
				}
				if !nilChecked {
					res = true
				}
			}
			return
		}
		fa, ok := in.(*ssa.FieldAddr)
		if !ok || !isNamedType(fa.X.Type(), treeRel, "node") || !strings.HasSuffix(path(fa.X), ".curr") {
			return
		}
		guarded := false
		for _, g := range guardsOf(b) {
			if cf, ok := g.asCmp(); ok && strings.HasSuffix(path(cf.x), ".curr") && isNilConst(cf.y) && cf.op == token.NEQ {
				guarded = true
			}
			if v, val := g.boolVal(); val {
				if call, ok := v.(*ssa.Call); ok {
					if cal := staticCallee(&call.Call); cal != nil && fname(cal) == "refind" {
						guarded = true
					}
				}
			}
		}
		if !guarded {
			res = true
		}
	})
	return res
}

// iterVariants: the Next methods of the iterators cursor.Forward / cursor.Backward build, by role (two types, or one type with
// a direction flag - see variants.go).
func iterVariants(c *Ctx) (*variant, *variant) {
	return pairVariants(c, treeRel+".cursor.Forward", treeRel+".cursor.Backward", "Next", treeRel+".forwardIterator.Next", treeRel+".backwardIterator.Next")
}

// sameForwarders: a and b each consist of one call of the same in-package helper, with the same arguments except for
// constants.
func sameForwarders(a, b *ssa.Function) bool {
	one := func(f *ssa.Function) *ssa.Call {
		var only *ssa.Call
		n := 0
		if f == nil {
			return nil
		}
		instrs(f, func(_ *ssa.BasicBlock, _ int, in ssa.Instruction) {
			switch x := in.(type) {
			case *ssa.Call:
				only = x
				n++
			case *ssa.Store, *ssa.Go, *ssa.Defer, *ssa.Send:
				n += 2
			}
		})
		if n == 1 && len(f.Blocks) == 1 {
			return only
		}
		return nil
	}
	ca, cb := one(a), one(b)
	if ca == nil || cb == nil {
		return false
	}
	ha, hb := staticCallee(&ca.Call), staticCallee(&cb.Call)
	if ha == nil || hb == nil || origin(ha) != origin(hb) || len(ca.Call.Args) != len(cb.Call.Args) {
		return false
	}
	for i := range ca.Call.Args {
		x, y := ca.Call.Args[i], cb.Call.Args[i]
		_, kx := x.(*ssa.Const)
		_, ky := y.(*ssa.Const)
		if kx && ky {
			continue
		}
		px, okx := x.(*ssa.Parameter)
		py, oky := y.(*ssa.Parameter)
		if !okx || !oky || paramIndex(px) != paramIndex(py) {
			return false
		}
	}
	return true
}

func paramIndex(p *ssa.Parameter) int {
	for i, q := range p.Parent().Params {
		if q == p {
			return i
		}
	}
	return -1
}

// cursorStepKind: "Next" / "Prev" for the cursor's step methods and for the raw step each of them ends in (Next: `if c.lost() {
// re-seek; return }; c.stepForward()` - the seeks, which have just positioned the cursor and synced its generation, may call
// stepForward directly); "" otherwise.
func cursorStepKind(c *Ctx, cal *ssa.Function) string {
	n := fname(cal)
	if n == "Next" || n == "Prev" {
		return n
	}
	for _, step := range []string{"Next", "Prev"} {
		sf := cur(c, step)
		if sf == nil {
			continue
		}
		var last *ssa.Call
		instrs(sf, func(_ *ssa.BasicBlock, _ int, in ssa.Instruction) {
			if call, ok := in.(*ssa.Call); ok {
				if f := staticCallee(&call.Call); f != nil && origin(f) == origin(cal) && len(call.Call.Args) == 1 && call.Call.Args[0] == ssa.Value(sf.Params[0]) {
					last = call
				}
			}
		})
		if last == nil {
			continue
		}
		// the call is the last thing Next does (its block ends in the return)
		b := last.Block()
		tail := true
		for _, in := range b.Instrs[idxIn(last)+1:] {
			switch in.(type) {
			case *ssa.Return, *ssa.Jump, *ssa.DebugRef:
			default:
				tail = false
			}
		}
		if tail {
			return step
		}
	}
	return ""
}
