package main

import (
	"go/ast"
	"go/token"
	"go/types"
	"strings"

	"golang.org/x/tools/go/ssa"
)

func init() {
	register(&Property{
		ID:    "C12",
		Title: "Merge/Replicate move every value exactly once and finish when inputs do",
		Rules: []*Rule{
			{ID: "C12.merge-arms", Floor: 5, Clause: "in merge2/merge3 each select arm receives from parameter in_k, sends the received item to out when ok, and otherwise disables the same in_k, counts it once and compares the count with the number of inputs",
				Run: ruleMergeArms},
			{ID: "C12.merge-dispatch", Floor: 5, Clause: "chans.Merge calls mergeN under len(in) == N with in[0..N-1] in order; the general path guards every reflect.Select by a non-empty case list in the same iteration (zero inputs return at once)",
				Run: ruleMergeDispatch},
			{ID: "C12.replicate-shape", Floor: 1, Clause: "Replicate sends each item received from src to every element of dsts (nested loops), and nothing else",
				Run: ruleReplicateShape},
			{ID: "C12.zero-trip", Floor: 1, Clause: "the PipeSender created in stream.Merge is closed on every execution: if all other Close calls sit in goroutines spawned by a loop over the inputs, a Close in Merge itself is guarded by len(in) == 0",
				Run: ruleMergeZeroTrip},
			{ID: "C12.bg-ctx", Floor: 3, Clause: "mergeStream.Close cancels the workers' context before waiting; the workers pass only that context to in[i].Next and sender.Send",
				Run: func(c *Ctx, r *R) { ruleBgCtx(c, r, "stream.Merge") }},
			{ID: "C12.bg-cancellable", Floor: 0, Clause: "every blocking channel operation in Merge's workers is interruptible (none exist today: the workers block only in calls that take the cancellable context)",
				Run: func(c *Ctx, r *R) { ruleBgCancellable(c, r, "stream.Merge") }},
			{ID: "C12.wg-count", Floor: 1, Clause: "wg.Add(len(in)) matches the spawn loop; each worker defers wg.Done() first",
				Run: func(c *Ctx, r *R) { ruleWgCount(c, r, "stream.Merge") }},
			{ID: "C12.close-once", Floor: 3, Clause: "every sender.Close in the workers is dominated by a successful CAS on closeOnce or by the last-one-out test; cancel() precedes sender.Close(err); the error passed is the one the input returned",
				Run: ruleMergeCloseOnce},
			{ID: "C12.atomic-only", Floor: 5, Clause: "every variable that is passed to a sync/atomic function is accessed only through sync/atomic after its initialisation (repo-wide)",
				Run: ruleAtomicOnly},
			{ID: "C12.merge-worker-shape", Floor: 3, Clause: "each stream.Merge worker forwards exactly the item it received from its own input: Send's argument is Next's result, End ends the worker without closing with an error",
				Run: ruleMergeWorkerShape},
		},
		NotCovered: []string{"multiset equality / per-input order beyond 'receive one, send that one' per arm plus Go channel semantics", "fairness of select"},
		Trusted:    []string{"Go channel and select semantics", "sync/atomic"},
	})
}

func ruleMergeArms(c *Ctx, r *R) {
	info := c.info("chans")
	type job struct {
		name     string
		fd       *ast.FuncDecl
		countObj types.Object // the int parameter that carries the number of live inputs (shared helper), or nil
	}
	var jobs []job
	analysed := map[*ast.FuncDecl]bool{}
	for _, name := range []string{"merge2", "merge3"} {
		fd := c.decl("chans." + name)
		if fd == nil {
			r.undecided("chans."+name+"|missing", token.NoPos, "function not found")
			continue
		}
		// a merger that only hands its channels to a shared helper (mergeUpTo3(out, 2, in0, in1, nil)): each input is passed
		// exactly once, the count argument equals the number of real inputs, and the helper itself is analysed as a merger
		// whose done-count is compared with its count parameter
		if len(fd.Body.List) == 1 {
			if es, ok := fd.Body.List[0].(*ast.ExprStmt); ok {
				if call, ok := es.X.(*ast.CallExpr); ok {
					if id, ok := call.Fun.(*ast.Ident); ok {
						if hfd := c.decl("chans." + id.Name); hfd != nil && hfd != fd {
							var callerIns []types.Object
							for _, f := range fd.Type.Params.List {
								for _, pn := range f.Names {
									if ch, ok := info.Defs[pn].Type().Underlying().(*types.Chan); ok && ch.Dir() != types.SendOnly {
										callerIns = append(callerIns, info.Defs[pn])
									}
								}
							}
							passed := map[types.Object]int{}
							lit := ""
							for _, a := range call.Args {
								switch x := a.(type) {
								case *ast.Ident:
									passed[info.Uses[x]]++
								case *ast.BasicLit:
									lit = x.Value
								}
							}
							good := lit == itoa(len(callerIns))
							for _, in := range callerIns {
								if passed[in] != 1 {
									good = false
								}
							}
							r.ok(good, "chans."+name+"|delegates:"+id.Name, fd.Pos(), name+" must hand each of its "+itoa(len(callerIns))+" inputs exactly once, and that number as the count, to the shared merger")
							var countObj types.Object
							for _, f := range hfd.Type.Params.List {
								for _, pn := range f.Names {
									if b, ok := info.Defs[pn].Type().Underlying().(*types.Basic); ok && b.Info()&types.IsInteger != 0 {
										countObj = info.Defs[pn]
									}
								}
							}
							if !analysed[hfd] {
								analysed[hfd] = true
								jobs = append(jobs, job{id.Name, hfd, countObj})
							}
							continue
						}
					}
				}
			}
		}
		jobs = append(jobs, job{name, fd, nil})
	}
	for _, jb := range jobs {
		name, fd, countObj := jb.name, jb.fd, jb.countObj
		// channel parameters other than the first (out)
		var ins []types.Object
		var out types.Object
		for _, f := range fd.Type.Params.List {
			for _, id := range f.Names {
				obj := info.Defs[id]
				if ch, ok := obj.Type().Underlying().(*types.Chan); ok {
					if ch.Dir() == types.SendOnly {
						out = obj
					} else {
						ins = append(ins, obj)
					}
				}
			}
		}
		covered := map[types.Object]int{}
		// integer locals initialised with a literal (nDone := 0, nOpen := 2)
		counterInit := map[types.Object]string{}
		ast.Inspect(fd.Body, func(n ast.Node) bool {
			if as, ok := n.(*ast.AssignStmt); ok && as.Tok == token.DEFINE && len(as.Lhs) == len(as.Rhs) {
				for k := range as.Lhs {
					if id, ok := as.Lhs[k].(*ast.Ident); ok {
						if lit, ok := as.Rhs[k].(*ast.BasicLit); ok {
							counterInit[info.Defs[id]] = lit.Value
						}
					}
				}
			}
			return true
		})
		// function literals bound to local names (exhausted := func(in *<-chan T) bool {…})
		localClosures := map[types.Object]*ast.FuncLit{}
		ast.Inspect(fd.Body, func(n ast.Node) bool {
			if as, ok := n.(*ast.AssignStmt); ok && as.Tok == token.DEFINE && len(as.Lhs) == 1 && len(as.Rhs) == 1 {
				if lit, ok := as.Rhs[0].(*ast.FuncLit); ok {
					if id, ok := as.Lhs[0].(*ast.Ident); ok {
						localClosures[info.Defs[id]] = lit
					}
				}
			}
			return true
		})
		ast.Inspect(fd.Body, func(n ast.Node) bool {
			cc, ok := n.(*ast.CommClause)
			if !ok || cc.Comm == nil {
				return true
			}
			as, ok := cc.Comm.(*ast.AssignStmt)
			if !ok || len(as.Rhs) != 1 {
				return true
			}
			ue, ok := as.Rhs[0].(*ast.UnaryExpr)
			if !ok || ue.Op != token.ARROW {
				return true
			}
			chID, ok := ue.X.(*ast.Ident)
			if !ok {
				return true
			}
			chObj := info.Uses[chID]
			covered[chObj]++
			key := "chans." + name + "|arm:" + chID.Name
			var itemObj types.Object
			if id, ok := as.Lhs[0].(*ast.Ident); ok {
				itemObj = info.Defs[id]
			}
			var problems []string
			countsDown := false
			nilAssigned := 0
			sends := 0
			incs := 0
			cmpOK := false
			handedOver := false
			// the completion test as the condition of the loop around the select (`for nDone < 2 { select {...} }`): it is
			// evaluated after every arm, including this one
			ast.Inspect(fd.Body, func(m ast.Node) bool {
				fs, ok := m.(*ast.ForStmt)
				if !ok || fs.Cond == nil || !(fs.Body.Pos() <= cc.Pos() && cc.End() <= fs.Body.End()) {
					return true
				}
				be, ok := fs.Cond.(*ast.BinaryExpr)
				if !ok || (be.Op != token.LSS && be.Op != token.NEQ) {
					return true
				}
				if _, isID := be.X.(*ast.Ident); !isID {
					return true
				}
				if tv, has := info.Types[be.Y]; has && tv.Value != nil && tv.Value.ExactString() == itoa(len(ins)) {
					cmpOK = true
				}
				return true
			})
			// hand-over: when this input closes the remaining ones are given to the merger for one input less and the function
			// returns (merge3: `merge2(out, in1, in2); return`) - the inputs passed are exactly the others, each once
			isHandOver := func(call *ast.CallExpr) bool {
				id, ok := call.Fun.(*ast.Ident)
				if !ok || id.Name == name || c.decl("chans."+id.Name) == nil || len(call.Args) != len(ins) {
					return false
				}
				if a0, ok := call.Args[0].(*ast.Ident); !ok || info.Uses[a0] != out {
					return false
				}
				got := map[types.Object]int{}
				for _, a := range call.Args[1:] {
					aid, ok := a.(*ast.Ident)
					if !ok {
						return false
					}
					got[info.Uses[aid]]++
				}
				for _, in := range ins {
					want := 1
					if in == chObj {
						want = 0
					}
					if got[in] != want {
						return false
					}
				}
				// ... and the call is followed by a return
				followed := false
				ast.Inspect(&ast.BlockStmt{List: cc.Body}, func(m ast.Node) bool {
					var list []ast.Stmt
					switch b := m.(type) {
					case *ast.BlockStmt:
						list = b.List
					case *ast.CaseClause:
						list = b.Body
					}
					for i := 0; i+1 < len(list); i++ {
						if es, ok := list[i].(*ast.ExprStmt); ok && es.X == ast.Expr(call) {
							if _, isRet := list[i+1].(*ast.ReturnStmt); isRet {
								followed = true
							}
						}
					}
					return true
				})
				return followed
			}
			var inspectBody func(body ast.Node, ptrArg map[types.Object]ast.Expr)
			var visit func(m ast.Node, ptrArg map[types.Object]ast.Expr) bool
			inspectBody = func(body ast.Node, ptrArg map[types.Object]ast.Expr) {
				ast.Inspect(body, func(m ast.Node) bool { return visit(m, ptrArg) })
			}
			visit = func(m ast.Node, ptrArg map[types.Object]ast.Expr) bool {
				switch s := m.(type) {
				case *ast.CallExpr:
					if isHandOver(s) {
						handedOver = true
					}
					// a local helper (exhausted(&in0)) that does the bookkeeping of a closed input: look inside, with
					// *param standing for the variable whose address is passed
					if id, ok := s.Fun.(*ast.Ident); ok {
						if lit := localClosures[info.Uses[id]]; lit != nil && ptrArg == nil {
							pa := map[types.Object]ast.Expr{}
							k := 0
							for _, f := range lit.Type.Params.List {
								for _, pn := range f.Names {
									if k < len(s.Args) {
										pa[info.Defs[pn]] = s.Args[k]
									}
									k++
								}
							}
							inspectBody(lit.Body, pa)
						}
					}
				case *ast.AssignStmt:
					if ptrArg != nil && len(s.Lhs) == 1 && len(s.Rhs) == 1 {
						// *p = nil with p bound to &X
						if st, ok := s.Lhs[0].(*ast.StarExpr); ok {
							if pid, ok := st.X.(*ast.Ident); ok {
								if arg, ok := ptrArg[info.Uses[pid]]; ok {
									if id, ok := s.Rhs[0].(*ast.Ident); ok && id.Name == "nil" {
										if ue, ok := arg.(*ast.UnaryExpr); ok && ue.Op == token.AND {
											if x, ok := ue.X.(*ast.Ident); ok {
												if info.Uses[x] == chObj {
													nilAssigned++
												} else {
													problems = append(problems, "disables "+x.Name+" instead of "+chID.Name)
												}
											}
										}
									}
								}
							}
						}
					}
					if s.Tok == token.ADD_ASSIGN && len(s.Rhs) == 1 {
						if lit, ok := s.Rhs[0].(*ast.BasicLit); ok && lit.Value == "1" {
							incs++
						}
					}
					if len(s.Lhs) == 1 && len(s.Rhs) == 1 {
						if id, ok := s.Rhs[0].(*ast.Ident); ok && id.Name == "nil" {
							if l, ok := s.Lhs[0].(*ast.Ident); ok {
								if info.Uses[l] == chObj {
									nilAssigned++
								} else {
									problems = append(problems, "disables "+l.Name+" instead of "+chID.Name)
								}
							}
						}
					}
				case *ast.SendStmt:
					sends++
					if id, ok := s.Chan.(*ast.Ident); !ok || info.Uses[id] != out {
						problems = append(problems, "sends on something other than out")
					}
					if id, ok := s.Value.(*ast.Ident); !ok || info.Uses[id] != itemObj {
						problems = append(problems, "sends something other than the item just received")
					}
				case *ast.IncDecStmt:
					if s.Tok == token.INC {
						incs++
					}
					if s.Tok == token.DEC {
						// counting open inputs down from the number of inputs
						if id, ok := s.X.(*ast.Ident); ok && counterInit[info.Uses[id]] == itoa(len(ins)) {
							incs++
							countsDown = true
						}
					}
				case *ast.BinaryExpr:
					if s.Op == token.EQL {
						if yid, isID := s.Y.(*ast.Ident); isID && countObj != nil && info.Uses[yid] == countObj && !countsDown {
							cmpOK = true // the shared merger compares with the count its callers hand in
						}
						// the right-hand side as a constant: a literal, or a named constant (const numIn = 2)
						type litT struct{ Value string }
						var lit litT
						ok := false
						if tv, has := info.Types[s.Y]; has && tv.Value != nil {
							lit, ok = litT{tv.Value.ExactString()}, true
						}
						if ok && lit.Value == itoa(len(ins)) && !countsDown && countObj == nil {
							cmpOK = true
						} else if ok && lit.Value == "0" {
							if id, isID := s.X.(*ast.Ident); isID && counterInit[info.Uses[id]] == itoa(len(ins)) {
								cmpOK = true // open-input count reached zero
							} else {
								problems = append(problems, "compares the done-count with 0 but the function has "+itoa(len(ins))+" inputs")
							}
						} else if ok {
							problems = append(problems, "compares the done-count with "+lit.Value+" but the function has "+itoa(len(ins))+" inputs")
						}
					}
				}
				return true
			}
			inspectBody(&ast.BlockStmt{List: cc.Body}, nil)
			if nilAssigned != 1 && !handedOver {
				problems = append(problems, "must set "+chID.Name+" = nil exactly once when it is closed")
			}
			if sends != 1 {
				problems = append(problems, "must send the received item exactly once")
			}
			if incs != 1 && !handedOver {
				problems = append(problems, "must count the closed input exactly once")
			}
			if !cmpOK && !handedOver {
				problems = append(problems, "must compare the done-count with the number of inputs")
			}
			if handedOver && (nilAssigned != 0 || incs != 0) {
				problems = append(problems, "mixes the hand-over to the smaller merger with its own bookkeeping")
			}
			r.ok(len(problems) == 0, key, cc.Pos(), strings.Join(problems, "; "))
			return true
		})
		for _, in := range ins {
			if covered[in] != 1 {
				r.violated("chans."+name+"|coverage:"+in.Name(), fd.Pos(), "input "+in.Name()+" is received from in "+itoa(covered[in])+" arms, want exactly 1")
			}
		}
	}
}

func ruleMergeDispatch(c *Ctx, r *R) {
	fn := c.fn("chans.Merge")
	if fn == nil {
		r.undecided("chans.Merge|missing", token.NoPos, "function not found")
		return
	}
	inP := fn.Params[len(fn.Params)-1]
	for _, dd := range deepInstrs(fn, 2) {
		b, in := dd.in.Block(), dd.in
		call, ok := in.(*ssa.Call)
		if !ok {
			continue
		}
		cal := staticCallee(&call.Call)
		if cal == nil {
			continue
		}
		if (fname(cal) == "merge2" || fname(cal) == "merge3") && len(dd.calls) > 0 {
			continue
		}
		switch {
		case fname(cal) == "merge2" || fname(cal) == "merge3":
			n := 2
			if fname(cal) == "merge3" {
				n = 3
			}
			// guarded by len(in) == n
			guarded := false
			for _, g := range guardsOf(b) {
				if cf, ok := g.asCmp(); ok && cf.op == token.EQL && isConstInt(cf.y, int64(n)) && path(cf.x) == "len("+pname(inP)+")" {
					guarded = true
				}
			}
			argsOK := len(call.Call.Args) == n+1
			for k := 1; k < len(call.Call.Args) && argsOK; k++ {
				if path(call.Call.Args[k]) != pname(inP)+"["+itoa(k-1)+"]" {
					argsOK = false
				}
			}
			r.ok(guarded && argsOK, "chans.Merge|dispatch:"+fname(cal), call.Pos(), fname(cal)+" must be called under len(in) == "+itoa(n)+" with in[0.."+itoa(n-1)+"] in order")
		case fname(cal) == "Select" && cal.Pkg != nil && cal.Pkg.Pkg.Path() == "reflect":
			// dominated, inside the loop, by the false edge of len(cases) == 0
			guarded := false
			arg := call.Call.Args[0]
			argP := valueProv(arg, provEnv{chain: dd.calls}).String()
			sameList := func(v ssa.Value) bool { // the very list handed to reflect.Select, possibly seen from the caller of a helper
				return v == arg || valueProv(v, provEnv{}).String() == argP
			}
			// the guard may sit next to the call (in a helper that holds the loop) or, when the call sits in a small helper
			// (open.recv()), at the place in Merge from which that helper is called: the guards of every frame count
			b := dd.site.Block() // the frame that holds the loop: where the guard is
			places := []*ssa.BasicBlock{call.Block()}
			for k := len(dd.calls) - 1; k >= 0; k-- {
				places = append(places, dd.calls[k].Block())
			}
			for _, pb := range places {
				for _, g := range guardsOf(pb) {
					cf, ok := g.asCmp()
					if !ok {
						continue
					}
					lc, isLen := cf.x.(*ssa.Call)
					if !isLen {
						continue
					}
					if bi, ok := lc.Call.Value.(*ssa.Builtin); !ok || bi.Name() != "len" || !sameList(lc.Call.Args[0]) {
						continue
					}
					if (cf.op == token.NEQ && isConstInt(cf.y, 0)) || (cf.op == token.GTR && isConstInt(cf.y, 0)) || (cf.op == token.GEQ && isConstInt(cf.y, 1)) {
						if !guarded {
							b = pb
						}
						guarded = true
					}
				}
			}
			r.ok(guarded, "chans.Merge|reflect-select-guard", call.Pos(), "reflect.Select must be guarded by a non-empty case list on every iteration, including the first: with zero inputs (or after the last one closed) it blocks forever")
			// … and the loop is left only when that very case list is empty: any other way out (a shortcut for "one input
			// left" driven by a second list, an error exit) returns while inputs may still be open
			early := false
			var earlyPos token.Pos
			for _, rb := range b.Parent().Blocks {
				ret, ok := rb.Instrs[len(rb.Instrs)-1].(*ssa.Return)
				if !ok || !reaches(b, rb) {
					continue
				}
				okExit := false
				for _, g := range guardsOf(rb) {
					cf, ok := g.asCmp()
					if !ok {
						continue
					}
					lc, isLen := cf.x.(*ssa.Call)
					if !isLen {
						continue
					}
					if bi, ok := lc.Call.Value.(*ssa.Builtin); !ok || bi.Name() != "len" || !sameList(lc.Call.Args[0]) {
						continue
					}
					if (cf.op == token.EQL && isConstInt(cf.y, 0)) || (cf.op == token.LEQ && isConstInt(cf.y, 0)) || (cf.op == token.LSS && isConstInt(cf.y, 1)) {
						okExit = true
					}
				}
				if !okExit {
					early = true
					earlyPos = retPos(ret)
				}
			}
			r.ok(!early, "chans.Merge|reflect-loop-exit", earlyPos, "the reflect loop may be left only when the case list handed to reflect.Select is empty: every other return can happen while an input is still open, so Merge finishes early and that input's values are never forwarded")
		}
	}
	// len(in) == 1 path: range in[0] forwarding to out
	one := false
	for _, d := range deepInstrs(fn, 1) { // possibly in a helper of its own (merge1(out, in[0]))
		snd, ok := d.in.(*ssa.Send)
		if !ok {
			continue
		}
		if len(d.calls) > 0 {
			if cal := staticCallee(&d.calls[0].Call); cal == nil || fname(cal) == "merge2" || fname(cal) == "merge3" {
				continue
			}
		}
		if ex, ok := snd.X.(*ssa.Extract); ok {
			if rcv, ok := ex.Tuple.(*ssa.UnOp); ok && rcv.Op == token.ARROW && path(argOf(rcv.X, d.calls)) == pname(inP)+"[0]" && argOf(snd.Chan, d.calls) == ssa.Value(fn.Params[0]) {
				one = true
			}
		}
	}
	if !one {
		// or delegated to Replicate(in[0], out), whose shape is decided by C12.replicate-shape
		instrs(fn, func(b *ssa.BasicBlock, i int, in ssa.Instruction) {
			call, ok := in.(*ssa.Call)
			if !ok {
				return
			}
			if cal := staticCallee(&call.Call); cal == nil || fname(cal) != "Replicate" || len(call.Call.Args) < 2 {
				return
			}
			if path(call.Call.Args[0]) != pname(inP)+"[0]" {
				return
			}
			for _, lf := range valueLeaves(call.Call.Args[1], nil, 0) {
				// the variadic destination list holds exactly out
				_ = lf
			}
			// the single destination is out: the variadic slice literal's only element
			if sl, ok := call.Call.Args[1].(*ssa.Slice); ok {
				if al, ok := sl.X.(*ssa.Alloc); ok && al.Referrers() != nil {
					for _, ref := range *al.Referrers() {
						if ia, ok := ref.(*ssa.IndexAddr); ok && ia.Referrers() != nil {
							for _, r2 := range *ia.Referrers() {
								if st, ok := r2.(*ssa.Store); ok && resolveVal(st.Val) == ssa.Value(fn.Params[0]) {
									one = true
								}
								if st, ok := r2.(*ssa.Store); ok {
									if ct, ok := st.Val.(*ssa.ChangeType); ok && ct.X == ssa.Value(fn.Params[0]) {
										one = true
									}
								}
							}
						}
					}
				}
			}
		})
	}
	r.ok(one, "chans.Merge|single-input-forward", fn.Pos(), "the one-input path must forward every item received from in[0] to out")
	// the general path sends the received item to out
	gen := false
	for _, dd := range deepInstrs(fn, 2) {
		b := dd.in.Block()
		snd, ok := dd.in.(*ssa.Send)
		if !ok || argOf(snd.Chan, dd.calls) != ssa.Value(fn.Params[0]) {
			continue
		}
		fromSelect := strings.Contains(path(snd.X), "Interface")
		if !fromSelect {
			// the reflect.Select call and the unboxing live in a helper (item, chosen, ok := open.recv())
			for _, lf := range valueLeaves(snd.X, dd.calls, 0) {
				if strings.Contains(path(lf.v), "Interface") {
					fromSelect = true
				}
			}
		}
		if fromSelect {
			for _, g := range guardsOf(b) {
				if v, val := g.boolVal(); val {
					ex, ok := v.(*ssa.Extract)
					if !ok {
						continue
					}
					if ex.Index == 2 && !callsReflectSelectHelper(ex.Tuple) {
						gen = true
					}
					if hc, ok := ex.Tuple.(*ssa.Call); ok && callsReflectSelectHelper(hc) {
						// the helper's boolean result is reflect.Select's ok (or a constant on the paths where that is known)
						all, any := true, false
						isSelOK := func(v ssa.Value) bool {
							e2, ok := v.(*ssa.Extract)
							if !ok || e2.Index != 2 {
								return false
							}
							sc, ok := e2.Tuple.(*ssa.Call)
							return ok && sc.Call.StaticCallee() != nil && sc.Call.StaticCallee().Name() == "Select"
						}
						instrs(origin(staticCallee(&hc.Call)), func(hb *ssa.BasicBlock, _ int, in2 ssa.Instruction) {
							ret, ok := in2.(*ssa.Return)
							if !ok || ex.Index >= len(ret.Results) {
								return
							}
							any = true
							rv := returnedValue(ret, ex.Index)
							if isSelOK(rv) {
								return
							}
							k, isK := rv.(*ssa.Const)
							if !isK || k.Value == nil {
								all = false
								return
							}
							want := k.Value.String() == "true"
							okG := false
							for _, g2 := range guardsOf(hb) {
								if v2, val2 := g2.boolVal(); isSelOK(v2) && val2 == want {
									okG = true
								}
							}
							if !okG {
								all = false
							}
						})
						if all && any {
							gen = true
						}
					}
				}
			}
		}
	}
	r.ok(gen, "chans.Merge|general-forward", fn.Pos(), "the reflect path must send the received value to out exactly when the receive reported ok")
	// ... exactly: the send is not made to depend on anything else - in particular not on the ok of the conversion back to T,
	// which is false for a nil value of an interface element type (the value would be dropped while the 1/2/3-input paths
	// forward it)
	for _, dd := range deepInstrs(fn, 2) {
		snd, ok := dd.in.(*ssa.Send)
		if !ok || argOf(snd.Chan, dd.calls) != ssa.Value(fn.Params[0]) {
			continue
		}
		blocks := []*ssa.BasicBlock{snd.Block()}
		for _, via := range dd.calls {
			blocks = append(blocks, via.Block())
		}
		for _, bb := range blocks {
			for _, g := range guardsOf(bb) {
				bv, _ := g.boolVal()
				if ex, ok := bv.(*ssa.Extract); ok && ex.Index == 1 {
					if ta, ok := ex.Tuple.(*ssa.TypeAssert); ok && ta.CommaOk {
						r.violated("chans.Merge|forward-unconditional-on-conversion", snd.Pos(), "the send to out is guarded by the ok of the type assertion back to the element type: a nil value of an interface element type fails that assertion and is dropped, although it was received from an input and must be forwarded")
					}
				}
			}
		}
	}
	// ... and the case taken out of the list when a receive reports "closed" is the one reflect.Select chose: removing (or
	// overwriting) any other slot evicts a live input while the closed one stays and keeps firing
	isChosen := func(v ssa.Value, chain []*ssa.Call) bool {
		ls := valueLeaves(v, chain, 0)
		if len(ls) == 0 {
			return false
		}
		for _, lf := range ls {
			var tuple ssa.Value
			idx := -1
			switch x := resolveVal(lf.v).(type) {
			case *ssa.Extract:
				tuple, idx = x.Tuple, x.Index
			case *tupleElem:
				tuple, idx = x.tuple, x.idx
			}
			call, ok := tuple.(*ssa.Call)
			if !ok || idx != 0 {
				return false
			}
			if cal := call.Call.StaticCallee(); cal == nil || cal.Name() != "Select" || cal.Pkg == nil || cal.Pkg.Pkg.Path() != "reflect" {
				return false
			}
		}
		return true
	}
	isCaseList := func(v ssa.Value) bool {
		st, ok := v.Type().Underlying().(*types.Slice)
		return ok && isNamedType(st.Elem(), "reflect", "SelectCase")
	}
	nRemove := 0
	for _, dd := range deepInstrs(fn, 2) {
		switch x := dd.in.(type) {
		case *ssa.Call:
			cal := staticCallee(&x.Call)
			if cal == nil || !(fname(cal) == "Remove" || fname(cal) == "RemoveUnordered") || len(x.Call.Args) != 3 || !isCaseList(x.Call.Args[0]) {
				continue
			}
			nRemove++
			r.ok(isChosen(x.Call.Args[1], dd.calls) && isConstInt(x.Call.Args[2], 1), "chans.Merge|closed-case-removed#"+itoa(nRemove), x.Pos(), "the select case removed after a receive reported a closed input must be exactly the one reflect.Select chose (index chosen, count 1), found "+path(x.Call.Args[1])+", "+path(x.Call.Args[2]))
		case *ssa.Store:
			ia, ok := x.Addr.(*ssa.IndexAddr)
			if !ok || !isCaseList(ia.X) {
				continue
			}
			// building the list (cases[i] = reflect.SelectCase{...}) is not a removal: the value stored is no element of the list
			ld, isLd := x.Val.(*ssa.UnOp)
			if !isLd || ld.Op != token.MUL {
				continue
			}
			if src, ok := ld.X.(*ssa.IndexAddr); !ok || !isCaseList(src.X) {
				continue
			}
			nRemove++
			r.ok(isChosen(ia.Index, dd.calls), "chans.Merge|closed-case-removed#"+itoa(nRemove), x.Pos(), "a hand-written swap-remove must overwrite the slot reflect.Select chose (cases[chosen] = cases[last]); this store overwrites "+path(ia.Index)+": the closed input stays in the list and a live one is dropped")
		}
	}
	if nRemove == 0 {
		r.violated("chans.Merge|closed-case-removed", fn.Pos(), "the reflect path never removes the case of a closed input from the list: the closed channel is selected again and again")
	}
}

func ruleReplicateShape(c *Ctx, r *R) {
	fn := c.fn("chans.Replicate")
	if fn == nil {
		r.undecided("chans.Replicate|missing", token.NoPos, "function not found")
		return
	}
	src, dsts := fn.Params[0], fn.Params[1]
	n := 0
	good := true
	var why []string
	for _, di := range deepInstrs(fn, 2) {
		switch x := di.in.(type) {
		case *ssa.UnOp:
			if x.Op == token.ARROW {
				if argOf(x.X, di.calls) != ssa.Value(src) {
					good = false
					why = append(why, "receives from something other than src")
				}
			}
		case *ssa.Select:
			good = false
			why = append(why, "unexpected select")
		case *ssa.Send:
			n++
			// the value sent is the item received from src (possibly handed to a helper as an argument)
			sent := argOf(x.X, di.calls)
			ex, ok := sent.(*ssa.Extract)
			if !ok {
				good = false
				why = append(why, "sends a value that is not the received item")
			} else if rcv, ok := ex.Tuple.(*ssa.UnOp); !ok || rcv.X != ssa.Value(src) {
				good = false
				why = append(why, "sends a value not received from src")
			}
			ld, ok := x.Chan.(*ssa.UnOp)
			if !ok {
				good = false
				why = append(why, "destination is not an element of dsts")
			} else if ia, ok := ld.X.(*ssa.IndexAddr); !ok || argOf(ia.X, di.calls) != ssa.Value(dsts) {
				good = false
				why = append(why, "destination is not an element of dsts")
			} else if !rangeOver(ia.Index, ia.X) {
				good = false
				why = append(why, "the destination index does not range over all of dsts")
			}
			if !reaches(x.Block(), x.Block()) {
				good = false
				why = append(why, "send is not inside a loop")
			}
			// and the whole fan-out happens once per received item: the site in Replicate is inside the receive loop
			if !reaches(di.site.Block(), di.site.Block()) {
				good = false
				why = append(why, "the fan-out is not inside the loop over src")
			}
		}
	}
	r.ok(good && n == 1, "chans.Replicate|shape", fn.Pos(), "Replicate must send each item received from src to dsts[i] for every i: "+strings.Join(why, "; "))
}

// rangeOver: idx is the index variable of `for i := range s` (go/ssa lowers it to phi(-1, i+1) with i+1 < len(s)).
func rangeOver(idx ssa.Value, s ssa.Value) bool {
	return rangeOverP(idx, func(v ssa.Value) bool {
		if isLenOf(v, s) {
			return true
		}
		if call, ok := v.(*ssa.Call); ok {
			if b, ok := call.Call.Value.(*ssa.Builtin); ok && b.Name() == "len" && call.Call.Args[0] == s {
				return true
			}
		}
		return false
	})
}

// rangeOverP: idx runs over 0..n-1 where the bound n satisfies isBound (a `for i := 0; i < n; i++` or a range loop).
func rangeOverP(idx ssa.Value, isBound func(ssa.Value) bool) bool {
	// for i := 0; i < len(s); i++
	if phi, ok := idx.(*ssa.Phi); ok {
		zero, step := false, false
		for _, e := range phi.Edges {
			if isConstInt(e, 0) {
				zero = true
			}
			if add, ok := e.(*ssa.BinOp); ok && add.Op == token.ADD && add.X == ssa.Value(phi) && isConstInt(add.Y, 1) {
				step = true
			}
		}
		if zero && step && phi.Referrers() != nil {
			for _, ref := range *phi.Referrers() {
				if cmp, ok := ref.(*ssa.BinOp); ok && cmp.Op == token.LSS && cmp.X == ssa.Value(phi) && isBound(cmp.Y) {
					return true
				}
			}
		}
		return false
	}
	bin, ok := idx.(*ssa.BinOp)
	if !ok || bin.Op != token.ADD || !isConstInt(bin.Y, 1) {
		return false
	}
	phi, ok := bin.X.(*ssa.Phi)
	if !ok {
		return false
	}
	start := false
	for _, e := range phi.Edges {
		if isConstInt(e, -1) {
			start = true
		}
	}
	if !start || bin.Referrers() == nil {
		return false
	}
	for _, ref := range *bin.Referrers() {
		if cmp, ok := ref.(*ssa.BinOp); ok && cmp.Op == token.LSS && cmp.X == ssa.Value(bin) && isBound(cmp.Y) {
			return true
		}
	}
	return false
}

func ruleMergeZeroTrip(c *Ctx, r *R) {
	fn := c.fn("stream.Merge")
	if fn == nil {
		r.undecided("stream.Merge|missing", token.NoPos, "function not found")
		return
	}
	inP := fn.Params[0]
	// sender.Close calls: in Merge itself vs in closures
	var own []*ssa.Call
	inClosures := 0
	isSenderClose := func(call *ssa.Call) bool {
		cal := staticCallee(&call.Call)
		return cal != nil && fname(cal) == "Close" && cal.Signature.Recv() != nil && isNamedType(cal.Signature.Recv().Type(), "stream", "PipeSender")
	}
	for _, g := range withAnon(fn) {
		instrs(g, func(b *ssa.BasicBlock, i int, in ssa.Instruction) {
			if call, ok := in.(*ssa.Call); ok && isSenderClose(call) {
				if g == fn {
					own = append(own, call)
				} else {
					inClosures++
				}
			}
		})
	}
	if inClosures == 0 && len(own) == 0 {
		r.violated("stream.Merge|zero-trip", fn.Pos(), "the PipeSender is never closed: the merged stream never ends")
		return
	}
	okZero := false
	for _, call := range own {
		for _, g := range guardsOf(call.Block()) {
			if cf, ok := g.asCmp(); ok {
				isLen := isLenOf(cf.x, inP)
				if isLen && ((cf.op == token.EQL && isConstInt(cf.y, 0)) || (cf.op == token.LSS && isConstInt(cf.y, 1)) || (cf.op == token.LEQ && isConstInt(cf.y, 0))) {
					if len(call.Call.Args) == 2 && isNilConst(call.Call.Args[1]) {
						okZero = true
					}
				}
			}
		}
	}
	// alternatively an early return of an empty stream under len(in)==0
	instrs(fn, func(b *ssa.BasicBlock, i int, in ssa.Instruction) {
		if ret, ok := in.(*ssa.Return); ok {
			for _, g := range guardsOf(b) {
				if cf, ok := g.asCmp(); ok && cf.op == token.EQL && isConstInt(cf.y, 0) && strings.HasPrefix(path(cf.x), "len(") {
					if call, ok := returnedValue(ret, 0).(*ssa.Call); ok {
						if cal := staticCallee(&call.Call); cal != nil && fname(cal) == "Empty" {
							okZero = true
						}
					}
				}
			}
		}
	})
	r.ok(okZero, "stream.Merge|zero-trip", fn.Pos(), "all Close calls of the PipeSender sit in workers spawned once per input; with zero inputs nothing closes it and Next blocks forever: a Close(nil) (or an empty-stream return) guarded by len(in) == 0 is required")
}

// varKey names the variable an address denotes: a local (possibly captured) variable by its cell, a struct field by type and
// field name - so that &closeOnce in two sibling closures, or &m.closeOnce in two methods, compare equal.
func varKey(addr ssa.Value) string {
	if cell := cellOf(addr); cell != nil {
		return "cell:" + cell.Comment + "@" + itoa(int(cell.Pos()))
	}
	if fa, ok := addr.(*ssa.FieldAddr); ok {
		return "field:" + typeShort(fa.X.Type()) + "." + fieldName(fa.X.Type(), fa.Field)
	}
	return ""
}

func ruleMergeCloseOnce(c *Ctx, r *R) {
	bi := bgAnalyse(c, "stream.Merge")
	if bi == nil {
		r.undecided("stream.Merge|missing", token.NoPos, "function not found")
		return
	}
	// the once flag is the variable some worker CASes 0→1
	onceKey := ""
	for _, g := range bi.all {
		instrs(g, func(_ *ssa.BasicBlock, _ int, y ssa.Instruction) {
			if cc, ok := y.(*ssa.Call); ok {
				if nm, args, _, ok := atomicOp(cc); ok && nm == "CompareAndSwapUint32" && varKey(args[0]) != "" {
					onceKey = varKey(args[0])
				}
			}
		})
	}
	n := 0
	seenClose := map[ssa.Instruction]bool{}
	for _, w := range bi.spawned {
		for _, d := range deepInstrs(w, 3) {
			call, ok := d.in.(*ssa.Call)
			if !ok || seenClose[call] {
				continue
			}
			cal := staticCallee(&call.Call)
			if cal == nil || fname(cal) != "Close" || cal.Signature.Recv() == nil || !isNamedType(cal.Signature.Recv().Type(), "stream", "PipeSender") {
				continue
			}
			seenClose[call] = true
			n++
			b := call.Block()
			key := "stream.Merge|worker-close#" + itoa(n)
			casOK, lastOut, onceZero := false, false, false
			for _, gd := range guardsOf(b) {
				if v, val := gd.boolVal(); val {
					if cc, ok := v.(*ssa.Call); ok {
						if nm, args, ne0, ok := atomicOp(cc); ok && !ne0 && nm == "CompareAndSwapUint32" && isConstInt(args[1], 0) && isConstInt(args[2], 1) {
							casOK = true
						}
					}
				}
				// !closeOnce.isSet(): the accessor answers Load != 0
				if v, val := gd.boolVal(); !val {
					if cc, ok := v.(*ssa.Call); ok {
						if nm, args, ne0, ok := atomicOp(cc); ok && ne0 && nm == "LoadUint32" && onceKey != "" && varKey(args[0]) == onceKey {
							onceZero = true
						}
					}
				}
				if cf, ok := gd.asCmp(); ok && cf.op == token.EQL {
					// last one out: atomic.AddUint32(&counter, 1) == len(in)
					if ac, ok := resolveVal(cf.x).(*ssa.Call); ok {
						if nm, args, ne0, ok := atomicOp(ac); ok && !ne0 && nm == "AddUint32" && isConstInt(args[1], 1) && lenOfInputs(cf.y, bi.fn) {
							lastOut = true
						}
						if nm, args, ne0, ok := atomicOp(ac); ok && !ne0 && nm == "LoadUint32" && isConstInt(cf.y, 0) && onceKey != "" && varKey(args[0]) == onceKey {
							onceZero = true
						}
					}
				}
			}
			errArg := call.Call.Args[1]
			switch {
			case casOK:
				// cancel() before Close(err) in this block; err is the error the input returned
				cancelBefore := false
				for _, x := range b.Instrs[:idxIn(call)] {
					if cc, ok := x.(*ssa.Call); ok && strings.Contains(strings.ToLower(path(cc.Call.Value)), "cancel") {
						cancelBefore = true
					}
				}
				fromNext := true
				ls := valueLeaves(errArg, d.calls, 0)
				// a nil alternative (a forwarding helper returns nil for End / a failed send) is excluded where the Close sits
				// under err != nil
				nonNil := false
				for _, gd := range guardsOf(b) {
					if cf, ok := gd.asCmp(); ok && cf.op == token.NEQ && isNilConst(cf.y) && resolveVal(cf.x) == resolveVal(errArg) {
						nonNil = true
					}
				}
				for _, lf := range ls {
					if nonNil && isNilConst(lf.v) {
						continue
					}
					ex, ok := lf.v.(*ssa.Extract)
					if !ok {
						fromNext = false
						continue
					}
					if nc, ok := ex.Tuple.(*ssa.Call); !ok || !nc.Call.IsInvoke() || nc.Call.Method.Name() != "Next" {
						fromNext = false
					}
				}
				r.ok(cancelBefore && fromNext && len(ls) > 0, key, call.Pos(), "after winning the CAS the worker must cancel() and then Close with the error its input returned (first error wins)")
			case lastOut && onceZero:
				r.ok(isNilConst(errArg), key, call.Pos(), "the last worker out closes the sender with nil, and only if no error close happened")
			default:
				r.violated(key, call.Pos(), "sender.Close is neither guarded by a successful CAS on closeOnce nor by the last-one-out test with closeOnce == 0: the sender could be closed twice (panic) or never")
			}
		}
	}
	if n < 2 {
		r.violated("stream.Merge|worker-closes", bi.fn.Pos(), "expected an error close and a last-one-out close in the workers")
	}
	// the last-one-out test runs in a deferred function registered unconditionally, so it runs on every exit
	for _, g := range bi.spawned {
		okDef := false
		for _, fr := range deepFrames(g, 2) {
			for _, in := range fr.f.Blocks[0].Instrs {
				d, ok := in.(*ssa.Defer)
				if !ok {
					continue
				}
				f := staticCallee(&d.Call)
				if f == nil || f.Blocks == nil {
					continue
				}
				counts := false
				for _, d2 := range deepInstrs(f, 2) {
					if cc, ok := d2.in.(*ssa.Call); ok {
						if sf := cc.Call.StaticCallee(); sf != nil && sf.Name() == "AddUint32" {
							counts = true
						}
					}
				}
				if counts {
					okDef = true
				}
			}
		}
		r.ok(okDef, "stream.Merge|done-count-deferred", g.Pos(), "the done-count/last-one-out logic must be deferred unconditionally so every exit of a worker is counted")
	}
}

// lenOfInputs: v is len(in) of Merge's variadic parameter (directly, as a captured variable, or as a field the constructor
// filled from it).
func lenOfInputs(v ssa.Value, merge *ssa.Function) bool {
	call, ok := resolveVal(v).(*ssa.Call)
	if !ok {
		if cv, ok2 := resolveVal(v).(*ssa.Convert); ok2 {
			return lenOfInputs(cv.X, merge)
		}
		// an int field of a struct built in Merge that was given len(in) (closer.nIn)
		if ld, ok2 := resolveVal(v).(*ssa.UnOp); ok2 && ld.Op == token.MUL {
			if fa, ok3 := ld.X.(*ssa.FieldAddr); ok3 && isIntType(ld.Type()) {
				fld := fieldName(fa.X.Type(), fa.Field)
				n, all := 0, true
				instrs(merge, func(_ *ssa.BasicBlock, _ int, in ssa.Instruction) {
					if st, ok := in.(*ssa.Store); ok {
						if fa2, ok := st.Addr.(*ssa.FieldAddr); ok && fieldName(fa2.X.Type(), fa2.Field) == fld && types.Identical(origType(derefType(fa2.X.Type())), origType(derefType(fa.X.Type()))) {
							n++
							if _, isLd := resolveVal(st.Val).(*ssa.UnOp); isLd || !lenOfInputs(st.Val, merge) {
								all = false
							}
						}
					}
				})
				return n > 0 && all
			}
		}
		return false
	}
	bi, ok := call.Call.Value.(*ssa.Builtin)
	if !ok || bi.Name() != "len" || len(call.Call.Args) != 1 {
		return false
	}
	inP := merge.Params[0]
	pv := valueProv(call.Call.Args[0], provEnv{})
	if pv.root == ssa.Value(inP) && len(pv.fields) == 0 {
		return true
	}
	// a field of a struct built in Merge whose value is the parameter
	if len(pv.fields) >= 1 {
		fld := pv.fields[len(pv.fields)-1]
		found := false
		instrs(merge, func(_ *ssa.BasicBlock, _ int, in ssa.Instruction) {
			if st, ok := in.(*ssa.Store); ok {
				if fa, ok := st.Addr.(*ssa.FieldAddr); ok && fieldName(fa.X.Type(), fa.Field) == fld {
					sv := valueProv(st.Val, provEnv{})
					if sv.root == ssa.Value(inP) && len(sv.fields) == 0 {
						found = true
					}
				}
			}
		})
		return found
	}
	return false
}

func ruleMergeWorkerShape(c *Ctx, r *R) {
	bi := bgAnalyse(c, "stream.Merge")
	if bi == nil || len(bi.spawned) == 0 {
		r.undecided("stream.Merge|workers", token.NoPos, "workers not found")
		return
	}
	for _, g := range bi.spawned {
		var next, send *ssa.Call
		var nextChain []*ssa.Call
		for _, d := range deepInstrs(g, 2) { // the loop may live in a helper the literal delegates to (m.forward(i))
			call, ok := d.in.(*ssa.Call)
			if !ok {
				continue
			}
			if call.Call.IsInvoke() && call.Call.Method.Name() == "Next" {
				next = call
				nextChain = d.calls
			}
			if cal := staticCallee(&call.Call); cal != nil && fname(cal) == "Send" && cal.Signature.Recv() != nil && isNamedType(cal.Signature.Recv().Type(), "stream", "PipeSender") {
				send = call
			}
		}
		if next == nil || send == nil {
			r.violated("stream.Merge|worker-forward", g.Pos(), "worker must call in[i].Next and sender.Send")
			continue
		}
		ex, ok := send.Call.Args[2].(*ssa.Extract)
		r.ok(ok && ex.Tuple == ssa.Value(next) && ex.Index == 0, "stream.Merge|worker-forward", send.Pos(), "the worker must send exactly the item its input returned")
		// Send happens only on the err == nil path of Next
		nilPath := false
		for _, gd := range guardsOf(send.Block()) {
			if cf, ok := gd.asCmp(); ok {
				if e, ok := cf.x.(*ssa.Extract); ok && e.Tuple == ssa.Value(next) && e.Index == 1 {
					if (cf.op == token.EQL && isNilConst(cf.y)) || cf.op == token.NEQ {
						nilPath = true
					}
				}
			}
		}
		r.ok(nilPath, "stream.Merge|send-on-success-only", send.Pos(), "Send must be reached only after the input's error was tested (End / error paths must not forward the zero item)")
		// the input index is the per-iteration copy: in[i] with i a captured variable
		// (the stream may be handed to a forwarding helper as an argument: forwardToPipe(ctx, in[i], sender))
		r.ok(strings.Contains(path(argOf(next.Call.Value, nextChain)), "["), "stream.Merge|own-input", next.Pos(), "each worker reads from its own element of in")
	}
}

// C12.atomic-only (repo-wide)
func ruleAtomicOnly(c *Ctx, r *R) {
	isAtomicFn := func(cc *ssa.CallCommon) bool {
		f := cc.StaticCallee()
		return f != nil && f.Pkg != nil && f.Pkg.Pkg.Path() == "sync/atomic"
	}
	cells := map[*ssa.Alloc]bool{}
	for _, fn := range c.Funcs {
		instrs(fn, func(b *ssa.BasicBlock, i int, in ssa.Instruction) {
			cc := callCommon(in)
			if cc == nil || len(cc.Args) == 0 {
				return
			}
			if isAtomicFn(cc) {
				if cell := cellOf(cc.Args[0]); cell != nil {
					cells[cell] = true
				}
				return
			}
			// &x handed to a helper (or to the literal of a goroutine) that uses its parameter atomically
			for _, a := range cc.Args {
				if cell := cellOf(a); cell != nil && paramOnlyAtomic(cc, a) {
					cells[cell] = true
				}
			}
		})
	}
	for cell := range cells {
		owner := cell.Parent()
		key := c.nameOf(owner) + "|" + cell.Comment
		bad := ""
		var firstClosure ssa.Instruction
		instrs(owner, func(b *ssa.BasicBlock, i int, in ssa.Instruction) {
			if mc, ok := in.(*ssa.MakeClosure); ok && firstClosure == nil {
				for _, bnd := range mc.Bindings {
					if bnd == ssa.Value(cell) {
						firstClosure = mc
					}
				}
			}
		})
		var check func(fn *ssa.Function)
		check = func(fn *ssa.Function) {
			instrs(fn, func(b *ssa.BasicBlock, i int, in ssa.Instruction) {
				for _, op := range in.Operands(nil) {
					if *op == nil || cellOf(*op) != cell {
						continue
					}
					switch x := in.(type) {
					case *ssa.MakeClosure:
					case *ssa.Call:
						if !isAtomicFn(&x.Call) && !paramOnlyAtomic(&x.Call, *op) {
							bad = "passed to non-atomic " + calleeName(&x.Call)
						}
					case *ssa.Go:
						// go func(last *int32, …) {...}(&x, …): the goroutine's literal uses its parameter atomically
						if !paramOnlyAtomic(&x.Call, *op) {
							bad = "passed to a goroutine that does not use it atomically: " + calleeName(&x.Call)
						}
					case *ssa.Store:
						// initialisation before the variable escapes to a goroutine
						if fn == owner && x.Addr == ssa.Value(cell) && (firstClosure == nil || (x.Block().Dominates(firstClosure.Block()) && (x.Block() != firstClosure.Block() || idxIn(x) < idxIn(firstClosure)))) {
							continue
						}
						bad = "plain store at " + c.pos(x.Pos())
					case *ssa.UnOp:
						bad = "plain load at " + c.pos(x.Pos())
					case *ssa.DebugRef:
					default:
						bad = "used by " + in.String()
					}
				}
			})
			for _, a := range fn.AnonFuncs {
				check(a)
			}
		}
		check(owner)
		r.ok(bad == "", key, cell.Pos(), "variable accessed with sync/atomic is also accessed without it: "+bad)
	}
}

// paramOnlyAtomic: the call passes `arg` (a pointer) to an in-package function whose corresponding parameter is used
// only as the address operand of sync/atomic functions.
func paramOnlyAtomic(cc *ssa.CallCommon, arg ssa.Value) bool {
	cal := staticCallee(cc)
	if cal == nil || cal.Blocks == nil {
		return false
	}
	idx := -1
	for i, a := range cc.Args {
		if a == arg {
			idx = i
		}
	}
	if idx < 0 || idx >= len(cal.Params) {
		return false
	}
	p := cal.Params[idx]
	if _, isPtr := p.Type().Underlying().(*types.Pointer); !isPtr {
		return false
	}
	if p.Referrers() == nil || len(*p.Referrers()) == 0 {
		return false
	}
	any := false
	for _, ref := range *p.Referrers() {
		switch x := ref.(type) {
		case *ssa.DebugRef:
		case *ssa.Call:
			f := x.Call.StaticCallee()
			if f == nil || f.Pkg == nil || f.Pkg.Pkg.Path() != "sync/atomic" {
				return false
			}
			any = true
		default:
			return false
		}
	}
	return any
}

func derefType(t types.Type) types.Type {
	if p, ok := t.Underlying().(*types.Pointer); ok {
		return p.Elem()
	}
	return t
}

// callsReflectSelectHelper: v is a call of an in-package helper whose body calls reflect.Select.
func callsReflectSelectHelper(v ssa.Value) bool {
	call, ok := v.(*ssa.Call)
	if !ok {
		return false
	}
	cal := staticCallee(&call.Call)
	if cal == nil || cal.Blocks == nil || call.Parent() == nil || rootFn(origin(cal)).Pkg != rootFn(call.Parent()).Pkg {
		return false
	}
	res := false
	instrs(origin(cal), func(_ *ssa.BasicBlock, _ int, in ssa.Instruction) {
		if c2, ok := in.(*ssa.Call); ok {
			if f := c2.Call.StaticCallee(); f != nil && f.Name() == "Select" && f.Pkg != nil && f.Pkg.Pkg.Path() == "reflect" {
				res = true
			}
		}
	})
	return res
}

// C12.assert-nil-safe: a value that came through reflection (reflect.Value.Interface()) or any other `any` is converted back
// to the element type parameter T only with the two-result form of the type assertion. T may be instantiated with an interface
// type and the value sent may be nil: item.Interface() is then a nil interface and a single-result assertion panics, while the
// 1/2/3-input paths forward that value (F13).
var _ = late(func() {
	p := properties["C12"]
	p.Rules = append(p.Rules, &Rule{ID: "C12.assert-nil-safe", Floor: 1, Clause: "in package chans every type assertion to a type parameter (an element type that may be an interface type, whose nil value arrives as a nil interface from reflect.Value.Interface()) uses the two-result form: the single-result form panics on a nil value that the non-reflective paths forward",
		Run: func(c *Ctx, r *R) {
			for _, fn := range c.funcsOfPkg("chans") {
				name := c.nameOf(fn)
				n := 0
				instrs(fn, func(b *ssa.BasicBlock, i int, in ssa.Instruction) {
					ta, ok := in.(*ssa.TypeAssert)
					if !ok {
						return
					}
					if _, isTP := ta.AssertedType.(*types.TypeParam); !isTP {
						return
					}
					n++
					r.ok(ta.CommaOk, name+"|assert#"+itoa(n), ta.Pos(), "single-result assertion to the element type parameter on "+path(ta.X)+": it panics when the value received is a nil interface (element type instantiated with an interface type), although that value must be forwarded like any other")
				})
			}
		}})
})
