package main

import (
	"go/token"
	"go/types"
	"sort"

	"golang.org/x/tools/go/ssa"
)

// C07.source-items-readonly: an item a combinator obtained from its source (a slice, map or pointer the source yielded) belongs to
// the source. A combinator that writes through it changes what the source - or the caller that still holds the item - sees:
// flattenSlicesStream zeroed every consumed slot of the yielded slice, so a source yielding one slice twice produced zero values
// the second time (F14). The rule forms one obligation per store through an element address / map update in packages iterator
// and stream and follows the container back (fields of the wrapper through every store to that field in the package, locals,
// phis, re-slicing) to where it came from: a store into a container that may be a pulled item is a violation; containers the
// combinator allocated itself (make, append to its own, composite literals) are its own.
var _ = late(func() {
	p := properties["C07"]
	p.Rules = append(p.Rules, &Rule{ID: "C07.source-items-readonly", Floor: 4, Clause: "no iterator/stream combinator stores through a slice, map or pointer that it pulled from its source (followed through wrapper fields, locals, phis and re-slicing): the items belong to the source, which may yield the same container again or be read by its owner",
		Run: func(c *Ctx, r *R) {
			for _, rel := range []string{"iterator", "stream"} {
				fns := c.funcsOfPkg(rel)
				sort.Slice(fns, func(i, j int) bool { return c.nameOf(fns[i]) < c.nameOf(fns[j]) })
				// every store to a struct field in the package, by (type, field)
				type fkey struct {
					t *types.TypeName
					f string
				}
				fieldStores := map[fkey][]ssa.Value{}
				for _, fn := range fns {
					instrs(fn, func(_ *ssa.BasicBlock, _ int, in ssa.Instruction) {
						st, ok := in.(*ssa.Store)
						if !ok {
							return
						}
						if fa, ok := st.Addr.(*ssa.FieldAddr); ok {
							if nt, ok := origType(derefType(fa.X.Type())).(*types.Named); ok {
								k := fkey{nt.Obj(), fieldName(fa.X.Type(), fa.Field)}
								fieldStores[k] = append(fieldStores[k], st.Val)
							}
						}
					})
				}
				var origin func(v ssa.Value, seen map[ssa.Value]bool, d int) (pulled bool, what string)
				origin = func(v ssa.Value, seen map[ssa.Value]bool, d int) (bool, string) {
					if v == nil || seen[v] || d > 12 {
						return false, ""
					}
					seen[v] = true
					switch x := v.(type) {
					case *ssa.Slice:
						return origin(x.X, seen, d+1)
					case *ssa.ChangeType:
						return origin(x.X, seen, d+1)
					case *ssa.Phi:
						for _, e := range x.Edges {
							if p, w := origin(e, seen, d+1); p {
								return true, w
							}
						}
						return false, ""
					case *ssa.Extract:
						if call, ok := x.Tuple.(*ssa.Call); ok && call.Call.IsInvoke() && (call.Call.Method.Name() == "Next" || call.Call.Method.Name() == "Peek") && x.Index == 0 {
							return true, "an item pulled by " + path(call)
						}
						return false, ""
					case *ssa.UnOp:
						if x.Op != token.MUL {
							return false, ""
						}
						if fa, ok := x.X.(*ssa.FieldAddr); ok {
							if nt, ok := origType(derefType(fa.X.Type())).(*types.Named); ok {
								for _, sv := range fieldStores[fkey{nt.Obj(), fieldName(fa.X.Type(), fa.Field)}] {
									if p, w := origin(sv, seen, d+1); p {
										return true, w + " (kept in ." + fieldName(fa.X.Type(), fa.Field) + ")"
									}
								}
							}
							return false, ""
						}
						if cell := cellOf(x.X); cell != nil {
							for _, st := range storesTo(cell) {
								if p, w := origin(st.Val, seen, d+1); p {
									return true, w
								}
							}
						}
						return false, ""
					case *ssa.Call:
						// append(own, ...) stays own; append(pulled[:0], ...) writes into the pulled array
						if bi, ok := x.Call.Value.(*ssa.Builtin); ok && bi.Name() == "append" && len(x.Call.Args) > 0 {
							return origin(x.Call.Args[0], seen, d+1)
						}
						return false, ""
					}
					return false, ""
				}
				for _, fn := range fns {
					name := c.nameOf(fn)
					n := 0
					instrs(fn, func(_ *ssa.BasicBlock, _ int, in ssa.Instruction) {
						var container ssa.Value
						var pos token.Pos
						switch x := in.(type) {
						case *ssa.Store:
							switch a := x.Addr.(type) {
							case *ssa.IndexAddr:
								container, pos = a.X, x.Pos()
							}
						case *ssa.MapUpdate:
							container, pos = x.Map, x.Pos()
						case *ssa.Call:
							// append(c[:k], ...) / copy(c, ...) write into c's array
							if bi, ok := x.Call.Value.(*ssa.Builtin); ok && bi.Name() == "copy" && len(x.Call.Args) == 2 {
								container, pos = x.Call.Args[0], x.Pos()
							}
							if bi, ok := x.Call.Value.(*ssa.Builtin); ok && bi.Name() == "append" && len(x.Call.Args) > 0 {
								if _, isSl := x.Call.Args[0].(*ssa.Slice); isSl {
									container, pos = x.Call.Args[0], x.Pos()
								}
							}
						}
						if container == nil {
							return
						}
						if al, ok := container.(*ssa.Alloc); ok {
							if _, isArr := derefType(al.Type()).Underlying().(*types.Array); isArr {
								return // the argument array of a variadic call
							}
						}
						n++
						pulled, what := origin(container, map[ssa.Value]bool{}, 0)
						r.ok(!pulled, name+"|write#"+itoa(n), pos, "writes into "+path(container)+", which may be "+what+": the item belongs to the source (it may yield the same container again, or its owner may read it later)")
					})
				}
			}
		}})
})

// C07.yielded-items-handed-over: a slice a Next hands out is the caller's from then on. When it is (a re-slicing of / an append
// to) a buffer kept in a field of the wrapper, that field must be given a fresh buffer (or nil) before the return, on every path:
// otherwise the next call builds its chunk in the same backing array and overwrites the chunk the caller still holds (an
// "avoid one allocation per chunk" optimisation: chunks of [0 1 2 3] by 2 collected into a slice read [[2 3] [2 3]]).
var _ = late(func() {
	p := properties["C07"]
	p.Rules = append(p.Rules, &Rule{ID: "C07.yielded-items-handed-over", Floor: 1, Clause: "every slice returned by a Next/Peek of an iterator or stream wrapper is either built in that call / pulled from the source, or comes from a buffer field of the wrapper that is replaced by a fresh buffer (or nil) between the read and the return on every path: a later call never writes into a slice already handed out",
		Run: func(c *Ctx, r *R) {
			for _, rel := range []string{"iterator", "stream"} {
				fns := c.funcsOfPkg(rel)
				sort.Slice(fns, func(i, j int) bool { return c.nameOf(fns[i]) < c.nameOf(fns[j]) })
				var work []*ssa.Function
				for _, fn := range fns {
					if fn.Parent() != nil || fn.Signature.Recv() == nil || (fn.Name() != "Next" && fn.Name() != "Peek") || fn.Signature.Results().Len() == 0 {
						continue
					}
					if _, isSlice := fn.Signature.Results().At(0).Type().Underlying().(*types.Slice); !isSlice {
						continue
					}
					work = append(work, fn)
				}
				queued := map[*ssa.Function]bool{}
				for _, fn := range work {
					queued[fn] = true
				}
				for wi := 0; wi < len(work); wi++ {
					fn := work[wi]
					name := c.nameOf(fn)
					// the field loads a value is built from
					var roots func(v ssa.Value, seen map[ssa.Value]bool, out *[]*ssa.UnOp)
					roots = func(v ssa.Value, seen map[ssa.Value]bool, out *[]*ssa.UnOp) {
						if v == nil || seen[v] {
							return
						}
						seen[v] = true
						switch x := v.(type) {
						case *ssa.Slice:
							roots(x.X, seen, out)
						case *ssa.ChangeType:
							roots(x.X, seen, out)
						case *ssa.Phi:
							for _, e := range x.Edges {
								roots(e, seen, out)
							}
						case *ssa.Call:
							if bi, ok := x.Call.Value.(*ssa.Builtin); ok && bi.Name() == "append" && len(x.Call.Args) > 0 {
								roots(x.Call.Args[0], seen, out)
							}
							// a helper of the wrapper that hands the chunk out (s.takeChunk()): decided at the helper's own returns
							if cal := staticCallee(&x.Call); cal != nil && cal.Blocks != nil && cal.Parent() == nil && rootFn(origin(cal)).Pkg == rootFn(fn).Pkg && cal.Signature.Results().Len() >= 1 {
								if _, isSlice := cal.Signature.Results().At(0).Type().Underlying().(*types.Slice); isSlice && !queued[origin(cal)] {
									queued[origin(cal)] = true
									work = append(work, origin(cal))
								}
							}
						case *ssa.Extract:
							roots(x.Tuple, seen, out)
						case *ssa.UnOp:
							if x.Op != token.MUL {
								return
							}
							if _, ok := x.X.(*ssa.FieldAddr); ok {
								*out = append(*out, x)
								return
							}
							if cell := cellOf(x.X); cell != nil {
								for _, st := range storesTo(cell) {
									roots(st.Val, seen, out)
								}
							}
						}
					}
					k := 0
					instrs(fn, func(rb *ssa.BasicBlock, ri int, in ssa.Instruction) {
						ret, ok := in.(*ssa.Return)
						if !ok || len(ret.Results) == 0 {
							return
						}
						var lds []*ssa.UnOp
						roots(returnedValue(ret, 0), map[ssa.Value]bool{}, &lds)
						for _, ld := range lds {
							fa := ld.X.(*ssa.FieldAddr)
							fld := path(fa)
							k++
							replaced := false
							instrs(fn, func(sb *ssa.BasicBlock, si int, sin ssa.Instruction) {
								st, ok := sin.(*ssa.Store)
								if !ok {
									return
								}
								sfa, ok := st.Addr.(*ssa.FieldAddr)
								if !ok || path(sfa) != fld {
									return
								}
								afterLoad := (sb == ld.Block() && si > idxIn(ld)) || (sb != ld.Block() && ld.Block().Dominates(sb))
								beforeRet := (sb == rb && si < ri) || (sb != rb && sb.Dominates(rb))
								if !afterLoad || !beforeRet {
									return
								}
								var back []*ssa.UnOp
								roots(st.Val, map[ssa.Value]bool{}, &back)
								fresh := true
								for _, b2 := range back {
									if path(b2.X) == fld {
										fresh = false
									}
								}
								if fresh {
									replaced = true
								}
							})
							r.ok(replaced, name+"|yield#"+itoa(k)+"|"+fieldName(fa.X.Type(), fa.Field), retPos(ret), "the slice returned is (built in) the wrapper's buffer "+fld+", and that field is not given a fresh buffer before this return: the next call reuses the backing array and overwrites the chunk the caller still holds")
						}
					})
				}
			}
		}})
})

// C07.counter-bound: Counter(n) is `for i := 0; i < n; i++`: its Next ends the sequence under an ORDER test of the running index
// against the bound (i >= n). An equality test (i == n) agrees for every n >= 0 and never becomes true for n < 0: the documented
// empty sequence turns into an endless one.
var _ = late(func() {
	p := properties["C07"]
	p.Rules = append(p.Rules, &Rule{ID: "C07.counter-bound", Floor: 1, Clause: "the Next of the iterator built by iterator.Counter compares its running index with the bound by order (>= / <), never by equality: for a negative bound an equality test never ends the sequence",
		Run: func(c *Ctx, r *R) {
			ctor := c.fn("iterator.Counter")
			if ctor == nil {
				r.undecided("iterator.Counter|missing", token.NoPos, "anchor not found")
				return
			}
			// the Next of the type Counter returns
			var next *ssa.Function
			instrs(ctor, func(_ *ssa.BasicBlock, _ int, in ssa.Instruction) {
				ret, ok := in.(*ssa.Return)
				if !ok || len(ret.Results) != 1 {
					return
				}
				v := returnedValue(ret, 0)
				if mi, ok := v.(*ssa.MakeInterface); ok {
					v = mi.X
				}
				nt, ok := origType(derefType(v.Type())).(*types.Named)
				if !ok {
					return
				}
				for _, f := range c.Funcs {
					if f.Parent() == nil && f.Name() == "Next" && f.Signature.Recv() != nil {
						if rt, ok := origType(derefType(f.Signature.Recv().Type())).(*types.Named); ok && rt.Obj() == nt.Obj() {
							next = f
						}
					}
				}
			})
			if next == nil {
				r.undecided("iterator.Counter|next", ctor.Pos(), "the iterator type Counter returns (and its Next) was not found")
				return
			}
			// the running index: the int field Next increments
			idxField := ""
			instrs(next, func(_ *ssa.BasicBlock, _ int, in ssa.Instruction) {
				for _, f := range structFieldNames(next.Signature.Recv().Type()) {
					if isFieldIncDec(in, f, +1) {
						idxField = f
					}
				}
			})
			if idxField == "" {
				r.undecided("iterator.Counter|index", next.Pos(), "no field of the counter is incremented by Next")
				return
			}
			n := 0
			instrs(next, func(b *ssa.BasicBlock, _ int, in ssa.Instruction) {
				iff, ok := in.(*ssa.If)
				if !ok {
					return
				}
				cf, ok := (guard{cond: iff.Cond, val: true, blk: b}).asCmp()
				if !ok {
					return
				}
				isIdx := func(v ssa.Value) bool {
					ld, ok := resolveVal(v).(*ssa.UnOp)
					if !ok || ld.Op != token.MUL {
						return false
					}
					fa, ok := ld.X.(*ssa.FieldAddr)
					return ok && fieldName(fa.X.Type(), fa.Field) == idxField
				}
				if !isIdx(cf.x) && !isIdx(cf.y) {
					return
				}
				n++
				r.ok(cf.op != token.EQL && cf.op != token.NEQ, c.nameOf(next)+"|end-test#"+itoa(n), iff.Cond.Pos(), "the running index is compared with the bound by equality ("+path(cf.x)+" "+cf.op.String()+" "+path(cf.y)+"): Counter(n) with n < 0 never reaches it and yields 0, 1, 2, ... without end instead of nothing")
			})
			if n == 0 {
				r.undecided(c.nameOf(next)+"|end-test", next.Pos(), "no test of the running index found")
			}
		}})
})

func structFieldNames(t types.Type) []string {
	st, ok := derefType(t).Underlying().(*types.Struct)
	if !ok {
		return nil
	}
	var out []string
	for i := 0; i < st.NumFields(); i++ {
		out = append(out, st.Field(i).Name())
	}
	return out
}

// C07.constructor-siblings: every place that builds a wrapper of one type agrees on the fields it sets to a non-zero constant.
// compactStream needs `first: true` (the first item has no predecessor to be compared with): a second constructor that builds
// the struct itself and leaves the flag out compares the first item with the zero value - a leading 0 / "" is elided.
var _ = late(func() {
	p := properties["C07"]
	p.Rules = append(p.Rules, &Rule{ID: "C07.constructor-siblings", Floor: 0, Clause: "all composite literals of one unexported wrapper type in iterator / stream set the same fields to non-zero constants (a flag such as first: true that one constructor sets and a sibling constructor omits changes what the first Next does)",
		Run: func(c *Ctx, r *R) {
			for _, rel := range []string{"iterator", "stream"} {
				type lit struct {
					fn     *ssa.Function
					al     *ssa.Alloc
					consts map[string]string // field -> non-zero constant stored
					set    map[string]bool
				}
				byType := map[*types.TypeName][]*lit{}
				fns := c.funcsOfPkg(rel)
				sort.Slice(fns, func(i, j int) bool { return c.nameOf(fns[i]) < c.nameOf(fns[j]) })
				for _, fn := range fns {
					instrs(fn, func(_ *ssa.BasicBlock, _ int, in ssa.Instruction) {
						al, ok := in.(*ssa.Alloc)
						if !ok || al.Comment != "complit" {
							return
						}
						nt, ok := origType(derefType(al.Type())).(*types.Named)
						if !ok || token.IsExported(nt.Obj().Name()) {
							return
						}
						if _, isStruct := nt.Underlying().(*types.Struct); !isStruct {
							return
						}
						l := &lit{fn: fn, al: al, consts: map[string]string{}, set: map[string]bool{}}
						for _, ref := range refsOf(al) {
							fa, ok := ref.(*ssa.FieldAddr)
							if !ok {
								continue
							}
							for _, r2 := range refsOf(fa) {
								st, ok := r2.(*ssa.Store)
								if !ok || st.Addr != ssa.Value(fa) {
									continue
								}
								f := fieldName(fa.X.Type(), fa.Field)
								l.set[f] = true
								if k, ok := st.Val.(*ssa.Const); ok && k.Value != nil && !isZeroValue(k) {
									l.consts[f] = k.Value.String()
								}
							}
						}
						byType[nt.Obj()] = append(byType[nt.Obj()], l)
					})
				}
				var names []*types.TypeName
				for tn := range byType {
					names = append(names, tn)
				}
				sort.Slice(names, func(i, j int) bool { return names[i].Name() < names[j].Name() })
				for _, tn := range names {
					ls := byType[tn]
					if len(ls) < 2 {
						continue
					}
					for _, a := range ls {
						for f, kv := range a.consts {
							for _, b := range ls {
								if b == a {
									continue
								}
								r.ok(b.consts[f] == kv, rel+"."+tn.Name()+"."+f+"|"+c.nameOf(b.fn), b.al.Pos(), c.nameOf(a.fn)+" builds a "+tn.Name()+" with "+f+": "+kv+", "+c.nameOf(b.fn)+" builds one without it: the two constructors hand out wrappers that start in different states")
							}
						}
					}
				}
			}
		}})
})
