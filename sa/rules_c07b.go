package main

import (
	"go/token"
	"go/types"
	"sort"

	"golang.org/x/tools/go/ssa"
)

// C07.source-items-readonly: an item a combinator obtained from its source (a slice, map or pointer the source yielded) belongs to
// the source. A combinator that writes through it changes what the source - or the caller that still holds the item - sees:
// flattenSlicesStream zeroed every consumed slot of the yielded slice, so a source yielding one slice twice produced zero values
// the second time (F14). The rule forms one obligation per store through an element address / map update in packages iterator
// and stream and follows the container back (fields of the wrapper through every store to that field in the package, locals,
// phis, re-slicing) to where it came from: a store into a container that may be a pulled item is a violation; containers the
// combinator allocated itself (make, append to its own, composite literals) are its own.
var _ = late(func() {
	p := properties["C07"]
	p.Rules = append(p.Rules, &Rule{ID: "C07.source-items-readonly", Floor: 4, Clause: "no iterator/stream combinator stores through a slice, map or pointer that it pulled from its source (followed through wrapper fields, locals, phis and re-slicing): the items belong to the source, which may yield the same container again or be read by its owner",
		Run: func(c *Ctx, r *R) {
			for _, rel := range []string{"iterator", "stream"} {
				fns := c.funcsOfPkg(rel)
				sort.Slice(fns, func(i, j int) bool { return c.nameOf(fns[i]) < c.nameOf(fns[j]) })
				// every store to a struct field in the package, by (type, field)
				type fkey struct {
					t *types.TypeName
					f string
				}
				fieldStores := map[fkey][]ssa.Value{}
				for _, fn := range fns {
					instrs(fn, func(_ *ssa.BasicBlock, _ int, in ssa.Instruction) {
						st, ok := in.(*ssa.Store)
						if !ok {
							return
						}
						if fa, ok := st.Addr.(*ssa.FieldAddr); ok {
							if nt, ok := origType(derefType(fa.X.Type())).(*types.Named); ok {
								k := fkey{nt.Obj(), fieldName(fa.X.Type(), fa.Field)}
								fieldStores[k] = append(fieldStores[k], st.Val)
							}
						}
					})
				}
				var origin func(v ssa.Value, seen map[ssa.Value]bool, d int) (pulled bool, what string)
				origin = func(v ssa.Value, seen map[ssa.Value]bool, d int) (bool, string) {
					if v == nil || seen[v] || d > 12 {
						return false, ""
					}
					seen[v] = true
					switch x := v.(type) {
					case *ssa.Slice:
						return origin(x.X, seen, d+1)
					case *ssa.ChangeType:
						return origin(x.X, seen, d+1)
					case *ssa.Phi:
						for _, e := range x.Edges {
							if p, w := origin(e, seen, d+1); p {
								return true, w
							}
						}
						return false, ""
					case *ssa.Extract:
						if call, ok := x.Tuple.(*ssa.Call); ok && call.Call.IsInvoke() && (call.Call.Method.Name() == "Next" || call.Call.Method.Name() == "Peek") && x.Index == 0 {
							return true, "an item pulled by " + path(call)
						}
						return false, ""
					case *ssa.UnOp:
						if x.Op != token.MUL {
							return false, ""
						}
						if fa, ok := x.X.(*ssa.FieldAddr); ok {
							if nt, ok := origType(derefType(fa.X.Type())).(*types.Named); ok {
								for _, sv := range fieldStores[fkey{nt.Obj(), fieldName(fa.X.Type(), fa.Field)}] {
									if p, w := origin(sv, seen, d+1); p {
										return true, w + " (kept in ." + fieldName(fa.X.Type(), fa.Field) + ")"
									}
								}
							}
							return false, ""
						}
						if cell := cellOf(x.X); cell != nil {
							for _, st := range storesTo(cell) {
								if p, w := origin(st.Val, seen, d+1); p {
									return true, w
								}
							}
						}
						return false, ""
					case *ssa.Call:
						// append(own, ...) stays own; append(pulled[:0], ...) writes into the pulled array
						if bi, ok := x.Call.Value.(*ssa.Builtin); ok && bi.Name() == "append" && len(x.Call.Args) > 0 {
							return origin(x.Call.Args[0], seen, d+1)
						}
						return false, ""
					}
					return false, ""
				}
				for _, fn := range fns {
					name := c.nameOf(fn)
					n := 0
					instrs(fn, func(_ *ssa.BasicBlock, _ int, in ssa.Instruction) {
						var container ssa.Value
						var pos token.Pos
						switch x := in.(type) {
						case *ssa.Store:
							switch a := x.Addr.(type) {
							case *ssa.IndexAddr:
								container, pos = a.X, x.Pos()
							}
						case *ssa.MapUpdate:
							container, pos = x.Map, x.Pos()
						case *ssa.Call:
							// append(c[:k], ...) / copy(c, ...) write into c's array
							if bi, ok := x.Call.Value.(*ssa.Builtin); ok && bi.Name() == "copy" && len(x.Call.Args) == 2 {
								container, pos = x.Call.Args[0], x.Pos()
							}
							if bi, ok := x.Call.Value.(*ssa.Builtin); ok && bi.Name() == "append" && len(x.Call.Args) > 0 {
								if _, isSl := x.Call.Args[0].(*ssa.Slice); isSl {
									container, pos = x.Call.Args[0], x.Pos()
								}
							}
						}
						if container == nil {
							return
						}
						if al, ok := container.(*ssa.Alloc); ok {
							if _, isArr := derefType(al.Type()).Underlying().(*types.Array); isArr {
								return // the argument array of a variadic call
							}
						}
						n++
						pulled, what := origin(container, map[ssa.Value]bool{}, 0)
						r.ok(!pulled, name+"|write#"+itoa(n), pos, "writes into "+path(container)+", which may be "+what+": the item belongs to the source (it may yield the same container again, or its owner may read it later)")
					})
				}
			}
		}})
})
