package main

import (
	"go/token"
	"go/types"
	"sort"
	"strings"

	"golang.org/x/tools/go/ssa"
)

func init() {
	register(&Property{
		ID:    "C11",
		Title: "stream.Batch partitions its source under every timing and Close always returns",
		Rules: []*Rule{
			{ID: "C11.bg-cancellable", Floor: 4, Clause: "every blocking channel operation in BatchFunc's goroutines (and the local closures they call) has the Done() arm of the context Close cancels, or an arm on a channel a peer closes in a defer, or is the timer drain idiom",
				Run: func(c *Ctx, r *R) { ruleBgCancellable(c, r, "stream.BatchFunc") }},
			{ID: "C11.bg-ctx", Floor: 2, Clause: "batchStream.Close cancels the goroutines' context before waiting; every context passed to a call inside the goroutines is that context",
				Run: func(c *Ctx, r *R) { ruleBgCtx(c, r, "stream.BatchFunc") }},
			{ID: "C11.wg-count", Floor: 1, Clause: "wg.Add's constant equals the number of go closures, each of which defers wg.Done() first",
				Run: func(c *Ctx, r *R) { ruleWgCount(c, r, "stream.BatchFunc") }},
			{ID: "C11.delivery", Floor: 7, Clause: "producer defers close(c); batcher's deferred closure closes batchC on every exit; out.err is written only by the producer, only with the source's own error, and dropped only under the self-cancellation test; read only after batchC was seen closed; both !ok blocks of Next return err if non-nil else End; the consumer announces on waiting before its second-level wait",
				Run: ruleBatchDelivery},
			{ID: "C11.batch-timer", Floor: 4, Clause: "inductive 2-bit invariant over the batcher loop (E = batch possibly empty, T = timer possibly armed): no send on batchC is reachable with E; Batch's predicate is len(batch) >= batchSize evaluated after every append",
				Run: ruleBatchTimer},
			{ID: "C11.elapsed-direction", Floor: 3, Clause: "the immediate flush in the waiting arm is on the edge where time.Since(batchStart) exceeds maxWait, the other edge arms the timer; timer durations are maxWait - time.Since(batchStart)",
				Run: ruleBatchElapsed},
		},
		NotCovered: []string{"wall-clock clauses about maxWait (elapsed time is a runtime quantity)", "which consumer a batch is handed to under a given timing", "concatenation equals the source beyond: one producer, one channel, appended in receive order"},
		Trusted:    []string{"timer channels are buffered (module go 1.18 ⇒ asynctimerchan=1)", "Go channel semantics"},
	})
}

// batcher returns the go-closure of BatchFunc that runs the select loop, and the producer.
func batchClosures(c *Ctx) (batcher, producer *ssa.Function, bi *bgInfo) {
	bi = bgAnalyse(c, "stream.BatchFunc")
	if bi == nil {
		return nil, nil, nil
	}
	for _, g := range bi.spawned {
		big := false
		// (the select may sit in a local closure the goroutine calls round after round: step := func() bool {...}; for step() {})
		for _, h := range withAnon(g) {
			for _, op := range chanOpsOf(h) {
				if op.kind == "select" && op.blocking && len(op.arms) >= 3 {
					big = true
				}
			}
		}
		if big {
			batcher = g
		} else {
			producer = g
		}
	}
	return
}

func loadCell(v ssa.Value) *ssa.Alloc {
	if ld, ok := v.(*ssa.UnOp); ok && ld.Op == token.MUL {
		return cellOf(ld.X)
	}
	return nil
}

func ruleBatchTimer(c *Ctx, r *R) {
	batcher, _, bi := batchClosures(c)
	if batcher == nil {
		r.undecided("stream.BatchFunc|batcher", token.NoPos, "batcher goroutine not found")
		return
	}
	// identify the cells: batch (value sent on batchC), timerC (timer-kind receive arm), timer
	var batchCell, timerCCell, timerCell lvar
	for _, g := range bi.all {
		for _, op := range chanOpsOf(g) {
			sel, ok := op.in.(*ssa.Select)
			if !ok {
				continue
			}
			for i, a := range op.arms {
				if a.send && fieldOfChan(a.ch) == "batchC" {
					batchCell = loadVar(throughLiteralParam(sel.States[i].Send))
				}
				if !a.send && a.kind == "timer" {
					timerCCell = loadVar(a.ch)
				}
			}
		}
	}
	// the hand-over written with a module helper: chans.SendContext(bgCtx, out.batchC, batch)
	batchSendCall := func(in ssa.Instruction) (*ssa.Call, ssa.Value) {
		call, ok := in.(*ssa.Call)
		if !ok {
			return nil, nil
		}
		cal := staticCallee(&call.Call)
		if cal == nil || !ctxBlockingHelper(c, origin(cal)) || len(call.Call.Args) < 3 {
			return nil, nil
		}
		for ai, a := range call.Call.Args {
			if fieldOfChan(a) == "batchC" && ai+1 < len(call.Call.Args) {
				return call, call.Call.Args[ai+1]
			}
		}
		return nil, nil
	}
	if !batchCell.ok() {
		for _, g := range bi.all {
			instrs(g, func(_ *ssa.BasicBlock, _ int, in ssa.Instruction) {
				if _, v := batchSendCall(in); v != nil {
					batchCell = loadVar(v)
				}
			})
		}
	}
	if !batchCell.ok() || !timerCCell.ok() {
		r.undecided("stream.BatchFunc|cells", batcher.Pos(), "could not identify the batch / timerC variables")
		return
	}
	for _, st := range storesToVar(timerCCell) {
		if ld, ok := st.Val.(*ssa.UnOp); ok {
			if fa, ok := ld.X.(*ssa.FieldAddr); ok && fieldName(fa.X.Type(), fa.Field) == "C" {
				timerCell = loadVar(fa.X)
			}
		}
	}
	// the assume "T ⇒ timer != nil" needs: timer is only ever assigned time.NewTimer results
	if timerCell.ok() {
		okT := true
		for _, st := range storesToVar(timerCell) {
			call, ok := st.Val.(*ssa.Call)
			if !ok || call.Call.StaticCallee() == nil || call.Call.StaticCallee().Name() != "NewTimer" {
				okT = false
			}
		}
		r.ok(okT, "stream.BatchFunc|timer-never-reset-to-nil", batcher.Pos(), "timer must only be assigned time.NewTimer results (the rule assumes: timer armed ⇒ timer != nil)")
	}
	const ERR = 4
	root := rootFn(batcher)
	isLenBatch := func(v ssa.Value) bool {
		call, ok := v.(*ssa.Call)
		if !ok {
			return false
		}
		b, ok := call.Call.Value.(*ssa.Builtin)
		return ok && b.Name() == "len" && loadVar(call.Call.Args[0]) == batchCell
	}
	helperOfCell := map[*ssa.Function]bool{}
	for _, h := range cellHelpers(timerCCell.cell) {
		helperOfCell[h] = true // methods of a local timer-struct variable
	}
	pf := &PF{N: 32, InScope: func(f *ssa.Function) bool { return (rootFn(f) == root && f != root) || helperOfCell[f] }}
	pf.Instr = func(fn *ssa.Function, in ssa.Instruction, q int) (StateSet, bool) {
		if q == ERR {
			return ss(ERR), true
		}
		switch x := in.(type) {
		case *ssa.Store:
			cell := lvarOf(x.Addr)
			if cell == batchCell {
				if call, ok := x.Val.(*ssa.Call); ok {
					if b, ok := call.Call.Value.(*ssa.Builtin); ok && b.Name() == "append" {
						return ss(q &^ 1 &^ 16), true // definitely non-empty (append of >= 1 element), not yet offered
					}
				}
				return ss(q | 1), true
			}
			if cell == timerCCell {
				if isNilConst(x.Val) {
					return ss(q &^ 2), true
				}
				return ss(q | 2), true
			}
		case *ssa.Select:
			for _, st := range x.States {
				if st.Dir == types.SendOnly && fieldOfChan(st.Chan) == "batchC" {
					if q&1 != 0 {
						return ss(ERR), true
					}
					return ss(q | 16), true // bit 16 = the pending batch has been offered to the consumer (flush attempted)
				}
			}
		case *ssa.Call:
			if sc, _ := batchSendCall(x); sc != nil && q&1 != 0 {
				return ss(ERR), true
			} else if sc != nil {
				return ss(q | 16), true
			}
			// bit 8 = the timer has been armed (NewTimer / Reset) and not stopped since
			if cal := x.Call.StaticCallee(); cal != nil && cal.Pkg != nil && cal.Pkg.Pkg.Path() == "time" {
				switch {
				case fname(cal) == "NewTimer":
					return ss(q | 8), true
				case fname(cal) == "Reset" && cal.Signature.Recv() != nil && isNamedType(cal.Signature.Recv().Type(), "time", "Timer"):
					return ss(q | 8), true
				case fname(cal) == "Stop" && cal.Signature.Recv() != nil && isNamedType(cal.Signature.Recv().Type(), "time", "Timer"):
					return ss(q &^ 8), true
				}
			}
		}
		return 0, false
	}
	pf.Edge = func(fn *ssa.Function, g guard, q int) (StateSet, bool) {
		b := g.blk
		_ = b
		if q == ERR {
			return ss(ERR), true
		}
		cf, ok := g.asCmp()
		if !ok {
			return 0, false
		}
		// select dispatch: entering the <-timerC arm assumes the timer channel is non-nil
		if ex, ok := cf.x.(*ssa.Extract); ok && ex.Index == 0 && cf.op == token.EQL {
			if sel, ok := ex.Tuple.(*ssa.Select); ok {
				if k, ok := cf.y.(*ssa.Const); ok && int(k.Int64()) < len(sel.States) {
					st := sel.States[k.Int64()]
					if st.Dir == types.RecvOnly && loadVar(st.Chan) == timerCCell {
						if q&2 == 0 {
							return 0, true // a nil channel is never ready
						}
						return ss(q &^ 8), true // the timer has fired: it is not armed any more
					}
				}
			}
			return 0, false
		}
		if isLenBatch(cf.x) {
			if k, ok := cf.y.(*ssa.Const); ok {
				n := k.Int64()
				nonEmpty := (cf.op == token.GTR && n >= 0) || (cf.op == token.GEQ && n >= 1) || (cf.op == token.EQL && n >= 1) || (cf.op == token.NEQ && n == 0)
				empty := (cf.op == token.EQL && n == 0) || (cf.op == token.LEQ && n <= 0) || (cf.op == token.LSS && n <= 1)
				if nonEmpty {
					return ss(q &^ 1), true
				}
				if empty {
					if q&1 == 0 {
						return 0, true // definitely non-empty cannot take the "empty" edge
					}
					return ss(q), true
				}
			}
			return 0, false
		}
		// timer == nil true edge is infeasible while the timer may be armed
		if timerCell.ok() && loadVar(cf.x) == timerCell && isNilConst(cf.y) && cf.op == token.EQL {
			if q&2 != 0 {
				return 0, true
			}
		}
		return 0, false
	}
	// report: first call/instruction in the batcher after which ERR becomes reachable
	var firstBad ssa.Instruction
	nFlushSites := 0
	armedUnwatched := false
	var unwatchedAt token.Pos
	nWaits := 0
	pf.Visit = func(fn *ssa.Function, in ssa.Instruction, before StateSet) {
		if sel, ok := in.(*ssa.Select); ok && sel.Blocking {
			for _, st := range sel.States {
				if st.Dir == types.RecvOnly && loadVar(st.Chan) == timerCCell {
					nWaits++
					before.each(func(q int) {
						if q != ERR && q&8 != 0 && q&2 == 0 {
							armedUnwatched = true
							unwatchedAt = sel.Pos()
						}
					})
				}
			}
		}
		if call, ok := in.(*ssa.Call); ok {
			if cal := staticCallee(&call.Call); cal != nil && pf.InScope(cal) {
				sendsBatch := false
				for _, op := range chanOpsOf(cal) {
					for _, a := range op.arms {
						if a.send && fieldOfChan(a.ch) == "batchC" {
							sendsBatch = true
						}
					}
				}
				if sendsBatch {
					nFlushSites++
					bad := false
					before.each(func(q int) {
						if q != ERR && q&1 != 0 {
							bad = true
						}
					})
					r.ok(!bad, "stream.BatchFunc|flush-site#"+itoa(nFlushSites), call.Pos(), "the batch may be empty when it is sent to the consumer here (abstract state set "+describeET(before)+"): an empty batch would be delivered")
					if bad && firstBad == nil {
						firstBad = in
					}
				}
			}
		}
	}
	exits := pf.Exits(batcher, ss(1))
	errReach := false
	dropped := false
	var droppedAt *ssa.Return
	for _, e := range exits {
		if e.States.has(ERR) {
			errReach = true
		}
		// the batcher leaves with items in hand that were never offered to the consumer
		e.States.each(func(q int) {
			if q != ERR && q&1 == 0 && q&16 == 0 {
				dropped = true
				droppedAt = e.Ret
			}
		})
	}
	{
		pos := batcher.Pos()
		if droppedAt != nil {
			pos = retPos(droppedAt)
		}
		r.ok(!dropped, "stream.BatchFunc|no-items-dropped-at-exit", pos, "the batcher can return while it definitely holds items that it has not offered to the consumer since they arrived (e.g. the trailing partial batch when the source failed): items the source yielded before its end or error are lost")
	}
	if nWaits > 0 {
		r.ok(!armedUnwatched, "stream.BatchFunc|armed-timer-watched", unwatchedAt, "the batcher can wait in its select with the timer armed (NewTimer / Reset) while the timer-channel variable of the select is nil: the expiry is never seen, an underfilled batch is held back from a waiting consumer until the batch fills or the source ends")
	}
	r.ok(!errReach && len(pf.Undecided) == 0, "stream.BatchFunc|no-empty-send", batcher.Pos(), "a send of an empty batch on batchC is reachable in the abstract execution of the batcher loop "+strings.Join(pf.Undecided, ";"))
	// Batch's predicate
	pred := c.fn("stream.Batch$1")
	var predMC *ssa.MakeClosure
	bf := c.fn("stream.Batch")
	if bf != nil {
		// the predicate handed to BatchFunc, whether a literal or the result of a helper that builds it
		instrs(bf, func(_ *ssa.BasicBlock, _ int, in ssa.Instruction) {
			call, ok := in.(*ssa.Call)
			if !ok {
				return
			}
			if cal := staticCallee(&call.Call); cal == nil || fname(cal) != "BatchFunc" {
				return
			}
			for _, a := range call.Call.Args {
				if _, isSig := a.Type().Underlying().(*types.Signature); !isSig {
					continue
				}
				for _, v := range throughHelper(a) {
					if f := resolveFuncValue(v, 0); f != nil {
						pred = f
						if mc, isMC := v.(*ssa.MakeClosure); isMC {
							predMC = mc
						}
					}
				}
			}
		})
	}
	if pred != nil {
		okPred := false
		// the size the predicate compares with is Batch's own size parameter: captured by the literal, or - a method value
		// batchSizeLimit[T](batchSize).reachedBy - the receiver the method value was made from
		body := pred
		var recvVal ssa.Value // what the receiver of body stands for, in Batch's terms
		if pred.Synthetic != "" && predMC != nil && len(pred.Blocks) == 1 && len(predMC.Bindings) == 1 {
			for _, in := range pred.Blocks[0].Instrs {
				if call, isCall := in.(*ssa.Call); isCall {
					if cal := staticCallee(&call.Call); cal != nil && cal.Blocks != nil && len(call.Call.Args) > 0 {
						if fv, isFV := call.Call.Args[0].(*ssa.FreeVar); isFV && fv == pred.FreeVars[0] {
							body, recvVal = cal, predMC.Bindings[0]
						}
					}
				}
			}
		}
		isBatchSize := func(v ssa.Value) bool {
			for d := 0; d < 6; d++ {
				switch x := v.(type) {
				case *ssa.Convert:
					v = x.X
					continue
				case *ssa.ChangeType:
					v = x.X
					continue
				case *ssa.FreeVar:
					if predMC != nil && x.Parent() == predMC.Fn {
						for i, fv := range x.Parent().FreeVars {
							if fv == x && i < len(predMC.Bindings) {
								v = predMC.Bindings[i]
							}
						}
						if v != ssa.Value(x) {
							continue
						}
					}
					// the literal found by name (no call site in hand): the captured variable is Batch's parameter
					if bf != nil && x.Parent().Parent() == bf {
						for _, bp := range bf.Params {
							if bp.Name() == x.Name() && isIntType(bp.Type()) {
								return true
							}
						}
					}
					return false
				case *ssa.Parameter:
					if recvVal != nil && x.Parent() == body && len(body.Params) > 0 && x == body.Params[0] {
						v = recvVal
						continue
					}
					return bf != nil && x.Parent() == bf && isIntType(x.Type())
				case *ssa.UnOp:
					// a captured variable is a cell when the compiler cannot see it is never assigned; a parameter's cell holds it
					if al, isAl := x.X.(*ssa.Alloc); isAl && x.Op == token.MUL {
						for _, bp := range al.Parent().Params {
							if cellHolds(al, bp) {
								v = bp
							}
						}
						if v != ssa.Value(x) {
							continue
						}
					}
					if fv, isFV := x.X.(*ssa.FreeVar); isFV && x.Op == token.MUL {
						v = fv
						continue
					}
					return false
				}
				return false
			}
			return false
		}
		instrs(body, func(b *ssa.BasicBlock, i int, in ssa.Instruction) {
			if ret, ok := in.(*ssa.Return); ok && len(ret.Results) == 1 {
				if bin, ok := returnedValue(ret, 0).(*ssa.BinOp); ok && bin.Op == token.GEQ {
					if call, ok := bin.X.(*ssa.Call); ok {
						if bb, ok := call.Call.Value.(*ssa.Builtin); ok && bb.Name() == "len" && (strings.Contains(path(bin.Y), "batchSize") || isBatchSize(bin.Y)) {
							okPred = true
						}
					}
				}
			}
		})
		r.ok(okPred, "stream.Batch|predicate", pred.Pos(), "Batch's full predicate must be len(batch) >= batchSize")
	} else {
		r.undecided("stream.Batch|predicate", token.NoPos, "Batch's predicate closure not found")
	}
	// full(batch) is evaluated after every append, in the same block
	nApp := 0
	instrs(batcher, func(b *ssa.BasicBlock, i int, in ssa.Instruction) {
		st, ok := in.(*ssa.Store)
		if !ok || lvarOf(st.Addr) != batchCell {
			return
		}
		call, ok := st.Val.(*ssa.Call)
		if !ok {
			return
		}
		if bb, ok := call.Call.Value.(*ssa.Builtin); !ok || bb.Name() != "append" {
			return
		}
		nApp++
		okFull := false
		for _, later := range b.Instrs[i+1:] {
			if cl, ok := later.(*ssa.Call); ok && strings.HasSuffix(path(cl.Call.Value), "full") && len(cl.Call.Args) == 1 && loadVar(cl.Call.Args[0]) == batchCell {
				// and the block branches on it
				if iff, ok := b.Instrs[len(b.Instrs)-1].(*ssa.If); ok && iff.Cond == ssa.Value(cl) {
					okFull = true
				}
			}
		}
		r.ok(okFull, "stream.BatchFunc|full-after-append#"+itoa(nApp), st.Pos(), "full(batch) must be tested right after every append (otherwise a Batch batch can exceed batchSize)")
	})
}

func describeET(s StateSet) string {
	var parts []string
	s.each(func(q int) {
		if q == 4 {
			parts = append(parts, "ERR")
			return
		}
		parts = append(parts, "(E="+itoa(q&1)+",T="+itoa((q>>1)&1)+")")
	})
	return strings.Join(parts, " ")
}

func ruleBatchElapsed(c *Ctx, r *R) {
	batcher, _, bi := batchClosures(c)
	if batcher == nil {
		r.undecided("stream.BatchFunc|batcher", token.NoPos, "batcher goroutine not found")
		return
	}
	isSince := func(v ssa.Value) bool {
		call, ok := v.(*ssa.Call)
		if !ok {
			return false
		}
		cal := call.Call.StaticCallee()
		return cal != nil && fname(cal) == "Since" && cal.Pkg != nil && cal.Pkg.Pkg.Path() == "time" && atEverySite(c, call.Call.Args[0], 0, func(a ssa.Value) bool {
			return strings.HasSuffix(path(a), "batchStart") || onlyTimeNow(a, map[ssa.Value]bool{})
		})
	}
	isMaxWait := func(v ssa.Value) bool {
		return atEverySite(c, v, 0, func(a ssa.Value) bool { return strings.HasSuffix(path(a), "maxWait") })
	}
	// timer durations
	n := 0
	for _, g := range bi.all {
		instrs(g, func(b *ssa.BasicBlock, i int, in ssa.Instruction) {
			call, ok := in.(*ssa.Call)
			if !ok {
				return
			}
			cal := call.Call.StaticCallee()
			if cal == nil || cal.Pkg == nil || cal.Pkg.Pkg.Path() != "time" || (fname(cal) != "NewTimer" && fname(cal) != "Reset") {
				return
			}
			n++
			arg := call.Call.Args[len(call.Call.Args)-1]
			bin, ok := arg.(*ssa.BinOp)
			r.ok(ok && bin.Op == token.SUB && isMaxWait(bin.X) && isSince(bin.Y), "stream.BatchFunc|timer-duration|"+fname(cal), call.Pos(), "the timer must run for maxWait - time.Since(batchStart)")
		})
	}
	// the guard in the waiting arm
	found := false
	for _, bh := range withAnon(batcher) {
		instrs(bh, func(b *ssa.BasicBlock, i int, in ssa.Instruction) {
			iff, ok := in.(*ssa.If)
			if !ok {
				return
			}
			bin, ok := iff.Cond.(*ssa.BinOp)
			if !ok {
				return
			}
			var overIdx int
			switch {
			case isSince(bin.X) && isMaxWait(bin.Y):
				switch bin.Op {
				case token.GTR, token.GEQ:
					overIdx = 0
				case token.LSS, token.LEQ:
					overIdx = 1
				default:
					return
				}
			case isMaxWait(bin.X) && isSince(bin.Y):
				switch bin.Op {
				case token.LSS, token.LEQ:
					overIdx = 0
				case token.GTR, token.GEQ:
					overIdx = 1
				default:
					return
				}
			default:
				return
			}
			found = true
			over, under := b.Succs[overIdx], b.Succs[1-overIdx]
			var curCall *ssa.Call // the call the predicate is asked about (its constant flags select what the callee does)
			callsIn := func(blk *ssa.BasicBlock, pred func(f *ssa.Function) bool) bool {
				res := false
				for _, bb := range blk.Parent().Blocks {
					if !blk.Dominates(bb) {
						continue
					}
					for _, x := range bb.Instrs {
						if call, ok := x.(*ssa.Call); ok {
							curCall = call
							if cal := staticCallee(&call.Call); cal != nil && pred(cal) {
								res = true
							}
							curCall = nil
						}
					}
				}
				return res
			}
			var sends func(f *ssa.Function) bool
			sendsDepth := 0
			sends = func(f *ssa.Function) bool {
				// ... directly, or in a local closure it calls (flush -> deliver)
				if sendsDepth < 3 && f.Blocks != nil {
					sendsDepth++
					inner := false
					instrs(f, func(_ *ssa.BasicBlock, _ int, in ssa.Instruction) {
						if call, ok := in.(*ssa.Call); ok {
							if cal := staticCallee(&call.Call); cal != nil && cal != f && cal.Parent() != nil && rootFn(cal) == rootFn(f) && sends(cal) {
								inner = true
							}
						}
					})
					sendsDepth--
					if inner {
						return true
					}
				}
				for _, op := range chanOpsOf(f) {
					for _, a := range op.arms {
						if a.send && fieldOfChan(a.ch) == "batchC" {
							return true
						}
					}
				}
				// … or through a context-aware send helper of the module (chans.SendContext(bgCtx, out.batchC, batch))
				res := false
				instrs(f, func(_ *ssa.BasicBlock, _ int, in ssa.Instruction) {
					if call, ok := in.(*ssa.Call); ok {
						if cal := staticCallee(&call.Call); cal != nil && ctxBlockingHelper(c, origin(cal)) {
							for _, a := range call.Call.Args {
								if fieldOfChan(a) == "batchC" {
									res = true
								}
							}
						}
					}
				})
				return res
			}
			arms := func(f *ssa.Function) bool {
				res := false
				// setTimer(false) / setTimer(true): one helper for stopping and (re)arming - what this call does is what is
				// reachable in the helper with the flag it is handed
				var live map[*ssa.BasicBlock]bool
				if curCall != nil {
					if spec := constBoolArgs(f, &curCall.Call); spec != nil {
						live = blocksReachableUnder(f, spec)
					}
				}
				instrs(f, func(b *ssa.BasicBlock, i int, in ssa.Instruction) {
					if live != nil && !live[b] {
						return
					}
					if call, ok := in.(*ssa.Call); ok {
						if cal := call.Call.StaticCallee(); cal != nil && (fname(cal) == "NewTimer" || fname(cal) == "Reset") {
							res = true
						}
					}
				})
				return res
			}
			// ... on every way through the branch: a further condition in front of the call (`else if timer == nil {
			// startTimer() }`) leaves ways on which a young batch is left with no timer running - it is then held back from
			// the waiting consumer until it fills or the source ends
			mustCall := func(blk *ssa.BasicBlock, pred func(f *ssa.Function) bool) bool {
				has := func(bb *ssa.BasicBlock) bool {
					for _, x := range bb.Instrs {
						if call, ok := x.(*ssa.Call); ok {
							curCall = call
							cal := staticCallee(&call.Call)
							hit := cal != nil && pred(cal)
							curCall = nil
							if hit {
								return true
							}
						}
					}
					return false
				}
				seen := map[*ssa.BasicBlock]bool{}
				var walk func(bb *ssa.BasicBlock) bool
				walk = func(bb *ssa.BasicBlock) bool {
					if !blk.Dominates(bb) {
						return false // left the branch without the call
					}
					if seen[bb] || has(bb) {
						return true
					}
					seen[bb] = true
					if len(bb.Succs) == 0 {
						_, isRet := bb.Instrs[len(bb.Instrs)-1].(*ssa.Return)
						return !isRet // a panic is no way through; a return without the call is
					}
					for _, sc := range bb.Succs {
						if !walk(sc) {
							return false
						}
					}
					return true
				}
				return walk(blk)
			}
			good := callsIn(over, sends) && !callsIn(over, arms) && callsIn(under, arms) && !callsIn(under, sends) && mustCall(under, arms) && mustCall(over, sends)
			r.ok(good, "stream.BatchFunc|elapsed-guard", iff.Pos(), "the edge on which time.Since(batchStart) exceeds maxWait must flush, the other edge must arm the timer (direction fixed by what maxWait means)")
		})
	}
	if !found {
		r.violated("stream.BatchFunc|elapsed-guard", batcher.Pos(), "no comparison of time.Since(batchStart) with maxWait guards the immediate flush")
	}
}

func ruleBatchDelivery(c *Ctx, r *R) {
	batcher, producer, _ := batchClosures(c)
	if batcher == nil || producer == nil {
		r.undecided("stream.BatchFunc|closures", token.NoPos, "producer/batcher goroutines not found")
		return
	}
	// producer: defer close(c) in the entry block
	okClose := false
	var cCell *ssa.Alloc
	var cVal ssa.Value
	for _, in := range producer.Blocks[0].Instrs {
		if d, ok := in.(*ssa.Defer); ok {
			if b, ok := d.Call.Value.(*ssa.Builtin); ok && b.Name() == "close" {
				okClose = true
				cCell = loadCell(d.Call.Args[0])
				cVal = d.Call.Args[0]
			}
			// a deferred function literal whose first block closes the channel (defer func() { close(c); s.Close() }())
			if f := staticCallee(&d.Call); f != nil && f.Blocks != nil {
				for _, x := range f.Blocks[0].Instrs {
					if call, ok := x.(*ssa.Call); ok {
						if b, ok := call.Call.Value.(*ssa.Builtin); ok && b.Name() == "close" && chanElemIsNotEmptyStruct(call.Call.Args[0].Type()) {
							okClose = true
							cCell = loadCell(call.Call.Args[0])
							cVal = call.Call.Args[0]
						}
					}
				}
			}
		}
	}
	r.ok(okClose, "stream.BatchFunc|producer-defer-close", producer.Pos(), "the producer must `defer close(c)` unconditionally so the batcher learns about the end on every exit")
	// the batcher receives from that very channel
	recvC := false
	var batcherOps []chanOp
	for _, h := range withAnon(batcher) { // (the select may sit in a local closure of the batcher: for step() {})
		batcherOps = append(batcherOps, chanOpsOf(h)...)
	}
	for _, op := range batcherOps {
		for _, a := range op.arms {
			if !a.send && cCell != nil && loadCell(a.ch) == cCell {
				recvC = true
			}
			// the same channel, handed over as the result of the helper that starts the producer
			if !a.send && cVal != nil && sameMadeChan(a.ch, cVal) {
				recvC = true
			}
		}
	}
	r.ok(recvC, "stream.BatchFunc|single-carrier", batcher.Pos(), "the batcher must receive items from the channel the producer sends on and closes")
	// batcher: a deferred closure registered in the entry block closes out.batchC unconditionally
	okB := false
	for _, in := range batcher.Blocks[0].Instrs {
		if d, ok := in.(*ssa.Defer); ok {
			// `defer close(out.batchC)` directly
			if bb, ok := d.Call.Value.(*ssa.Builtin); ok && bb.Name() == "close" && len(d.Call.Args) == 1 && fieldOfChan(d.Call.Args[0]) == "batchC" {
				okB = true
			}
			if f := resolveFuncValue(d.Call.Value, 0); f != nil {
				for _, b := range f.Blocks {
					for _, x := range b.Instrs {
						if call, ok := x.(*ssa.Call); ok {
							if bb, ok := call.Call.Value.(*ssa.Builtin); ok && bb.Name() == "close" && fieldOfChan(call.Call.Args[0]) == "batchC" {
								// must be on every path of the deferred closure: its block post-dominates entry ⇒ approximate by: block has no dominating If that skips it
								skipped := false
								for _, g := range guardsOf(b) {
									_ = g
									skipped = true
								}
								if !skipped {
									okB = true
								}
							}
						}
					}
				}
			}
		}
	}
	r.ok(okB, "stream.BatchFunc|batcher-defer-close", batcher.Pos(), "the batcher must close batchC in an unconditional deferred closure on every exit")
	// out.err: written only by the producer, with the error obtained from s.Next; the drop path is guarded by the
	// self-cancellation test (both err == context.Canceled and bgCtx.Err() compared)
	// the function that runs the producer's loop: the goroutine itself or the helper it delegates to
	loopFn := producer
	var nextCall *ssa.Call
	prodFrames := map[*ssa.Function]bool{}
	for _, fr := range deepFrames(producer, 2) {
		prodFrames[fr.f] = true
		instrs(fr.f, func(b *ssa.BasicBlock, i int, in ssa.Instruction) {
			if call, ok := in.(*ssa.Call); ok && call.Call.IsInvoke() && call.Call.Method.Name() == "Next" && nextCall == nil {
				nextCall = call
				loopFn = fr.f
			}
		})
	}
	var errV ssa.Value
	if nextCall != nil {
		for _, ref := range *nextCall.Referrers() {
			if ex, ok := ref.(*ssa.Extract); ok && ex.Index == 1 {
				errV = ex
			}
		}
	}
	isErrField := func(addr ssa.Value) bool {
		fa, ok := addr.(*ssa.FieldAddr)
		return ok && fieldName(fa.X.Type(), fa.Field) == "err" && isNamedType(fa.X.Type(), "stream", "batchStream")
	}
	root := rootFn(producer)
	nw := 0
	scan := append([]*ssa.Function{}, withAnon(root)...)
	for f := range prodFrames {
		dup := false
		for _, g := range scan {
			if g == f {
				dup = true
			}
		}
		if !dup {
			scan = append(scan, f)
		}
	}
	sort.Slice(scan, func(i, j int) bool { return scan[i].Pos() < scan[j].Pos() })
	recordedByCaller := false
	for _, g := range scan {
		g := g
		instrs(g, func(b *ssa.BasicBlock, i int, in ssa.Instruction) {
			st, ok := in.(*ssa.Store)
			if !ok || !isErrField(st.Addr) {
				return
			}
			if _, fresh := st.Addr.(*ssa.FieldAddr).X.(*ssa.Alloc); fresh && isNilConst(st.Val) {
				return
			}
			nw++
			fromNext := true
			ls := valueLeaves(st.Val, nil, 0)
			for _, lf := range ls {
				if isNilConst(lf.v) {
					continue
				}
				if lf.v != errV {
					fromNext = false
				}
			}
			if g != loopFn && fromNext {
				recordedByCaller = true
			}
			r.ok(prodFrames[g] && fromNext && len(ls) > 0, "stream.BatchFunc|err-writer#"+itoa(nw), st.Pos(), "out.err may only be written by the producer, with the error its source returned")
		})
	}
	if nw == 0 {
		r.violated("stream.BatchFunc|err-writer", producer.Pos(), "the producer never records the source's error: a failing source would look like a normal end")
	}
	// every exit of the producer loop taken with a non-End error either records it or is the self-cancellation exit
	if nextCall != nil {
		// blocks where err is known != nil and != End and that leave the loop without storing it
		pf := &PF{N: 4} // 0 unknown, 1 nil-or-End (benign), 2 pending error, 3 recorded/self-cancel
		pf.Edge = func(fn *ssa.Function, g guard, q int) (StateSet, bool) {
			b := g.blk
			_ = b
			cf, ok := g.asCmp()
			if !ok {
				return 0, false
			}
			if cf.x == errV {
				if cf.op == token.EQL && (isNilConst(cf.y) || strings.HasSuffix(path(cf.y), "End")) {
					return ss(1), true
				}
				if cf.op == token.NEQ && isNilConst(cf.y) && q == 0 {
					return ss(2), true
				}
				if cf.op == token.EQL && q == 0 {
					return ss(2), true // err == context.Canceled: still a pending error
				}
				return 0, false
			}
			// bgCtx.Err() == context.Canceled / != nil true edge: self-inflicted cancellation established
			if call, ok := cf.x.(*ssa.Call); ok && call.Call.IsInvoke() && call.Call.Method.Name() == "Err" {
				selfCancel := (cf.op == token.EQL && !isNilConst(cf.y)) || (cf.op == token.NEQ && isNilConst(cf.y))
				if selfCancel && q == 2 {
					// only if err itself was tested against context.Canceled on this path
					for _, g := range append(guardsOf(b), g) {
						if c2, ok := g.asCmp(); ok && c2.x == errV && c2.op == token.EQL && strings.HasSuffix(path(c2.y), "Canceled") {
							return ss(3), true
						}
					}
				}
			}
			return 0, false
		}
		pf.Instr = func(fn *ssa.Function, in ssa.Instruction, q int) (StateSet, bool) {
			if call, ok := in.(*ssa.Call); ok && call == nextCall {
				return ss(0), true
			}
			if st, ok := in.(*ssa.Store); ok && st.Val == errV && isErrField(st.Addr) {
				return ss(3), true
			}
			return 0, false
		}
		bad := false
		var badPos token.Pos
		for _, e := range pf.Exits(loopFn, ss(1)) {
			if e.States.has(2) || e.States.has(0) { // 0 = the error was never established to be nil / End
				// a helper may hand the pending error to its caller, which records it
				if loopFn != producer && recordedByCaller && len(e.Ret.Results) > 0 && returnedValue(e.Ret, len(e.Ret.Results)-1) == errV && !e.States.has(0) {
					continue
				}
				bad = true
				badPos = retPos(e.Ret)
			}
		}
		// also: leaving via break (loop exit) then falling to return is an exit too – covered since all returns are exits
		if !badPos.IsValid() {
			badPos = producer.Pos()
		}
		r.ok(!bad, "stream.BatchFunc|error-not-dropped", badPos, "the producer can exit with a source error that is neither recorded in out.err nor proven to be the cancellation Close itself caused (err == context.Canceled AND bgCtx.Err() set): the consumer would see a normal End")
	}
	// consumer side
	nx := c.fn("stream.batchStream.Next")
	if nx == nil {
		r.undecided("stream.batchStream.Next|missing", token.NoPos, "anchor not found")
		return
	}
	// reads of iter.err are dominated by a !ok edge of a receive from batchC; each !ok block returns err if non-nil else End
	nr := 0
	errReaders := []*ssa.Function{nx}
	for _, op := range chanOpsOf(nx) {
		for _, a := range op.arms {
			if cal, _ := tailCallee(a.body); cal != nil && fieldOfChan(a.ch) == "batchC" {
				dup := false
				for _, f := range errReaders {
					if f == cal {
						dup = true
					}
				}
				if !dup {
					errReaders = append(errReaders, cal)
				}
			}
		}
	}
	for _, rf := range errReaders {
		rf := rf
		instrs(rf, func(b *ssa.BasicBlock, i int, in ssa.Instruction) {
			ld, ok := in.(*ssa.UnOp)
			if !ok || ld.Op != token.MUL {
				return
			}
			fa, ok := ld.X.(*ssa.FieldAddr)
			if !ok || fieldName(fa.X.Type(), fa.Field) != "err" {
				return
			}
			nr++
			closedSeen := false
			for _, g := range guardsOf(b) {
				if v, val := g.boolVal(); !val {
					// the tested flag is the ok of a receive from batchC (in every select it can come from)
					ls := valueLeaves(v, nil, 0)
					all := len(ls) > 0
					for _, lf := range ls {
						isOK := false
						if ex, ok := lf.v.(*ssa.Extract); ok && ex.Index == 1 {
							if sel, ok := ex.Tuple.(*ssa.Select); ok {
								for _, st := range sel.States {
									if st.Dir == types.RecvOnly && fieldOfChan(st.Chan) == "batchC" {
										isOK = true
									}
								}
							}
						}
						if k, isK := lf.v.(*ssa.Const); isK && k.Value != nil && k.Value.String() == "false" {
							isOK = true // the variable's initial value: never reaches the read without a receive
						}
						if !isOK {
							all = false
						}
					}
					if all {
						closedSeen = true
					}
				}
			}
			if rf != nx {
				// inside the extracted helper: the read must be under its ok parameter being false, and the helper must
				// only be called with the ok of a receive from batchC (checked by the closed-block rule)
				for _, g := range guardsOf(b) {
					if v, val := g.boolVal(); !val {
						if _, isP := v.(*ssa.Parameter); isP {
							closedSeen = true
						}
					}
				}
			}
			r.ok(closedSeen, "stream.batchStream.Next|err-read-after-close#"+itoa(nr), ld.Pos(), "iter.err may only be read after batchC was observed closed (happens-before with the producer's write)")
		})
	}
	// sibling !ok blocks (the handling may have been extracted into a helper that both arms tail-call)
	nb := 0
	closedOK := func(fn *ssa.Function, okV ssa.Value, scope *ssa.BasicBlock) bool {
		retErr, retEnd := false, false
		for _, b := range fn.Blocks {
			if scope != nil && !scope.Dominates(b) {
				continue
			}
			notOK := false
			errNonNil, errNil := false, false
			for _, g := range guardsOf(b) {
				if v, val := g.boolVal(); !val {
					if v == okV {
						notOK = true
					} else {
						for _, lf := range valueLeaves(v, nil, 0) {
							if lf.v == okV {
								notOK = true // a flag both arms assign their ok to, tested in a shared tail
							}
						}
					}
				}
				if cf, ok := g.asCmp(); ok && strings.HasSuffix(path(cf.x), ".err") && isNilConst(cf.y) {
					if cf.op == token.NEQ {
						errNonNil = true
					} else if cf.op == token.EQL {
						errNil = true
					}
				}
			}
			if !notOK {
				continue
			}
			if ret, ok := b.Instrs[len(b.Instrs)-1].(*ssa.Return); ok && len(ret.Results) == 2 {
				e := path(returnedValue(ret, 1))
				if errNonNil && strings.HasSuffix(e, ".err") {
					retErr = true
				}
				if errNil && strings.HasSuffix(e, "End") {
					retEnd = true
				}
				// the choice lives in a helper of the stream (`return nil, s.endErr()`): err if non-nil, End otherwise
				if hc, ok := returnedValue(ret, 1).(*ssa.Call); ok {
					if cal := staticCallee(&hc.Call); cal != nil && cal.Blocks != nil && rootFn(origin(cal)).Pkg == rootFn(fn).Pkg {
						hErr, hEnd := false, false
						for _, hb := range origin(cal).Blocks {
							hr, ok := hb.Instrs[len(hb.Instrs)-1].(*ssa.Return)
							if !ok || len(hr.Results) != 1 {
								continue
							}
							nn, nl := false, false
							for _, g := range guardsOf(hb) {
								if cf, ok := g.asCmp(); ok && strings.HasSuffix(path(cf.x), ".err") && isNilConst(cf.y) {
									if cf.op == token.NEQ {
										nn = true
									} else if cf.op == token.EQL {
										nl = true
									}
								}
							}
							he := path(returnedValue(hr, 0))
							if nn && strings.HasSuffix(he, ".err") {
								hErr = true
							}
							if nl && strings.HasSuffix(he, "End") {
								hEnd = true
							}
						}
						if hErr && hEnd {
							retErr, retEnd = true, true
						}
					}
				}
			}
		}
		return retErr && retEnd
	}
	for _, op := range chanOpsOf(nx) {
		sel, ok := op.in.(*ssa.Select)
		if !ok {
			continue
		}
		for _, a := range op.arms {
			if a.send || fieldOfChan(a.ch) != "batchC" || a.body == nil {
				continue
			}
			nb++
			var okV ssa.Value
			for _, ref := range *sel.Referrers() {
				if ex, isEx := ref.(*ssa.Extract); isEx && ex.Index == 1 {
					okV = ex
				}
			}
			good := false
			if cal, call := tailCallee(a.body); cal != nil {
				for ai, arg := range call.Call.Args {
					if arg == okV && ai < len(cal.Params) {
						good = closedOK(cal, cal.Params[ai], nil)
					}
				}
			} else {
				good = closedOK(nx, okV, a.body) || closedOK(nx, okV, nil)
			}
			r.ok(good, "stream.batchStream.Next|closed-block#"+itoa(nb), posOf(op.in), "when batchC is closed Next must return iter.err if it is non-nil and End only otherwise (both sibling blocks)")
		}
	}
	if nb < 1 {
		r.violated("stream.batchStream.Next|closed-blocks", nx.Pos(), "expected a receive arm on batchC (immediate and after announcing)")
	}
	// announce-before-wait: a send arm on waiting whose body is a blocking select on batchC
	ann := false
	for _, op := range chanOpsOf(nx) {
		for _, a := range op.arms {
			if a.send && fieldOfChan(a.ch) == "waiting" && a.body != nil {
				// ... followed by a blocking wait on batchC: in the arm itself, or - one select in a loop whose announcing arm
				// is disabled after its first use - by going round to the same select
				waitsOnBatch := func(s2 *ssa.Select) bool {
					if !s2.Blocking {
						return false
					}
					for _, st := range s2.States {
						if st.Dir == types.RecvOnly && fieldOfChan(st.Chan) == "batchC" {
							return true
						}
					}
					return false
				}
				instrs(nx, func(sb *ssa.BasicBlock, _ int, in ssa.Instruction) {
					if !(sb == a.body || reaches(a.body, sb)) {
						return
					}
					if s2, ok := in.(*ssa.Select); ok && waitsOnBatch(s2) {
						ann = true
					}
					// ... or in a helper of the package the arm hands over to (return iter.awaitBatch(ctx))
					if call, ok := in.(*ssa.Call); ok {
						if cal := staticCallee(&call.Call); cal != nil && cal.Blocks != nil && cal.Parent() == nil && rootFn(cal).Pkg == rootFn(nx).Pkg {
							for _, di := range deepInstrs(cal, 2) {
								if s2, ok := di.in.(*ssa.Select); ok && waitsOnBatch(s2) {
									ann = true
								}
							}
						}
					}
				})
			}
		}
	}
	r.ok(ann, "stream.batchStream.Next|announce-before-wait", nx.Pos(), "the consumer must announce itself on `waiting` and then wait on batchC; without it an underfilled batch is never released")
}

// chanElemIsNotEmptyStruct: a data channel (element type other than struct{}).
func chanElemIsNotEmptyStruct(t types.Type) bool {
	ch, ok := t.Underlying().(*types.Chan)
	if !ok {
		return false
	}
	st, isStruct := ch.Elem().Underlying().(*types.Struct)
	return !(isStruct && st.NumFields() == 0)
}

// atEverySite: pred holds of v, or v is a parameter of an unexported top-level helper and pred holds (recursively) of the
// corresponding argument at every call site.
func atEverySite(c *Ctx, v ssa.Value, depth int, pred func(ssa.Value) bool) bool {
	if pred(v) {
		return true
	}
	p, ok := v.(*ssa.Parameter)
	if !ok || depth > 2 {
		return false
	}
	fn := p.Parent()
	if fn == nil || fn.Parent() != nil || token.IsExported(fn.Name()) {
		return false
	}
	idx := -1
	for i, q := range fn.Params {
		if q == p {
			idx = i
		}
	}
	sites := callCommonsOf(c, fn)
	if idx < 0 || len(sites) == 0 {
		return false
	}
	for _, cc := range sites {
		if idx >= len(cc.Args) || !atEverySite(c, cc.Args[idx], depth+1, pred) {
			return false
		}
	}
	return true
}

// onlyTimeNow: v is a local time value that is only ever time.Now() (or still the zero value): the batch-start stamp when it is
// an SSA register rather than a captured variable.
func onlyTimeNow(v ssa.Value, seen map[ssa.Value]bool) bool {
	if seen[v] {
		return true
	}
	seen[v] = true
	switch x := v.(type) {
	case *ssa.Call:
		cal := x.Call.StaticCallee()
		return cal != nil && cal.Name() == "Now" && cal.Pkg != nil && cal.Pkg.Pkg.Path() == "time"
	case *ssa.Phi:
		for _, e := range x.Edges {
			if !onlyTimeNow(e, seen) {
				return false
			}
		}
		return true
	case *ssa.Const:
		return true // the zero time.Time before the first item
	}
	return false
}

// madeChans: the make(chan) sites a channel value can come from (through locals, captured variables and the results of
// in-package helpers); nil if any source is something else.
func madeChans(v ssa.Value) map[*ssa.MakeChan]bool { return madeChansD(v, 0) }

func madeChansD(v ssa.Value, depth int) map[*ssa.MakeChan]bool {
	out := map[*ssa.MakeChan]bool{}
	for _, lf := range valueLeaves(v, nil, 0) {
		mk, ok := lf.v.(*ssa.MakeChan)
		if !ok {
			// a channel parameter of an unexported top-level helper (the body of a goroutine moved into a named function):
			// what every call site hands in
			if p, isP := lf.v.(*ssa.Parameter); isP && depth < 3 && curCtx != nil && p.Parent() != nil && p.Parent().Parent() == nil && !token.IsExported(p.Parent().Name()) {
				fn := p.Parent()
				pi := -1
				for i, q := range fn.Params {
					if q == p {
						pi = i
					}
				}
				sites := callCommonsOf(curCtx, fn)
				if pi >= 0 && len(sites) > 0 {
					okAll := true
					for _, cc := range sites {
						if pi >= len(cc.Args) {
							okAll = false
							break
						}
						sub := madeChansD(cc.Args[pi], depth+1)
						if sub == nil {
							okAll = false
							break
						}
						for k := range sub {
							out[k] = true
						}
					}
					if okAll {
						continue
					}
				}
			}
			return nil
		}
		out[mk] = true
	}
	if len(out) == 0 {
		return nil
	}
	return out
}

// sameMadeChan: a and b denote channels created at exactly the same (single) make site.
func sameMadeChan(a, b ssa.Value) bool {
	ma, mb := madeChans(a), madeChans(b)
	if len(ma) != 1 || len(mb) != 1 {
		return false
	}
	for k := range ma {
		return mb[k]
	}
	return false
}

// C11.batch-age-from-first-item: maxWait is measured from the moment the OLDEST item of the pending batch arrived: the time
// stamp the elapsed-time tests read is set to time.Now() exactly where the batch gets its first item (under len(batch) == 1
// after the append), not when the previous batch was handed over or the goroutine started - otherwise a batch that follows an
// idle period counts as expired as soon as its first item arrives and is handed out underfilled at once.
var _ = late(func() {
	p := properties["C11"]
	p.Rules = append(p.Rules, &Rule{ID: "C11.batch-age-from-first-item", Floor: 1, Clause: "the time stamp that time.Since(...) is applied to in the batcher (batchStart) is assigned time.Now() only under len(batch) == 1, i.e. when the pending batch receives its first item: stamping it at hand-over or start-up ages a batch by the idle time that preceded it",
		Run: func(c *Ctx, r *R) {
			batcher, _, bi := batchClosures(c)
			if batcher == nil {
				r.undecided("stream.BatchFunc|batcher", token.NoPos, "batcher goroutine not found")
				return
			}
			// the stamp: whatever is handed to time.Since - a (captured) variable, a loop-carried value, or a parameter of a
			// helper that is given the stamp; its assignment points are traced by value
			type stampSite struct {
				now *ssa.Call
				at  *ssa.BasicBlock
			}
			var sites []stampSite
			seen := map[ssa.Value]bool{}
			foundSince := false
			var trace func(v ssa.Value, at *ssa.BasicBlock, depth int)
			trace = func(v ssa.Value, at *ssa.BasicBlock, depth int) {
				if depth > 12 {
					return
				}
				switch x := v.(type) {
				case *ssa.Call:
					if cal := x.Call.StaticCallee(); cal != nil && cal.Name() == "Now" && cal.Pkg != nil && cal.Pkg.Pkg.Path() == "time" {
						for _, s := range sites {
							if s.now == x && s.at == at {
								return
							}
						}
						sites = append(sites, stampSite{x, at})
					}
				case *ssa.ChangeType:
					trace(x.X, at, depth+1)
				case *ssa.Phi:
					if seen[x] {
						return
					}
					seen[x] = true
					for k, e := range x.Edges {
						if k < len(x.Block().Preds) {
							trace(e, x.Block().Preds[k], depth+1)
						}
					}
				case *ssa.UnOp:
					if x.Op != token.MUL || seen[x] {
						return
					}
					seen[x] = true
					if lv := lvarOf(x.X); lv.ok() {
						for _, st := range storesToVar(lv) {
							trace(st.Val, st.Block(), depth+1)
						}
					}
				case *ssa.Parameter:
					if seen[x] {
						return
					}
					seen[x] = true
					for k, p := range x.Parent().Params {
						if p != x {
							continue
						}
						for _, cc := range callCommonsOf(c, x.Parent()) {
							if k < len(cc.Args) {
								trace(cc.Args[k], nil, depth+1)
							}
						}
					}
				}
			}
			for _, g := range bi.all {
				for _, di := range deepInstrs(g, 2) {
					call, ok := di.in.(*ssa.Call)
					if !ok {
						continue
					}
					if cal := call.Call.StaticCallee(); cal != nil && cal.Name() == "Since" && cal.Pkg != nil && cal.Pkg.Pkg.Path() == "time" {
						foundSince = true
						trace(call.Call.Args[0], nil, 0)
					}
				}
			}
			if !foundSince {
				r.undecided("stream.BatchFunc|batch-start", batcher.Pos(), "the variable time.Since is applied to was not found")
				return
			}
			isFirstItem := func(b *ssa.BasicBlock) bool {
				if b == nil {
					return false
				}
				for _, g := range guardsOf(b) {
					cf, ok := g.asCmp()
					if !ok || cf.op != token.EQL || !isConstInt(cf.y, 1) {
						continue
					}
					if lc, ok := resolveVal(cf.x).(*ssa.Call); ok {
						if bi, ok := lc.Call.Value.(*ssa.Builtin); ok && bi.Name() == "len" {
							return true
						}
					}
				}
				return false
			}
			n := 0
			for _, s := range sites {
				n++
				r.ok(isFirstItem(s.at) || isFirstItem(s.now.Block()), "stream.BatchFunc|stamp#"+itoa(n), s.now.Pos(), "the batch's age is stamped here, outside the `len(batch) == 1` test that marks the arrival of its first item: the next batch inherits the idle time before it and is released underfilled immediately")
			}
			if n == 0 {
				r.violated("stream.BatchFunc|stamp", batcher.Pos(), "the batch's start time is never set to time.Now()")
			}
		}})
})

// throughLiteralParam: a parameter of a local function literal that has one call site stands for the argument of that call
// (deliver := func(b []T) bool { ... out.batchC <- b ... }; deliver(batch)).
func throughLiteralParam(v ssa.Value) ssa.Value {
	for d := 0; d < 3; d++ {
		p, ok := v.(*ssa.Parameter)
		if !ok {
			break
		}
		a := literalCallArg(p)
		if a == nil {
			break
		}
		v = a
	}
	return v
}
