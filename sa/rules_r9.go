package main

import (
	"go/constant"
	"go/token"
	"go/types"
	"sort"
	"strings"

	"golang.org/x/tools/go/ssa"
)

// Rules written for the mutations of seed round 9 that the analyser missed at import (each is a necessary condition of the
// property it is registered under; the seed it was written for is named in the comment).

// halves-wired (C10-r9m2): Pipe builds its two halves from composite literals that share the pipe's channels and its error
// cell. Every channel- or pointer-typed field of a half that one of its methods waits on / reads through is set where the half
// is built: a field left out of the literal is nil, and a select arm on a nil channel never fires (Send no longer notices the
// receiver's Close).
func ruleHalvesWired(c *Ctx, r *R) {
	fn := c.fn("stream.Pipe")
	if fn == nil {
		r.undecided("stream.Pipe|missing", token.NoPos, "anchor not found")
		return
	}
	n := 0
	var check func(al ssa.Value, owner string, depth int)
	check = func(al ssa.Value, owner string, depth int) {
		nt, ok := derefType(al.Type()).(*types.Named)
		if !ok || depth > 2 {
			return
		}
		st, ok := nt.Underlying().(*types.Struct)
		if !ok {
			return
		}
		set := map[int]ssa.Value{}
		for _, ref := range refsOf(al) {
			if fa, ok := ref.(*ssa.FieldAddr); ok {
				for _, r2 := range refsOf(fa) {
					if s2, ok := r2.(*ssa.Store); ok && s2.Addr == ssa.Value(fa) && !isNilConst(s2.Val) {
						set[fa.Field] = s2.Val
					}
				}
			}
		}
		for i := 0; i < st.NumFields(); i++ {
			switch st.Field(i).Type().Underlying().(type) {
			case *types.Chan, *types.Pointer:
				n++
				r.ok(set[i] != nil, "stream.Pipe|"+owner+"."+st.Field(i).Name(), al.Pos(), "the "+st.Field(i).Name()+" of the "+owner+" that Pipe builds is left nil: a select arm on a nil channel never fires (the half no longer notices the event that channel announces), a nil error cell panics when it is read")
			case *types.Struct:
				// the shared part of the two halves held by value (pipeShared{c, senderDone, senderErr, streamDone}): the struct
				// value stored there, field by field
				if v := set[i]; v != nil {
					if ld, ok := v.(*ssa.UnOp); ok && ld.Op == token.MUL {
						if inner, ok := ld.X.(*ssa.Alloc); ok {
							check(inner, owner, depth+1)
							continue
						}
					}
				}
				// ... or filled in place (&pipe[T]{sender: PipeSender[T]{c: c, …}, receiver: pipeStream[T]{…}}: both halves in
				// one allocation): the fields of the nested struct are stored through its address inside the outer one
				inPlace := false
				for _, ref := range refsOf(al) {
					if fa, ok := ref.(*ssa.FieldAddr); ok && fa.Field == i {
						for _, r2 := range refsOf(fa) {
							if _, isFA := r2.(*ssa.FieldAddr); isFA && !inPlace {
								inPlace = true
								sub := owner
								if depth == 0 {
									if nt2, isN := st.Field(i).Type().(*types.Named); isN {
										sub = nt2.Obj().Name()
									}
								}
								check(fa, sub, depth+1)
							}
						}
					}
				}
				if inPlace {
					continue
				}
				n++
				r.violated("stream.Pipe|"+owner+"."+st.Field(i).Name(), al.Pos(), "the "+st.Field(i).Name()+" group of the "+owner+" that Pipe builds is not set: its channels are nil")
			}
		}
	}
	for _, d := range deepInstrs(fn, 2) {
		al, ok := d.in.(*ssa.Alloc)
		if !ok || !al.Heap {
			continue
		}
		nt, ok := derefType(al.Type()).(*types.Named)
		if !ok || nt.Obj().Pkg() == nil || !strings.HasSuffix(nt.Obj().Pkg().Path(), "/stream") {
			continue
		}
		check(al, nt.Obj().Name(), 0)
	}
	if n == 0 {
		r.undecided("stream.Pipe|halves", fn.Pos(), "no half built in Pipe")
	}
}

// chunk-full-test-after-append (C07-r9m2): Chunk hands out a chunk as soon as it holds chunkSize items, so after EVERY append
// to the chunk under construction the length is compared with chunkSize before the source is asked again. A first item
// appended ahead of the loop (to avoid an allocation at the end of the source) and tested only after the second one makes
// Chunk(_, 1) swallow the whole source into one chunk.
func ruleChunkFullTest(c *Ctx, r *R) {
	n := 0
	for _, name := range []string{"iterator.chunkIterator.Next", "stream.chunkStream.Next"} {
		fn := c.fn(name)
		if fn == nil {
			r.undecided(name+"|missing", token.NoPos, "anchor not found")
			continue
		}
		isSizeField := func(v ssa.Value) bool {
			ld, ok := resolveVal(v).(*ssa.UnOp)
			if !ok || ld.Op != token.MUL {
				return false
			}
			fa, ok := ld.X.(*ssa.FieldAddr)
			return ok && fa.X == ssa.Value(fn.Params[0]) && isIntType(ld.Type())
		}
		isLenCall := func(v ssa.Value) bool {
			call, ok := v.(*ssa.Call)
			if !ok {
				return false
			}
			bi, ok := call.Call.Value.(*ssa.Builtin)
			return ok && bi.Name() == "len"
		}
		// 0 = every appended item has been followed by the full-test, 1 = an append since the last test
		pf := &PF{N: 2}
		pf.Instr = func(_ *ssa.Function, in ssa.Instruction, q int) (StateSet, bool) {
			if call, ok := in.(*ssa.Call); ok {
				if bi, ok := call.Call.Value.(*ssa.Builtin); ok && bi.Name() == "append" {
					return ss(1), true
				}
			}
			return 0, false
		}
		pf.Edge = func(_ *ssa.Function, g guard, q int) (StateSet, bool) {
			cf, ok := g.asCmp()
			if !ok {
				return 0, false
			}
			if (isLenCall(cf.x) && isSizeField(cf.y)) || (isLenCall(cf.y) && isSizeField(cf.x)) {
				return ss(0), true
			}
			return 0, false
		}
		var bad ssa.Instruction
		pulls := 0
		pf.Visit = func(_ *ssa.Function, in ssa.Instruction, before StateSet) {
			call, ok := in.(*ssa.Call)
			if !ok || !call.Call.IsInvoke() || call.Call.Method.Name() != "Next" {
				return
			}
			pulls++
			if before.has(1) && bad == nil {
				bad = in
			}
		}
		pf.Exits(fn, ss(0))
		n++
		key := name + "|full-test-after-every-append"
		if pulls == 0 {
			r.undecided(key, fn.Pos(), "no pull from the source found")
			continue
		}
		if bad != nil {
			r.violated(key, posOf(bad), "the source is asked for another item on a path on which an item was appended to the chunk and the chunk's length has not been compared with chunkSize since: with chunkSize == 1 the chunk is already full and keeps growing - one Next drains the whole source into one chunk")
		} else {
			r.discharged(key, fn.Pos(), "every append is followed by the full-test before the next pull")
		}
	}
	_ = n
}

// typed-results-from-map (C18-r9m3): what a typed Map method hands back as a V is what sync.Map handed back (type-asserted) or
// the zero value - never the caller's own argument: LoadOrStore on a key that holds a stored nil interface gets (nil, true)
// from sync.Map, and answering with the value the caller offered claims that value is in the map.
func ruleTypedResultsFromMap(c *Ctx, r *R) {
	meths := c.methodsOf("xsync", "Map")
	var names []string
	for n := range meths {
		names = append(names, n)
	}
	sort.Strings(names)
	n := 0
	for _, mn := range names {
		fn := meths[mn]
		if !token.IsExported(mn) || fn.Signature.Results().Len() == 0 {
			continue
		}
		if _, isTP := fn.Signature.Results().At(0).Type().(*types.TypeParam); !isTP {
			continue
		}
		k := 0
		instrs(fn, func(_ *ssa.BasicBlock, _ int, in ssa.Instruction) {
			ret, ok := in.(*ssa.Return)
			if !ok || len(ret.Results) == 0 {
				return
			}
			k++
			n++
			bad := ""
			for _, lf := range valueLeaves(returnedValue(ret, 0), nil, 0) {
				v := lf.v
				if ex, isEx := v.(*ssa.Extract); isEx {
					v = ex.Tuple
				}
				switch x := v.(type) {
				case *ssa.TypeAssert:
				case *ssa.Const:
				case *ssa.UnOp:
					// a zero-valued local (var zero V)
					if x.Op == token.MUL {
						if al, isAl := x.X.(*ssa.Alloc); isAl && len(storesTo(al)) == 0 {
							continue
						}
					}
					bad = path(lf.v)
				default:
					bad = path(lf.v)
				}
			}
			r.ok(bad == "", "xsync.Map."+mn+"|result-from-map#"+itoa(k), retPos(ret), "the value handed back is "+bad+", which is neither what sync.Map returned (type-asserted) nor the zero value: for a key that holds a stored nil interface sync.Map answers (nil, true), and the wrapper must answer the zero value, not something of the caller's")
		})
	}
	if n == 0 {
		r.undecided("xsync.Map|typed-results", token.NoPos, "no typed Map method returning a V found")
	}
}

// lock-order (C16-r9m3): callers hold c.L when they call Wait (it is the condition's lock) and may hold it when they call
// Signal / Broadcast, each of which takes the cond's own mutex: the order is L before m. Nothing in ContextCond may acquire
// c.L while it holds m - a woken waiter queueing for c.L with m read-held blocks a Broadcast that is made under c.L for ever.
func ruleCondLockOrder(c *Ctx, r *R) {
	n := 0
	for _, fn := range c.funcsOfPkg("xsync") {
		if fn.Blocks == nil || fn.Signature.Recv() == nil || !isNamedTypeDeep(fn.Signature.Recv().Type(), "xsync", "ContextCond") {
			continue
		}
		for _, d := range deepInstrs(fn, 2) {
			call, ok := d.in.(*ssa.Call)
			if !ok || !call.Call.IsInvoke() || call.Call.Method.Name() != "Lock" {
				continue
			}
			// the Locker field of the cond
			ld, ok := call.Call.Value.(*ssa.UnOp)
			if !ok || ld.Op != token.MUL {
				continue
			}
			if _, isFA := ld.X.(*ssa.FieldAddr); !isFA {
				continue
			}
			n++
			held := deepLocks(fn, d)
			inner := false
			for lk := range held {
				if strings.HasSuffix(lk, ".m") {
					inner = true
				}
			}
			r.ok(!inner, c.nameOf(fn)+"|acquires-L#"+itoa(n), call.Pos(), "c.L is acquired while the cond's own mutex is held ("+held.String()+"): everywhere else the order is L before m (Wait is entered with L held and then pins the channel under m; Broadcast may be called under L) - a woken waiter that queues for L with m held blocks that Broadcast, which blocks every other waiter")
		}
	}
	if n == 0 {
		r.undecided("xsync.ContextCond|relock", token.NoPos, "no acquisition of c.L found in ContextCond")
	}
}

// withstack-no-interception (C19-r9m1): WithStack is transparent to errors.Is / errors.As because the wrapper offers nothing but
// Unwrap. A method Is (or As) on the wrapper is called by errors.Is unconditionally, before and instead of the comparable-only
// `==` the standard library applies - comparing with == there panics for error values of uncomparable dynamic type.
func ruleWithStackNoInterception(c *Ctx, r *R) {
	p := c.Pkgs["xerrors"]
	if p == nil {
		r.undecided("xerrors|missing", token.NoPos, "package not found")
		return
	}
	tn, _ := p.Types.Scope().Lookup("withStack").(*types.TypeName)
	if tn == nil {
		r.undecided("xerrors.withStack|missing", token.NoPos, "type not found")
		return
	}
	n := 0
	for _, t := range []types.Type{tn.Type(), types.NewPointer(tn.Type())} {
		ms := types.NewMethodSet(t)
		for i := 0; i < ms.Len(); i++ {
			m := ms.At(i).Obj()
			if _, isPtr := t.(*types.Pointer); isPtr && types.NewMethodSet(tn.Type()).Lookup(m.Pkg(), m.Name()) != nil {
				continue
			}
			n++
			r.ok(m.Name() != "Is" && m.Name() != "As", "xerrors.withStack|method:"+m.Name(), m.Pos(), "the wrapper defines "+m.Name()+": errors."+m.Name()+" calls it on the wrapper itself, so the wrapper is no longer transparent - an == on the wrapped error in there panics for errors of uncomparable dynamic type, where errors.Is on the bare error answers false")
		}
	}
	if n == 0 {
		r.undecided("xerrors.withStack|methods", tn.Pos(), "withStack has no methods")
	}
}

// intersect-covers-all-others (C19-r9m2): Intersection / Intersects range over the keys of ONE of the sets and test each key
// against the others. The membership loop must cover every other set: when the set that is ranged over is sets[0] the loop
// may start at 1; when it is picked by a computed index the loop must start at 0 (testing a set against itself is harmless,
// leaving one out is not).
func ruleIntersectCoversAll(c *Ctx, r *R) {
	n := 0
	for _, name := range []string{"xmaps.Intersection", "xmaps.Intersects"} {
		fn := c.fn(name)
		if fn == nil {
			r.undecided(name+"|missing", token.NoPos, "anchor not found")
			continue
		}
		top := fn
		setsP := fn.Params[0]
		// the loops live in a helper both functions share (forEachCommon(sets, yield)): judged there, for each caller
		hasRange := false
		instrs(fn, func(_ *ssa.BasicBlock, _ int, in ssa.Instruction) {
			if _, ok := in.(*ssa.Range); ok {
				hasRange = true
			}
		})
		if !hasRange {
			instrs(top, func(_ *ssa.BasicBlock, _ int, in ssa.Instruction) {
				call, ok := in.(*ssa.Call)
				if !ok {
					return
				}
				cal := staticCallee(&call.Call)
				if cal == nil || cal.Blocks == nil || cal.Parent() != nil || rootFn(cal).Pkg != rootFn(top).Pkg {
					return
				}
				for ai, a := range call.Call.Args {
					if ai < len(cal.Params) && types.Identical(a.Type(), top.Params[0].Type()) {
						fn, setsP = cal, cal.Params[ai]
					}
				}
			})
		}
		isSets := func(v ssa.Value) bool {
			// the parameter, or its clone / sorted copy (any value of the same slice type derived in this function)
			return types.Identical(v.Type(), setsP.Type())
		}
		// the set ranged over: range over sets[e]
		var outerIdx ssa.Value
		outerFound := false
		instrs(fn, func(_ *ssa.BasicBlock, _ int, in ssa.Instruction) {
			rg, ok := in.(*ssa.Range)
			if !ok {
				return
			}
			ld, ok := rg.X.(*ssa.UnOp)
			if !ok || ld.Op != token.MUL {
				return
			}
			ia, ok := ld.X.(*ssa.IndexAddr)
			if !ok || !isSets(ia.X) {
				return
			}
			outerIdx, outerFound = ia.Index, true
		})
		// the membership lookups: sets[j][k] with j a loop counter; its start
		starts := []int64{}
		undecidable := false
		instrs(fn, func(_ *ssa.BasicBlock, _ int, in ssa.Instruction) {
			lk, ok := in.(*ssa.Lookup)
			if !ok {
				return
			}
			ld, ok := lk.X.(*ssa.UnOp)
			if !ok || ld.Op != token.MUL {
				return
			}
			ia, ok := ld.X.(*ssa.IndexAddr)
			if !ok || !isSets(ia.X) {
				return
			}
			// smallest, rest := sets[0], sets[1:]; for _, other := range rest: the loop runs over a sub-slice - its elements are
			// the sets from the sub-slice's start on
			off := int64(0)
			if sl, isSl := ia.X.(*ssa.Slice); isSl && isSets(sl.X) && sl.High == nil {
				if sl.Low != nil {
					lk, isK := sl.Low.(*ssa.Const)
					if !isK {
						undecidable = true
						return
					}
					off = lk.Int64()
				}
			}
			phi, ok := ia.Index.(*ssa.Phi)
			if !ok {
				if k, isK := ia.Index.(*ssa.Const); isK {
					starts = append(starts, k.Int64()+off)
					return
				}
				// the rotated form of `for _, x := range s`: index = counter + 1 with the counter starting at -1
				if bo, isBO := ia.Index.(*ssa.BinOp); isBO && bo.Op == token.ADD && isConstInt(bo.Y, 1) {
					if p2, isP := bo.X.(*ssa.Phi); isP {
						for _, e := range p2.Edges {
							if isConstInt(e, -1) {
								starts = append(starts, off)
								return
							}
						}
					}
				}
				undecidable = true
				return
			}
			found := false
			for _, e := range phi.Edges {
				if k, isK := e.(*ssa.Const); isK {
					starts = append(starts, k.Int64()+off)
					found = true
				}
			}
			if !found {
				undecidable = true
			}
		})
		// the membership test lives in a helper that is handed the other sets as a sub-slice (inAll(sets[1:], k)): the sub-slice's
		// start, provided the helper looks at every element it is given
		instrs(fn, func(_ *ssa.BasicBlock, _ int, in ssa.Instruction) {
			call, ok := in.(*ssa.Call)
			if !ok {
				return
			}
			cal := staticCallee(&call.Call)
			// xslices.All(sets[1:], func(other S) bool {...}): the module's own universal quantifier looks at every element
			isAll := cal != nil && fname(cal) == "All" && calleePkgPath(cal) == modPath+"/xslices"
			if cal == nil || cal.Blocks == nil || (rootFn(cal).Pkg != rootFn(fn).Pkg && !isAll) {
				return
			}
			for ai, a := range call.Call.Args {
				sl, ok := a.(*ssa.Slice)
				if !ok || !isSets(sl.X) || sl.High != nil || ai >= len(cal.Params) {
					continue
				}
				if isAll {
					lo := int64(0)
					if sl.Low != nil {
						k, isK := sl.Low.(*ssa.Const)
						if !isK {
							undecidable = true
							continue
						}
						lo = k.Int64()
					}
					starts = append(starts, lo)
					continue
				}
				lo := int64(0)
				if sl.Low != nil {
					k, isK := sl.Low.(*ssa.Const)
					if !isK {
						undecidable = true
						continue
					}
					lo = k.Int64()
				}
				// the helper ranges over its whole parameter
				whole := false
				instrs(cal, func(_ *ssa.BasicBlock, _ int, hin ssa.Instruction) {
					if ia, ok := hin.(*ssa.IndexAddr); ok && ia.X == ssa.Value(cal.Params[ai]) {
						if phi, ok := ia.Index.(*ssa.Phi); ok {
							for _, e := range phi.Edges {
								if isConstInt(e, 0) || isConstInt(e, -1) {
									whole = true
								}
							}
						}
						if bo, ok := ia.Index.(*ssa.BinOp); ok && bo.Op == token.ADD {
							whole = true // the rotated form of `for _, x := range p`
						}
					}
				})
				if whole {
					starts = append(starts, lo)
				} else {
					undecidable = true
				}
			}
		})
		if !outerFound && len(starts) == 0 {
			// written with library quantifiers / helpers: decided by intersect-universal
			continue
		}
		n++
		key := name + "|membership-covers-every-other-set"
		if !outerFound || undecidable || len(starts) == 0 {
			r.undecided(key, fn.Pos(), "the set ranged over / the start of the membership loop could not be identified")
			continue
		}
		minStart := starts[0]
		for _, s := range starts {
			if s < minStart {
				minStart = s
			}
		}
		good := minStart == 0
		if k, isK := outerIdx.(*ssa.Const); isK && k.Int64() == 0 && minStart <= 1 {
			good = true
		}
		r.ok(good, key, fn.Pos(), "the keys of sets["+path(outerIdx)+"] are tested against sets["+itoa(int(minStart))+":] only: a set in front of that is never consulted (with the set picked by a computed index, sets[0] is skipped whenever it is not the one picked), so keys it lacks stay in the result")
	}
	if n == 0 {
		r.discharged("xmaps|intersect-loops", token.NoPos, "no hand-written membership loop (decided by intersect-universal)")
	}
}

// false-only-for-no-sets (C19-r9m3): Intersects(sets...) is true exactly when Intersection(sets...) is non-empty, and the
// intersection of ONE set is that set. The only number of sets for which the answer is false without looking at any key is
// zero: an entry test that also answers false for a single set (len(sets) < 2) is wrong for every non-empty single set.
func ruleFalseOnlyForNoSets(c *Ctx, r *R) {
	fn := c.fn("xmaps.Intersects")
	if fn == nil {
		r.undecided("xmaps.Intersects|missing", token.NoPos, "anchor not found")
		return
	}
	setsP := fn.Params[0]
	n := 0
	instrs(fn, func(b *ssa.BasicBlock, _ int, in ssa.Instruction) {
		ret, ok := in.(*ssa.Return)
		if !ok || len(ret.Results) != 1 || reaches(b, b) {
			return
		}
		k, isK := returnedValue(ret, 0).(*ssa.Const)
		if !isK || k.Value == nil || k.Value.Kind() != constant.Bool || constant.BoolVal(k.Value) {
			return
		}
		// guards on len(sets) that lead here, evaluated for 0..3 sets
		var lenGuards []cmpFact
		for _, g := range guardsOf(b) {
			cf, ok := g.asCmp()
			if !ok {
				continue
			}
			if isLenOf(cf.x, setsP) {
				if _, isC := cf.y.(*ssa.Const); isC {
					lenGuards = append(lenGuards, cf)
				}
			}
		}
		if len(lenGuards) == 0 {
			return
		}
		// is this return reached before any key was looked at? (no Range / Lookup dominates it)
		looked := false
		instrs(fn, func(b2 *ssa.BasicBlock, _ int, in2 ssa.Instruction) {
			switch y := in2.(type) {
			case *ssa.Range, *ssa.Lookup:
				if b2.Dominates(b) {
					looked = true
				}
			case *ssa.Call:
				// the looking is done by a helper that is handed the sets (forEachCommon(sets, ...))
				if b2.Dominates(b) || b2 == b {
					for _, a := range y.Call.Args {
						if types.Identical(a.Type(), setsP.Type()) {
							if cal := staticCallee(&y.Call); cal != nil && cal.Blocks != nil && curCtx.inModule(cal) && rootFn(cal).Pkg == rootFn(fn).Pkg {
								looked = true
							}
						}
					}
				}
			}
		})
		if looked {
			return
		}
		n++
		admits := []int{}
		for cnt := 0; cnt <= 3; cnt++ {
			all := true
			for _, cf := range lenGuards {
				y := cf.y.(*ssa.Const)
				if !constant.Compare(constant.MakeInt64(int64(cnt)), cf.op, y.Value) {
					all = false
				}
			}
			if all {
				admits = append(admits, cnt)
			}
		}
		good := len(admits) == 1 && admits[0] == 0
		desc := ""
		for _, a := range admits {
			desc += itoa(a) + " "
		}
		r.ok(good, "xmaps.Intersects|false-without-looking#"+itoa(n), retPos(ret), "Intersects answers false without looking at any key for "+strings.TrimSpace(desc)+" sets: only for no sets at all is that right - a single non-empty set intersects (its intersection is itself)")
	})
	if n == 0 {
		r.undecided("xmaps.Intersects|entry-test", fn.Pos(), "no constant-false return under a test of len(sets) found")
	}
}

var _ = late(func() {
	properties["C10"].Rules = append(properties["C10"].Rules,
		&Rule{ID: "C10.halves-wired", Floor: 6, Clause: "every channel- and pointer-typed field of the PipeSender and the pipeStream that Pipe builds is set where they are built (both halves share the data channel, the two done channels and the error cell): no arm of Send / TrySend / Next waits on a nil channel", Run: ruleHalvesWired})
	properties["C07"].Rules = append(properties["C07"].Rules,
		&Rule{ID: "C07.chunk-full-test", Floor: 2, Clause: "in iterator.Chunk and stream.Chunk every append to the chunk under construction is followed by the comparison of its length with chunkSize before the source is asked again (typestate): chunks of exactly chunkSize items for every chunkSize >= 1, and no pull beyond the chunk being built", Run: ruleChunkFullTest})
	properties["C18"].Rules = append(properties["C18"].Rules,
		&Rule{ID: "C18.typed-results-from-map", Floor: 4, Clause: "the V a typed Map method returns is the type-asserted result of the sync.Map call or the zero value, on every return - never one of the caller's own arguments", Run: ruleTypedResultsFromMap})
	properties["C16"].Rules = append(properties["C16"].Rules,
		&Rule{ID: "C16.lock-order", Floor: 1, Clause: "ContextCond acquires c.L only with its own mutex m not held (lock order L before m, as on every other path)", Run: ruleCondLockOrder})
	properties["C19"].Rules = append(properties["C19"].Rules,
		&Rule{ID: "C19.withstack-no-interception", Floor: 2, Clause: "the WithStack wrapper type defines neither Is nor As: errors.Is / errors.As reach the wrapped error through Unwrap only", Run: ruleWithStackNoInterception},
		&Rule{ID: "C19.intersect-covers-all", Floor: 2, Clause: "in xmaps.Intersection / Intersects the membership loop covers every set other than the one whose keys are ranged over (start 1 only when that one is sets[0])", Run: ruleIntersectCoversAll},
		&Rule{ID: "C19.false-only-for-no-sets", Floor: 1, Clause: "xmaps.Intersects answers false without looking at a key only for zero sets", Run: ruleFalseOnlyForNoSets})
	// C15-r9m2: the deque iterator's position wraps with a mask instead of the modulus (sibling rule of C04)
	properties["C15"].Rules = append(properties["C15"].Rules,
		&Rule{ID: "C15.position-mod-reduced", Floor: 1, Clause: "same rule as C04.index-discipline restricted to dequeIterator.Next: the iterator's position is advanced modulo len(d.a) (a mask is a reduction only for power-of-two buffers, which Grow / Shrink do not keep): on an unchanged deque every element is yielded once, front to back", Run: subRule(ruleDequeIndexDiscipline, "container/deque.dequeIterator.Next|")})
	// C08-r9m3 / C08-r9m2: sibling rules (C14.order: nothing is yielded beyond a gap; C11.batch-timer: no empty batch)
	properties["C08"].Rules = append(properties["C08"].Rules,
		&Rule{ID: "C08.results-in-order", Floor: 4, Clause: "same rule as C14.order restricted to the consumer side of MapStream: a result is popped from the reorder heap only when it carries exactly the next expected index - when a call of f has failed, nothing beyond the failed item is yielded before the error", Run: subRule(ruleMapOrder, "parallel.mapStream.Next|")},
		&Rule{ID: "C08.no-empty-batch", Floor: 3, Clause: "same rule as C11.batch-timer: no send of an empty batch is reachable in the batcher loop (a timer left armed across a flush fires into an empty batch, which a Next that had expired then injects into the output)", Run: ruleBatchTimer})
})

// tail-clear-lockstep (C01-r9m2): a node with n keys has n+1 children. Where one function clears the vacated tail slot of a
// node's keys AND of its children (an entry moved away to a sibling), the child slot cleared is one to the right of the key slot
// cleared - also when the decrement of n has been moved in front of the clears (n-- first turns keys[n-1] into keys[n], but
// children[n] into children[n+1]: clearing children[n] then wipes a child that is still in use and leaves the moved one behind).
// Decided within one basic block, with the stores to n in between taken into account.
func ruleTailClearLockstep(c *Ctx, r *R) {
	n := 0
	fns := c.funcsOfPkg(treeRel)
	sort.Slice(fns, func(i, j int) bool { return c.nameOf(fns[i]) < c.nameOf(fns[j]) })
	for _, fn := range fns {
		if fn.Blocks == nil {
			continue
		}
		for _, b := range fn.Blocks {
			// running offset of X.n relative to its value at the block's start, per node path
			delta := map[string]int{}
			known := map[string]bool{}
			type clr struct {
				abs int
				pos token.Pos
			}
			keyClr := map[string][]clr{}
			childClr := map[string][]clr{}
			loadDelta := map[ssa.Value]int{} // load of X.n -> delta at the time of the load
			loadNode := map[ssa.Value]string{}
			for _, in := range b.Instrs {
				switch x := in.(type) {
				case *ssa.UnOp:
					if x.Op == token.MUL {
						if fa, ok := x.X.(*ssa.FieldAddr); ok && fieldName(fa.X.Type(), fa.Field) == "n" && isNamedTypeDeep(fa.X.Type(), treeRel, "node") {
							np := path(fa.X)
							loadDelta[x] = delta[np]
							loadNode[x] = np
						}
					}
				case *ssa.Store:
					if fa, ok := x.Addr.(*ssa.FieldAddr); ok && fieldName(fa.X.Type(), fa.Field) == "n" && isNamedTypeDeep(fa.X.Type(), treeRel, "node") {
						np := path(fa.X)
						switch {
						case isFieldIncDec(x, "n", +1):
							delta[np]++
						case isFieldIncDec(x, "n", -1):
							delta[np]--
						default:
							known[np] = true // (marks "unknown": the offset is lost)
							delta[np] = 1 << 20
						}
						continue
					}
					ia, ok := x.Addr.(*ssa.IndexAddr)
					if !ok {
						continue
					}
					fa, ok := ia.X.(*ssa.FieldAddr)
					if !ok || !isNamedTypeDeep(fa.X.Type(), treeRel, "node") {
						continue
					}
					fld := fieldName(fa.X.Type(), fa.Field)
					if fld != "keys" && fld != "children" {
						continue
					}
					if !(isNilConst(x.Val) || isZeroValueR7(x.Val)) {
						continue
					}
					np := path(fa.X)
					// the index: n, n-1, n+1 of the same node (through conversions)
					abs, ok := nodeCountIndex(ia.Index, np, loadDelta, loadNode)
					if !ok {
						continue
					}
					if fld == "keys" {
						keyClr[np] = append(keyClr[np], clr{abs, x.Pos()})
					} else {
						childClr[np] = append(childClr[np], clr{abs, x.Pos()})
					}
				}
			}
			var nodes []string
			for np := range keyClr {
				if len(childClr[np]) > 0 {
					nodes = append(nodes, np)
				}
			}
			sort.Strings(nodes)
			for _, np := range nodes {
				if delta[np] >= 1<<19 {
					continue
				}
				for i, kc := range keyClr[np] {
					if i >= len(childClr[np]) {
						break
					}
					cc := childClr[np][i]
					n++
					r.ok(cc.abs == kc.abs+1, c.nameOf(fn)+"|"+np+"|tail-clear#"+itoa(n), cc.pos, "the vacated key slot of "+np+" is cleared at n"+signed(kc.abs)+" and the vacated child slot at n"+signed(cc.abs)+" (n = the count at the start of the block): the child slot must be one to the right of the key slot - here a child that is still in use is wiped and the moved one stays behind")
				}
			}
		}
	}
	if n == 0 {
		r.discharged("tree|tail-clears", token.NoPos, "no function clears the tail key slot and the tail child slot of one node by direct stores in one block (through removeOne: decided by remove-zeroes-tail / children-one-more)")
	}
}

func signed(k int) string {
	if k >= 0 {
		return "+" + itoa(k)
	}
	return "-" + itoa(-k)
}

// nodeCountIndex: idx is int(X.n) + k for the node with path np: the offset relative to the count at the block's start.
func nodeCountIndex(idx ssa.Value, np string, loadDelta map[ssa.Value]int, loadNode map[ssa.Value]string) (int, bool) {
	off := 0
	v := idx
	for d := 0; d < 6; d++ {
		switch x := v.(type) {
		case *ssa.Convert:
			v = x.X
			continue
		case *ssa.ChangeType:
			v = x.X
			continue
		case *ssa.BinOp:
			k, isK := x.Y.(*ssa.Const)
			if !isK || k.Value == nil {
				return 0, false
			}
			switch x.Op {
			case token.ADD:
				off += int(k.Int64())
			case token.SUB:
				off -= int(k.Int64())
			default:
				return 0, false
			}
			v = x.X
			continue
		}
		break
	}
	dl, ok := loadDelta[v]
	if !ok || loadNode[v] != np || dl >= 1<<19 {
		return 0, false
	}
	return dl + off, true
}

var _ = late(func() {
	properties["C01"].Rules = append(properties["C01"].Rules,
		&Rule{ID: "C01.seek-always-positions", Floor: 3, Clause: "same rule as C02.seek-always-positions: cursor.seek stores the cursor's node on every path, also when the tree is empty - a bounded Range on an emptied map must not resume from a stale position", Run: func(c *Ctx, r *R) {
			for _, rr := range properties["C02"].Rules {
				if rr.ID == "C02.seek-always-positions" {
					rr.Run(c, r)
				}
			}
		}},
		&Rule{ID: "C01.tail-clear-lockstep", Floor: 1, Clause: "where one block clears the vacated tail key slot and the vacated tail child slot of a node, the child slot is the key slot + 1 (stores to n in between accounted for)", Run: ruleTailClearLockstep})
	properties["C03"].Rules = append(properties["C03"].Rules,
		&Rule{ID: "C03.tail-clear-lockstep", Floor: 1, Clause: "same rule as C01.tail-clear-lockstep: a child pointer that is still in use is never wiped, and a moved child is not left behind in the donor", Run: ruleTailClearLockstep})
	properties["C12"].Rules = append(properties["C12"].Rules,
		&Rule{ID: "C12.publish-before-signal", Floor: 1, Clause: "same rule as C10.publish-before-signal restricted to PipeSender.Close (the pipe through which stream.Merge reports an input's error): the error is stored before senderDone is closed", Run: subRule(rulePipePublish, "stream.PipeSender.Close|")})
	properties["C14"].Rules = append(properties["C14"].Rules,
		&Rule{ID: "C14.worker-err-first", Floor: 1, Clause: "same rule as C08.err-propagate restricted to MapStream's goroutines: between a failing call of f and the return of its error nothing else can be returned - in particular the worker does not hand the failed item's (zero) result to the consumer and then leave through the cancellation arm", Run: subRule(ruleErrPropagate, "parallel.MapStream")})
})

// cursor-tree-fixed (C02-r9m3): a cursor reaches its tree through the pointer it was created with; lost() dereferences it first
// thing. That pointer is written where the cursor is made and nowhere else - in particular an iterator never replaces its
// whole cursor by the zero value when it is exhausted ("to release the tree"): the following Next would dereference nil
// instead of reporting exhaustion again.
func ruleCursorTreeFixed(c *Ctx, r *R) {
	n := 0
	for _, fn := range c.funcsOfPkg(treeRel) {
		if fn.Blocks == nil {
			continue
		}
		k := 0
		instrs(fn, func(_ *ssa.BasicBlock, _ int, in ssa.Instruction) {
			st, ok := in.(*ssa.Store)
			if !ok {
				return
			}
			// (a) a store to cursor.t
			if fa, ok := st.Addr.(*ssa.FieldAddr); ok && isNamedTypeDeep(fa.X.Type(), treeRel, "cursor") && fieldName(fa.X.Type(), fa.Field) == "t" {
				n++
				k++
				fresh := false
				if al, isAl := resolveVal(fa.X).(*ssa.Alloc); isAl && al.Parent() == fn {
					fresh = true // the cursor under construction
				}
				r.ok(fresh && !isNilConst(st.Val), c.nameOf(fn)+"|cursor.t-store#"+itoa(k), st.Pos(), "the cursor's tree pointer is written outside the cursor's construction (or set to nil): lost() dereferences it before anything else, so the next use of the cursor panics instead of reporting where it stands")
				return
			}
			// (b) a whole cursor replaced by a value that does not come from a cursor (the zero value)
			pt, ok := st.Addr.Type().Underlying().(*types.Pointer)
			if !ok || !isNamedType(pt.Elem(), treeRel, "cursor") {
				return
			}
			if _, isAl := st.Addr.(*ssa.Alloc); isAl {
				return // initialising a local
			}
			n++
			k++
			fromCursor := false
			switch v := st.Val.(type) {
			case *ssa.UnOp:
				fromCursor = v.Op == token.MUL // a copy of another cursor (Forward(): iter.c = *c)
			case *ssa.Call:
				fromCursor = true // what a constructor returned
			}
			if isZeroStruct(st.Val) || isZeroValueR7(st.Val) {
				fromCursor = false
			}
			r.ok(fromCursor, c.nameOf(fn)+"|cursor-replaced#"+itoa(k), st.Pos(), "a cursor held in a field is replaced as a whole by a value that is not a cursor's (the zero value): its tree pointer is nil afterwards, and the next Next of the exhausted iterator dereferences it instead of reporting exhaustion again")
		})
	}
	if n == 0 {
		r.undecided("tree|cursor-stores", token.NoPos, "no store to a cursor's tree pointer found")
	}
}

var _ = late(func() {
	properties["C02"].Rules = append(properties["C02"].Rules,
		&Rule{ID: "C02.cursor-tree-fixed", Floor: 1, Clause: "a cursor's tree pointer is stored only where the cursor is constructed, and a cursor kept in an iterator is only ever replaced by a copy of another cursor: an exhausted iterator keeps a usable cursor and reports exhaustion again", Run: ruleCursorTreeFixed})
})

// range-wrappers-live (C02-r9m2): what Map / Set hand out for Range, RangeReverse and Iterate is the tree's live cursor iterator
// (for Set: mapped to the keys) on every path. An answer prepared at creation time - a one-element slice for a single-key
// range, an empty iterator when the key is absent right now - is a snapshot: a Put, Delete or overwrite between the call and
// the first Next is not seen.
func ruleRangeWrappersLive(c *Ctx, r *R) {
	n := 0
	for _, tn := range []string{"Map", "Set", "btree"} { // btree.Range / RangeReverse themselves: no early Empty() for a tree that is empty now
		meths := c.methodsOf(treeRel, tn)
		var names []string
		for mn := range meths {
			names = append(names, mn)
		}
		sort.Strings(names)
		for _, mn := range names {
			if mn != "Range" && mn != "RangeReverse" && mn != "Iterate" && mn != "Cursor" {
				continue
			}
			if tn == "btree" && mn == "Cursor" {
				continue // the cursor itself, not an iterator
			}
			fn := meths[mn]
			k := 0
			instrs(fn, func(_ *ssa.BasicBlock, _ int, in ssa.Instruction) {
				ret, ok := in.(*ssa.Return)
				if !ok || len(ret.Results) != 1 {
					return
				}
				k++
				n++
				bad := ""
				var live func(v ssa.Value, d int) bool
				var chain []*ssa.Call // the helpers of the package being looked through (stopAbove(c.Forward(), upper))
				live = func(v ssa.Value, d int) bool {
					if d > 5 {
						return false
					}
					switch x := v.(type) {
					case *ssa.Parameter:
						a := argOf(x, chain)
						if a == ssa.Value(x) {
							return false
						}
						saved := chain
						chain = nil
						res := live(a, d+1)
						chain = saved
						return res
					case *ssa.MakeInterface:
						return live(x.X, d+1)
					case *ssa.ChangeInterface:
						return live(x.X, d+1)
					case *ssa.Phi:
						for _, e := range x.Edges {
							if !live(e, d+1) {
								return false
							}
						}
						return len(x.Edges) > 0
					case *ssa.Call:
						cal := staticCallee(&x.Call)
						if cal == nil {
							return false
						}
						// the tree's own iterator constructors, or a sibling wrapper method of Map / Set
						if cal.Signature.Recv() != nil && (isNamedTypeDeep(cal.Signature.Recv().Type(), treeRel, "btree") || isNamedTypeDeep(cal.Signature.Recv().Type(), treeRel, "cursor") ||
							isNamedTypeDeep(cal.Signature.Recv().Type(), treeRel, "Map") || isNamedTypeDeep(cal.Signature.Recv().Type(), treeRel, "Set")) {
							switch fname(cal) {
							case "Range", "RangeReverse", "Iterate", "Forward", "Backward", "Cursor":
								return true
							}
						}
						// iterator.Map(<live>, f): a view of a live iterator
						if (fname(cal) == "Map" || fname(cal) == "While") && calleePkgPath(cal) != "" && strings.HasSuffix(calleePkgPath(cal), "/iterator") && len(x.Call.Args) > 0 {
							return live(x.Call.Args[0], d+1)
						}
						// a local helper of the package that only wraps (keysOf(iter))
						if cal.Blocks != nil && rootFn(cal).Pkg == rootFn(fn).Pkg {
							okAll := true
							any := false
							saved := chain
							chain = append(append([]*ssa.Call{}, chain...), x)
							for _, rv := range returnedBy(cal, 0) {
								any = true
								if !live(rv, d+1) {
									okAll = false
								}
							}
							chain = saved
							return any && okAll
						}
						bad = calleeName(&x.Call)
						return false
					case *ssa.Alloc:
						// &keyIterator[T]{pairs: <live>} with a hand-written Next that pulls once from that field per call: a
						// view of the live iterator, like iterator.Map
						if inner, nx := iterViewOf(c, x); inner != nil && nx != nil {
							return live(inner, d+1)
						}
						// fwd := &forwardIterator{c: t.Cursor()} positioned in place: an object of the very type cursor.Forward /
						// Backward build
						for _, ctor := range []string{"Forward", "Backward"} {
							if cf := c.fn(treeRel + ".cursor." + ctor); cf != nil {
								for _, rv := range returnedBy(cf, 0) {
									v2 := rv
									if mi, isMI := v2.(*ssa.MakeInterface); isMI {
										v2 = mi.X
									}
									if types.Identical(origType(derefType(v2.Type())), origType(derefType(x.Type()))) {
										return true
									}
								}
							}
						}
						return false
					case *ssa.UnOp:
						if x.Op == token.MUL {
							if cell := cellOf(x.X); cell != nil {
								sts := storesTo(cell)
								for _, st := range sts {
									if !live(st.Val, d+1) {
										return false
									}
								}
								return len(sts) > 0
							}
						}
					}
					return false
				}
				good := live(returnedValue(ret, 0), 0)
				what := "something other than the tree's cursor iterator"
				if bad != "" {
					what = "the result of " + bad
				}
				r.ok(good, treeRel+"."+tn+"."+mn+"|live#"+itoa(k), retPos(ret), tn+"."+mn+" hands out "+what+": an answer prepared when the iterator is created is a snapshot - what is put, deleted or overwritten before the first Next is not seen, although every Next must yield an entry that is present at that moment with its current value")
			})
		}
	}
	if n == 0 {
		r.undecided("tree|range-wrappers", token.NoPos, "no Range / RangeReverse / Iterate wrapper found")
	}
}

var _ = late(func() {
	properties["C02"].Rules = append(properties["C02"].Rules,
		&Rule{ID: "C02.range-wrappers-live", Floor: 6, Clause: "Map / Set Range, RangeReverse, Iterate (and Cursor) return the tree's live cursor iterator (Set: mapped to keys) on every return, never an iterator over data collected at creation", Run: ruleRangeWrappersLive})
	properties["C01"].Rules = append(properties["C01"].Rules,
		&Rule{ID: "C01.range-wrappers-live", Floor: 6, Clause: "same rule as C02.range-wrappers-live: range iteration yields the entries inside the bounds with their current values", Run: ruleRangeWrappersLive})
})

// split-left-guards-agree (C03-r9m2): in overfill the left half IS the node being split; its keys/values and its children are
// rewritten from the amalgam. The extra entry disturbs key slot i when extraIdx <= i and child slot i when extraIdx+1 <= i;
// over the left half's ranges (keys 0..median-1, children 0..median) both conditions reduce to the SAME test, extraIdx < median.
// So whatever condition (beyond "is not a leaf") the key rewrite is placed under, the child rewrite is under the same one: a
// child rewrite skipped in a case in which the keys are rewritten leaves the old child in place and orphans the new subtree.
func ruleSplitLeftGuardsAgree(c *Ctx, r *R) {
	fn := bt(c, "overfill")
	if fn == nil {
		r.undecided("tree.btree.overfill|missing", token.NoPos, "anchor not found")
		return
	}
	// the left half is the node being split (x, rebound to the parent when the split cascades): any node that is not the
	// freshly allocated right half
	isLeft := func(v ssa.Value) bool {
		_, fresh := resolveVal(v).(*ssa.Alloc)
		return !fresh
	}
	condsOf := func(b *ssa.BasicBlock) []string {
		var out []string
		for _, g := range guardsOf(b) {
			// loop conditions (they involve a loop counter) and leaf tests are not what is compared
			v, val := g.boolVal()
			if call, ok := v.(*ssa.Call); ok {
				if cal := staticCallee(&call.Call); cal != nil && fname(cal) == "leaf" {
					continue
				}
			}
			s := path(v)
			if cf, ok := g.asCmp(); ok {
				if _, isPhi := resolveVal(cf.x).(*ssa.Phi); isPhi {
					continue
				}
				if _, isPhi := resolveVal(cf.y).(*ssa.Phi); isPhi {
					continue
				}
				s = path(cf.x) + " " + cf.op.String() + " " + path(cf.y)
			} else if !val {
				s = "!(" + s + ")"
			}
			if strings.Contains(s, "leaf") {
				continue
			}
			out = append(out, s)
		}
		sort.Strings(out)
		return out
	}
	var keyConds, childConds [][]string
	for _, d := range deepInstrs(fn, 2) { // (the fill loops may live in a helper called once per half: left.fillFrom(&all, 0, median, leaf))
		st, ok := d.in.(*ssa.Store)
		if !ok {
			continue
		}
		b := st.Block()
		ia, ok := st.Addr.(*ssa.IndexAddr)
		if !ok {
			continue
		}
		fa, ok := ia.X.(*ssa.FieldAddr)
		if !ok || !isNamedTypeDeep(fa.X.Type(), treeRel, "node") || !isLeft(argOf(fa.X, d.calls)) || !reaches(b, b) {
			continue
		}
		if _, isPhi := resolveVal(ia.Index).(*ssa.Phi); !isPhi {
			continue
		}
		conds := condsOf(b)
		for _, site := range d.calls {
			conds = append(conds, condsOf(site.Block())...)
		}
		sort.Strings(conds)
		switch fieldName(fa.X.Type(), fa.Field) {
		case "keys":
			keyConds = append(keyConds, conds)
		case "children":
			childConds = append(childConds, conds)
		}
	}
	if len(keyConds) == 0 || len(childConds) == 0 {
		r.undecided("tree.btree.overfill|left-half-rewrite", fn.Pos(), "the loops that rewrite the left half's keys and children were not found")
		return
	}
	good := true
	for _, kc := range keyConds {
		for _, cc := range childConds {
			if strings.Join(kc, " & ") != strings.Join(cc, " & ") {
				good = false
			}
		}
	}
	r.ok(good, "tree.btree.overfill|left-half-guards-agree", fn.Pos(), "the left half's keys are rewritten under {"+strings.Join(keyConds[0], " & ")+"} but its children under {"+strings.Join(childConds[0], " & ")+"}: over the left half both are disturbed by the new entry in exactly the same cases (extraIdx < median), so in a case where only one of them is rewritten the old child stays in place and the freshly split-off subtree is referenced by nobody")
}

var _ = late(func() {
	properties["C03"].Rules = append(properties["C03"].Rules,
		&Rule{ID: "C03.split-left-guards-agree", Floor: 1, Clause: "in overfill the rewrite of the left half's children is placed under the same condition (apart from the leaf test) as the rewrite of its keys and values", Run: ruleSplitLeftGuardsAgree})
	properties["C01"].Rules = append(properties["C01"].Rules,
		&Rule{ID: "C01.split-left-guards-agree", Floor: 1, Clause: "same rule as C03.split-left-guards-agree: a child left in place by a split puts keys on two search paths and hides the new leaf from Get", Run: ruleSplitLeftGuardsAgree})
})

// C04.wrapped-copy-nonempty (seed C04-r10m3): in resize the two-piece copy of a wrapped deque slices the new buffer at
// len(d.a)-d.front. For an empty deque (front 0, back -1) the "wrapped" test front > back is true as well, and that offset is
// the old length - past the end of a smaller new buffer: Shrink on a drained deque panics. The slice of the new buffer with a
// computed low bound must therefore sit under a test that the deque holds items.
var _ = late(func() {
	properties["C04"].Rules = append(properties["C04"].Rules,
		&Rule{ID: "C04.wrapped-copy-nonempty", Floor: 1, Clause: "in resize the second piece of the wrapped copy (the new buffer sliced at a computed offset) is reached only under a test that the deque holds items (back != -1, Len() > 0): an empty deque also has front > back, and the offset is then the whole old length - past the end of a smaller new buffer, so Shrink on a drained deque panics",
			Run: ruleWrappedCopyNonEmpty})
})

func ruleWrappedCopyNonEmpty(c *Ctx, r *R) {
	fn := c.fn("container/deque.Deque.resize")
	if fn == nil {
		r.undecided("deque.Deque.resize|missing", token.NoPos, "anchor not found")
		return
	}
	n := 0
	for _, fr := range deepFrames(fn, 2) {
		fr := fr
		instrs(fr.f, func(b *ssa.BasicBlock, _ int, in ssa.Instruction) {
			sl, ok := in.(*ssa.Slice)
			if !ok || sl.Low == nil {
				return
			}
			if _, isK := sl.Low.(*ssa.Const); isK {
				return
			}
			// of the buffer made here (not of d.a, whose own bounds hold for every state)
			fresh := false
			for _, lf := range valueLeaves(sl.X, fr.chain, 0) {
				if _, isMk := lf.v.(*ssa.MakeSlice); isMk {
					fresh = true
				}
			}
			if !fresh {
				return
			}
			// ... at an offset computed from the length of the OLD buffer (len(d.a) - d.front): that is what exceeds a smaller new
			// buffer when the deque is empty; an offset that is the length of a piece already copied (len(head)) cannot
			fromOldLen := false
			var walkLow func(v ssa.Value, d int)
			walkLow = func(v ssa.Value, d int) {
				if d > 4 {
					return
				}
				switch x := v.(type) {
				case *ssa.BinOp:
					walkLow(x.X, d+1)
					walkLow(x.Y, d+1)
				case *ssa.Call:
					if bi, isB := x.Call.Value.(*ssa.Builtin); isB && bi.Name() == "len" && len(x.Call.Args) == 1 {
						for _, lf := range valueLeaves(x.Call.Args[0], fr.chain, 0) {
							if ld, isLd := lf.v.(*ssa.UnOp); isLd && ld.Op == token.MUL {
								if fld, _, ok := rootField(ld.X); ok && fld == "a" {
									fromOldLen = true
								}
							}
						}
					}
				}
			}
			walkLow(sl.Low, 0)
			if !fromOldLen {
				return
			}
			n++
			nonEmpty := false
			gs := append([]guard{}, guardsOf(b)...)
			for _, call := range fr.chain {
				gs = append(gs, guardsOf(call.Block())...) // copyTo(newA) called under `if !d.isEmpty()`
			}
			for _, g := range gs {
				cf, ok := g.asCmp()
				if !ok {
					continue
				}
				x, y, op := cf.x, cf.y, cf.op
				if _, isK := x.(*ssa.Const); isK {
					x, y, op = y, x, flip(op)
				}
				k, isK := y.(*ssa.Const)
				if !isK || k.Value == nil {
					continue
				}
				kv := k.Int64()
				px := path(x)
				switch {
				case strings.HasSuffix(px, ".back"):
					if (op == token.NEQ && kv == -1) || (op == token.GEQ && kv == 0) || (op == token.GTR && kv == -1) {
						nonEmpty = true
					}
				default:
					// the number of items: d.Len() or a local that holds it
					isLen := false
					for _, lf := range valueLeaves(x, fr.chain, 0) {
						if call, isCall := lf.v.(*ssa.Call); isCall {
							if cal := staticCallee(&call.Call); cal != nil && fname(cal) == "Len" {
								isLen = true
							}
						}
					}
					if isLen && ((op == token.NEQ && kv == 0) || (op == token.GTR && kv == 0) || (op == token.GEQ && kv == 1)) {
						nonEmpty = true
					}
				}
			}
			r.ok(nonEmpty, "deque.Deque.resize|wrapped-copy-nonempty#"+itoa(n), sl.Pos(), "the new buffer is sliced at a computed offset without a test that the deque holds items: for an empty deque (front 0, back -1, which also reads as 'wrapped') the offset is the old length, past the end of a smaller new buffer - Shrink on a drained deque panics")
		})
	}
	if n == 0 {
		r.discharged("deque.Deque.resize|wrapped-copy-nonempty", fn.Pos(), "resize slices the new buffer at constant offsets only")
	}
}

// C03.insert-where-searched (seed C03-r10m2): Put finds the place of the new key with searchNode on the way down; the
// insertion (insertIntoLeaf / overfill, the structural mutators that are handed the key) relies on that position. A structural
// change of the node in between (an entry rotated over to a sibling "to avoid the split") moves the separator: the key can end
// up on the wrong side of it, Contains no longer finds it and the walk is out of order.
var _ = late(func() {
	for _, pid := range []string{"C03", "C01"} {
		properties[pid].Rules = append(properties[pid].Rules,
			&Rule{ID: pid + ".insert-where-searched", Floor: 1, Clause: "in Put no structural change of the tree (a call that stores keys, children, n or parent of a node and is not handed the key) happens between the search that placed the key and the insertion that is handed it: the insertion relies on the searched position, a rotation in between moves the separator past the key",
				Run: ruleInsertWhereSearched})
	}
})

func ruleInsertWhereSearched(c *Ctx, r *R) {
	fn := c.fn("container/tree.btree.Put")
	if fn == nil || len(fn.Params) < 2 {
		r.undecided("tree.btree.Put|missing", token.NoPos, "anchor not found")
		return
	}
	kP := fn.Params[1]
	// Put as a wrapper around insert(k, v) bool, which searches and inserts: judged where the search is
	for hop := 0; hop < 2; hop++ {
		direct := false
		var inner *ssa.Function
		var innerK *ssa.Parameter
		instrs(fn, func(_ *ssa.BasicBlock, _ int, in ssa.Instruction) {
			call, ok := in.(*ssa.Call)
			if !ok {
				return
			}
			cal := staticCallee(&call.Call)
			if cal == nil {
				return
			}
			if fname(cal) == "searchNode" {
				direct = true
				return
			}
			if cal.Blocks == nil || rootFn(origin(cal)).Pkg != rootFn(fn).Pkg {
				return
			}
			for ai, a := range call.Call.Args {
				if resolveVal(a) == ssa.Value(kP) && ai < len(origin(cal).Params) {
					hasSearch, hasStore := false, false
					for _, di := range deepInstrs(origin(cal), 1) {
						if c2, isC := di.in.(*ssa.Call); isC {
							if f2 := staticCallee(&c2.Call); f2 != nil && fname(f2) == "searchNode" {
								hasSearch = true
							}
							if f2 := staticCallee(&c2.Call); f2 != nil && (fname(f2) == "insertIntoLeaf" || fname(f2) == "overfill") {
								hasStore = true
							}
						}
					}
					if hasSearch && hasStore {
						inner, innerK = origin(cal), origin(cal).Params[ai]
					}
				}
			}
		})
		if direct || inner == nil {
			break
		}
		fn, kP = inner, innerK
	}
	structural := map[*ssa.Function]bool{}
	searches := map[*ssa.Function]bool{}
	classify := func(f *ssa.Function) (isStruct, isSearch bool) {
		f = origin(f)
		if v, ok := structural[f]; ok {
			return v, searches[f]
		}
		structural[f], searches[f] = false, false
		for _, di := range deepInstrs(f, 3) {
			switch x := di.in.(type) {
			case *ssa.Store:
				if fld, base, ok := rootField(x.Addr); ok && isNamedTypeDeep(base.Type(), "container/tree", "node") {
					switch fld {
					case "keys", "children", "n", "parent":
						structural[f] = true
					}
				}
			case *ssa.Call:
				if cal := staticCallee(&x.Call); cal != nil && fname(cal) == "searchNode" {
					searches[f] = true
				}
			}
		}
		if fname(f) == "searchNode" {
			searches[f] = true
		}
		return structural[f], searches[f]
	}
	pf := &PF{N: 2} // 0 = the key's place is known from a search and nothing has moved since; 1 = not (yet / any more)
	hasKey := func(call *ssa.Call) bool {
		for _, a := range call.Call.Args {
			if resolveVal(a) == ssa.Value(kP) {
				return true
			}
		}
		return false
	}
	pf.Instr = func(f *ssa.Function, in ssa.Instruction, q int) (StateSet, bool) {
		call, ok := in.(*ssa.Call)
		if !ok {
			return 0, false
		}
		cal := staticCallee(&call.Call)
		if cal == nil || cal.Blocks == nil || rootFn(origin(cal)).Pkg != rootFn(fn).Pkg {
			return 0, false
		}
		st, se := classify(cal)
		switch {
		case st && hasKey(call):
			return ss(1), true // the insertion itself: afterwards the searched position is used up
		case st:
			return ss(1), true
		case se && hasKey(call):
			return ss(0), true
		}
		return 0, false
	}
	n := 0
	pf.Visit = func(f *ssa.Function, in ssa.Instruction, before StateSet) {
		call, ok := in.(*ssa.Call)
		if !ok || f != fn {
			return
		}
		cal := staticCallee(&call.Call)
		if cal == nil || cal.Blocks == nil || rootFn(origin(cal)).Pkg != rootFn(fn).Pkg {
			return
		}
		if st, _ := classify(cal); st && hasKey(call) {
			n++
			r.ok(before == ss(0), "tree.btree.Put|insert#"+itoa(n)+":"+fname(cal), call.Pos(), fname(cal)+" is handed the key after the tree was restructured since the search that placed it (or without such a search): the key may no longer belong where it is put - it lands on the wrong side of a separator, lookups miss it and the order of the walk breaks")
		}
	}
	pf.Exits(fn, ss(1))
	if n == 0 {
		r.undecided("tree.btree.Put|insert", fn.Pos(), "no insertion that is handed the key found in Put")
	}
}

// Seed round 10: two rules that existed for a sibling property, claimed for the property the change was seeded under as well.
var _ = late(func() {
	properties["C08"].Rules = append(properties["C08"].Rules,
		&Rule{ID: "C08.publish-before-signal", Floor: 1, Clause: "same rule as C10.publish-before-signal restricted to PipeSender.Close, the pipe through which stream.Merge hands an input's error to the consumer: the error is stored before senderDone is closed - closed first, a receiver that wakes on the close reads the still-nil error and reports a clean End, the input's error is lost", Run: subRule(rulePipePublish, "stream.PipeSender.Close|")})
	properties["C01"].Rules = append(properties["C01"].Rules,
		&Rule{ID: "C01.thresholds", Floor: 6, Clause: "same rule as C03.thresholds: steal / merge are reached for the node that was actually drained (removeRightmost reports the leaf it took the predecessor from when THAT leaf is under-full): a leaf left under-full and unreported empties out while it stays linked, and the walk yields a phantom entry", Run: ruleTreeThresholds})
})

// unlock-held (seed C20-r10m2, C17-r10m3): a mutex that a function has locked itself is released exactly once on every way out.
// Decided on the must-held lockset of the function: an Unlock / RUnlock that follows the function's own Lock / RLock of the
// same mutex - written out or deferred - must find it held (a second release is a fatal "unlock of unlocked mutex"), and no
// return may leave it held unless the function is one that hands the lock to its caller (no return releases it at all).
func ruleUnlockHeld(pkgRel string) func(c *Ctx, r *R) {
	return func(c *Ctx, r *R) {
		fns := c.funcsOfPkg(pkgRel)
		sort.Slice(fns, func(i, j int) bool { return c.nameOf(fns[i]) < c.nameOf(fns[j]) })
		for _, fn := range fns {
			if fn.Blocks == nil {
				continue
			}
			held := locksIn(fn, lockset{})
			type acq struct {
				m  string
				in ssa.Instruction
			}
			var acqs []acq
			callerLock := map[string]bool{}
			instrs(fn, func(_ *ssa.BasicBlock, _ int, in ssa.Instruction) {
				if call, ok := in.(*ssa.Call); ok {
					if m, op := lockEvent(&call.Call); m != "" && (op == "Lock" || op == "RLock") {
						acqs = append(acqs, acq{m, in})
						if call.Call.IsInvoke() {
							callerLock[m] = true // a sync.Locker handed in by the user (ContextCond.L): Wait returns with it held by contract
						}
					}
				}
			})
			if len(acqs) == 0 {
				continue
			}
			after := func(m string, in ssa.Instruction) bool {
				for _, a := range acqs {
					if a.m == m && a.in.Block().Dominates(in.Block()) && (a.in.Block() != in.Block() || idxIn(a.in) < idxIn(in)) {
						return true
					}
				}
				return false
			}
			n := 0
			name := c.nameOf(fn)
			releasedSomewhere := map[string]bool{}
			deferred := map[string][]*ssa.Defer{}
			instrs(fn, func(_ *ssa.BasicBlock, _ int, in ssa.Instruction) {
				switch x := in.(type) {
				case *ssa.Call:
					m, op := lockEvent(&x.Call)
					if m == "" || (op != "Unlock" && op != "RUnlock") {
						return
					}
					releasedSomewhere[m] = true
					if !after(m, in) {
						return
					}
					n++
					_, h := held[in][m]
					r.ok(h, name+"|release "+m+"#"+itoa(n), x.Pos(), op+" of "+m+", which this function locked itself, on a path on which it is not held any more (already released): unlocking an unlocked mutex is a fatal error")
				case *ssa.Defer:
					m, op := lockEvent(&x.Call)
					if m == "" || (op != "Unlock" && op != "RUnlock") {
						return
					}
					releasedSomewhere[m] = true
					if after(m, in) {
						deferred[m] = append(deferred[m], x)
					}
				}
			})
			instrs(fn, func(b *ssa.BasicBlock, _ int, in ssa.Instruction) {
				rd, ok := in.(*ssa.RunDefers)
				if !ok {
					return
				}
				for m, ds := range deferred {
					for _, d := range ds {
						if !d.Block().Dominates(b) {
							continue
						}
						n++
						_, h := held[rd][m]
						r.ok(h, name+"|deferred-release "+m+"#"+itoa(n), d.Pos(), "the deferred release of "+m+" runs at an exit that has already released it: unlocking an unlocked mutex is a fatal error")
					}
				}
			})
			// no way out with the function's own lock still held (unless it is deferred, or the function never releases it: an
			// acquiring helper)
			instrs(fn, func(b *ssa.BasicBlock, _ int, in ssa.Instruction) {
				ret, ok := in.(*ssa.Return)
				if !ok || b.Comment == "recover" {
					return
				}
				for m := range held[ret] {
					if !releasedSomewhere[m] || callerLock[m] {
						continue
					}
					isDeferred := false
					for _, d := range deferred[m] {
						if d.Block().Dominates(b) {
							isDeferred = true
						}
					}
					if isDeferred {
						continue
					}
					mine := false
					for _, a := range acqs {
						if a.m == m {
							mine = true
						}
					}
					if !mine {
						continue
					}
					n++
					r.violated(name+"|leaves-held "+m+"#"+itoa(n), retPos(ret), "a path returns with "+m+" still held (the function releases it on its other paths): the next Lock of it - Stop, StopAndWait, the next caller - blocks for ever")
				}
			})
		}
	}
}

var _ = late(func() {
	properties["C20"].Rules = append(properties["C20"].Rules,
		&Rule{ID: "C20.unlock-held", Floor: 1, Clause: "in xtime a mutex a function locked itself is released exactly once on every way out: no Unlock (written out or deferred) where it is already released - a stale timer callback that unlocks twice kills the process - and no return with it still held", Run: ruleUnlockHeld("xtime")})
	properties["C17"].Rules = append(properties["C17"].Rules,
		&Rule{ID: "C17.unlock-held", Floor: 2, Clause: "same rule as C20.unlock-held over xsync: in particular the refusing path of Group.spawn (group already stopped) lets the read lock go - left held, the next Stop / StopAndWait blocks for ever in g.m.Lock()", Run: ruleUnlockHeld("xsync")})
	properties["C16"].Rules = append(properties["C16"].Rules,
		&Rule{ID: "C16.unlock-held", Floor: 2, Clause: "same rule as C20.unlock-held over xsync: ContextCond's methods release c.m exactly once on every way out", Run: ruleUnlockHeld("xsync")})
})

// C19.sort-wrappers (seed C19-r10m3): xsort.Slice / SliceStable / SliceIsSorted "follow the same rules as" the functions of
// package sort of the same name. They do when they ARE those functions applied to x with the index adapter less(x[i], x[j]);
// a hand-written replacement has to re-decide ties (a slice with equal neighbours is sorted), stability and the empty slice.
func ruleSortWrappers(c *Ctx, r *R) {
	for _, n := range []string{"Slice", "SliceStable", "SliceIsSorted"} {
		fn := c.fn("xsort." + n)
		key := "xsort." + n + "|delegates"
		if fn == nil || len(fn.Params) < 2 {
			r.undecided("xsort."+n+"|missing", token.NoPos, "anchor not found")
			continue
		}
		xP, lessP := fn.Params[0], fn.Params[1]
		var site *ssa.Call
		nCalls := 0
		instrs(fn, func(_ *ssa.BasicBlock, _ int, in ssa.Instruction) {
			call, ok := in.(*ssa.Call)
			if !ok {
				return
			}
			if cal := call.Call.StaticCallee(); cal != nil && cal.Pkg != nil && cal.Pkg.Pkg.Path() == "sort" {
				nCalls++
				if cal.Name() == n {
					site = call
				}
			}
		})
		if site == nil || nCalls != 1 || len(site.Call.Args) != 2 {
			r.violated(key, fn.Pos(), "xsort."+n+" does not hand its work to sort."+n+": its documented behaviour is that function's (equal neighbours count as sorted, ties keep their order in the stable sort)")
			continue
		}
		why := ""
		if resolveVal(site.Call.Args[0]) != ssa.Value(xP) {
			if mi, isMI := site.Call.Args[0].(*ssa.MakeInterface); !isMI || resolveVal(mi.X) != ssa.Value(xP) {
				why = "sort." + n + " is not handed x itself"
			}
		}
		// the call is unconditional and its result is the result
		if len(guardsOf(site.Block())) > 0 {
			why = "sort." + n + " is called only under a condition"
		}
		ad := resolveFuncValue(site.Call.Args[1], 0)
		if ad == nil || len(ad.Params) != 2 {
			why = "the index adapter handed to sort." + n + " could not be resolved"
		} else if why == "" {
			// return less(x[i], x[j])
			okAd := false
			nr := 0
			instrs(ad, func(_ *ssa.BasicBlock, _ int, in ssa.Instruction) {
				ret, ok := in.(*ssa.Return)
				if !ok || len(ret.Results) != 1 {
					return
				}
				nr++
				call, ok := returnedValue(ret, 0).(*ssa.Call)
				if !ok || len(call.Call.Args) != 2 || call.Call.IsInvoke() || staticCallee(&call.Call) != nil {
					return
				}
				isLess := false
				for _, lf := range valueLeaves(call.Call.Value, nil, 0) {
					if resolveVal(lf.v) == ssa.Value(lessP) {
						isLess = true
					} else if prm, isP := resolveVal(lf.v).(*ssa.Parameter); isP && prm.Parent() != fn {
						// the adapter is built by a helper that is handed less (byIndex(x, less)): its parameter of the comparator's shape
						if sig, isSig := prm.Type().Underlying().(*types.Signature); isSig && sig.Params().Len() == 2 && sig.Results().Len() == 1 && isBoolType(sig.Results().At(0).Type()) {
							isLess = true
						}
					}
				}
				elem := func(v ssa.Value, idx *ssa.Parameter) bool {
					ld, ok := v.(*ssa.UnOp)
					if !ok || ld.Op != token.MUL {
						return false
					}
					ia, ok := ld.X.(*ssa.IndexAddr)
					if !ok || resolveVal(ia.Index) != ssa.Value(idx) {
						return false
					}
					for _, lf := range valueLeaves(ia.X, nil, 0) {
						prm, isP := resolveVal(lf.v).(*ssa.Parameter)
						if !isP {
							return false
						}
						if _, isSl := prm.Type().Underlying().(*types.Slice); !isSl {
							return false
						}
						if prm.Parent() == fn && prm != xP {
							return false
						}
					}
					return true
				}
				if isLess && elem(call.Call.Args[0], ad.Params[0]) && elem(call.Call.Args[1], ad.Params[1]) {
					okAd = true
				}
			})
			if !okAd || nr != 1 {
				why = "the index adapter is not func(i, j) { return less(x[i], x[j]) }"
			}
		}
		if n == "SliceIsSorted" && why == "" {
			isRes := false
			instrs(fn, func(_ *ssa.BasicBlock, _ int, in ssa.Instruction) {
				if ret, ok := in.(*ssa.Return); ok && len(ret.Results) == 1 && returnedValue(ret, 0) == ssa.Value(site) {
					isRes = true
				}
			})
			if !isRes {
				why = "the answer of sort.SliceIsSorted is not what is returned"
			}
		}
		r.ok(why == "", key, site.Pos(), "xsort."+n+" must be sort."+n+"(x, func(i, j int) bool { return less(x[i], x[j]) }): "+why)
	}
}

var _ = late(func() {
	properties["C19"].Rules = append(properties["C19"].Rules,
		&Rule{ID: "C19.sort-wrappers", Floor: 3, Clause: "xsort.Slice, SliceStable and SliceIsSorted are the functions of package sort of the same name applied to x and the index adapter less(x[i], x[j]) (their documentation: 'follows the same rules as sort.…'): a hand-written loop has to re-decide ties - `!less(x[i-1], x[i])` calls a slice with equal neighbours unsorted", Run: ruleSortWrappers})
})

// C07.collect-drains (seed C07-r11m2): iterator.Collect "advances iter to the end". A shortcut that copies the items out of a
// known iterator type without pulling them (`if s, ok := iter.(*sliceIterator[T]); ok { return append([]T(nil), s.a...) }`)
// hands back the right slice and leaves the iterator where it was: a later Next, a second Collect or a Join over the same
// object yields the items again. Typestate: every return of Collect / Reduce has seen the source exhausted - Next answered
// false - or has handed the iterator to a reducer of the package that drains it.
func ruleCollectDrains(c *Ctx, r *R) {
	for _, name := range []string{"iterator.Collect", "iterator.Reduce"} {
		fn := c.fn(name)
		if fn == nil || len(fn.Params) == 0 {
			r.undecided(name+"|missing", token.NoPos, "anchor not found")
			continue
		}
		iterP := fn.Params[0]
		isIter := func(v ssa.Value) bool {
			for _, lf := range valueLeaves(v, nil, 0) {
				if resolveVal(lf.v) != ssa.Value(iterP) {
					return false
				}
			}
			return true
		}
		pf := &PF{N: 2}
		pf.Instr = func(_ *ssa.Function, in ssa.Instruction, q int) (StateSet, bool) {
			call, ok := in.(*ssa.Call)
			if !ok || call.Call.IsInvoke() {
				return 0, false
			}
			cal := staticCallee(&call.Call)
			if cal == nil || cal.Blocks == nil || rootFn(origin(cal)).Pkg != rootFn(fn).Pkg || origin(cal) == fn {
				return 0, false
			}
			// handed on to a reducer of the package (Collect -> Reduce): drained there (that function's own obligation)
			if len(call.Call.Args) > 0 && isIter(call.Call.Args[0]) {
				switch fname(cal) {
				case "Reduce", "Collect", "Last":
					return ss(1), true
				}
			}
			return 0, false
		}
		pf.Edge = func(_ *ssa.Function, g guard, q int) (StateSet, bool) {
			v, val := g.boolVal()
			if val {
				return 0, false
			}
			isOkOfNext := func(x ssa.Value) bool {
				ex, ok := x.(*ssa.Extract)
				if !ok || ex.Index != 1 {
					return false
				}
				nx, ok := ex.Tuple.(*ssa.Call)
				return ok && nx.Call.IsInvoke() && nx.Call.Method.Name() == "Next" && isIter(nx.Call.Value)
			}
			if isOkOfNext(v) {
				return ss(1), true
			}
			// for item, ok := it.Next(); ok; item, ok = it.Next(): the condition tests a merge of two pulls' ok
			if phi, isPhi := v.(*ssa.Phi); isPhi && len(phi.Edges) > 0 {
				for _, e := range phi.Edges {
					if !isOkOfNext(e) {
						return 0, false
					}
				}
				return ss(1), true
			}
			return 0, false
		}
		n := 0
		for _, e := range pf.Exits(fn, ss(0)) {
			n++
			r.ok(e.States == ss(1), name+"|drains#"+itoa(n), retPos(e.Ret), funcShort(fn)+" returns on a path on which the iterator was not advanced to its end (Next has not answered false, and it was not handed to a reducer that drains it): the items are handed out while the iterator still holds them - a later Next or a second Collect yields them again")
		}
		if n == 0 {
			r.undecided(name+"|returns", fn.Pos(), "no return found")
		}
	}
}

var _ = late(func() {
	properties["C07"].Rules = append(properties["C07"].Rules,
		&Rule{ID: "C07.collect-drains", Floor: 2, Clause: "every return of iterator.Collect and iterator.Reduce follows the exhaustion of the iterator (its Next answered false) or a call that hands it to a reducer of the package: 'advances iter to the end' - no shortcut that copies the items out of a known iterator type without pulling them", Run: ruleCollectDrains})
})

// C03.cmp-constructors-direct (seed C03-r11m1): NewMapCmp / NewSetCmp are handed a three-way comparison; the tree asks it once
// per key it looks at. Routed through NewMap / NewSet (`NewSet(func(a, b T) bool { return compare(a, b) < 0 })`) it becomes a
// less function that is turned back into a comparison by calling it twice: every probe that does not come out "smaller" costs
// two calls of the user's function - up to 30 per node instead of 15. The comparison the tree is built with is the parameter.
func ruleCmpConstructorsDirect(c *Ctx, r *R) {
	for _, name := range []string{"container/tree.NewMapCmp", "container/tree.NewSetCmp"} {
		fn := c.fn(name)
		if fn == nil || len(fn.Params) == 0 {
			r.undecided(name+"|missing", token.NoPos, "anchor not found")
			continue
		}
		cmpP := fn.Params[0]
		direct, n := true, 0
		for _, d := range deepInstrs(fn, 2) {
			call, ok := d.in.(*ssa.Call)
			if !ok {
				continue
			}
			cal := staticCallee(&call.Call)
			if cal == nil || fname(cal) != "newBtree" || len(call.Call.Args) == 0 {
				continue
			}
			n++
			for _, lf := range valueLeaves(call.Call.Args[0], d.calls, 0) {
				if resolveVal(lf.v) != ssa.Value(cmpP) {
					direct = false
				}
			}
		}
		r.ok(direct && n == 1, name+"|compare-handed-on", fn.Pos(), funcShort(fn)+" must build the tree with the comparison it was given: wrapped into a less function (and turned back into a comparison by two calls of it) every key probe that is not 'smaller' costs two comparisons - up to 30 per node on a search path, where at most 15 are allowed")
	}
}

var _ = late(func() {
	properties["C03"].Rules = append(properties["C03"].Rules,
		&Rule{ID: "C03.cmp-constructors-direct", Floor: 2, Clause: "NewMapCmp and NewSetCmp hand the three-way comparison they are given to newBtree itself: a detour through a less function doubles the comparisons of every probe that is not 'smaller' (more than 15 per level)", Run: ruleCmpConstructorsDirect})
})

// Seed round 11: C14.prefill-full - the rule existed under C10 (every channel operation of a function that takes a context).
var _ = late(func() {
	properties["C14"].Rules = append(properties["C14"].Rules,
		&Rule{ID: "C14.prefill-full", Floor: 1, Clause: "same rule as C10.ctx-arm restricted to MapStream's pre-fill of the token channel: the loop sends exactly as many tokens as the channel's capacity (the same value), which is the buffer size - one token short, a single worker with a buffer of one starts with no token at all: the source is pulled once and nothing is ever yielded", Run: rulePrefillFull})
})

// C19.chunk-panics-first (seed C19-r11m2): xslices.Chunk "panics if chunkSize <= 0" - through the division by chunkSize (and the
// negative slice bounds after it), which the divisor rule accepts as the documented panic. That only holds while every return
// comes after the division: an early `if len(s) == 0 { return [][]T{} }` in front of it hands back an empty result for
// Chunk(nil, 0) instead of panicking.
func ruleChunkPanicsFirst(c *Ctx, r *R) {
	fn := c.fn("xslices.Chunk")
	if fn == nil || len(fn.Params) < 2 {
		r.undecided("xslices.Chunk|missing", token.NoPos, "anchor not found")
		return
	}
	sizeP := fn.Params[1]
	pf := &PF{N: 2}
	pf.Instr = func(_ *ssa.Function, in ssa.Instruction, q int) (StateSet, bool) {
		if bin, ok := in.(*ssa.BinOp); ok && (bin.Op == token.QUO || bin.Op == token.REM) && resolveVal(bin.Y) == ssa.Value(sizeP) {
			return ss(1), true
		}
		return 0, false
	}
	pf.Edge = func(_ *ssa.Function, g guard, q int) (StateSet, bool) {
		// an explicit test: the edge on which chunkSize > 0
		if cf, ok := g.asCmp(); ok && cf.x == ssa.Value(sizeP) && ((cf.op == token.GTR && isConstInt(cf.y, 0)) || (cf.op == token.GEQ && isConstInt(cf.y, 1))) {
			return ss(1), true
		}
		return 0, false
	}
	n := 0
	for _, e := range pf.Exits(fn, ss(0)) {
		n++
		r.ok(e.States == ss(1), "xslices.Chunk|return#"+itoa(n), retPos(e.Ret), "Chunk returns on a path that has neither divided by chunkSize nor tested it: for chunkSize <= 0 that path hands back a result where the documentation promises a panic")
	}
	if n == 0 {
		r.undecided("xslices.Chunk|returns", fn.Pos(), "no return found")
	}
}

var _ = late(func() {
	properties["C19"].Rules = append(properties["C19"].Rules,
		&Rule{ID: "C19.chunk-panics-first", Floor: 1, Clause: "every return of xslices.Chunk comes after the division by chunkSize (the documented panic for chunkSize <= 0) or after an explicit test of it: no early return for an empty input in front of it", Run: ruleChunkPanicsFirst})
})

// C08.failed-next-hands-out-nothing (seed C08-r11m1): a Next that fails costs nothing: in particular it does not hand out state
// the stream still needs. chunkStream.Next returning its partial chunk along with the error looks harmless (callers ignore
// the value) until a wrapper assigns both results before it tests the error (s.buffer, err = s.inner.Next(ctx) in
// FlattenSlices): the partial chunk is then emitted by the wrapper AND completed by Chunk - items are duplicated on retry.
func ruleFailedNextHandsOutNothing(c *Ctx, r *R) {
	n := 0
	for _, fn := range c.funcsOfPkg("stream") {
		if fn.Parent() != nil || fn.Blocks == nil || fn.Name() != "Next" || fn.Signature.Recv() == nil || fn.Signature.Results().Len() != 2 || len(fn.Params) == 0 {
			continue
		}
		recv := fn.Params[0]
		name := c.nameOf(fn)
		k := 0
		instrs(fn, func(b *ssa.BasicBlock, _ int, in ssa.Instruction) {
			ret, ok := in.(*ssa.Return)
			if !ok || len(ret.Results) != 2 || b.Comment == "recover" {
				return
			}
			errV := returnedValue(ret, 1)
			if isNilConst(errV) {
				return
			}
			// the error may be non-nil here unless the block is under err == nil
			for _, g := range guardsOf(b) {
				if cf, ok := g.asCmp(); ok && cf.op == token.EQL && isNilConst(cf.y) && cf.x == errV {
					return
				}
			}
			k++
			n++
			held := ""
			for _, lf := range valueLeaves(returnedValue(ret, 0), nil, 0) {
				ld, ok := lf.v.(*ssa.UnOp)
				if !ok || ld.Op != token.MUL {
					continue
				}
				if _, base, ok := rootField(ld.X); ok && resolveVal(base) == ssa.Value(recv) {
					if _, isSlice := ld.Type().Underlying().(*types.Slice); isSlice {
						held = path(ld)
					}
				}
			}
			r.ok(held == "", name+"|failed-return#"+itoa(k), retPos(ret), "Next hands out "+held+" - a slice the stream keeps working on - together with an error: a wrapper that stores both results before it tests the error (FlattenSlices) emits those items, and the retried Next delivers them again")
		})
	}
	if n == 0 {
		r.undecided("stream|failed-returns", token.NoPos, "no failing return of a Next found")
	}
}

var _ = late(func() {
	properties["C08"].Rules = append(properties["C08"].Rules,
		&Rule{ID: "C08.failed-next-hands-out-nothing", Floor: 20, Clause: "no Next of package stream returns, together with an error that may be non-nil, a slice held in a field of its receiver: a failed Next costs nothing - a partial chunk handed out with the error is emitted by a wrapper that assigns both results before testing the error and delivered again by the retry", Run: ruleFailedNextHandsOutNothing})
})

func rulePrefillFull(c *Ctx, r *R) {
	fn := c.fn("parallel.MapStream")
	if fn == nil {
		r.undecided("parallel.MapStream|missing", token.NoPos, "anchor not found")
		return
	}
	n := 0
	for _, fr := range deepFrames(fn, 2) {
		if fr.f.Parent() != nil {
			continue // the goroutines: their sends are the hand-overs, not the pre-fill
		}
		for _, op := range fr.chanOps() {
			if op.kind != "send" {
				continue
			}
			n++
			full := prefillBoundEqualsCap(op)
			if !full && len(fr.chain) > 0 && len(fr.f.Blocks) == 1 && len(fr.f.Params) > 0 {
				// t.release() of a channel type (func (t tokens) release() { t <- struct{}{} }) called from the loop: judged at
				// the call, the channel being the receiver handed in
				if snd, isSnd := op.in.(*ssa.Send); isSnd && snd.Chan == ssa.Value(fr.f.Params[0]) {
					site := fr.chain[len(fr.chain)-1]
					if len(site.Call.Args) > 0 {
						full = prefillLoopAround(site, site.Call.Args[0])
					}
				}
			}
			r.ok(full, "parallel.MapStream|prefill#"+itoa(n), posOf(op.in), "the loop that pre-fills the token channel does not run exactly as many times as the channel's capacity (the same value): one token short and a single worker with a buffer of one starts with no token at all - the source is pulled once and nothing is ever yielded; one too many and MapStream blocks before it returns")
		}
	}
	if n == 0 {
		r.undecided("parallel.MapStream|prefill", fn.Pos(), "no pre-fill of a token channel found in MapStream (or a helper it calls)")
	}
}

// iterViewOf: al is a freshly allocated struct of the package whose one stored field is an iterator (interface with Next) and
// whose own Next method pulls from that field exactly once per call, with no loop: the wrapped iterator and that Next.
func iterViewOf(c *Ctx, al *ssa.Alloc) (ssa.Value, *ssa.Function) {
	nt, ok := derefType(al.Type()).(*types.Named)
	if !ok || !al.Heap {
		return nil, nil
	}
	var inner ssa.Value
	field := -1
	n := 0
	for _, ref := range refsOf(al) {
		fa, isFA := ref.(*ssa.FieldAddr)
		if !isFA {
			continue
		}
		for _, r2 := range refsOf(fa) {
			if st, isSt := r2.(*ssa.Store); isSt && st.Addr == ssa.Value(fa) {
				n++
				inner, field = st.Val, fa.Field
			}
		}
	}
	if n != 1 || inner == nil {
		return nil, nil
	}
	if _, isIface := inner.Type().Underlying().(*types.Interface); !isIface {
		return nil, nil
	}
	var next *ssa.Function
	for _, f := range c.Funcs {
		if f.Parent() != nil || f.Name() != "Next" || f.Signature.Recv() == nil {
			continue
		}
		if rt, ok := derefType(f.Signature.Recv().Type()).(*types.Named); ok && rt.Origin() == nt.Origin() {
			next = f
		}
	}
	if next == nil || len(next.Params) == 0 {
		return nil, nil
	}
	pulls := 0
	okShape := true
	instrs(next, func(b *ssa.BasicBlock, _ int, in ssa.Instruction) {
		if reaches(b, b) {
			okShape = false
		}
		call, isCall := in.(*ssa.Call)
		if !isCall {
			return
		}
		if !call.Call.IsInvoke() || call.Call.Method.Name() != "Next" {
			okShape = false
			return
		}
		ld, isLd := call.Call.Value.(*ssa.UnOp)
		if !isLd || ld.Op != token.MUL {
			okShape = false
			return
		}
		fa, isFA := ld.X.(*ssa.FieldAddr)
		if !isFA || fa.X != ssa.Value(next.Params[0]) || fa.Field != field {
			okShape = false
			return
		}
		pulls++
	})
	if !okShape || pulls != 1 {
		return nil, nil
	}
	return inner, next
}

// ---- seed round 12 ----------------------------------------------------------------------------------------------------

// C20.tick-chan-open (seed C20-r12m2): the ticker's channel is never closed. A closed C hands every receive a zero "tick" at
// once (ticks after Stop), and Reset - which is documented to restart a stopped ticker - makes the next callback send on the
// closed channel: a panic in the timer goroutine.
func ruleTickChanOpen(c *Ctx, r *R) {
	n := 0
	for _, fn := range c.funcsOfPkg("xtime") {
		k := 0
		instrs(fn, func(_ *ssa.BasicBlock, _ int, in ssa.Instruction) {
			call, ok := in.(*ssa.Call)
			if !ok || len(call.Call.Args) != 1 {
				return
			}
			bi, isB := call.Call.Value.(*ssa.Builtin)
			if !isB || bi.Name() != "close" {
				return
			}
			ch, isCh := call.Call.Args[0].Type().Underlying().(*types.Chan)
			if !isCh || !isNamedType(ch.Elem(), "time", "Time") {
				return
			}
			k++
			n++
			r.violated(c.nameOf(fn)+"|closes-tick-chan#"+itoa(k), call.Pos(), "the channel that delivers the ticks is closed: every receive from C then yields a zero time at once (ticks after Stop), and the next Reset lets the timer callback send on the closed channel - a panic")
		})
	}
	if n == 0 {
		r.discharged("xtime|tick-chan-never-closed", token.NoPos, "no close of a chan time.Time anywhere in xtime")
	}
}

// C08.ctx-failure-costs-nothing (seed C08-r12m2): a Next that fails only because the per-call context has expired costs
// nothing. Where a Next of package stream returns ctx.Err() itself, no field of the receiver has been written on the way
// there: a context test placed after `s.has = false; s.curr = zero` has already thrown the buffered item away.
func ruleCtxFailureCostsNothing(c *Ctx, r *R) {
	n := 0
	for _, fn := range c.funcsOfPkg("stream") {
		if fn.Parent() != nil || fn.Blocks == nil || fn.Name() != "Next" || fn.Signature.Recv() == nil || len(fn.Params) < 2 {
			continue
		}
		recv := fn.Params[0]
		isCtxErr := func(v ssa.Value) bool {
			for _, lf := range valueLeaves(v, nil, 0) {
				ec, ok := lf.v.(*ssa.Call)
				if !ok || !ec.Call.IsInvoke() || ec.Call.Method.Name() != "Err" || !isContextType(ec.Call.Value.Type()) {
					return false
				}
			}
			return true
		}
		has := false
		instrs(fn, func(_ *ssa.BasicBlock, _ int, in ssa.Instruction) {
			if ret, ok := in.(*ssa.Return); ok && len(ret.Results) == 2 && isCtxErr(returnedValue(ret, 1)) {
				has = true
			}
		})
		if !has {
			continue
		}
		pf := &PF{N: 2}
		pf.Instr = func(_ *ssa.Function, in ssa.Instruction, q int) (StateSet, bool) {
			if st, ok := in.(*ssa.Store); ok {
				if _, base, ok := rootField(st.Addr); ok && resolveVal(base) == ssa.Value(recv) {
					return ss(1), true
				}
			}
			return 0, false
		}
		k := 0
		for _, e := range pf.Exits(fn, ss(0)) {
			if len(e.Ret.Results) != 2 || !isCtxErr(returnedValue(e.Ret, 1)) {
				continue
			}
			k++
			n++
			r.ok(!e.States.has(1), c.nameOf(fn)+"|ctx-err-return#"+itoa(k), retPos(e.Ret), "Next returns the expired context's error after it has already changed its own state on that path (an item that was buffered is thrown away before the context is looked at): the failed call has consumed the item, the retry with a live context continues behind it")
		}
	}
	if n == 0 {
		r.discharged("stream|ctx-err-returns", token.NoPos, "no Next of package stream returns ctx.Err() itself after writing its own fields")
	}
}

// C07.reducers-drain (seed C07-r12m1): stream.Collect / Reduce / Last consume the stream: every successful return (nil error)
// follows the end of the source (its Next answered End) or a hand-over to another reducer of the package - no shortcut for
// "nothing to keep" (Last(ctx, s, 0) returning at once neither pulls the items nor reports the error the source would have).
func ruleStreamReducersDrain(c *Ctx, r *R) {
	for _, name := range []string{"stream.Collect", "stream.Reduce", "stream.Last"} {
		fn := c.fn(name)
		if fn == nil {
			r.undecided(name+"|missing", token.NoPos, "anchor not found")
			continue
		}
		sp := streamParamOf(fn)
		if sp == nil {
			r.undecided(name+"|param", fn.Pos(), "stream parameter not found")
			continue
		}
		n := 0
		exits, errOfDrainingHelper := drainExits(fn, sp, 0)
		for _, e := range exits {
			if len(e.Ret.Results) == 0 {
				continue
			}
			if ev := returnedValue(e.Ret, len(e.Ret.Results)-1); !isNilConst(ev) {
				if errOfDrainingHelper(resolveVal(ev)) {
					// err := each(ctx, s, …); return acc, err - the error is the draining helper's own: nil only after End
					n++
					r.discharged(name+"|drains#"+itoa(n), retPos(e.Ret), "the error returned is that of a helper of the package that answers nil only after the source's End")
					continue
				}
				// an error is handed on: other rules - unless it may as well be nil (`if !ok { return acc, err }` after
				// item, ok, err := advance(ctx, s)): not under a test that it is not
				nonNil := false
				for _, g := range guardsOf(e.Ret.Block()) {
					if cf, ok := g.asCmp(); ok && cf.op == token.NEQ && isNilConst(cf.y) && resolveVal(cf.x) == resolveVal(ev) {
						nonNil = true
					}
				}
				if _, isEx := resolveVal(ev).(*ssa.Extract); nonNil || !isEx {
					continue
				}
			}
			n++
			r.ok(e.States == ss(1), name+"|drains#"+itoa(n), retPos(e.Ret), funcShort(fn)+" reports success on a path on which the stream was not read to its end (its Next has not answered End, and it was not handed to a reducer that drains it): the items are not consumed and an error the source would have returned is never seen")
		}
		if n == 0 {
			r.undecided(name+"|returns", fn.Pos(), "no successful return found")
		}
	}
}

// drainExits: the exits of fn with the typestate "the stream sp has been read to its end" (state 1) or not (state 0). The end
// is reached on the edge on which sp.Next answered End, by handing sp to a reducer of the package, on the edge on which a
// helper of the package that was handed sp answered a nil error (every nil-error exit of the helper is itself in state 1), and
// on the edge on which such a helper's boolean "there was an item" result is false.
func drainExits(fn *ssa.Function, sp *ssa.Parameter, depth int) ([]pfExit, func(ssa.Value) bool) {
	isSrc := func(v ssa.Value) bool {
		for _, lf := range valueLeaves(v, nil, 0) {
			if resolveVal(lf.v) != ssa.Value(sp) {
				return false
			}
		}
		return true
	}
	// helperOf: v is (a result of) a call of a helper of the package that is handed the source
	helperOf := func(v ssa.Value) (h *ssa.Function, hp *ssa.Parameter, idx int, ok bool) {
		idx = -1
		if ex, isEx := v.(*ssa.Extract); isEx {
			idx = ex.Index
			v = ex.Tuple
		}
		call, isCall := v.(*ssa.Call)
		if !isCall || call.Call.IsInvoke() || depth > 2 {
			return nil, nil, 0, false
		}
		cal := staticCallee(&call.Call)
		if cal == nil || cal.Blocks == nil || rootFn(origin(cal)).Pkg != rootFn(fn).Pkg || origin(cal) == origin(fn) {
			return nil, nil, 0, false
		}
		for ai, a := range call.Call.Args {
			if isSrc(a) && ai < len(cal.Params) {
				if idx < 0 {
					idx = 0
				}
				return cal, cal.Params[ai], idx, true
			}
		}
		return nil, nil, 0, false
	}
	helperDrains := func(h *ssa.Function, hp *ssa.Parameter, boolIdx int) bool {
		any := false
		hexits, _ := drainExits(h, hp, depth+1)
		for _, e := range hexits {
			nres := len(e.Ret.Results)
			if nres == 0 {
				return false
			}
			errv := returnedValue(e.Ret, nres-1)
			if !isNamedType(errv.Type(), "", "error") && !types.Identical(errv.Type(), types.Universe.Lookup("error").Type()) {
				return false
			}
			if !isNilConst(errv) {
				continue // the helper hands an error on: the caller's err != nil side
			}
			if boolIdx >= 0 {
				if k, isK := returnedValue(e.Ret, boolIdx).(*ssa.Const); isK && k.Value != nil && constant.BoolVal(k.Value) {
					continue // "there was an item"
				}
			}
			any = true
			if e.States != ss(1) {
				return false
			}
		}
		return any
	}
	pf := &PF{N: 2}
	pf.Instr = func(_ *ssa.Function, in ssa.Instruction, q int) (StateSet, bool) {
		call, ok := in.(*ssa.Call)
		if !ok || call.Call.IsInvoke() {
			return 0, false
		}
		cal := staticCallee(&call.Call)
		if cal == nil || cal.Blocks == nil || rootFn(origin(cal)).Pkg != rootFn(fn).Pkg || origin(cal) == origin(fn) {
			return 0, false
		}
		for _, a := range call.Call.Args {
			if isSrc(a) {
				switch fname(cal) {
				case "Reduce", "Collect", "Last":
					return ss(1), true
				}
			}
		}
		return 0, false
	}
	pf.Edge = func(_ *ssa.Function, g guard, q int) (StateSet, bool) {
		// `ok` of item, ok, err := nextItem(ctx, s) on its false edge
		cond, val := g.cond, g.val
		for {
			if u, isNot := cond.(*ssa.UnOp); isNot && u.Op == token.NOT {
				cond, val = u.X, !val
				continue
			}
			break
		}
		if bt, isB := cond.Type().Underlying().(*types.Basic); isB && bt.Kind() == types.Bool && !val {
			if h, hp, idx, ok := helperOf(cond); ok && helperDrains(h, hp, idx) {
				return ss(1), true
			}
		}
		cf, ok := g.asCmp()
		if !ok || cf.op != token.EQL {
			return 0, false
		}
		if isNilConst(cf.y) {
			// err == nil for the error a helper that was handed the source answered
			if h, hp, idx, ok := helperOf(cf.x); ok {
				if idx == h.Signature.Results().Len()-1 && helperDrains(h, hp, -1) {
					return ss(1), true
				}
			}
			return 0, false
		}
		if !strings.HasSuffix(path(cf.y), "End") {
			return 0, false
		}
		// the error of s.Next(ctx) - of every Next it may come from (item, err := s.Next(ctx); for ; err == nil; item, err = s.Next(ctx))
		lvs := valueLeaves(cf.x, nil, 0)
		if len(lvs) == 0 {
			return 0, false
		}
		for _, lf := range lvs {
			ex, ok := lf.v.(*ssa.Extract)
			if !ok {
				return 0, false
			}
			nx, ok := ex.Tuple.(*ssa.Call)
			if !ok || !nx.Call.IsInvoke() || nx.Call.Method.Name() != "Next" || !isSrc(nx.Call.Value) {
				return 0, false
			}
		}
		return ss(1), true
	}
	errOfDrainingHelper := func(v ssa.Value) bool {
		h, hp, idx, ok := helperOf(v)
		return ok && idx == h.Signature.Results().Len()-1 && helperDrains(h, hp, -1)
	}
	return pf.Exits(fn, ss(0)), errOfDrainingHelper
}

// C07.buffer-index-guarded (seed C07-r12m2): a constant index into a slice kept in a field of a stream / iterator wrapper
// (s.buffer[0]) is dominated by a test that the slice holds that many items: a refill that is not repeated until it brings
// something leaves the buffer empty when the source yields an empty slice, and the index panics where the empty slice should
// have been skipped.
func ruleBufferIndexGuarded(c *Ctx, r *R) {
	n := 0
	for _, rel := range []string{"stream", "iterator"} {
		for _, fn := range c.funcsOfPkg(rel) {
			if fn.Parent() != nil || fn.Blocks == nil || fn.Name() != "Next" || fn.Signature.Recv() == nil || len(fn.Params) == 0 {
				continue
			}
			recv := fn.Params[0]
			k := 0
			instrs(fn, func(b *ssa.BasicBlock, _ int, in ssa.Instruction) {
				ia, ok := in.(*ssa.IndexAddr)
				if !ok {
					return
				}
				idx, isK := ia.Index.(*ssa.Const)
				if !isK || idx.Value == nil {
					return
				}
				ld, ok := ia.X.(*ssa.UnOp)
				if !ok || ld.Op != token.MUL {
					return
				}
				fa, ok := ld.X.(*ssa.FieldAddr)
				if !ok || resolveVal(fa.X) != ssa.Value(recv) {
					return
				}
				if _, isSlice := ld.Type().Underlying().(*types.Slice); !isSlice {
					return
				}
				fld := fieldName(fa.X.Type(), fa.Field)
				ki := int(idx.Int64())
				k++
				n++
				lo := 0
				for _, g := range guardsOf(b) {
					cf, ok := g.asCmp()
					if !ok {
						continue
					}
					x, y, op := cf.x, cf.y, cf.op
					isLen := func(v ssa.Value) bool {
						lc, ok := v.(*ssa.Call)
						if !ok || len(lc.Call.Args) != 1 {
							return false
						}
						bi, isB := lc.Call.Value.(*ssa.Builtin)
						return isB && bi.Name() == "len" && strings.HasSuffix(path(lc.Call.Args[0]), "."+fld)
					}
					if !isLen(x) && isLen(y) {
						x, y, op = y, x, flipCmp(op)
					}
					kc, isKc := y.(*ssa.Const)
					if !isLen(x) || !isKc || kc.Value == nil {
						continue
					}
					// the test must be fresh: no store to the field between it and the index
					fresh := true
					if g.blk != nil {
						for _, bb := range fn.Blocks {
							if bb == g.blk {
								continue
							}
							// bb lies on a path from the test to the index that does not come back through the test
							if !reachesAvoiding(g.blk, bb, g.blk) || !(bb == b || reachesAvoiding(bb, b, g.blk)) {
								continue
							}
							for _, in2 := range bb.Instrs {
								if st, isSt := in2.(*ssa.Store); isSt {
									if f2, base, ok := rootField(st.Addr); ok && f2 == fld && resolveVal(base) == ssa.Value(recv) {
										if bb != b || idxIn(st) < idxIn(ia) {
											fresh = false
										}
									}
								}
							}
						}
					}
					if !fresh {
						continue
					}
					cv := int(kc.Int64())
					switch op {
					case token.EQL, token.GEQ:
						if cv > lo {
							lo = cv
						}
					case token.GTR:
						if cv+1 > lo {
							lo = cv + 1
						}
					case token.NEQ:
						if cv == 0 && lo < 1 {
							lo = 1
						}
					}
				}
				r.ok(lo > ki, c.nameOf(fn)+"|index:"+fld+"["+itoa(ki)+"]#"+itoa(k), ia.Pos(), "s."+fld+"["+itoa(ki)+"] is read without a test, still valid at that point, that the slice holds more than "+itoa(ki)+" items: after a refill that brought an empty slice the index panics (the empty slice should have been skipped)")
			})
		}
	}
	if n == 0 {
		r.undecided("stream|buffer-index", token.NoPos, "no constant index into a buffered slice found")
	}
}

var _ = late(func() {
	properties["C20"].Rules = append(properties["C20"].Rules,
		&Rule{ID: "C20.tick-chan-open", Floor: 1, Clause: "no function of xtime closes a chan time.Time: the ticker's channel stays open - a closed C yields zero ticks after Stop, and Reset after such a Stop makes the callback send on a closed channel", Run: ruleTickChanOpen})
	properties["C08"].Rules = append(properties["C08"].Rules,
		&Rule{ID: "C08.ctx-failure-costs-nothing", Floor: 1, Clause: "where a Next of package stream returns ctx.Err() itself, no field of its receiver has been written on that path: a context test placed behind the hand-out of a buffered item loses that item to a call that only failed on an expired context", Run: ruleCtxFailureCostsNothing})
	properties["C07"].Rules = append(properties["C07"].Rules,
		&Rule{ID: "C07.reducers-drain", Floor: 3, Clause: "every successful return of stream.Collect / Reduce / Last follows the end of the source (Next answered End) or a hand-over to a reducer of the package that drains it: no shortcut that returns without reading the stream (Last(ctx, s, 0))", Run: ruleStreamReducersDrain},
		&Rule{ID: "C07.buffer-index-guarded", Floor: 1, Clause: "a constant index into a slice kept in a field of a stream / iterator wrapper is dominated by a still-valid test that the slice holds that many items (FlattenSlices' s.buffer[0] after a refill that may have brought an empty slice)", Run: ruleBufferIndexGuarded})
})

// C01.no-node-copy (seed C01-r12m2): a B-tree node is only ever used through its pointer. A method of node with a value
// receiver (`func (x node[K, V]) leaf() bool`), or any other load of a whole node, copies all its key, value and child slots:
// the descent of one Put then reads the value slot another goroutine's overwriting Put is writing - the data race the map's
// "distinct existing keys may be written concurrently" rules out.
func ruleNoNodeCopy(c *Ctx, r *R) {
	n := 0
	isNode := func(t types.Type) bool {
		nt, ok := t.(*types.Named)
		if !ok || nt.Obj().Pkg() == nil || !strings.HasSuffix(nt.Obj().Pkg().Path(), "container/tree") {
			return false
		}
		st, ok := nt.Underlying().(*types.Struct)
		if !ok {
			return false
		}
		// the node type: a struct that holds arrays (keys / values / children)
		for i := 0; i < st.NumFields(); i++ {
			if _, isArr := st.Field(i).Type().Underlying().(*types.Array); isArr {
				return true
			}
		}
		return false
	}
	for _, fn := range c.funcsOfPkg("container/tree") {
		for _, f := range withAnon(fn) {
			if f.Blocks == nil {
				continue
			}
			if f.Signature.Recv() != nil && isNode(f.Signature.Recv().Type()) {
				n++
				r.violated(c.nameOf(f)+"|value-receiver", f.Pos(), "a method of the node type with a value receiver: every call copies the whole node (all key, value and child slots), so a descent reads value slots that a concurrent overwriting Put of another key in the same node writes - a data race")
				continue
			}
			k := 0
			instrs(f, func(_ *ssa.BasicBlock, _ int, in ssa.Instruction) {
				v, ok := in.(ssa.Value)
				if !ok || !isNode(v.Type()) {
					return
				}
				if ld, isLd := in.(*ssa.UnOp); isLd && ld.Op == token.MUL {
					k++
					n++
					r.violated(c.nameOf(f)+"|node-copy#"+itoa(k), in.Pos(), "a whole node is loaded by value (all its key, value and child slots are read): next to a concurrent overwriting Put of a key in that node this is a data race")
				}
			})
		}
	}
	if n == 0 {
		r.discharged("tree|nodes-by-pointer", token.NoPos, "no value-receiver method on the node type and no load of a whole node anywhere in container/tree")
	}
}

var _ = late(func() {
	properties["C01"].Rules = append(properties["C01"].Rules,
		&Rule{ID: "C01.no-node-copy", Floor: 1, Clause: "nodes are used through their pointer only: no value-receiver method on the node type and no load of a whole node (a copy reads every value slot, racing with a concurrent overwriting Put of another key in the node)", Run: ruleNoNodeCopy})
})

// C19.std-namesake-forwarders (seed C19-r12m1): a helper that hands its work to its standard-library namesake (xslices.Grow ->
// slices.Grow, xslices.Index -> slices.Index, ...) does so on every path, with its own parameters in order, and returns what the
// namesake returns: a "fast path" in front of the call (`if n <= cap(s) { return s }`) answers for the namesake with another rule.
func ruleStdNamesakeForwarders(c *Ctx, r *R) {
	n := 0
	for _, rel := range []string{"xslices", "xsort", "xmaps", "xmath"} {
		for _, fn := range c.funcsOfPkg(rel) {
			if fn.Parent() != nil || fn.Blocks == nil || fn.Signature.Recv() != nil || !token.IsExported(fn.Name()) {
				continue
			}
			var calls []*ssa.Call
			instrs(fn, func(_ *ssa.BasicBlock, _ int, in ssa.Instruction) {
				call, ok := in.(*ssa.Call)
				if !ok {
					return
				}
				cal := staticCallee(&call.Call)
				if cal == nil || cal.Pkg == nil && origin(cal).Pkg == nil {
					return
				}
				o := origin(cal)
				if o.Pkg == nil || o.Name() != fn.Name() {
					return
				}
				switch o.Pkg.Pkg.Path() {
				case "slices", "maps", "sort", "cmp", "math":
					calls = append(calls, call)
				}
			})
			if len(calls) == 0 {
				continue
			}
			// only the plain forwarders: the helper's own parameters, in order, are the namesake's arguments (helpers that adapt an
			// argument - a less function turned into a cmp function - have obligations of their own)
			var call *ssa.Call
			for _, cc := range calls {
				okArgs := len(cc.Call.Args) == len(fn.Params)
				if okArgs {
					for i, a := range cc.Call.Args {
						if resolveVal(a) != ssa.Value(fn.Params[i]) {
							okArgs = false
						}
					}
				}
				if okArgs && call == nil {
					call = cc
				}
			}
			if call == nil {
				continue
			}
			n++
			key := c.nameOf(fn) + "|forwards"
			if len(calls) != 1 {
				r.violated(key, calls[1].Pos(), funcShort(fn)+" calls its standard-library namesake more than once")
				continue
			}
			bad := token.NoPos
			nret := 0
			instrs(fn, func(_ *ssa.BasicBlock, _ int, in ssa.Instruction) {
				ret, ok := in.(*ssa.Return)
				if !ok {
					return
				}
				nret++
				for i := range ret.Results {
					for _, lf := range valueLeaves(returnedValue(ret, i), nil, 0) {
						v := lf.v
						if ex, isEx := v.(*ssa.Extract); isEx && ex.Index == i {
							v = ex.Tuple
						}
						if v != ssa.Value(call) && bad == token.NoPos {
							bad = retPos(ret)
						}
					}
				}
			})
			if bad == token.NoPos && call.Block() != fn.Blocks[0] {
				bad = call.Pos()
			}
			r.ok(bad == token.NoPos && nret > 0, key, bad, funcShort(fn)+" forwards to its standard-library namesake, but not on every path / not returning the namesake's own result: an answer of its own in front of the call (a \"fast path\") replaces the documented behaviour by another rule")
		}
	}
	if n == 0 {
		r.undecided("xslices|forwarders", token.NoPos, "no helper forwarding to a standard-library namesake found")
	}
}

// C19.no-shared-generator (seed C19-r12m2): the generator-less helpers of xrand (Shuffle, Sample, ...) may be called from any
// number of goroutines, like the top-level functions of math/rand they stand on. A package-level *rand.Rand (or rand.Source)
// is not safe for concurrent use: read outside a held mutex it corrupts its state under concurrent calls (index out of range
// panics, results that are no permutation).
func ruleNoSharedGenerator(c *Ctx, r *R) {
	sp := c.SSA["xmath/xrand"]
	if sp == nil {
		r.undecided("xrand|missing", token.NoPos, "package xmath/xrand not loaded")
		return
	}
	isGen := func(t types.Type) bool {
		if p, ok := t.(*types.Pointer); ok {
			t = p.Elem()
		}
		return isNamedType(t, "math/rand", "Rand") || isNamedType(t, "math/rand", "Source") || isNamedType(t, "math/rand", "Source64") ||
			isNamedType(t, "math/rand/v2", "Rand") || isNamedType(t, "math/rand/v2", "Source")
	}
	n := 0
	var names []string
	for name := range sp.Members {
		names = append(names, name)
	}
	sort.Strings(names)
	for _, name := range names {
		g, ok := sp.Members[name].(*ssa.Global)
		if !ok {
			continue
		}
		pt, ok := g.Type().(*types.Pointer)
		if !ok || !isGen(pt.Elem()) {
			continue
		}
		for _, fn := range c.funcsOfPkg("xmath/xrand") {
			for _, f := range withAnon(fn) {
				if f.Name() == "init" {
					continue
				}
				k := 0
				instrs(f, func(b *ssa.BasicBlock, _ int, in ssa.Instruction) {
					ld, ok := in.(*ssa.UnOp)
					if !ok || ld.Op != token.MUL || ld.X != ssa.Value(g) {
						return
					}
					locked := false
					instrs(f, func(b2 *ssa.BasicBlock, _ int, in2 ssa.Instruction) {
						if lc, ok := in2.(*ssa.Call); ok {
							if cal := lc.Call.StaticCallee(); cal != nil && cal.Name() == "Lock" && cal.Signature.Recv() != nil && isNamedType(cal.Signature.Recv().Type(), "sync", "Mutex") {
								if b2 == b && idxIn(in2) < idxIn(in) || b2 != b && b2.Dominates(b) {
									locked = true
								}
							}
						}
					})
					k++
					n++
					r.ok(locked, c.nameOf(f)+"|shared-generator:"+name+"#"+itoa(k), in.Pos(), "the package-level generator "+name+" (a *rand.Rand / Source, not safe for concurrent use) is used without a held mutex: concurrent calls of the generator-less helpers corrupt its state (panics, results that are not permutations / distinct positions)")
				})
			}
		}
	}
	if n == 0 {
		r.discharged("xrand|no-shared-generator", token.NoPos, "xrand keeps no package-level *rand.Rand / rand.Source: the generator-less helpers stand on math/rand's own concurrency-safe top-level functions")
	}
}

var _ = late(func() {
	properties["C19"].Rules = append(properties["C19"].Rules,
		&Rule{ID: "C19.std-namesake-forwarders", Floor: 5, Clause: "a helper that forwards to its standard-library namesake (xslices.Grow -> slices.Grow, ...) does so in its entry block with its own parameters in order and every return hands back the namesake's result: no answer of its own in front of the call", Run: ruleStdNamesakeForwarders},
		&Rule{ID: "C19.no-shared-generator", Floor: 1, Clause: "xrand keeps no package-level *rand.Rand / rand.Source that is used outside a held mutex: the generator-less helpers stay safe for concurrent use like math/rand's top-level functions", Run: ruleNoSharedGenerator})
})
