package main

import (
	"go/token"
	"go/types"
	"strings"

	"golang.org/x/tools/go/ssa"
)

// E-CB: blocking channel operations.

type chanArm struct {
	send   bool
	ch     ssa.Value
	chPath string
	kind   string    // "ctx-done", "timer", "data"
	ctx    ssa.Value // for ctx-done: the context value whose Done() it is
	body   *ssa.BasicBlock
	idx    int
}

type chanOp struct {
	fn       *ssa.Function
	in       ssa.Instruction
	kind     string // "select", "send", "recv", "range"
	blocking bool
	hasDflt  bool
	arms     []chanArm
}

func isContextType(t types.Type) bool {
	n, ok := t.(*types.Named)
	return ok && n.Obj().Pkg() != nil && n.Obj().Pkg().Path() == "context" && n.Obj().Name() == "Context"
}

func classifyChan(ch ssa.Value) (kind string, ctx ssa.Value) {
	v := ch
	for {
		if ct, ok := v.(*ssa.ChangeType); ok {
			v = ct.X
			continue
		}
		break
	}
	if call, ok := v.(*ssa.Call); ok && call.Call.IsInvoke() && call.Call.Method.Name() == "Done" && isContextType(call.Call.Value.Type()) {
		return "ctx-done", call.Call.Value
	}
	// done := bgCtx.Done(), evaluated once and captured by the goroutines: the variable is that channel
	if rv := resolveVal(v); rv != v {
		if call, ok := rv.(*ssa.Call); ok && call.Call.IsInvoke() && call.Call.Method.Name() == "Done" && isContextType(call.Call.Value.Type()) {
			return "ctx-done", call.Call.Value
		}
	}
	// a field of a small struct that a helper of the module filled in (a := s.aborts(ctx); case <-a.ctxDone): what the helper
	// stored there, its context parameter standing for the caller's argument
	if inner, hc, ok := chanThroughStruct(v); ok {
		k, cx := classifyChan(inner)
		if cx != nil {
			cx = argOf(cx, []*ssa.Call{hc})
		}
		return k, cx
	}
	// a channel parameter of an unexported helper (readyBeforeDone(ctx.Done(), ch)): what every call site hands in
	if p, ok := v.(*ssa.Parameter); ok {
		if args := helperChanArgs(p); len(args) > 0 {
			kind0, ctx0 := "", ssa.Value(nil)
			for i, a := range args {
				k, cx := classifyChan(a)
				if i == 0 {
					kind0, ctx0 = k, cx
				} else if k != kind0 {
					return "data", nil
				}
			}
			if kind0 == "ctx-done" {
				return kind0, ctx0
			}
			// the timer's channel handed to a helper that waits (g.awaitWake(t.C, c))
			if kind0 == "timer" {
				return kind0, nil
			}
		}
	}
	// timer.C, or a variable that is only ever assigned timer.C or nil
	if isTimerChan(v, 0) {
		return "timer", nil
	}
	return "data", nil
}

func isTimerChan(v ssa.Value, d int) bool {
	if d > 4 {
		return false
	}
	ld, ok := v.(*ssa.UnOp)
	if !ok || ld.Op != token.MUL {
		return false
	}
	if fa, ok := ld.X.(*ssa.FieldAddr); ok && fieldName(fa.X.Type(), fa.Field) == "C" && isNamedType(fa.X.Type(), "time", "Timer") {
		return true
	}
	if lv := lvarOf(ld.X); lv.ok() {
		sts := storesToVar(lv)
		if len(sts) == 0 {
			return false
		}
		any := false
		for _, st := range sts {
			if isNilConst(st.Val) {
				continue
			}
			if isTimerChan(st.Val, d+1) {
				any = true
				continue
			}
			return false
		}
		return any
	}
	return false
}

// chanOpsOf lists every channel operation of fn (not descending into closures).
func chanOpsOf(fn *ssa.Function) []chanOp {
	var ops []chanOp
	inSelect := map[ssa.Value]bool{}
	instrs(fn, func(b *ssa.BasicBlock, i int, in ssa.Instruction) {
		switch x := in.(type) {
		case *ssa.Select:
			op := chanOp{fn: fn, in: x, kind: "select", blocking: x.Blocking, hasDflt: !x.Blocking}
			for k, st := range x.States {
				arm := chanArm{send: st.Dir == types.SendOnly, ch: st.Chan, chPath: path(st.Chan), idx: k}
				arm.kind, arm.ctx = classifyChan(st.Chan)
				arm.body = selectArmBody(x, k)
				op.arms = append(op.arms, arm)
			}
			ops = append(ops, op)
		case *ssa.Send:
			arm := chanArm{send: true, ch: x.Chan, chPath: path(x.Chan)}
			arm.kind, arm.ctx = classifyChan(x.Chan)
			ops = append(ops, chanOp{fn: fn, in: x, kind: "send", blocking: true, arms: []chanArm{arm}})
		case *ssa.UnOp:
			if x.Op == token.ARROW && !inSelect[x] {
				arm := chanArm{ch: x.X, chPath: path(x.X)}
				arm.kind, arm.ctx = classifyChan(x.X)
				kind := "recv"
				if x.CommaOk && reaches(b, b) {
					kind = "range"
				}
				ops = append(ops, chanOp{fn: fn, in: x, kind: kind, blocking: true, arms: []chanArm{arm}})
			}
		}
	})
	return ops
}

// selectArmBody: the block executed when the select chose state k.
func selectArmBody(sel *ssa.Select, k int) *ssa.BasicBlock {
	if sel.Referrers() == nil {
		return nil
	}
	for _, ref := range *sel.Referrers() {
		ex, ok := ref.(*ssa.Extract)
		if !ok || ex.Index != 0 || ex.Referrers() == nil {
			continue
		}
		for _, r2 := range *ex.Referrers() {
			bin, ok := r2.(*ssa.BinOp)
			if !ok || bin.Op != token.EQL || !isConstInt(bin.Y, int64(k)) || bin.Referrers() == nil {
				continue
			}
			for _, r3 := range *bin.Referrers() {
				if iff, ok := r3.(*ssa.If); ok {
					return iff.Block().Succs[0]
				}
			}
		}
	}
	return nil
}

// selectDefaultBody: for a non-blocking select, the block reached when no arm was ready.
func selectDefaultBody(sel *ssa.Select) *ssa.BasicBlock {
	n := len(sel.States)
	if n == 0 || sel.Blocking {
		return nil
	}
	if sel.Referrers() == nil {
		return nil
	}
	for _, ref := range *sel.Referrers() {
		ex, ok := ref.(*ssa.Extract)
		if !ok || ex.Index != 0 || ex.Referrers() == nil {
			continue
		}
		for _, r2 := range *ex.Referrers() {
			bin, ok := r2.(*ssa.BinOp)
			if !ok || bin.Op != token.EQL || !isConstInt(bin.Y, int64(n-1)) || bin.Referrers() == nil {
				continue
			}
			for _, r3 := range *bin.Referrers() {
				if iff, ok := r3.(*ssa.If); ok {
					return iff.Block().Succs[1]
				}
			}
		}
	}
	return nil
}

// recvValue: the value received by recv state k of a select (nil if unused).
func recvValue(sel *ssa.Select, k int) ssa.Value {
	pos := 2
	for i, st := range sel.States {
		if st.Dir != types.RecvOnly {
			continue
		}
		if i == k {
			break
		}
		pos++
	}
	if sel.Referrers() == nil {
		return nil
	}
	for _, ref := range *sel.Referrers() {
		if ex, ok := ref.(*ssa.Extract); ok && ex.Index == pos {
			return ex
		}
	}
	return nil
}

// hasCtxParam returns the context.Context parameter of fn, if any.
func ctxParam(fn *ssa.Function) *ssa.Parameter {
	for _, p := range fn.Params {
		if isContextType(p.Type()) {
			return p
		}
	}
	return nil
}

// fieldOfChan: if ch is a load of recv.f returns f.
func fieldOfChan(ch ssa.Value) string {
	v := ch
	for {
		if ct, ok := v.(*ssa.ChangeType); ok {
			v = ct.X
			continue
		}
		break
	}
	if inner, _, ok := chanThroughStruct(v); ok {
		return fieldOfChan(inner)
	}
	if ld, ok := v.(*ssa.UnOp); ok && ld.Op == token.MUL {
		if fa, ok := ld.X.(*ssa.FieldAddr); ok {
			return canonChanField(fa.X.Type(), fieldName(fa.X.Type(), fa.Field))
		}
	}
	// a local that holds the channel until it is disabled (announce := iter.waiting; ...; announce = nil): the channel of its
	// non-nil assignments
	if phi, ok := v.(*ssa.Phi); ok {
		f0, n := "", 0
		for _, e := range phi.Edges {
			if e == ssa.Value(phi) || isNilConst(e) {
				continue
			}
			if _, nested := e.(*ssa.Phi); nested {
				return ""
			}
			f := fieldOfChan(e)
			if f == "" || (n > 0 && f != f0) {
				return ""
			}
			f0 = f
			n++
		}
		return f0
	}
	if p, ok := v.(*ssa.Parameter); ok {
		f0 := ""
		for i, a := range helperChanArgs(p) {
			f := fieldOfChan(a)
			if i == 0 {
				f0 = f
			} else if f != f0 {
				return ""
			}
		}
		return f0
	}
	// a local alias of a channel that is also kept in a struct field (batchC := make(...); out := &batchStream{batchC: batchC};
	// the goroutines use a directional alias of the local): the channel is the one the field holds
	if mk, ok := resolveVal(v).(*ssa.MakeChan); ok && mk.Parent() != nil {
		strip := func(x ssa.Value) ssa.Value {
			x = resolveVal(x)
			for {
				if ct, ok := x.(*ssa.ChangeType); ok {
					x = resolveVal(ct.X)
					continue
				}
				return x
			}
		}
		fields := map[string]bool{}
		for _, g := range withAnon(mk.Parent()) {
			instrs(g, func(_ *ssa.BasicBlock, _ int, in ssa.Instruction) {
				if st, ok := in.(*ssa.Store); ok {
					if fa, ok := st.Addr.(*ssa.FieldAddr); ok && strip(st.Val) == ssa.Value(mk) {
						fields[fieldName(fa.X.Type(), fa.Field)] = true
					}
				}
			})
		}
		if len(fields) == 1 {
			for f := range fields {
				return f
			}
		}
		return ""
	}
	// an accessor that hands back (a view of) a channel: `func (l latch) released() <-chan struct{} { return l }`
	if call, ok := v.(*ssa.Call); ok {
		if cal := staticCallee(&call.Call); cal != nil && cal.Blocks != nil && cal.Parent() == nil && cal.Signature.Results().Len() == 1 && curCtx != nil && curCtx.inModule(cal) {
			f0, n := "", 0
			for _, rv := range returnedBy(origin(cal), 0) {
				for {
					if ct, ok := rv.(*ssa.ChangeType); ok {
						rv = ct.X
						continue
					}
					break
				}
				f := ""
				if prm, ok := rv.(*ssa.Parameter); ok {
					for k, q := range origin(cal).Params {
						if q == prm && k < len(call.Call.Args) {
							f = fieldOfChan(call.Call.Args[k])
						}
					}
				}
				if f == "" || (n > 0 && f != f0) {
					return ""
				}
				f0 = f
				n++
			}
			return f0
		}
	}
	return ""
}

var helperChanArgsBusy = map[*ssa.Parameter]bool{}

// chanParamBinding: while a rule analyses ONE caller, the channel parameters of the helpers it calls stand for that caller's
// arguments (readyBeforeDone(ctx.Done(), f.c) seen from Future.WaitContext), not for the union over all call sites.
var chanParamBinding = map[*ssa.Parameter]ssa.Value{}

// bindChanParams binds, for every static in-package call in fn, the callee's channel parameters to fn's arguments; the
// returned function removes the bindings again.
func bindChanParams(fn *ssa.Function) func() {
	var bound []*ssa.Parameter
	instrs(fn, func(_ *ssa.BasicBlock, _ int, in ssa.Instruction) {
		call, ok := in.(*ssa.Call)
		if !ok {
			return
		}
		cal := staticCallee(&call.Call)
		if cal == nil || cal.Blocks == nil || cal.Parent() != nil || (rootFn(origin(cal)).Pkg != rootFn(fn).Pkg && !ctxBlockingHelper(curCtx, origin(cal))) {
			return // (a module helper that waits under a context - chans.RecvContext(ctx, f.c) - is bound like an in-package one)
		}
		o := origin(cal)
		for i, a := range call.Call.Args {
			if i < len(o.Params) {
				if _, isChan := o.Params[i].Type().Underlying().(*types.Chan); isChan {
					chanParamBinding[o.Params[i]] = resolveVal(a)
					bound = append(bound, o.Params[i])
				}
			}
		}
	})
	return func() {
		for _, p := range bound {
			delete(chanParamBinding, p)
		}
	}
}

// helperChanArgs: for a channel-typed parameter of an unexported top-level function, the (resolved) argument at every call site.
func helperChanArgs(p *ssa.Parameter) []ssa.Value {
	fn := p.Parent()
	if b, ok := chanParamBinding[p]; ok {
		return []ssa.Value{b}
	}
	if a := literalCallArg(p); a != nil {
		if _, isChan := p.Type().Underlying().(*types.Chan); isChan {
			return []ssa.Value{resolveVal(a)}
		}
	}
	if fn == nil || fn.Parent() != nil || token.IsExported(fn.Name()) || curCtx == nil || helperChanArgsBusy[p] {
		return nil
	}
	if _, isChan := p.Type().Underlying().(*types.Chan); !isChan {
		return nil
	}
	helperChanArgsBusy[p] = true
	defer delete(helperChanArgsBusy, p)
	idx := -1
	for i, q := range fn.Params {
		if q == p {
			idx = i
		}
	}
	var out []ssa.Value
	for _, cc := range callCommonsOf(curCtx, fn) {
		if idx < 0 || idx >= len(cc.Args) {
			return nil
		}
		out = append(out, resolveVal(cc.Args[idx]))
	}
	return out
}

func chanElemIsEmptyStruct(t types.Type) bool {
	c, ok := t.Underlying().(*types.Chan)
	if !ok {
		return false
	}
	s, ok := c.Elem().Underlying().(*types.Struct)
	return ok && s.NumFields() == 0
}

// makeChansForField finds the MakeChan sites whose result is stored (in a struct literal) into a field named
// `field` of a struct type named `typ` anywhere in package rel.
func makeChansForField(c *Ctx, rel, typ, field string) []*ssa.MakeChan {
	var out []*ssa.MakeChan
	for name, fn := range c.byName {
		if !strings.HasPrefix(name, rel+".") {
			continue
		}
		instrs(fn, func(b *ssa.BasicBlock, i int, in ssa.Instruction) {
			st, ok := in.(*ssa.Store)
			if !ok {
				return
			}
			fa, ok := st.Addr.(*ssa.FieldAddr)
			if !ok || fieldName(fa.X.Type(), fa.Field) != field || typeShort(fa.X.Type()) != typ {
				return
			}
			v := st.Val
			for {
				if ct, ok := v.(*ssa.ChangeType); ok {
					v = ct.X
					continue
				}
				break
			}
			if mc, ok := v.(*ssa.MakeChan); ok {
				out = append(out, mc)
			}
		})
	}
	return out
}

// ctxOrigins resolves a context-typed value to the set of values it may denote at use site `at`:
// through closure cells (reaching store before the closure was created), phis and conversions.
func ctxOrigins(v ssa.Value, seen map[ssa.Value]bool) []ssa.Value {
	if seen[v] {
		return nil
	}
	seen[v] = true
	switch x := v.(type) {
	case *ssa.Parameter:
		// a context handed to an unexported helper / a function literal with parameters: where its callers got it from
		fn := x.Parent()
		if fn == nil || (fn.Parent() == nil && token.IsExported(fn.Name())) {
			return []ssa.Value{v}
		}
		idx := -1
		for i, p := range fn.Params {
			if p == x {
				idx = i
			}
		}
		sites := callCommonsOf(curCtx, fn)
		if idx < 0 || len(sites) == 0 {
			return []ssa.Value{v}
		}
		var out []ssa.Value
		for _, cc := range sites {
			if idx < len(cc.Args) {
				out = append(out, ctxOrigins(cc.Args[idx], seen)...)
			} else {
				out = append(out, v)
			}
		}
		return out
	case *ssa.ChangeInterface:
		return ctxOrigins(x.X, seen)
	case *ssa.MakeInterface:
		return ctxOrigins(x.X, seen)
	case *ssa.Phi:
		var out []ssa.Value
		for _, e := range x.Edges {
			out = append(out, ctxOrigins(e, seen)...)
		}
		return out
	case *ssa.UnOp:
		if x.Op == token.MUL {
			// a context kept in a field of an in-package helper struct (m.ctx): whatever is stored into that field anywhere
			// in the package (flow-insensitive)
			if fa, ok := x.X.(*ssa.FieldAddr); ok && curCtx != nil {
				if nt, ok := derefType(fa.X.Type()).(*types.Named); ok && nt.Obj().Pkg() != nil && x.Parent() != nil && rootFn(x.Parent()).Pkg != nil && nt.Obj().Pkg() == rootFn(x.Parent()).Pkg.Pkg {
					fld := fieldName(fa.X.Type(), fa.Field)
					var out []ssa.Value
					n := 0
					for _, f2 := range curCtx.Funcs {
						if rootFn(f2).Pkg != rootFn(x.Parent()).Pkg {
							continue
						}
						instrs(f2, func(_ *ssa.BasicBlock, _ int, in ssa.Instruction) {
							st, ok := in.(*ssa.Store)
							if !ok {
								return
							}
							fa2, ok := st.Addr.(*ssa.FieldAddr)
							if !ok || fieldName(fa2.X.Type(), fa2.Field) != fld {
								return
							}
							if nt2, ok := derefType(fa2.X.Type()).(*types.Named); !ok || nt2.Origin() != nt.Origin() {
								return
							}
							n++
							out = append(out, ctxOrigins(st.Val, seen)...)
						})
					}
					if n > 0 {
						return out
					}
				}
			}
			if fv, ok := x.X.(*ssa.FreeVar); ok {
				cell := cellOf(fv)
				if cell == nil {
					return []ssa.Value{v}
				}
				mc := makeClosureOf(fv.Parent())
				var out []ssa.Value
				for _, st := range reachingStores(cell, mc) {
					out = append(out, ctxOrigins(st.Val, seen)...)
				}
				return out
			}
			if al, ok := x.X.(*ssa.Alloc); ok {
				var out []ssa.Value
				for _, st := range reachingStores(al, x) {
					out = append(out, ctxOrigins(st.Val, seen)...)
				}
				return out
			}
		}
	}
	return []ssa.Value{v}
}

// makeClosureOf finds the MakeClosure instruction that creates fn in its parent (walking up to the
// function that allocates things).
func makeClosureOf(fn *ssa.Function) ssa.Instruction {
	parent := fn.Parent()
	if parent == nil {
		return nil
	}
	var out ssa.Instruction
	instrs(parent, func(b *ssa.BasicBlock, i int, in ssa.Instruction) {
		if mc, ok := in.(*ssa.MakeClosure); ok && mc.Fn == fn {
			out = mc
		}
	})
	return out
}

// reachingStores: stores to cell (in the cell's own function) that may be the last one before `at`.
// If `at` is in another function (nested deeper), the MakeClosure chain is followed up to the cell's function.
func reachingStores(cell *ssa.Alloc, at ssa.Instruction) []*ssa.Store {
	owner := cell.Parent()
	for at != nil && at.Parent() != owner {
		at = makeClosureOf(at.Parent())
	}
	all := storesTo(cell)
	if at == nil {
		return all
	}
	var doms []*ssa.Store
	for _, st := range all {
		if st.Parent() != owner {
			return all // written from a closure: give up on flow sensitivity
		}
		if st.Block().Dominates(at.Block()) && (st.Block() != at.Block() || idxIn(st) < idxIn(at)) {
			doms = append(doms, st)
		} else if reaches(st.Block(), at.Block()) || st.Block() == at.Block() {
			// a store that may reach without dominating: keep everything
			if !(st.Block() == at.Block() && idxIn(st) > idxIn(at) && !reaches(st.Block(), st.Block())) {
				return all
			}
		}
	}
	if len(doms) == 0 {
		return all
	}
	// the latest dominating store
	last := doms[0]
	for _, st := range doms[1:] {
		if last.Block().Dominates(st.Block()) && (last.Block() != st.Block() || idxIn(last) < idxIn(st)) {
			last = st
		}
	}
	return []*ssa.Store{last}
}

var chanFieldAliasMemo = map[string]string{}

// canonChanField: a struct may keep the same channel in two fields of different direction (senderDone <-chan struct{} to wait
// on, closeSender chan<- struct{} to close): when a literal of the type sets two channel fields from one value, the field
// the pinned tree does not know is an alias of the one it knows.
func canonChanField(t types.Type, field string) string {
	nt, ok := derefType(t).(*types.Named)
	if !ok || curCtx == nil || nt.Obj().Pkg() == nil {
		return field
	}
	key := nt.Obj().Pkg().Path() + "." + nt.Obj().Name() + "." + field
	if a, ok := chanFieldAliasMemo[key]; ok {
		return a
	}
	chanFieldAliasMemo[key] = field
	rel := strings.TrimPrefix(strings.TrimPrefix(nt.Obj().Pkg().Path(), modPath), "/")
	known := map[string]bool{}
	for _, lf := range pinnedLayout[rel][canonTypeName(rel, nt.Obj().Name())] {
		known[lf.Name] = true
	}
	if known[field] || len(known) == 0 {
		return field
	}
	// literals of the type: field -> value
	for _, fn := range curCtx.Funcs {
		if rootFn(fn).Pkg == nil || rootFn(fn).Pkg.Pkg != nt.Obj().Pkg() {
			continue
		}
		byAlloc := map[ssa.Value]map[string]ssa.Value{}
		instrs(fn, func(_ *ssa.BasicBlock, _ int, in ssa.Instruction) {
			st, ok := in.(*ssa.Store)
			if !ok {
				return
			}
			fa, ok := st.Addr.(*ssa.FieldAddr)
			if !ok {
				return
			}
			n2, ok := derefType(fa.X.Type()).(*types.Named)
			if !ok || n2.Origin() != nt.Origin() {
				return
			}
			if _, isChan := derefType(fa.Type()).Underlying().(*types.Chan); !isChan {
				return
			}
			if byAlloc[fa.X] == nil {
				byAlloc[fa.X] = map[string]ssa.Value{}
			}
			byAlloc[fa.X][fieldName(fa.X.Type(), fa.Field)] = resolveVal(stripChange(st.Val))
		})
		for _, fields := range byAlloc {
			mine, has := fields[field]
			if !has {
				continue
			}
			for f2, v2 := range fields {
				if f2 != field && known[f2] && v2 == mine {
					chanFieldAliasMemo[key] = f2
					return f2
				}
			}
		}
	}
	return field
}

// chanThroughStruct: v reads field #k of a struct value that an in-module helper returned (a := s.aborts(ctx); a.ctxDone): the
// value the helper stored into that field of the struct it built, in the HELPER's frame, and the call. Only when the helper
// builds one local struct with exactly one store to the field.
func chanThroughStruct(v ssa.Value) (ssa.Value, *ssa.Call, bool) {
	var call *ssa.Call
	field := -1
	switch x := v.(type) {
	case *ssa.Field:
		if c, ok := x.X.(*ssa.Call); ok {
			call, field = c, x.Field
		} else if ld, ok := x.X.(*ssa.UnOp); ok && ld.Op == token.MUL {
			if al, ok := ld.X.(*ssa.Alloc); ok {
				if sts := storesTo(al); len(sts) == 1 {
					if c, ok := sts[0].Val.(*ssa.Call); ok {
						call, field = c, x.Field
					}
				}
			}
		}
	case *ssa.UnOp:
		if x.Op != token.MUL {
			return nil, nil, false
		}
		fa, ok := x.X.(*ssa.FieldAddr)
		if !ok {
			return nil, nil, false
		}
		al, ok := fa.X.(*ssa.Alloc)
		if !ok {
			return nil, nil, false
		}
		// the struct was spilled into a local: a single whole-struct store of the call's result, no field stores
		var whole []*ssa.Store
		for _, ref := range refsOf(al) {
			if st, ok := ref.(*ssa.Store); ok && st.Addr == ssa.Value(al) {
				whole = append(whole, st)
			}
			if fa2, ok := ref.(*ssa.FieldAddr); ok {
				for _, r2 := range refsOf(fa2) {
					if st, ok := r2.(*ssa.Store); ok && st.Addr == ssa.Value(fa2) {
						return nil, nil, false
					}
				}
			}
		}
		if len(whole) != 1 {
			return nil, nil, false
		}
		c, ok := whole[0].Val.(*ssa.Call)
		if !ok {
			return nil, nil, false
		}
		call, field = c, fa.Field
	default:
		return nil, nil, false
	}
	if call == nil || field < 0 {
		return nil, nil, false
	}
	h := staticCallee(&call.Call)
	if h == nil || h.Blocks == nil || curCtx == nil || !curCtx.inModule(h) || h.Signature.Results().Len() != 1 {
		return nil, nil, false
	}
	if _, isStruct := h.Signature.Results().At(0).Type().Underlying().(*types.Struct); !isStruct {
		return nil, nil, false
	}
	// the struct the helper returns: a load of one local
	var built *ssa.Alloc
	for _, rv := range returnedBy(h, 0) {
		ld, ok := rv.(*ssa.UnOp)
		if !ok || ld.Op != token.MUL {
			return nil, nil, false
		}
		al, ok := ld.X.(*ssa.Alloc)
		if !ok || (built != nil && built != al) {
			return nil, nil, false
		}
		built = al
	}
	if built == nil {
		return nil, nil, false
	}
	var stored ssa.Value
	n := 0
	for _, ref := range refsOf(built) {
		fa, ok := ref.(*ssa.FieldAddr)
		if !ok || fa.Field != field {
			continue
		}
		for _, r2 := range refsOf(fa) {
			if st, ok := r2.(*ssa.Store); ok && st.Addr == ssa.Value(fa) {
				stored = st.Val
				n++
			}
		}
	}
	if n != 1 {
		return nil, nil, false
	}
	return stored, call, true
}
