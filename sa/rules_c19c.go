package main

import (
	"go/constant"
	"go/token"
	"go/types"
	"sort"

	"golang.org/x/tools/go/ssa"
)

// C19.empty-input-safe: conditional constant propagation under the assumption "every slice argument is empty".
//
// The walk starts at the entry block and follows the ONE path that an empty input takes for as long as every branch condition
// on it folds to a constant under len(param) = 0 (integer constants, len/cap-free arithmetic, phis resolved by the edge taken,
// comparisons, !). It stops at the first condition it cannot fold (nothing is claimed beyond that point), at a return or at a
// panic. An element access param[i] (or a re-slice with a non-zero bound) met on that definite path is executed by EVERY call
// with an empty argument and is out of range: the function panics on the empty input although its documentation defines a
// result for it (Partition(nil) = 0).
func emptyInputWalk(fn *ssa.Function) (bad ssa.Instruction, why string) {
	if len(fn.Blocks) == 0 {
		return nil, ""
	}
	isSliceParam := func(v ssa.Value) bool {
		p, ok := v.(*ssa.Parameter)
		if !ok {
			return false
		}
		_, isSl := p.Type().Underlying().(*types.Slice)
		return isSl
	}
	type val struct {
		known bool
		c     constant.Value
	}
	env := map[ssa.Value]val{}
	var eval func(v ssa.Value) val
	eval = func(v ssa.Value) val {
		if r, ok := env[v]; ok {
			return r
		}
		switch x := v.(type) {
		case *ssa.Const:
			if x.Value != nil && (x.Value.Kind() == constant.Int || x.Value.Kind() == constant.Bool) {
				return val{true, x.Value}
			}
		case *ssa.Convert:
			if r := eval(x.X); r.known && r.c.Kind() == constant.Int {
				if bt, ok := x.Type().Underlying().(*types.Basic); ok && bt.Info()&types.IsInteger != 0 {
					return r
				}
			}
		case *ssa.ChangeType:
			return eval(x.X)
		}
		return val{}
	}
	cur := fn.Blocks[0]
	var pred *ssa.BasicBlock
	for steps := 0; steps < 200 && cur != nil; steps++ {
		for _, in := range cur.Instrs {
			switch x := in.(type) {
			case *ssa.Phi:
				for k, pb := range cur.Preds {
					if pb == pred {
						env[x] = eval(x.Edges[k])
					}
				}
			case *ssa.Call:
				if bi, ok := x.Call.Value.(*ssa.Builtin); ok && (bi.Name() == "len") && len(x.Call.Args) == 1 && isSliceParam(x.Call.Args[0]) {
					env[x] = val{true, constant.MakeInt64(0)}
				}
			case *ssa.BinOp:
				a, b := eval(x.X), eval(x.Y)
				if !a.known || !b.known {
					break
				}
				switch x.Op {
				case token.ADD, token.SUB, token.MUL:
					if a.c.Kind() == constant.Int && b.c.Kind() == constant.Int {
						env[x] = val{true, constant.BinaryOp(a.c, x.Op, b.c)}
					}
				case token.QUO, token.REM:
					if a.c.Kind() == constant.Int && b.c.Kind() == constant.Int && constant.Sign(b.c) != 0 {
						op := x.Op
						if op == token.QUO {
							op = token.QUO_ASSIGN // integer division
						}
						env[x] = val{true, constant.BinaryOp(a.c, op, b.c)}
					}
				case token.LSS, token.LEQ, token.GTR, token.GEQ, token.EQL, token.NEQ:
					if a.c.Kind() == b.c.Kind() {
						env[x] = val{true, constant.MakeBool(constant.Compare(a.c, x.Op, b.c))}
					}
				}
			case *ssa.UnOp:
				if x.Op == token.NOT {
					if a := eval(x.X); a.known && a.c.Kind() == constant.Bool {
						env[x] = val{true, constant.MakeBool(!constant.BoolVal(a.c))}
					}
				}
				if x.Op == token.SUB {
					if a := eval(x.X); a.known && a.c.Kind() == constant.Int {
						env[x] = val{true, constant.UnaryOp(token.SUB, a.c, 0)}
					}
				}
			case *ssa.IndexAddr:
				if isSliceParam(x.X) {
					return x, "element " + path(x.Index) + " of the empty argument " + path(x.X) + " is accessed"
				}
			case *ssa.Slice:
				if isSliceParam(x.X) {
					for _, bnd := range []ssa.Value{x.Low, x.High} {
						if bnd == nil {
							continue
						}
						if b := eval(bnd); b.known && b.c.Kind() == constant.Int && constant.Sign(b.c) != 0 {
							if x.X.Type().Underlying().(*types.Slice) != nil && bnd == x.High {
								// s[:k] with k within cap(s) is legal; cap is unknown
								continue
							}
							return x, "the empty argument " + path(x.X) + " is re-sliced from " + b.c.String()
						}
					}
				}
			case *ssa.If:
				c := eval(x.Cond)
				if !c.known || c.c.Kind() != constant.Bool {
					return nil, ""
				}
				pred = cur
				if constant.BoolVal(c.c) {
					cur = cur.Succs[0]
				} else {
					cur = cur.Succs[1]
				}
				goto next
			case *ssa.Jump:
				pred = cur
				cur = cur.Succs[0]
				goto next
			case *ssa.Return, *ssa.Panic:
				return nil, ""
			}
		}
		return nil, ""
	next:
	}
	return nil, ""
}

var _ = late(func() {
	p := properties["C19"]
	p.Rules = append(p.Rules, &Rule{ID: "C19.empty-input-safe", Floor: 20, Clause: "constant propagation under the assumption that every slice argument is empty: on the single path such a call takes (followed while every branch condition folds to a constant) no exported helper of xslices, xsort or xmaps indexes the empty argument - the documented result for the empty input is returned instead of an index-out-of-range panic",
		Run: func(c *Ctx, r *R) {
			for _, rel := range []string{"xslices", "xsort", "xmaps"} {
				fns := c.funcsOfPkg(rel)
				sort.Slice(fns, func(i, j int) bool { return c.nameOf(fns[i]) < c.nameOf(fns[j]) })
				for _, fn := range fns {
					if fn.Parent() != nil || !token.IsExported(fn.Name()) || fn.Signature.Recv() != nil {
						continue
					}
					hasSlice := false
					for _, prm := range fn.Params {
						if _, ok := prm.Type().Underlying().(*types.Slice); ok {
							hasSlice = true
						}
					}
					if !hasSlice {
						continue
					}
					bad, why := emptyInputWalk(fn)
					pos := fn.Pos()
					if bad != nil {
						pos = bad.Pos()
					}
					r.ok(bad == nil, c.nameOf(fn)+"|empty-input", pos, "every call with empty slice arguments reaches this point ("+why+"): index out of range instead of the result documented for the empty input")
				}
			}
		}})
})

// C19.length-mismatch-panics: FromKeysAndValues documents "panics if len(keys) != len(values)". The panic guard must reject BOTH
// directions of the mismatch: a one-sided test (len(values) < len(keys)) silently drops surplus values instead of panicking.
var _ = late(func() {
	p := properties["C19"]
	p.Rules = append(p.Rules, &Rule{ID: "C19.length-mismatch-panics", Floor: 1, Clause: "xmaps.FromKeysAndValues reaches its panic for every pair of arguments of different lengths: the guard compares len(keys) with len(values) by != (or by < and > together), and nothing is stored before it",
		Run: func(c *Ctx, r *R) {
			fn := c.fn("xmaps.FromKeysAndValues")
			if fn == nil || len(fn.Params) < 2 {
				r.undecided("xmaps.FromKeysAndValues|missing", token.NoPos, "anchor not found")
				return
			}
			lenOf := func(v ssa.Value) *ssa.Parameter {
				call, ok := resolveVal(v).(*ssa.Call)
				if !ok {
					return nil
				}
				if bi, ok := call.Call.Value.(*ssa.Builtin); !ok || bi.Name() != "len" {
					return nil
				}
				prm, _ := resolveVal(call.Call.Args[0]).(*ssa.Parameter)
				return prm
			}
			neq, lt, gt := false, false, false
			for _, fr := range deepFrames(fn, 2) {
				for _, b := range fr.f.Blocks {
					if len(b.Instrs) == 0 {
						continue
					}
					if _, isPanic := b.Instrs[len(b.Instrs)-1].(*ssa.Panic); !isPanic {
						continue
					}
					for _, pb := range b.Preds {
						iff, ok := pb.Instrs[len(pb.Instrs)-1].(*ssa.If)
						if !ok {
							continue
						}
						for _, g := range expandGuard(guard{cond: iff.Cond, val: pb.Succs[0] == b, blk: pb}, 0) {
							cf, ok := g.asCmp()
							if !ok {
								continue
							}
							x, y := argOf(resolveVal(cf.x), fr.chain), argOf(resolveVal(cf.y), fr.chain)
							px, py := lenOf(x), lenOf(y)
							if px == nil || py == nil || px == py {
								continue
							}
							op := cf.op
							if px != fn.Params[0] {
								op = flip(op)
							}
							switch op {
							case token.NEQ:
								neq = true
							case token.LSS:
								lt = true
							case token.GTR:
								gt = true
							}
						}
					}
				}
			}
			r.ok(neq || (lt && gt), "xmaps.FromKeysAndValues|both-directions", fn.Pos(), "the documented panic for len(keys) != len(values) is reached for one direction of the mismatch only: the other direction silently builds a map from a prefix of the longer argument")
		}})
})

// C19.namesake-delegation: the xsort adapters Slice, SliceStable, SliceIsSorted and Search are documented to "follow the same
// rules as sort.<same name>". Each must reach exactly that standard-library function (and no sibling of it): SliceStable built on
// sort.Slice is a copy/paste slip that loses stability for inputs longer than the insertion-sort threshold.
var _ = late(func() {
	p := properties["C19"]
	p.Rules = append(p.Rules, &Rule{ID: "C19.namesake-delegation", Floor: 4, Clause: "an exported function of xsort whose name is also the name of a function of the standard package sort (Slice, SliceStable, SliceIsSorted, Search) delegates, if it delegates to package sort / slices at all, to that function (or its slices equivalent: SortFunc / SortStableFunc / IsSortedFunc / BinarySearchFunc) and to no sibling of it",
		Run: func(c *Ctx, r *R) {
			slicesName := map[string]string{"Slice": "SortFunc", "SliceStable": "SortStableFunc", "SliceIsSorted": "IsSortedFunc", "Search": "BinarySearchFunc"}
			fns := c.funcsOfPkg("xsort")
			sort.Slice(fns, func(i, j int) bool { return c.nameOf(fns[i]) < c.nameOf(fns[j]) })
			for _, fn := range fns {
				if fn.Parent() != nil || !token.IsExported(fn.Name()) || fn.Signature.Recv() != nil {
					continue
				}
				want, isAdapter := slicesName[fn.Name()]
				if !isAdapter {
					continue
				}
				var called []string
				for _, di := range deepInstrs(fn, 2) {
					call, ok := di.in.(*ssa.Call)
					if !ok {
						continue
					}
					cal := call.Call.StaticCallee()
					if cal == nil || cal.Pkg == nil {
						if cal != nil && cal.Origin() != nil && cal.Origin().Pkg != nil {
							cal = cal.Origin()
						} else {
							continue
						}
					}
					switch cal.Pkg.Pkg.Path() {
					case "sort", "slices":
						called = append(called, cal.Pkg.Pkg.Path()+"."+cal.Name())
					}
				}
				if len(called) == 0 {
					// implemented by hand (a binary search written out): nothing is delegated, so there is no wrong delegate; what
					// the hand-written code computes is value-level and not decided here
					r.discharged("xsort."+fn.Name()+"|delegates-to-namesake", fn.Pos(), "calls nothing from sort / slices (own implementation; its result is not decided by this rule)")
					continue
				}
				good := true
				for _, cn := range called {
					if cn != "sort."+fn.Name() && cn != "slices."+want {
						good = false
					}
				}
				r.ok(good, "xsort."+fn.Name()+"|delegates-to-namesake", fn.Pos(), "xsort."+fn.Name()+" must follow the rules of sort."+fn.Name()+" and therefore be built on it (or on slices."+want+"); it calls "+joinStr(called, ", "))
				// ... and what a delegating adapter answers IS the delegate's answer, on every path: a shortcut that returns
				// something of its own (a "belongs at the end" fast path in Search) answers differently from sort.Search for
				// some inputs
				if good && fn.Signature.Results().Len() == 1 {
					var deleg *ssa.Call
					instrs(fn, func(_ *ssa.BasicBlock, _ int, in ssa.Instruction) {
						if call, ok := in.(*ssa.Call); ok {
							if cal := call.Call.StaticCallee(); cal != nil && cal.Pkg != nil && (cal.Pkg.Pkg.Path() == "sort" || cal.Pkg.Pkg.Path() == "slices") {
								deleg = call
							}
						}
					})
					if deleg != nil {
						k := 0
						instrs(fn, func(_ *ssa.BasicBlock, _ int, in ssa.Instruction) {
							ret, ok := in.(*ssa.Return)
							if !ok || len(ret.Results) != 1 {
								return
							}
							for _, vr := range virtualReturnsOf(ret, 0) {
								k++
								v := vr.val
								if ex, ok := v.(*ssa.Extract); ok {
									v = ex.Tuple
								}
								r.ok(v == ssa.Value(deleg), "xsort."+fn.Name()+"|answer-is-the-delegate's#"+itoa(k), retPos(ret), "a path returns "+path(vr.val)+" instead of what sort."+fn.Name()+" answers: the adapter no longer follows the rules of its namesake for the inputs that take this path")
							}
						})
					}
				}
			}
		}})
})

func joinStr(xs []string, sep string) string {
	out := ""
	for i, x := range xs {
		if i > 0 {
			out += sep
		}
		out += x
	}
	if out == "" {
		return "nothing from sort / slices"
	}
	return out
}

// C19.callers-skip-advances: WithStack reads the stack in batches with runtime.Callers(skip, buf). The next batch starts where
// this one ended: skip grows by exactly the number of frames just read. Any other value (len(ptrs), which lacks the initial
// offset) makes the second batch overlap the first on stacks deeper than one batch - frames appear twice in Error().
// C19.written-maps-are-made: a map that an xmaps function fills was created by make in that function; a result obtained from
// maps.Clone(arg) is nil for a nil argument and the first insertion panics (Union(nil, s)).
// C19 namesake answers: see rule C19.namesake-delegation (a delegating adapter returns the delegate's answer on every path).
var _ = late(func() {
	p := properties["C19"]
	p.Rules = append(p.Rules, &Rule{ID: "C19.callers-skip-advances", Floor: 1, Clause: "in xerrors.WithStack the skip argument of runtime.Callers is a loop variable whose only update is skip + n with n the result of that very call (the next batch starts exactly after the frames just read)",
		Run: func(c *Ctx, r *R) {
			fn := c.fn("xerrors.WithStack")
			if fn == nil {
				r.undecided("xerrors.WithStack|missing", token.NoPos, "anchor not found")
				return
			}
			n := 0
			for _, di := range deepInstrs(fn, 2) {
				call, ok := di.in.(*ssa.Call)
				if !ok {
					continue
				}
				cal := call.Call.StaticCallee()
				if cal == nil || cal.Name() != "Callers" || cal.Pkg == nil || cal.Pkg.Pkg.Path() != "runtime" || len(call.Call.Args) != 2 {
					continue
				}
				phi, isPhi := call.Call.Args[0].(*ssa.Phi)
				if !isPhi {
					// a single call with a constant skip: nothing to advance
					if _, isK := call.Call.Args[0].(*ssa.Const); isK {
						n++
						r.discharged("xerrors.WithStack|skip#"+itoa(n), call.Pos(), "a single runtime.Callers call with a constant skip")
					}
					continue
				}
				for _, e := range phi.Edges {
					if _, isK := argOf(e, di.calls).(*ssa.Const); isK {
						continue // the initial offset (possibly the constant a caller passes for the helper's parameter)
					}
					n++
					bin, ok := e.(*ssa.BinOp)
					good := ok && bin.Op == token.ADD && ((bin.X == ssa.Value(phi) && bin.Y == ssa.Value(call)) || (bin.Y == ssa.Value(phi) && bin.X == ssa.Value(call)))
					r.ok(good, "xerrors.WithStack|skip#"+itoa(n), call.Pos(), "the next runtime.Callers batch starts at "+path(e)+" instead of skip + n: on a stack deeper than one batch the batches overlap (frames recorded twice) or leave a gap")
				}
			}
			if n == 0 {
				r.undecided("xerrors.WithStack|skip", fn.Pos(), "no runtime.Callers call found")
			}
		}})
	p.Rules = append(p.Rules, &Rule{ID: "C19.written-maps-are-made", Floor: 8, Clause: "every map an exported xmaps function inserts into was created by make (or a literal) in that function on every path: a map obtained from a call (maps.Clone of an argument) is nil for a nil argument and the insertion panics",
		Run: func(c *Ctx, r *R) {
			fns := c.funcsOfPkg("xmaps")
			sort.Slice(fns, func(i, j int) bool { return c.nameOf(fns[i]) < c.nameOf(fns[j]) })
			for _, fn := range fns {
				name := c.nameOf(fn)
				n := 0
				instrs(fn, func(_ *ssa.BasicBlock, _ int, in ssa.Instruction) {
					mu, ok := in.(*ssa.MapUpdate)
					if !ok {
						return
					}
					n++
					good, why := true, ""
					ls := valueLeaves(mu.Map, nil, 0)
					for _, lf := range ls {
						v := resolveVal(lf.v)
						switch x := v.(type) {
						case *ssa.MakeMap:
						case *ssa.Parameter:
							// writing into an argument is decided by C19.param-effects
						case *ssa.Call:
							good, why = false, "the map comes from "+calleeName(&x.Call)
						default:
							good, why = false, "the map is "+path(v)
						}
					}
					r.ok(good && len(ls) > 0, name+"|insert#"+itoa(n), mu.Pos(), "an insertion into a map that was not made here ("+why+"): it may be nil (e.g. a clone of a nil argument), and inserting into a nil map panics")
				})
			}
		}})
})
