package main

import (
	"go/constant"
	"go/token"
	"go/types"
	"sort"
	"strings"

	"golang.org/x/tools/go/ssa"
)

func init() {
	register(&Property{
		ID:    "C16",
		Title: "xsync.ContextCond never loses a wakeup",
		Rules: []*Rule{
			{ID: "C16.snapshot-before-release", Floor: 2, Clause: "Wait reads c.ch (under c.m) before c.L.Unlock() on every path and its select receives from that snapshot, not from a re-read",
				Run: ruleCondSnapshot},
			{ID: "C16.lock-state", Floor: 4, Clause: "a nil return of Wait is preceded by c.L.Lock() in the wake-up arm; an error return occurs only in the ctx.Done() arm, is ctx.Err(), and no c.L.Lock() lies on its path; the wake-up arm never returns an error (a consumed wake-up is never swallowed)",
				Run: ruleCondLockState},
			{ID: "C16.lockset", Floor: 4, Clause: "c.ch is read with c.m held (R or W) and written only with c.m held for writing; Broadcast closes the old channel before installing the new one",
				Run: func(c *Ctx, r *R) {
					owner, chF, muF := condOwner(c)
					guardedAccesses(c, r, "ch", "xsync", owner, chF, muF)
					ruleBroadcastOrder(c, r)
				}},
			{ID: "C16.capacity-siblings", Floor: 3, Clause: "every creation site of ContextCond.ch uses the same constant capacity >= 1; Signal is a non-blocking send",
				Run: ruleCondCapacity},
			{ID: "C16.signal-capacity", Floor: 1, Clause: "wake-up capacity: the only state through which a Signal reaches a waiter that has released the lock but not yet parked is the buffer of ch; with a shared channel of constant capacity k and a non-blocking send, more than k signals issued in that window are dropped",
				Run: ruleSignalCapacity},
		},
		NotCovered: []string{"promptness of the context return (timing)", "fairness among waiters"},
		Trusted:    []string{"Go channel semantics: a send on a buffered channel with free capacity succeeds without a receiver; closing wakes all receivers"},
	})
}

func condWait(c *Ctx, r *R) *ssa.Function {
	fn := c.fn("xsync.ContextCond.Wait")
	if fn == nil {
		r.undecided("xsync.ContextCond.Wait|missing", token.NoPos, "anchor not found")
	}
	return fn
}

// condOwner: the struct type (ContextCond itself, or a struct nested in it by value) that holds the wake-up channel and the
// mutex guarding it, with the (pinned) names of those two fields.
func condOwner(c *Ctx) (owner, ch, mu string) {
	tn := c.lookupType("xsync", "ContextCond")
	if tn == nil {
		return "", "", ""
	}
	var visit func(t types.Type, name string, d int) bool
	visit = func(t types.Type, name string, d int) bool {
		st, ok := t.Underlying().(*types.Struct)
		if !ok || d > 2 {
			return false
		}
		var chs, mus []string
		for i := 0; i < st.NumFields(); i++ {
			ft := st.Field(i).Type()
			if chanElemIsEmptyStruct(ft) {
				chs = append(chs, canonField(t, st.Field(i).Name()))
			}
			if isNamedType(ft, "sync", "RWMutex") || isNamedType(ft, "sync", "Mutex") {
				mus = append(mus, canonField(t, st.Field(i).Name()))
			}
		}
		if len(chs) == 1 && len(mus) == 1 {
			owner, ch, mu = name, chs[0], mus[0]
			return true
		}
		for i := 0; i < st.NumFields(); i++ {
			if nt, ok := st.Field(i).Type().(*types.Named); ok && nt.Obj().Pkg() == tn.Pkg() {
				if visit(nt, canonType(nt), d+1) {
					return true
				}
			}
		}
		return false
	}
	visit(tn.Type(), "ContextCond", 0)
	return
}

func isCondChanFieldAddr(c *Ctx, v ssa.Value) bool {
	owner, chF, _ := condOwner(c)
	fa, ok := v.(*ssa.FieldAddr)
	return ok && owner != "" && fieldName(fa.X.Type(), fa.Field) == chF && isNamedType(fa.X.Type(), "xsync", owner)
}

// lockerCall: in is an interface call of method name on the cond's Locker field (c.L.Unlock() / c.L.Lock()).
func lockerCall(in ssa.Instruction, name string) bool {
	call, ok := in.(*ssa.Call)
	if !ok || !call.Call.IsInvoke() || call.Call.Method.Name() != name {
		return false
	}
	pv := valueProv(call.Call.Value, provEnv{})
	return len(pv.fields) >= 1 && isNamedType(call.Call.Value.Type(), "sync", "Locker")
}

const (
	cSNAP = 1 << iota // the cond's channel was read with its mutex held, before c.L was released
	cUNL              // c.L released
	cREL              // c.L re-acquired
	cWOKE             // a receive from the wake-up channel completed
	cCTX              // the ctx.Done() arm was taken
)

// condWaitStates runs the Wait typestate over Wait and the in-package helpers it is built from and returns, for every
// instruction visited (helpers included), the states that can hold before it.
func condWaitStates(c *Ctx, fn *ssa.Function) map[ssa.Instruction]StateSet {
	_, _, muF := condOwner(c)
	held := map[*ssa.Function]map[ssa.Instruction]lockset{}
	lockedAt := func(in ssa.Instruction) bool {
		f := in.Parent()
		if held[f] == nil {
			held[f] = locksIn(f, lockset{})
		}
		for lk := range held[f][in] {
			if strings.HasSuffix(lk, "."+muF) {
				return true
			}
		}
		return false
	}
	pkg := fn.Pkg
	pf := &PF{N: 32, DeepVisit: true, InScope: func(f *ssa.Function) bool {
		return (rootFn(f).Pkg == pkg || c.inModule(f)) && f.Blocks != nil && f != fn
	}}
	pf.Instr = func(f *ssa.Function, in ssa.Instruction, q int) (StateSet, bool) {
		switch x := in.(type) {
		case *ssa.UnOp:
			if x.Op == token.MUL && isCondChanFieldAddr(c, x.X) && q&cUNL == 0 && lockedAt(x) {
				return ss(q | cSNAP), true
			}
			if x.Op == token.ARROW && q&cUNL != 0 {
				if _, isCtx := ctxDoneOf(x.X); !isCtx {
					return ss(q | cWOKE), true
				}
			}
		case *ssa.Call:
			if lockerCall(in, "Unlock") {
				if q&cSNAP == 0 {
					return ss(q), true // released before the snapshot: the later read does not count
				}
				return ss(q | cUNL), true
			}
			if lockerCall(in, "Lock") {
				return ss(q | cREL), true
			}
			// a function literal handed to a helper that runs it under the mutex (c.with(func(cur) { ch = cur })): the read
			// happens inside the helper; nothing to do here
		}
		return 0, false
	}
	pf.Edge = func(f *ssa.Function, g guard, q int) (StateSet, bool) {
		cf, ok := g.asCmp()
		if !ok || cf.op != token.EQL {
			return 0, false
		}
		ex, ok := cf.x.(*ssa.Extract)
		if !ok || ex.Index != 0 {
			return 0, false
		}
		sel, ok := ex.Tuple.(*ssa.Select)
		k, isK := cf.y.(*ssa.Const)
		if !ok || !isK || k.Value == nil {
			return 0, false
		}
		idx := int(k.Int64())
		if idx < 0 || idx >= len(sel.States) || sel.States[idx].Dir != types.RecvOnly {
			return 0, false
		}
		if _, isCtx := ctxDoneOf(sel.States[idx].Chan); isCtx {
			return ss(q | cCTX), true
		}
		if q&cUNL != 0 {
			return ss(q | cWOKE), true
		}
		return 0, false
	}
	before := map[ssa.Instruction]StateSet{}
	pf.Visit = func(f *ssa.Function, in ssa.Instruction, s StateSet) { before[in] |= s }
	// a bracket helper that runs a function literal between Unlock and Lock (c.whileUnlocked(func() bool { select ... })): its
	// func-typed parameter stands for the literal
	unbind := bindFuncParams(fn)
	pf.Exits(fn, ss(0))
	unbind()
	return before
}

// ctxDoneOf: v is (a copy of) the result of Done() on a context.
func ctxDoneOf(v ssa.Value) (ssa.Value, bool) {
	if inner, _, ok := chanThroughStruct(v); ok {
		// a field of a struct a helper filled in (a := s.aborts(ctx); <-a.ctxDone): what the helper stored
		if _, isDone := ctxDoneOf(inner); isDone {
			return v, true
		}
		return nil, false
	}
	for _, lf := range valueLeaves(v, nil, 0) {
		if p, isP := lf.v.(*ssa.Parameter); isP {
			// a channel parameter of a helper: ctx.Done() at every call site
			args := helperChanArgs(p)
			if len(args) == 0 {
				return nil, false
			}
			for _, a := range args {
				if _, ok := ctxDoneOf(a); !ok {
					return nil, false
				}
			}
			continue
		}
		call, ok := lf.v.(*ssa.Call)
		if !ok || !call.Call.IsInvoke() || call.Call.Method.Name() != "Done" {
			return nil, false
		}
	}
	return v, true
}

func ruleCondSnapshot(c *Ctx, r *R) {
	fn := condWait(c, r)
	if fn == nil {
		return
	}
	// (a) identity: every channel Wait blocks on (other than ctx.Done()) is a value of the cond's channel field
	n := 0
	seenFn := map[*ssa.Function]bool{}
	for _, di := range deepInstrsScope(fn, 3, nil, c.inModule) {
		f := di.in.Parent()
		if seenFn[f] {
			continue
		}
		seenFn[f] = true
		for _, op := range chanOpsOf(f) {
			for _, a := range op.arms {
				if a.send || a.kind == "ctx-done" {
					continue
				}
				if _, isCtx := ctxDoneOf(a.ch); isCtx {
					continue
				}
				n++
				good := true
				why := ""
				for _, lf := range valueLeaves(a.ch, di.calls, 0) {
					ld, ok := lf.v.(*ssa.UnOp)
					if !ok || ld.Op != token.MUL || !isCondChanFieldAddr(c, ld.X) {
						// the snapshot travels in a small struct a helper built (w := condWaiter{cond: c, wake: c.ch}; ...
						// <-w.wake): what that helper stored into the field
						if sv := fieldSetByCtor(lf.v, provEnv{chain: lf.chain}); sv != nil {
							if l2, ok2 := stripChange(sv).(*ssa.UnOp); ok2 && l2.Op == token.MUL && isCondChanFieldAddr(c, l2.X) {
								continue
							}
						}
						good = false
						why = "it can be " + path(lf.v)
					}
				}
				r.ok(good, "xsync.ContextCond.Wait|recv-from-snapshot#"+itoa(n), posOf(op.in), "the channel waited on must be the value of the cond's channel read under its mutex BEFORE c.L.Unlock(): a Broadcast between the unlock and a later read would replace the channel and the wake-up would be missed ("+why+")")
			}
		}
	}
	if n == 0 {
		r.violated("xsync.ContextCond.Wait|recv-from-snapshot", fn.Pos(), "Wait does not wait on the cond's channel")
	}
	// (b) order: at every return that reports a wake-up, the channel had been read under the mutex, then c.L released, and only
	// then the receive completed (the typestate sets WOKE only after UNL, and UNL only after SNAP)
	before := condWaitStates(c, fn)
	okOrder, any := true, false
	{
		states := []StateSet{}
		for _, rs := range condReturns(fn, before) { // the ways out that report a wake-up (nil)
			if isNilConst(rs.res) {
				states = append(states, rs.st)
			}
		}
		for _, s2 := range states {
			any = true
			s2.each(func(q int) {
				if q&(cSNAP|cUNL|cWOKE) != cSNAP|cUNL|cWOKE {
					okOrder = false
				}
			})
		}
	}
	r.ok(any && okOrder, "xsync.ContextCond.Wait|unlock-before-wait", fn.Pos(), "on every path that reports a wake-up Wait must have read the channel under the mutex, then released c.L, and only then received: reading after the release misses a Broadcast in between; not releasing deadlocks the signaller")
}

func ruleCondLockState(c *Ctx, r *R) {
	fn := condWait(c, r)
	if fn == nil {
		return
	}
	before := condWaitStates(c, fn)
	rets := condReturns(fn, before)
	// a wake-up token is taken off the channel only by the wait itself (after c.L was released), and only once: a receive
	// before the release ("drop a stale token") steals the token of a waiter that has already unlocked but not yet parked; a
	// second receive after the wake-up eats the next waiter's
	type recvAt struct {
		in ssa.Instruction
		st StateSet
	}
	var recvs []recvAt
	for in, st := range before {
		switch x := in.(type) {
		case *ssa.UnOp:
			if x.Op == token.ARROW {
				if _, isCtx := ctxDoneOf(x.X); !isCtx && chanElemIsEmptyStruct(x.X.Type()) {
					recvs = append(recvs, recvAt{in, st})
				}
			}
		case *ssa.Select:
			for _, ss0 := range x.States {
				if ss0.Dir != types.RecvOnly || !chanElemIsEmptyStruct(ss0.Chan.Type()) {
					continue
				}
				if _, isCtx := ctxDoneOf(ss0.Chan); !isCtx {
					recvs = append(recvs, recvAt{in, st})
				}
			}
		}
	}
	sort.SliceStable(recvs, func(i, j int) bool { return recvs[i].in.Pos() < recvs[j].in.Pos() })
	for i, rc := range recvs {
		early, again := false, false
		rc.st.each(func(q int) {
			if q&cUNL == 0 {
				early = true
			}
			if q&cWOKE != 0 {
				again = true
			}
		})
		why := ""
		switch {
		case early:
			why = "before c.L is released: the token was sent for a waiter that has already unlocked and is about to park"
		case again:
			why = "after this Wait was already woken: the token belongs to another waiter"
		}
		r.ok(!early && !again, "xsync.ContextCond.Wait|consumes-only-its-wakeup#"+itoa(i+1), rc.in.Pos(), "Wait takes a wake-up off the channel "+why+" - that waiter's Signal is lost")
	}
	sort.SliceStable(rets, func(i, j int) bool { return rets[i].ret.Pos() < rets[j].ret.Pos() })
	sawNil, sawErr := false, false
	for n, rs := range rets {
		res := rs.res
		key := "xsync.ContextCond.Wait|return#" + itoa(n+1)
		if isNilConst(res) {
			sawNil = true
			good := true
			rs.st.each(func(q int) {
				if q&cREL == 0 || q&cWOKE == 0 || q&cCTX != 0 {
					good = false
				}
			})
			r.ok(good, key, retPos(rs.ret), "a nil return must hold c.L again on every path and must follow a completed wake-up (never the ctx.Done() arm)")
			continue
		}
		sawErr = true
		isCtxErr := false
		if call, ok := res.(*ssa.Call); ok && call.Call.IsInvoke() && call.Call.Method.Name() == "Err" {
			isCtxErr = true
		}
		// the error result of a module helper that receives under a context (chans.RecvContext): every non-nil error it can
		// return must be ctx.Err() of its ctx.Done() arm
		if call, ridx := resultCall(res); call != nil && !isCtxErr {
			if cal := staticCallee(&call.Call); cal != nil && cal.Blocks != nil && c.inModule(cal) {
				n, all := 0, true
				for _, rv := range returnedBy(cal, ridx) {
					if isNilConst(rv) {
						continue
					}
					n++
					if !isCtxErrAfterDone(rv) {
						all = false
					}
				}
				isCtxErr = n > 0 && all
			}
		}
		inCtx, woke, relocked, unlocked := true, false, false, true
		rs.st.each(func(q int) {
			if q&cCTX == 0 {
				inCtx = false
			}
			if q&cWOKE != 0 {
				woke = true
			}
			if q&cREL != 0 {
				relocked = true
			}
			if q&cUNL == 0 {
				unlocked = false
			}
		})
		r.ok(inCtx && !woke, key, retPos(rs.ret), "an error may be returned only from the ctx.Done() arm: returning an error after the wake-up channel was received from swallows a Signal that another waiter needs")
		r.ok(isCtxErr && !relocked && unlocked, key+"|ctx-err-unlocked", retPos(rs.ret), "the ctx.Done() arm must return ctx.Err() with c.L released and not re-acquired")
	}
	if !sawNil || !sawErr {
		r.violated("xsync.ContextCond.Wait|arms", fn.Pos(), "Wait must select on ctx.Done() and the wake-up channel (a nil return and a ctx.Err() return)")
	} else {
		r.discharged("xsync.ContextCond.Wait|arms", fn.Pos(), "Wait has a wake-up return and a context return")
	}
}

func ruleBroadcastOrder(c *Ctx, r *R) {
	fn := c.fn("xsync.ContextCond.Broadcast")
	if fn == nil {
		r.undecided("xsync.ContextCond.Broadcast|missing", token.NoPos, "anchor not found")
		return
	}
	_, _, muF := condOwner(c)
	var cl, st *deepInstr
	unbindB := bindFuncParams(fn) // (holding(&c.m, c.retireWakeChan))
	defer unbindB()
	deep := deepInstrs(fn, 2)
	// the frames of the deep view: function -> a deep instruction of it (for lock questions about values loaded there)
	frameOf := map[*ssa.Function]deepInstr{}
	for _, d := range deep {
		if _, ok := frameOf[d.in.Parent()]; !ok {
			frameOf[d.in.Parent()] = d
		}
	}
	closedUnderLock := true
	for i := range deep {
		d := deep[i]
		switch x := d.in.(type) {
		case *ssa.Call:
			if bi, ok := x.Call.Value.(*ssa.Builtin); ok && bi.Name() == "close" {
				good := true
				under := true
				for _, lf := range valueLeaves(x.Call.Args[0], d.calls, 0) {
					ld, ok := lf.v.(*ssa.UnOp)
					if !ok || !isCondChanFieldAddr(c, ld.X) {
						good = false
						continue
					}
					// the channel that is closed must have been read under the write lock too
					if fr, ok := frameOf[ld.Parent()]; ok {
						if !deepLocks(fn, deepInstr{in: ld, site: fr.site, calls: fr.calls}).heldSuffix(muF, true) {
							under = false
						}
					}
				}
				if good {
					cl = &deep[i]
					closedUnderLock = under
				}
			}
		case *ssa.Store:
			if isCondChanFieldAddr(c, x.Addr) {
				for _, v := range throughHelper(x.Val) {
					if _, isMk := v.(*ssa.MakeChan); isMk {
						st = &deep[i]
					}
				}
			}
		}
	}
	good := cl != nil && st != nil
	if good {
		// both unconditional (entry block of their own function, reached from the entry block of Broadcast), close first
		uncond := func(d *deepInstr) bool {
			if d.site.Block() != fn.Blocks[0] {
				return false
			}
			if d.in.Block() == d.in.Parent().Blocks[0] {
				return true
			}
			// a shared implementation selected by a constant argument (c.wake(wakeAll): `switch scope { case wakeAll: ... }`): the
			// block is reached on every call from here when each of its guards compares a parameter with a constant and
			// folds to true for the constant this call passes
			gs := guardsOfRaw(d.in.Block())
			if len(gs) == 0 || len(d.calls) == 0 {
				return false
			}
			for _, g := range gs {
				cf, ok := g.asCmp()
				if !ok {
					return false
				}
				x, y := cf.x, cf.y
				op := cf.op
				if _, isK := x.(*ssa.Const); isK {
					x, y, op = y, x, flip(op)
				}
				ky, okY := y.(*ssa.Const)
				kx, okX := argOf(resolveVal(x), d.calls).(*ssa.Const)
				if !okX || !okY || kx.Value == nil || ky.Value == nil || kx.Value.Kind() != ky.Value.Kind() {
					return false
				}
				if !constant.Compare(kx.Value, op, ky.Value) {
					return false
				}
			}
			return true
		}
		before := false
		if cl.in.Parent() == st.in.Parent() && len(cl.calls) == len(st.calls) {
			before = cl.in.Block() == st.in.Block() && idxIn(cl.in) < idxIn(st.in)
		} else {
			before = cl.site.Block() == st.site.Block() && idxIn(cl.site) < idxIn(st.site)
		}
		if !before && cl.site == st.site && cl.in.Parent() != st.in.Parent() && cl.in.Parent().Parent() == fn {
			// c.wake.replace(func(old) { close(old); return make(...) }) with replace doing g.v = f(g.v): the close happens
			// inside the literal, the literal is called by the helper that stores - before the store when the helper's call of
			// its function parameter comes first
			h := st.in.Parent()
			for _, in := range st.in.Block().Instrs {
				if in == st.in {
					break
				}
				if hc, isCall := in.(*ssa.Call); isCall {
					if prm, isP := hc.Call.Value.(*ssa.Parameter); isP && prm.Parent() == h {
						if site, isSite := st.site.(*ssa.Call); isSite {
							idx := paramIndex(prm)
							if idx >= 0 && idx < len(site.Call.Args) && resolveFuncValue(site.Call.Args[idx], 0) == cl.in.Parent() {
								before = true
							}
						}
					}
				}
			}
		}
		good = uncond(cl) && uncond(st) && before && closedUnderLock &&
			deepLocks(fn, *cl).heldSuffix(muF, true) && deepLocks(fn, *st).heldSuffix(muF, true)
	}
	r.ok(good, "xsync.ContextCond.Broadcast|close-then-replace", fn.Pos(), "Broadcast must close the current channel (waking every waiter that snapshotted it) and then install a fresh one, both while holding the cond's mutex for writing")
}

var siteOf = map[*ssa.MakeChan]*ssa.Store{}

func condChanSites(c *Ctx) []*ssa.MakeChan {
	var out []*ssa.MakeChan
	for _, fn := range c.Funcs {
		if rootFn(fn).Pkg != c.SSA["xsync"] {
			continue
		}
		instrs(fn, func(b *ssa.BasicBlock, i int, in ssa.Instruction) {
			st, ok := in.(*ssa.Store)
			if !ok {
				return
			}
			if !isCondChanFieldAddr(c, st.Addr) {
				return
			}
			for _, v := range throughHelper(st.Val) {
				if mc, ok := v.(*ssa.MakeChan); ok {
					out = append(out, mc)
					siteOf[mc] = st
				}
			}
		})
	}
	return out
}

func ruleCondCapacity(c *Ctx, r *R) {
	sites := condChanSites(c)
	caps := map[int64]bool{}
	for i, mc := range sites {
		kv, ok := evalConst(mc.Size, 0)
		if !ok {
			// the capacity is a parameter of an unexported constructor: what every call site passes (all the same constant)
			if p, isP := resolveVal(mc.Size).(*ssa.Parameter); isP && p.Parent() != nil && !token.IsExported(p.Parent().Name()) {
				idx := paramIndex(p)
				css := callSitesOf(c, p.Parent())
				all := len(css) > 0
				var v0 int64
				for k, site := range css {
					if idx >= len(site.Call.Args) {
						all = false
						break
					}
					v, vok := evalConst(site.Call.Args[idx], 0)
					if !vok || (k > 0 && v != v0) {
						all = false
						break
					}
					v0 = v
				}
				if all {
					kv, ok = v0, true
				}
			}
		}
		inherits := false
		if !ok {
			// make(chan struct{}, cap(c.ch)): the replacement keeps the capacity of the channel it replaces - valid whenever
			// every other creation site is
			if call, isCall := resolveVal(mc.Size).(*ssa.Call); isCall && len(call.Call.Args) == 1 {
				if bi, isB := call.Call.Value.(*ssa.Builtin); isB && bi.Name() == "cap" {
					if ld, isLd := call.Call.Args[0].(*ssa.UnOp); isLd && ld.Op == token.MUL && isCondChanFieldAddr(c, ld.X) {
						inherits = true
					}
				}
			}
		}
		good := (ok && kv >= 1) || inherits
		if ok && kv >= 1 {
			caps[kv] = true
		}
		pos := mc.Pos()
		if st := siteOf[mc]; st != nil {
			pos = st.Pos()
		}
		r.ok(good, "xsync.ContextCond|ch-capacity#"+itoa(i+1), pos, "ContextCond.ch must be created with a constant capacity >= 1: with an unbuffered channel a Signal that arrives after a waiter released c.L but before it parked finds no receiver and is lost")
	}
	r.ok(len(sites) >= 2 && len(caps) == 1, "xsync.ContextCond|ch-capacity-siblings", token.NoPos, "every creation site of ch (constructor and Broadcast) must use the same capacity; found "+itoa(len(sites))+" sites with "+itoa(len(caps))+" distinct valid capacities")
	sig := c.fn("xsync.ContextCond.Signal")
	if sig == nil {
		r.undecided("xsync.ContextCond.Signal|missing", token.NoPos, "anchor not found")
		return
	}
	nb := true
	sends := 0
	for _, cs := range condSends(c, sig) {
		sends++
		if cs.blocking {
			nb = false
		}
	}
	r.ok(nb && sends == 1, "xsync.ContextCond.Signal|non-blocking", sig.Pos(), "Signal must be a single non-blocking send on c.ch (it may be called with c.L held and with no waiter present)")
	// ... attempted by EVERY Signal: a test in front of it ("a wake-up is already on its way") remembers something the channel
	// does not - a Broadcast replaces the channel and with it the pending token, the flag stays set, and from then on Signal
	// does nothing
	uncond := true
	why := ""
	for _, cs := range condSends(c, sig) {
		blocks := []*ssa.BasicBlock{cs.op.in.Block()}
		for _, call := range cs.chain {
			blocks = append(blocks, call.Block())
		}
		for _, b := range blocks {
			for _, g := range guardsOf(b) {
				if _, isSel := g.cond.(*ssa.Extract); isSel {
					continue
				}
				// a shared implementation selected by a constant argument (c.wake(wakeOne): `switch scope { case wakeOne: … }`):
				// the guard compares a parameter with a constant and is true for the constant Signal passes
				if cf, ok := g.asCmp(); ok {
					x, y, op := cf.x, cf.y, cf.op
					if _, isK := x.(*ssa.Const); isK {
						x, y, op = y, x, flip(op)
					}
					ky, okY := y.(*ssa.Const)
					kx, okX := argOf(resolveVal(x), cs.chain).(*ssa.Const)
					if okX && okY && kx.Value != nil && ky.Value != nil && kx.Value.Kind() == ky.Value.Kind() && constant.Compare(kx.Value, op, ky.Value) {
						continue
					}
				}
				uncond = false
				why = path(g.cond)
			}
		}
	}
	r.ok(uncond, "xsync.ContextCond.Signal|every-signal-sends", sig.Pos(), "the send of Signal is attempted only under a condition ("+why+"): a Signal that skips the send because of state kept beside the channel is lost whenever that state and the channel disagree (after a Broadcast replaced the channel, or with two waiters parked)")
	// the send happens while c.m is held: Broadcast closes the channel under the write lock, so a send on a snapshot taken
	// before releasing c.m can hit a closed channel (panic) or wake nobody
	_, _, muF := condOwner(c)
	unbindS := bindFuncParams(sig)
	defer unbindS()
	for i, cs := range condSends(c, sig) {
		held := deepLocks(sig, deepInstr{in: cs.op.in, site: cs.op.in, calls: cs.chain})
		r.ok(held.heldSuffix(muF, false), "xsync.ContextCond.Signal|send-under-lock#"+itoa(i+1), posOf(cs.op.in), "Signal must send on the cond's channel while still holding c.m (read lock): once c.m is released a concurrent Broadcast may close that very channel, and the send panics")
	}
}

func ruleSignalCapacity(c *Ctx, r *R) {
	sig := c.fn("xsync.ContextCond.Signal")
	if sig == nil {
		r.undecided("xsync.ContextCond.Signal|missing", token.NoPos, "anchor not found")
		return
	}
	// Is the wake-up token carried by a channel shared by all waiters, with bounded constant capacity, filled by a
	// non-blocking (lossy) send?
	lossy := false
	for _, cs := range condSends(c, sig) {
		if !cs.blocking {
			lossy = true
		}
	}
	var capv int64 = -1
	for _, mc := range condChanSites(c) {
		if kv, ok := evalConst(mc.Size, 0); ok {
			capv = kv
		}
	}
	if lossy && capv >= 0 {
		r.violated("xsync.ContextCond.Signal|wake-up-capacity", sig.Pos(), "Signal is a non-blocking send on one channel shared by all waiters, of constant capacity "+itoa(int(capv))+": when m > "+itoa(int(capv))+" Signals are issued while waiters have released c.L but not yet parked in the select, all but "+itoa(int(capv))+" are dropped, so fewer than min(k, m) waiters wake")
		return
	}
	r.discharged("xsync.ContextCond.Signal|wake-up-capacity", sig.Pos(), "Signal is not a lossy send on a shared bounded channel")
}

type condSend struct {
	op       chanOp
	blocking bool
	chain    []*ssa.Call // call chain from the root function to the frame that holds the send
}

// condSends: the sends on the cond's channel performed by fn, by the in-package helpers it calls and by the function literals
// it hands to them.
func condSends(c *Ctx, fn *ssa.Function) []condSend {
	// (holding(c.m.RLocker(), c.offerWakeup): the wrapper's func parameter stands for the method value passed)
	unbind := bindFuncParams(fn)
	defer unbind()
	var out []condSend
	type frame struct {
		f     *ssa.Function
		chain []*ssa.Call
	}
	var frames []frame
	seenFn := map[*ssa.Function]bool{}
	for _, di := range deepInstrs(fn, 2) {
		f := di.in.Parent()
		if !seenFn[f] {
			seenFn[f] = true
			frames = append(frames, frame{f, di.calls})
		}
	}
	for _, fr := range append([]frame{}, frames...) {
		for _, a := range fr.f.AnonFuncs {
			if !seenFn[a] {
				seenFn[a] = true
				frames = append(frames, frame{a, fr.chain})
			}
		}
	}
	for _, fr := range frames {
		for _, op := range chanOpsOf(fr.f) {
			for _, a := range op.arms {
				if !a.send {
					continue
				}
				isCond := true
				ls := valueLeaves(a.ch, fr.chain, 0)
				for _, lf := range ls {
					if ld, ok := lf.v.(*ssa.UnOp); !ok || ld.Op != token.MUL || !isCondChanFieldAddr(c, ld.X) {
						isCond = false
					}
				}
				if isCond && len(ls) > 0 {
					out = append(out, condSend{op, op.blocking, fr.chain})
				}
			}
		}
	}
	return out
}

// condFieldNames: ContextCond's wake-up channel field (chan struct{}) and its guarding mutex field, whatever they are called.
func condFieldNames(c *Ctx) (ch, mu string) {
	chs := fieldsOfKind(c, "xsync", "ContextCond", func(t types.Type) bool { return chanElemIsEmptyStruct(t) })
	mus := fieldsOfKind(c, "xsync", "ContextCond", func(t types.Type) bool {
		return isNamedType(t, "sync", "RWMutex") || isNamedType(t, "sync", "Mutex")
	})
	if len(chs) == 1 {
		ch = chs[0]
	}
	if len(mus) == 1 {
		mu = mus[0]
	}
	return
}

// isCondChanLoad: v (after peeling locals and tiny helpers) is a load of ContextCond's channel field.
func isCondChanLoad(c *Ctx, v ssa.Value) (loads []*ssa.UnOp, ok bool) {
	chF, _ := condFieldNames(c)
	for _, x := range throughHelper(v) {
		ld, isLd := x.(*ssa.UnOp)
		if !isLd || ld.Op != token.MUL {
			return nil, false
		}
		fa, isFA := ld.X.(*ssa.FieldAddr)
		if !isFA || fieldName(fa.X.Type(), fa.Field) != chF || !isNamedType(fa.X.Type(), "xsync", "ContextCond") {
			return nil, false
		}
		loads = append(loads, ld)
	}
	return loads, len(loads) > 0
}

type retState struct {
	ret *ssa.Return
	st  StateSet
	res ssa.Value
}

// condReturns: the returns of Wait with the abstract states and the value of each way out (a carried result variable - a
// merge, or a local assigned by a function literal - is split into one virtual return per way in).
func condReturns(fn *ssa.Function, before map[ssa.Instruction]StateSet) []retState {
	var rets []retState
	for in, st := range before {
		ret, ok := in.(*ssa.Return)
		if !ok || len(ret.Results) != 1 {
			continue
		}
		if !types.Identical(returnedValue(ret, 0).Type(), fn.Signature.Results().At(0).Type()) {
			continue
		}
		// a single exit that returns a carried variable (`var err error; … err = ctx.Err() …; return err`): one virtual
		// return per way into the exit block, with the value and the state of that way
		if phi, ok := returnedValue(ret, 0).(*ssa.Phi); ok && phi.Block() == ret.Block() {
			for i, e := range phi.Edges {
				pb := ret.Block().Preds[i]
				if len(pb.Instrs) == 0 {
					continue
				}
				rets = append(rets, retState{ret, before[pb.Instrs[len(pb.Instrs)-1]], e})
			}
			continue
		}
		// a result kept in a local that a function literal assigns (`var err error; c.whileUnlocked(func() bool { select { case
		// <-ctx.Done(): err = ctx.Err(); return false ... } }); return err`): when every store to the variable happens on paths
		// through the ctx.Done() arm only, the return yields the stored value on those paths and nil on all others
		if ld, ok := returnedValue(ret, 0).(*ssa.UnOp); ok && ld.Op == token.MUL {
			if cell, ok := ld.X.(*ssa.Alloc); ok && cell.Parent() == fn {
				sts := storesTo(cell)
				ctxOnly := len(sts) > 0
				for _, sx := range sts {
					bs, seen := before[sx]
					if !seen || bs == 0 {
						ctxOnly = false
						continue
					}
					bs.each(func(q int) {
						if q&cCTX == 0 {
							ctxOnly = false
						}
					})
				}
				if ctxOnly {
					var withCtx, without StateSet
					st.each(func(q int) {
						if q&cCTX != 0 {
							withCtx |= ss(q)
						} else {
							without |= ss(q)
						}
					})
					if withCtx != 0 {
						for _, sx := range sts {
							rets = append(rets, retState{ret, withCtx, sx.Val})
						}
					}
					if without != 0 {
						rets = append(rets, retState{ret, without, ssa.NewConst(nil, ld.Type())})
					}
					continue
				}
			}
		}
		// a return that merely hands on a helper's result is decided at the helper's own returns
		if call, ok := returnedValue(ret, 0).(*ssa.Call); ok {
			if cal := staticCallee(&call.Call); cal != nil && cal.Blocks != nil && rootFn(cal).Pkg == fn.Pkg {
				continue
			}
		}
		rets = append(rets, retState{ret, st, returnedValue(ret, 0)})
	}
	return rets
}
