package main

import (
	"go/token"
	"go/types"
	"strings"

	"golang.org/x/tools/go/ssa"
)

func init() {
	register(&Property{
		ID:    "C16",
		Title: "xsync.ContextCond never loses a wakeup",
		Rules: []*Rule{
			{ID: "C16.snapshot-before-release", Floor: 2, Clause: "Wait reads c.ch (under c.m) before c.L.Unlock() on every path and its select receives from that snapshot, not from a re-read",
				Run: ruleCondSnapshot},
			{ID: "C16.lock-state", Floor: 3, Clause: "a nil return of Wait is preceded by c.L.Lock() in the wake-up arm; an error return occurs only in the ctx.Done() arm, is ctx.Err(), and no c.L.Lock() lies on its path; the wake-up arm never returns an error (a consumed wake-up is never swallowed)",
				Run: ruleCondLockState},
			{ID: "C16.lockset", Floor: 4, Clause: "c.ch is read with c.m held (R or W) and written only with c.m held for writing; Broadcast closes the old channel before installing the new one",
				Run: func(c *Ctx, r *R) {
					chF, muF := condFieldNames(c)
					guardedAccesses(c, r, "ch", "xsync", "ContextCond", chF, muF)
					ruleBroadcastOrder(c, r)
				}},
			{ID: "C16.capacity-siblings", Floor: 3, Clause: "every creation site of ContextCond.ch uses the same constant capacity >= 1; Signal is a non-blocking send",
				Run: ruleCondCapacity},
			{ID: "C16.signal-capacity", Floor: 1, Clause: "wake-up capacity: the only state through which a Signal reaches a waiter that has released the lock but not yet parked is the buffer of ch; with a shared channel of constant capacity k and a non-blocking send, more than k signals issued in that window are dropped",
				Run: ruleSignalCapacity},
		},
		NotCovered: []string{"promptness of the context return (timing)", "fairness among waiters"},
		Trusted:    []string{"Go channel semantics: a send on a buffered channel with free capacity succeeds without a receiver; closing wakes all receivers"},
	})
}

func condWait(c *Ctx, r *R) *ssa.Function {
	fn := c.fn("xsync.ContextCond.Wait")
	if fn == nil {
		r.undecided("xsync.ContextCond.Wait|missing", token.NoPos, "anchor not found")
	}
	return fn
}

func ruleCondSnapshot(c *Ctx, r *R) {
	fn := condWait(c, r)
	if fn == nil {
		return
	}
	var unlock ssa.Instruction
	instrs(fn, func(b *ssa.BasicBlock, i int, in ssa.Instruction) {
		if call, ok := in.(*ssa.Call); ok && call.Call.IsInvoke() && call.Call.Method.Name() == "Unlock" && strings.HasSuffix(path(call.Call.Value), ".L") {
			unlock = call
		}
	})
	if unlock == nil {
		r.violated("xsync.ContextCond.Wait|unlock", fn.Pos(), "Wait never releases c.L")
		return
	}
	held := locksIn(fn, lockset{})
	_, muF := condFieldNames(c)
	n := 0
	for _, op := range chanOpsOf(fn) {
		for _, a := range op.arms {
			if a.send || a.kind == "ctx-done" {
				continue
			}
			n++
			isSnap := false
			// the channel value is computed (load or helper call) before the unlock ...
			src := resolveVal(a.ch)
			if si, ok := src.(ssa.Instruction); ok {
				before := si.Block().Dominates(unlock.Block()) && (si.Block() != unlock.Block() || idxIn(si) < idxIn(unlock))
				// ... and it is the cond's channel field read with the mutex held (here, or inside the helper)
				if loads, ok := isCondChanLoad(c, src); ok && before {
					isSnap = true
					for _, ld := range loads {
						h := held
						if ld.Parent() != fn {
							h = locksIn(ld.Parent(), lockset{})
						}
						locked := false
						for lk := range h[ld] {
							if strings.HasSuffix(lk, "."+muF) {
								locked = true
							}
						}
						if !locked {
							isSnap = false
						}
					}
				}
			}
			r.ok(isSnap, "xsync.ContextCond.Wait|recv-from-snapshot#"+itoa(n), posOf(op.in), "the channel waited on must be the value of the cond's channel read under its mutex BEFORE c.L.Unlock(): a Broadcast between the unlock and a later read would replace the channel and the wake-up would be missed")
		}
	}
	if n == 0 {
		r.violated("xsync.ContextCond.Wait|recv-from-snapshot", fn.Pos(), "Wait does not wait on the cond's channel")
	}
	// the unlock is unconditional and precedes the select
	sel := false
	for _, op := range chanOpsOf(fn) {
		if op.kind == "select" && op.blocking {
			if unlock.Block().Dominates(op.in.Block()) && (unlock.Block() != op.in.Block() || idxIn(unlock) < idxIn(op.in)) {
				sel = true
			}
		}
	}
	r.ok(sel && unlock.Block() == fn.Blocks[0], "xsync.ContextCond.Wait|unlock-before-wait", unlock.Pos(), "c.L must be released unconditionally before blocking")
}

func ruleCondLockState(c *Ctx, r *R) {
	fn := condWait(c, r)
	if fn == nil {
		return
	}
	var ctxBody, wakeBody *ssa.BasicBlock
	for _, op := range chanOpsOf(fn) {
		if op.kind != "select" {
			continue
		}
		for _, a := range op.arms {
			if a.kind == "ctx-done" {
				ctxBody = a.body
			} else if !a.send {
				wakeBody = a.body
			}
		}
	}
	if ctxBody == nil || wakeBody == nil {
		r.violated("xsync.ContextCond.Wait|arms", fn.Pos(), "Wait must select on ctx.Done() and the wake-up channel")
		return
	}
	isRelock := func(in ssa.Instruction) bool {
		call, ok := in.(*ssa.Call)
		return ok && call.Call.IsInvoke() && call.Call.Method.Name() == "Lock" && strings.HasSuffix(path(call.Call.Value), ".L")
	}
	// typestate: 0 = c.L not re-acquired since the unlock, 1 = re-acquired
	pf := &PF{N: 2}
	pf.Instr = func(f *ssa.Function, in ssa.Instruction, q int) (StateSet, bool) {
		if isRelock(in) {
			return ss(1), true
		}
		return 0, false
	}
	n := 0
	for _, e := range pf.Exits(fn, ss(0)) {
		n++
		res := e.Ret.Results[0]
		key := "xsync.ContextCond.Wait|return#" + itoa(n)
		inCtx := ctxBody.Dominates(e.Ret.Block())
		inWake := wakeBody.Dominates(e.Ret.Block()) || !inCtx
		if isNilConst(res) {
			r.ok(e.States == ss(1) && !inCtx, key, retPos(e.Ret), "a nil return must hold c.L again on every path (and must not come from the ctx.Done() arm)")
			continue
		}
		// error return
		isCtxErr := false
		if call, ok := res.(*ssa.Call); ok && call.Call.IsInvoke() && call.Call.Method.Name() == "Err" {
			isCtxErr = true
		}
		r.ok(inCtx && !inWake || (inCtx && isCtxErr), key, retPos(e.Ret), "an error may be returned only from the ctx.Done() arm: returning an error after the wake-up channel was received from swallows a Signal that another waiter needs")
		if inCtx {
			r.ok(isCtxErr && e.States == ss(0), key+"|ctx-err-unlocked", retPos(e.Ret), "the ctx.Done() arm must return ctx.Err() without re-acquiring c.L")
		}
	}
}

func ruleBroadcastOrder(c *Ctx, r *R) {
	fn := c.fn("xsync.ContextCond.Broadcast")
	if fn == nil {
		r.undecided("xsync.ContextCond.Broadcast|missing", token.NoPos, "anchor not found")
		return
	}
	chF, muF := condFieldNames(c)
	var cl, st ssa.Instruction
	instrs(fn, func(b *ssa.BasicBlock, i int, in ssa.Instruction) {
		switch x := in.(type) {
		case *ssa.Call:
			if bi, ok := x.Call.Value.(*ssa.Builtin); ok && bi.Name() == "close" {
				if _, ok := isCondChanLoad(c, x.Call.Args[0]); ok {
					cl = x
				}
			}
		case *ssa.Store:
			if _, f, ok := storedField(x.Addr); ok && f == chF {
				for _, v := range throughHelper(x.Val) {
					if _, isMk := v.(*ssa.MakeChan); isMk {
						st = x
					}
				}
			}
		}
	})
	held := locksIn(fn, lockset{})
	w := func(in ssa.Instruction) bool {
		for lk, m := range held[in] {
			if strings.HasSuffix(lk, "."+muF) && m == 'W' {
				return true
			}
		}
		return false
	}
	good := cl != nil && st != nil && cl.Block() == st.Block() && idxIn(cl) < idxIn(st) && w(cl) && w(st) && cl.Block() == fn.Blocks[0]
	// the channel that is closed must have been read under the lock too
	if good {
		if loads, ok := isCondChanLoad(c, cl.(*ssa.Call).Call.Args[0]); ok {
			for _, ld := range loads {
				if ld.Parent() == fn && !w(ld) {
					good = false
				}
			}
		}
	}
	r.ok(good, "xsync.ContextCond.Broadcast|close-then-replace", fn.Pos(), "Broadcast must close the current channel (waking every waiter that snapshotted it) and then install a fresh one, both while holding the cond's mutex for writing")
}

var siteOf = map[*ssa.MakeChan]*ssa.Store{}

func condChanSites(c *Ctx) []*ssa.MakeChan {
	var out []*ssa.MakeChan
	for _, fn := range c.Funcs {
		if rootFn(fn).Pkg != c.SSA["xsync"] {
			continue
		}
		instrs(fn, func(b *ssa.BasicBlock, i int, in ssa.Instruction) {
			st, ok := in.(*ssa.Store)
			if !ok {
				return
			}
			chF, _ := condFieldNames(c)
			fa, ok := st.Addr.(*ssa.FieldAddr)
			if !ok || fieldName(fa.X.Type(), fa.Field) != chF || !isNamedType(fa.X.Type(), "xsync", "ContextCond") {
				return
			}
			for _, v := range throughHelper(st.Val) {
				if mc, ok := v.(*ssa.MakeChan); ok {
					out = append(out, mc)
					siteOf[mc] = st
				}
			}
		})
	}
	return out
}

func ruleCondCapacity(c *Ctx, r *R) {
	sites := condChanSites(c)
	caps := map[int64]bool{}
	for i, mc := range sites {
		kv, ok := evalConst(mc.Size, 0)
		good := ok && kv >= 1
		if good {
			caps[kv] = true
		}
		pos := mc.Pos()
		if st := siteOf[mc]; st != nil {
			pos = st.Pos()
		}
		r.ok(good, "xsync.ContextCond|ch-capacity#"+itoa(i+1), pos, "ContextCond.ch must be created with a constant capacity >= 1: with an unbuffered channel a Signal that arrives after a waiter released c.L but before it parked finds no receiver and is lost")
	}
	r.ok(len(sites) >= 2 && len(caps) == 1, "xsync.ContextCond|ch-capacity-siblings", token.NoPos, "every creation site of ch (constructor and Broadcast) must use the same capacity; found "+itoa(len(sites))+" sites with "+itoa(len(caps))+" distinct valid capacities")
	sig := c.fn("xsync.ContextCond.Signal")
	if sig == nil {
		r.undecided("xsync.ContextCond.Signal|missing", token.NoPos, "anchor not found")
		return
	}
	nb := true
	sends := 0
	seenFn := map[*ssa.Function]bool{}
	for _, di := range deepInstrs(sig, 2) {
		f := di.in.Parent()
		if seenFn[f] {
			continue
		}
		seenFn[f] = true
		var chain []*ssa.Call = di.calls
		for _, op := range chanOpsOf(f) {
			for _, a := range op.arms {
				if !a.send {
					continue
				}
				if _, ok := isCondChanLoad(c, argOf(a.ch, chain)); ok {
					sends++
					if op.blocking {
						nb = false
					}
				}
			}
		}
	}
	r.ok(nb && sends == 1, "xsync.ContextCond.Signal|non-blocking", sig.Pos(), "Signal must be a single non-blocking send on c.ch (it may be called with c.L held and with no waiter present)")
}

func ruleSignalCapacity(c *Ctx, r *R) {
	sig := c.fn("xsync.ContextCond.Signal")
	if sig == nil {
		r.undecided("xsync.ContextCond.Signal|missing", token.NoPos, "anchor not found")
		return
	}
	// Is the wake-up token carried by a channel shared by all waiters, with bounded constant capacity, filled by a
	// non-blocking (lossy) send?
	lossy := false
	seenFn := map[*ssa.Function]bool{}
	for _, di := range deepInstrs(sig, 2) {
		f := di.in.Parent()
		if seenFn[f] {
			continue
		}
		seenFn[f] = true
		for _, op := range chanOpsOf(f) {
			for _, a := range op.arms {
				if !a.send || op.blocking {
					continue
				}
				if _, ok := isCondChanLoad(c, argOf(a.ch, di.calls)); ok {
					lossy = true
				}
			}
		}
	}
	var capv int64 = -1
	for _, mc := range condChanSites(c) {
		if kv, ok := evalConst(mc.Size, 0); ok {
			capv = kv
		}
	}
	if lossy && capv >= 0 {
		r.violated("xsync.ContextCond.Signal|wake-up-capacity", sig.Pos(), "Signal is a non-blocking send on one channel shared by all waiters, of constant capacity "+itoa(int(capv))+": when m > "+itoa(int(capv))+" Signals are issued while waiters have released c.L but not yet parked in the select, all but "+itoa(int(capv))+" are dropped, so fewer than min(k, m) waiters wake")
		return
	}
	r.discharged("xsync.ContextCond.Signal|wake-up-capacity", sig.Pos(), "Signal is not a lossy send on a shared bounded channel")
}

// condFieldNames: ContextCond's wake-up channel field (chan struct{}) and its guarding mutex field, whatever they are called.
func condFieldNames(c *Ctx) (ch, mu string) {
	chs := fieldsOfKind(c, "xsync", "ContextCond", func(t types.Type) bool { return chanElemIsEmptyStruct(t) })
	mus := fieldsOfKind(c, "xsync", "ContextCond", func(t types.Type) bool {
		return isNamedType(t, "sync", "RWMutex") || isNamedType(t, "sync", "Mutex")
	})
	if len(chs) == 1 {
		ch = chs[0]
	}
	if len(mus) == 1 {
		mu = mus[0]
	}
	return
}

// isCondChanLoad: v (after peeling locals and tiny helpers) is a load of ContextCond's channel field.
func isCondChanLoad(c *Ctx, v ssa.Value) (loads []*ssa.UnOp, ok bool) {
	chF, _ := condFieldNames(c)
	for _, x := range throughHelper(v) {
		ld, isLd := x.(*ssa.UnOp)
		if !isLd || ld.Op != token.MUL {
			return nil, false
		}
		fa, isFA := ld.X.(*ssa.FieldAddr)
		if !isFA || fieldName(fa.X.Type(), fa.Field) != chF || !isNamedType(fa.X.Type(), "xsync", "ContextCond") {
			return nil, false
		}
		loads = append(loads, ld)
	}
	return loads, len(loads) > 0
}
