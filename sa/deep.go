package main

import (
	"go/token"
	"go/types"

	"golang.org/x/tools/go/ssa"
)

// Interprocedural helpers: many refactorings extract a few statements into an unexported helper. Rules that ask
// "does this function do X" use the deep view: the function's own instructions plus, transitively, those of the
// in-package functions it calls statically (depth-bounded, non-recursive). Each instruction is reported together
// with the call instruction in the ROOT function through which it is reached (for dominance questions) and the
// chain of calls (for mapping a helper's parameters back to the caller's arguments).

type deepInstr struct {
	in    ssa.Instruction
	site  ssa.Instruction // instruction of the root function that "contains" it (the instruction itself at depth 0)
	calls []*ssa.Call     // call chain from the root (outermost first)
}

func deepInstrs(root *ssa.Function, depth int) []deepInstr {
	return deepInstrsPruned(root, depth, nil)
}

// deepInstrsPruned: like deepInstrs, but does not descend into callees for which prune returns true (the call instruction
// itself is still reported).
func deepInstrsPruned(root *ssa.Function, depth int, prune func(*ssa.Function) bool) []deepInstr {
	return deepInstrsScope(root, depth, prune, nil)
}

// deepInstrsScope: scope (if not nil) replaces the default "same package as the root" test for descending into a callee.
func deepInstrsScope(root *ssa.Function, depth int, prune func(*ssa.Function) bool, scope func(*ssa.Function) bool) []deepInstr {
	inScope := func(cal *ssa.Function) bool {
		if scope != nil {
			return scope(cal)
		}
		// the root's own package, or a helper of the module that blocks only under the context it is handed
		// (chans.RecvContext(ctx, c)): a select written out in another package
		return rootFn(cal).Pkg == rootFn(root).Pkg || ctxBlockingHelper(curCtx, origin(cal))
	}
	var out []deepInstr
	var walk func(fn *ssa.Function, site ssa.Instruction, chain []*ssa.Call, seen map[*ssa.Function]bool, d int)
	walk = func(fn *ssa.Function, site ssa.Instruction, chain []*ssa.Call, seen map[*ssa.Function]bool, d int) {
		for _, b := range fn.Blocks {
			if (activeSpec != nil || len(activeCellFlags) > 0 || len(activeParamFlags) > 0) && specDead(b) {
				continue
			}
			for _, in := range b.Instrs {
				s := site
				if s == nil {
					s = in
				}
				out = append(out, deepInstr{in: in, site: s, calls: chain})
				if df, ok := in.(*ssa.Defer); ok && d > 0 {
					// a deferred closure / helper runs at every exit of fn: its instructions belong to the deep view (no
					// parameter mapping: the chain is left as it is)
					cal := staticCallee(&df.Call)
					if cal != nil && cal.Blocks != nil && !seen[cal] && inScope(cal) && cal != root && (prune == nil || !prune(cal)) {
						seen[cal] = true
						walk(cal, s, chain, seen, d-1)
						delete(seen, cal)
					}
				}
				if call, ok := in.(*ssa.Call); ok && d > 0 {
					cal := staticCallee(&call.Call)
					if cal != nil && cal.Blocks != nil && !seen[cal] && inScope(cal) && cal != root && (prune == nil || !prune(cal)) {
						seen[cal] = true
						nchain := append(append([]*ssa.Call{}, chain...), call)
						// s.offer(ctx, x, false): the part of the helper its constant flags switch off is not part of what this
						// call does
						withChainFlags(nchain[len(nchain)-1:], func() { walk(cal, s, nchain, seen, d-1) })
						delete(seen, cal)
					}
					// a function literal of fn handed to a helper that does nothing with it but call it (t.locked(func() { … })):
					// the literal's body runs here, synchronously
					if cal != nil && cal.Blocks != nil && inScope(cal) {
						for ai, a := range call.Call.Args {
							lit := literalOf(a, fn)
							if lit != nil && !seen[lit] && onlyCallsParam(cal, ai) {
								seen[lit] = true
								walk(lit, s, chain, seen, d-1)
								delete(seen, lit)
							}
						}
					}
				}
			}
		}
	}
	walk(root, nil, nil, map[*ssa.Function]bool{root: true}, depth)
	return out
}

// argOf maps a value of a helper back to the caller's value: a Parameter of the innermost callee in chain is replaced by
// the corresponding argument, repeatedly, until a value of the root function is reached.
func argOf(v ssa.Value, chain []*ssa.Call) ssa.Value {
	for i := len(chain) - 1; i >= 0; i-- {
		p, ok := v.(*ssa.Parameter)
		if !ok {
			break
		}
		cal := staticCallee(&chain[i].Call)
		if cal == nil || p.Parent() != cal {
			break
		}
		idx := -1
		for k, fp := range cal.Params {
			if fp == p {
				idx = k
			}
		}
		if idx < 0 || idx >= len(chain[i].Call.Args) {
			break
		}
		v = chain[i].Call.Args[idx]
	}
	return v
}

// returnedBy: the values a function may return at result index idx (through phis).
func returnedBy(fn *ssa.Function, idx int) []ssa.Value {
	var out []ssa.Value
	instrs(fn, func(b *ssa.BasicBlock, i int, in ssa.Instruction) {
		if ret, ok := in.(*ssa.Return); ok && idx < len(ret.Results) && b.Comment != "recover" {
			v := returnedValue(ret, idx)
			seen := map[ssa.Value]bool{}
			var walk func(x ssa.Value)
			walk = func(x ssa.Value) {
				if seen[x] {
					return
				}
				seen[x] = true
				if phi, ok := x.(*ssa.Phi); ok {
					for _, e := range phi.Edges {
						walk(e)
					}
					return
				}
				out = append(out, x)
			}
			walk(v)
		}
	})
	return out
}

// throughHelper resolves a value that is the result of a tiny in-package helper to what the helper returns
// (e.g. newGenerationChan() → make(chan struct{}, 1); c.currentWakeChan() → the load of c.ch).
func throughHelper(v ssa.Value) []ssa.Value {
	v = resolveVal(v)
	call, ok := v.(*ssa.Call)
	if !ok {
		return []ssa.Value{v}
	}
	cal := staticCallee(&call.Call)
	if prm, isP := call.Call.Value.(*ssa.Parameter); isP && cal == nil && curCtx != nil && prm.Parent() != nil && curCtx.inModule(prm.Parent()) {
		// g.v = f(g.v) inside replace(f func(old T) T): what the literals handed to replace at its call sites return
		if _, isTuple := call.Type().(*types.Tuple); !isTuple {
			idx := paramIndex(prm)
			var out []ssa.Value
			sites := callSitesOf(curCtx, origin(prm.Parent()))
			for _, site := range sites {
				if idx < 0 || idx >= len(site.Call.Args) {
					return []ssa.Value{v}
				}
				lit := resolveFuncValue(site.Call.Args[idx], 0)
				if lit == nil || lit.Blocks == nil {
					return []ssa.Value{v}
				}
				for _, r := range returnedBy(lit, 0) {
					out = append(out, resolveVal(r))
				}
			}
			if len(sites) > 0 && len(out) > 0 {
				return out
			}
		}
		return []ssa.Value{v}
	}
	if cal == nil || cal.Blocks == nil {
		return []ssa.Value{v}
	}
	if tup, isTuple := call.Type().(*types.Tuple); isTuple && tup.Len() != 1 {
		return []ssa.Value{v}
	}
	var out []ssa.Value
	for _, r := range returnedBy(cal, 0) {
		out = append(out, resolveVal(r))
	}
	if len(out) == 0 {
		return []ssa.Value{v}
	}
	return out
}

// fieldsOfKind returns the names of the fields of struct type (rel, typ) satisfying pred.
func fieldsOfKind(c *Ctx, rel, typ string, pred func(t types.Type) bool) []string {
	p := c.Pkgs[rel]
	if p == nil {
		return nil
	}
	tn := c.lookupType(rel, typ)
	if tn == nil {
		return nil
	}
	st, ok := tn.Type().Underlying().(*types.Struct)
	if !ok {
		return nil
	}
	var out []string
	for i := 0; i < st.NumFields(); i++ {
		if pred(st.Field(i).Type()) {
			out = append(out, canonField(tn.Type(), st.Field(i).Name()))
			continue
		}
		// a group of fields moved into a struct of the package that is embedded by value (Group.live roster{m, wg}): the
		// fields of that struct count as the type's own
		if nt, ok := st.Field(i).Type().(*types.Named); ok && nt.Obj().Pkg() == p.Types {
			if inner, ok := nt.Underlying().(*types.Struct); ok {
				for j := 0; j < inner.NumFields(); j++ {
					if pred(inner.Field(j).Type()) {
						out = append(out, canonField(nt, inner.Field(j).Name()))
					}
				}
			}
		}
	}
	return out
}

func isIntType(t types.Type) bool {
	b, ok := t.Underlying().(*types.Basic)
	return ok && b.Info()&types.IsInteger != 0
}

var _ = token.NoPos

// deepGuardStrings: the branch facts that hold at a deep instruction - the guards of its own block and of every call-site block
// along its chain - each written as "x op y" over the root function's values (symbolic expressions).
func deepGuardStrings(d deepInstr) []string {
	var out []string
	add := func(b *ssa.BasicBlock, chain []*ssa.Call) {
		for _, g := range guardsOf(b) {
			cf, ok := g.asCmp()
			if !ok {
				continue
			}
			env := provEnv{chain: chain}
			out = append(out, symOf(cf.x, env).String()+" "+cf.op.String()+" "+symOf(cf.y, env).String())
		}
	}
	add(d.in.Block(), d.calls)
	for i := len(d.calls) - 1; i >= 0; i-- {
		add(d.calls[i].Block(), d.calls[:i])
	}
	return out
}

// factStrings: the comparison facts implied by guard g, written over the root function's values: the comparison itself, or -
// when g tests the boolean result of an in-package helper for true - the comparisons the helper's (single) returned expression
// is a conjunction of, plus the guards of that return.
func factStrings(g guard, chain []*ssa.Call, depth int) []string {
	var out []string
	if cf, ok := g.asCmp(); ok {
		env := provEnv{chain: chain}
		out = append(out, symOf(cf.x, env).String()+" "+cf.op.String()+" "+symOf(cf.y, env).String())
		return out
	}
	v, pol := g.boolVal()
	call, ridx := boolResultCall(v)
	if call == nil || !pol || depth > 2 {
		return out
	}
	cal := staticCallee(&call.Call)
	if cal == nil || cal.Blocks == nil {
		return out
	}
	var rets []*ssa.Return
	instrs(cal, func(b *ssa.BasicBlock, i int, in ssa.Instruction) {
		if r, ok := in.(*ssa.Return); ok && ridx < len(r.Results) {
			if k, isK := returnedValue(r, ridx).(*ssa.Const); isK && k.Value != nil && k.Value.String() == "false" {
				return // cannot be the return that produced true
			}
			rets = append(rets, r)
		}
	})
	if len(rets) != 1 {
		return out
	}
	sub := append(append([]*ssa.Call{}, chain...), call)
	ret := rets[0]
	for _, g2 := range guardsOf(ret.Block()) {
		out = append(out, factStrings(g2, sub, depth+1)...)
	}
	rv := returnedValue(ret, ridx)
	if k, isK := rv.(*ssa.Const); !(isK && k.Value != nil) {
		for _, g2 := range expandGuard(guard{cond: rv, val: true, blk: ret.Block()}, 0) {
			out = append(out, factStrings(g2, sub, depth+1)...)
		}
	}
	return out
}

// deepFactStrings: factStrings of every guard that holds at a deep instruction (own block and call-site blocks).
func deepFactStrings(d deepInstr) []string {
	var out []string
	for _, g := range guardsOf(d.in.Block()) {
		out = append(out, factStrings(g, d.calls, 0)...)
	}
	for i := len(d.calls) - 1; i >= 0; i-- {
		for _, g := range guardsOf(d.calls[i].Block()) {
			out = append(out, factStrings(g, d.calls[:i], 0)...)
		}
	}
	return out
}

// literalOf: v is a function literal declared in fn (a closure or a capture-free literal).
func literalOf(v ssa.Value, fn *ssa.Function) *ssa.Function {
	switch x := v.(type) {
	case *ssa.MakeClosure:
		if f, ok := x.Fn.(*ssa.Function); ok && f.Parent() == fn {
			return f
		}
	case *ssa.Function:
		if x.Parent() == fn {
			return x
		}
	}
	return nil
}

// onlyCallsParam: every use of parameter #idx of h is a direct, synchronous call of it (not stored, passed on, deferred,
// captured or started as a goroutine) and there is at least one.
func onlyCallsParam(h *ssa.Function, idx int) bool {
	h = origin(h)
	if idx >= len(h.Params) || h.Params[idx].Referrers() == nil {
		return false
	}
	n := 0
	for _, ref := range *h.Params[idx].Referrers() {
		if _, isDbg := ref.(*ssa.DebugRef); isDbg {
			continue
		}
		pc, ok := ref.(*ssa.Call)
		if !ok || pc.Call.Value != ssa.Value(h.Params[idx]) {
			return false
		}
		n++
	}
	return n > 0
}
