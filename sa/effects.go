package main

import (
	"go/token"
	"go/types"
	"strings"

	"golang.org/x/tools/go/ssa"
)

// Parameter write-effects: "may this function write through (the memory reachable from) its slice / map parameter #idx?".
//
// The value set D of a parameter = the parameter itself and every value that shares its memory: sub-slices, conversions, phis,
// loads of an address-taken / captured copy, inner slices or maps loaded out of it (a write into in[i][j] is a write through
// `in`). A write is: a store through an element address of a D value, a map update / delete, copy(dst ∈ D, …), append(x ∈ D, …)
// (writes the spare capacity behind x and - for x = s[:k] - the elements of s themselves), clear(x), a call of a standard-
// library writer (sort.Slice, slices.Sort*, slices.Compact*, slices.Delete*, slices.Insert, slices.Reverse, …) or of a module
// function whose own summary says it writes that parameter; closures created in the function are analysed with their captured
// values. Passing a D value to an unknown function value is NOT counted (stated limit).

type effKey struct {
	fn  *ssa.Function
	idx int
}

type effects struct {
	memo map[effKey]string
	busy map[effKey]bool
}

func newEffects() *effects { return &effects{memo: map[effKey]string{}, busy: map[effKey]bool{}} }

// stdlib functions that write through the listed argument
var stdWriters = map[string][]int{
	"sort.Slice": {0}, "sort.SliceStable": {0}, "sort.Sort": {0}, "sort.Stable": {0}, "sort.Ints": {0}, "sort.Strings": {0}, "sort.Float64s": {0},
	"slices.Sort": {0}, "slices.SortFunc": {0}, "slices.SortStableFunc": {0}, "slices.Reverse": {0},
	"slices.Compact": {0}, "slices.CompactFunc": {0}, "slices.Delete": {0}, "slices.DeleteFunc": {0}, "slices.Insert": {0}, "slices.Replace": {0},
	"maps.Copy": {0}, "maps.DeleteFunc": {0}, "maps.Insert": {0},
	"math/rand.Shuffle": {}, "copy": {0}, "append": {0}, "clear": {0}, "delete": {0},
}

func stdName(cc *ssa.CallCommon) string {
	if b, ok := cc.Value.(*ssa.Builtin); ok {
		return b.Name()
	}
	f := calleeOf(cc)
	if f == nil {
		return ""
	}
	o := origin(f)
	if o.Pkg == nil || o.Pkg.Pkg == nil {
		return ""
	}
	name := o.Name()
	if recv := o.Signature.Recv(); recv != nil {
		return ""
	}
	return o.Pkg.Pkg.Path() + "." + name
}

// writesParam returns "" if fn cannot be shown to write through parameter idx (receiver = index 0 for methods, as in
// fn.Params), else a short description of the first write found.
func (e *effects) writesParam(c *Ctx, fn *ssa.Function, idx int) string {
	fn = origin(fn)
	k := effKey{fn, idx}
	if r, ok := e.memo[k]; ok {
		return r
	}
	if e.busy[k] || fn.Blocks == nil || idx >= len(fn.Params) {
		return ""
	}
	e.busy[k] = true
	r := e.writesValue(c, fn, fn.Params[idx])
	delete(e.busy, k)
	e.memo[k] = r
	return r
}

// writesValue: may fn (or a closure it creates) write through root's memory?
func (e *effects) writesValue(c *Ctx, fn *ssa.Function, root ssa.Value) string {
	D := map[ssa.Value]bool{root: true}
	cells := map[*ssa.Alloc]bool{} // cells (captured / address-taken locals) that may hold a D value
	fns := withAnon(fn)
	for changed := true; changed; {
		changed = false
		add := func(v ssa.Value) {
			if !D[v] {
				D[v] = true
				changed = true
			}
		}
		for _, f := range fns {
			for _, fv := range f.FreeVars {
				if cell := cellOf(fv); cell != nil && cells[cell] {
					// loads of *fv handled below through cellOf
					_ = fv
				} else if b := bindingOf(fv); b != nil && D[b] {
					add(fv)
				}
			}
			instrs(f, func(b *ssa.BasicBlock, i int, in ssa.Instruction) {
				switch x := in.(type) {
				case *ssa.Slice:
					if D[x.X] {
						add(x)
					} else if u, ok := x.X.(*ssa.Alloc); ok && cells[u] { // slicing an array cell
						add(x)
					}
				case *ssa.ChangeType:
					if D[x.X] {
						add(x)
					}
				case *ssa.Convert:
					if D[x.X] && isRefLike(x.Type()) {
						add(x)
					}
				case *ssa.MakeInterface:
					if D[x.X] {
						add(x)
					}
				case *ssa.Phi:
					for _, ed := range x.Edges {
						if D[ed] {
							add(x)
						}
					}
				case *ssa.Store:
					if D[x.Val] {
						if cell := cellOf(x.Addr); cell != nil && !cells[cell] {
							cells[cell] = true
							changed = true
						}
					}
				case *ssa.UnOp:
					if x.Op != token.MUL {
						return
					}
					if cell := cellOf(x.X); cell != nil && cells[cell] {
						add(x)
						return
					}
					// inner slice / map / pointer loaded out of a D container
					if isRefLike(x.Type()) {
						if base := elemBase(x.X); base != nil && D[base] {
							add(x)
						}
					}
				case *ssa.Lookup:
					if D[x.X] && isRefLike(x.Type()) {
						add(x)
					}
				case *ssa.Extract:
					// range over a D map/slice yielding inner reference values
					if nx, ok := x.Tuple.(*ssa.Next); ok {
						if rg, ok := nx.Iter.(*ssa.Range); ok && D[rg.X] && isRefLike(x.Type()) {
							add(x)
						}
					}
					if lk, ok := x.Tuple.(*ssa.Lookup); ok && D[lk.X] && isRefLike(x.Type()) {
						add(x)
					}
				}
			})
		}
	}
	// writes
	found := ""
	note := func(s string) {
		if found == "" {
			found = s
		}
	}
	for _, f := range fns {
		instrs(f, func(b *ssa.BasicBlock, i int, in ssa.Instruction) {
			if found != "" {
				return
			}
			switch x := in.(type) {
			case *ssa.Store:
				if base := elemBase(x.Addr); base != nil && D[base] {
					note("stores to an element of " + path(base) + " (" + c.pos(x.Pos()) + ")")
				}
			case *ssa.MapUpdate:
				if D[x.Map] {
					note("updates map " + path(x.Map) + " (" + c.pos(x.Pos()) + ")")
				}
			case *ssa.MakeClosure:
				// a method value bound to it (r.Shuffle(len(a), swappable[T](a).swap)): the method writes through its receiver
				if bf, ok := x.Fn.(*ssa.Function); ok && strings.HasSuffix(bf.Name(), "$bound") && len(x.Bindings) == 1 && D[x.Bindings[0]] {
					if target, _ := funcAndReceiver(x); target != nil && target.Blocks != nil && c.inModule(target) && len(target.Params) > 0 {
						if w := e.writesParam(c, target, 0); w != "" {
							note("binds it as the receiver of the method value " + funcShort(target) + ", which " + w)
						}
					}
				}
			}
			cc := callCommon(in)
			if cc == nil {
				return
			}
			sn := stdName(cc)
			if idxs, ok := stdWriters[sn]; ok {
				for _, ai := range idxs {
					if ai < len(cc.Args) && D[cc.Args[ai]] {
						note("passes it to " + sn + " (" + c.pos(in.Pos()) + ")")
					}
				}
				return
			}
			if cc.IsInvoke() {
				return
			}
			cal := staticCallee(cc)
			if cal == nil || cal.Blocks == nil {
				return
			}
			if cal.Parent() != nil && rootFn(cal) == rootFn(fn) {
				return // a closure of this function: already analysed with its bindings
			}
			if !c.inModule(cal) {
				return
			}
			for ai, a := range cc.Args {
				if D[a] {
					if w := e.writesParam(c, cal, ai); w != "" {
						note("passes it to " + funcShort(cal) + ", which " + w)
					}
				}
			}
		})
	}
	return found
}

// bindingOf: the value bound to a free variable at the (unique) MakeClosure of its function.
func bindingOf(fv *ssa.FreeVar) ssa.Value {
	fn := fv.Parent()
	parent := fn.Parent()
	if parent == nil {
		return nil
	}
	idx := -1
	for i, f := range fn.FreeVars {
		if f == fv {
			idx = i
		}
	}
	var out ssa.Value
	instrs(parent, func(b *ssa.BasicBlock, i int, in ssa.Instruction) {
		if mc, ok := in.(*ssa.MakeClosure); ok && mc.Fn == fn && idx >= 0 && idx < len(mc.Bindings) {
			out = mc.Bindings[idx]
		}
	})
	return out
}

// elemBase: for an address formed by IndexAddr / FieldAddr chains, the container value whose element memory is addressed
// (the X of the innermost IndexAddr whose X is a slice, or pointer-to-array value).
func elemBase(addr ssa.Value) ssa.Value {
	for d := 0; d < 8; d++ {
		switch x := addr.(type) {
		case *ssa.IndexAddr:
			return x.X
		case *ssa.FieldAddr:
			addr = x.X
		default:
			return nil
		}
	}
	return nil
}

func isRefLike(t types.Type) bool {
	switch u := t.Underlying().(type) {
	case *types.Slice, *types.Map, *types.Pointer:
		return true
	case *types.Interface:
		if tp, ok := t.(*types.TypeParam); ok {
			return coreRefLike(tp)
		}
		_ = u
	}
	if tp, ok := t.(*types.TypeParam); ok {
		return coreRefLike(tp)
	}
	return false
}

func coreRefLike(tp *types.TypeParam) bool {
	ct := coreOf(tp)
	if ct == nil {
		return false
	}
	switch ct.Underlying().(type) {
	case *types.Slice, *types.Map, *types.Pointer:
		return true
	}
	return false
}

// coreOf: the single underlying type of a type parameter's type set (~map[K]V, ~[]T), or nil.
func coreOf(tp *types.TypeParam) types.Type {
	iface, ok := tp.Constraint().Underlying().(*types.Interface)
	if !ok {
		return nil
	}
	var found types.Type
	for i := 0; i < iface.NumEmbeddeds(); i++ {
		switch et := iface.EmbeddedType(i).(type) {
		case *types.Union:
			for j := 0; j < et.Len(); j++ {
				u := et.Term(j).Type().Underlying()
				if found != nil && !types.Identical(found, u) {
					return nil
				}
				found = u
			}
		default:
			u := et.Underlying()
			if _, isI := u.(*types.Interface); isI {
				continue
			}
			if found != nil && !types.Identical(found, u) {
				return nil
			}
			found = u
		}
	}
	return found
}

// sliceOrMap: is t (or its core type) a slice or a map?
func sliceOrMap(t types.Type) bool {
	if tp, ok := t.(*types.TypeParam); ok {
		if ct := coreOf(tp); ct != nil {
			t = ct
		} else {
			return false
		}
	}
	switch t.Underlying().(type) {
	case *types.Slice, *types.Map:
		return true
	}
	return false
}

func (c *Ctx) inModule(f *ssa.Function) bool {
	f = rootFn(origin(f))
	if f.Pkg == nil {
		return false
	}
	for _, p := range c.SSA {
		if p == f.Pkg {
			return true
		}
	}
	return false
}
