package main

import (
	"go/token"
	"go/types"
	"sort"
	"strings"

	"golang.org/x/tools/go/ssa"
)

var c19Pkgs = []string{"xslices", "xsort", "xmaps", "xmath", "xerrors", "xmath/xrand"}

// documentedWriters: the exported helpers of the six packages whose DOCUMENTATION says that they modify the memory behind a
// slice / map argument (or receiver). Key: function, value: parameter positions (receiver first) with the reason read from the
// doc comment. Confirmed by reading on the pinned tree. Everything not listed is specified to leave its inputs alone.
var documentedWriters = map[string]map[int]string{
	"xslices.Clear":              {0: "doc: fills s with the zero value"},
	"xslices.Fill":               {0: "doc: fills s with copies of x"},
	"xslices.Partition":          {0: "doc: moves elements of s"},
	"xslices.RemoveUnordered":    {0: "doc: returns the modified slice; moves elements into the gap"},
	"xslices.Reverse":            {0: "doc: reverses the elements of s in place"},
	"xslices.UniqueInPlace":      {0: "doc: done in-place and so modifies the contents of s"},
	"xslices.CompactInPlace":     {0: "doc: in-place variant of Compact"},
	"xslices.CompactInPlaceFunc": {0: "doc: in-place variant of CompactFunc"},
	"xslices.FilterInPlace":      {0: "doc: in-place variant of Filter"},
	"xslices.Insert":             {0: "doc: inserts into s (append semantics: may write s's backing array), returns the modified slice"},
	"xslices.Remove":             {0: "doc: removes from s, returns the modified slice"},
	"xsort.Slice":                {0: "doc: sorts x in place"},
	"xsort.SliceStable":          {0: "doc: sorts x in place"},
	"xsort.MergeSlices":          {1: "doc: out is a pre-allocated slice to store the result into"},
	"xmaps.Set.Add":              {0: "doc: adds item to the set"},
	"xmaps.Set.Remove":           {0: "doc: removes item from the set"},
	"xmath/xrand.Shuffle":        {0: "doc: pseudo-randomizes the order of a"},
	"xmath/xrand.RShuffle":       {1: "doc: pseudo-randomizes the order of a"},
}

// C19.param-effects: no exported helper of the six packages writes through a slice / map argument unless its documentation
// says so ("including documented in-place and aliasing effects": an undocumented one - e.g. Compact or Intersection losing
// its Clone - silently corrupts or reorders the caller's data).
func ruleParamEffects(c *Ctx, r *R) {
	eff := newEffects()
	for _, rel := range c19Pkgs {
		for _, fn := range c.funcsIn(rel) {
			if fn.Parent() != nil || fn.Blocks == nil {
				continue
			}
			name := c.nameOf(fn)
			if !exportedAPI(fn) {
				continue
			}
			for i, p := range fn.Params {
				if !sliceOrMap(p.Type()) {
					continue
				}
				w := eff.writesParam(c, fn, i)
				key := name + "|param#" + itoa(i)
				why, documented := documentedWriters[name][i]
				switch {
				case w == "":
					r.discharged(key, fn.Pos(), "no write through this argument found")
				case documented:
					r.discharged(key, fn.Pos(), "writes through this argument as documented ("+why+")")
				default:
					r.violated(key, fn.Pos(), name+" writes through its argument "+p.Name()+" although its documentation does not say so: "+w+" - the caller's data is modified behind its back")
				}
			}
		}
	}
}

func exportedAPI(fn *ssa.Function) bool {
	if !token.IsExported(fn.Name()) {
		return false
	}
	if recv := fn.Signature.Recv(); recv != nil {
		t := recv.Type()
		if p, ok := t.(*types.Pointer); ok {
			t = p.Elem()
		}
		if n, ok := t.(*types.Named); ok && !n.Obj().Exported() {
			return false
		}
	}
	return true
}

// C19.permutation-writes: a helper that rearranges a slice in place and hands back the same number of elements (Partition,
// Reverse, the Shuffle callback) may store an element of the slice into the slice only as one half of a swap; a lone
// `s[i] = s[j]` duplicates one element and loses another, so the result is no longer a permutation of the input.
func rulePermutationWrites(c *Ctx, r *R) {
	n := 0
	for _, rel := range c19Pkgs {
		for _, fn := range c.funcsIn(rel) {
			if fn.Blocks == nil {
				continue
			}
			// no slice result: the length is fixed, so the multiset of elements is preserved iff writes are swaps
			res := fn.Signature.Results()
			returnsSlice := false
			for i := 0; i < res.Len(); i++ {
				if sliceOrMap(res.At(i).Type()) {
					returnsSlice = true
				}
			}
			if returnsSlice {
				continue
			}
			type st struct {
				store *ssa.Store
				base  ssa.Value
				idx   ssa.Value
				from  *ssa.IndexAddr // the element address the stored value was loaded from
			}
			var stores []st
			instrs(fn, func(b *ssa.BasicBlock, i int, in ssa.Instruction) {
				s, ok := in.(*ssa.Store)
				if !ok {
					return
				}
				ia, ok := s.Addr.(*ssa.IndexAddr)
				if !ok {
					return
				}
				ld, ok := s.Val.(*ssa.UnOp)
				if !ok || ld.Op != token.MUL {
					return
				}
				src, ok := ld.X.(*ssa.IndexAddr)
				if !ok || !sameSliceVar(src.X, ia.X) {
					return
				}
				stores = append(stores, st{s, ia.X, ia.Index, src})
			})
			if len(stores) == 0 {
				continue
			}
			name := c.nameOf(fn)
			for k, a := range stores {
				n++
				paired := false
				for j, b := range stores {
					if j == k || a.store.Block() != b.store.Block() {
						continue
					}
					// a: s[i] = old s[j]; b: s[j] = old s[i]
					if sameIndexExpr(a.idx, b.from.Index) && sameIndexExpr(b.idx, a.from.Index) && loadsPrecedeStores(a.store, b.store) {
						paired = true
					}
				}
				r.ok(paired, name+"|elem-store#"+itoa(k+1), a.store.Pos(), "an element of the slice is stored into the slice outside a swap: one element is duplicated and another lost, the result is not a permutation of the input")
			}
		}
	}
	_ = n
}

func sameSliceVar(a, b ssa.Value) bool {
	if a == b {
		return true
	}
	return path(a) == path(b) && path(a) != "?"
}

func sameIndexExpr(a, b ssa.Value) bool {
	if a == b {
		return true
	}
	pa, pb := path(a), path(b)
	return pa == pb && !strings.Contains(pa, "?")
}

// loadsPrecedeStores: both stored values were loaded before the first of the two stores (a real swap, not a sequential copy).
func loadsPrecedeStores(a, b *ssa.Store) bool {
	blk := a.Block()
	pos := func(in ssa.Instruction) int {
		for i, x := range blk.Instrs {
			if x == in {
				return i
			}
		}
		return -1
	}
	first := pos(a)
	if p := pos(b); p < first {
		first = p
	}
	for _, s := range []*ssa.Store{a, b} {
		ld, ok := s.Val.(*ssa.UnOp)
		if !ok || ld.Block() != blk {
			return false
		}
		if pos(ld) > first {
			return false
		}
	}
	return true
}

// C19.shrink-capacity: Shrink promises cap(result) <= len(s)+n. Every returned value must therefore have a statically bounded
// capacity: the argument itself where the guard cap(s) <= len(s)+n holds, or a slice cut (from index 0) out of a
// make([]T, len[, cap]) whose capacity operand is len(s)+n (or len(s)), or a full slice expression / slices.Clip. A value
// produced by append (directly or through Clone / Grow / append-based helpers) has whatever capacity the allocator rounds up
// to, which is not bounded by len(s)+n.
func ruleShrinkCapacity(c *Ctx, r *R) {
	fn := c.fn("xslices.Shrink")
	if fn == nil {
		r.undecided("xslices.Shrink|missing", token.NoPos, "anchor not found")
		return
	}
	if len(fn.Params) < 2 {
		r.undecided("xslices.Shrink|params", fn.Pos(), "unexpected signature")
		return
	}
	s, n := fn.Params[0], fn.Params[1]
	k := 0
	instrs(fn, func(b *ssa.BasicBlock, i int, in ssa.Instruction) {
		ret, ok := in.(*ssa.Return)
		if !ok || len(ret.Results) != 1 {
			return
		}
		k++
		key := "xslices.Shrink|return#" + itoa(k)
		why := capBounded(returnedValue(ret, 0), s, n, b, 0)
		r.ok(why == "", key, ret.Pos(), "Shrink must return a slice whose capacity is bounded by len(s)+n: "+why)
	})
	if k == 0 {
		r.undecided("xslices.Shrink|returns", fn.Pos(), "no return found")
	}
}

// capBounded returns "" when cap(v) <= len(s)+n is established, else the reason it is not.
func capBounded(v ssa.Value, s, n ssa.Value, at *ssa.BasicBlock, d int) string {
	if d > 6 {
		return "too deep"
	}
	v = resolveVal(v)
	switch x := v.(type) {
	case *ssa.Parameter:
		if x != s {
			return "returns " + path(x)
		}
		// need guard cap(s) <= len(s)+n, i.e. the negation of cap(s) > len(s)+n
		for _, g := range guardsOf(at) {
			cf, ok := g.asCmp()
			if !ok {
				continue
			}
			xx, yy, op := cf.x, cf.y, cf.op
			if isCapOf(yy, s) {
				xx, yy, op = yy, xx, flip(op)
			}
			if isCapOf(xx, s) && (op == token.LEQ || op == token.LSS || op == token.EQL) && isLenPlusN(yy, s, n) {
				return ""
			}
		}
		return "the argument is returned on a path where cap(s) <= len(s)+n is not known"
	case *ssa.Slice:
		if x.Max != nil {
			return "" // full slice expression bounds the capacity explicitly (checked no further)
		}
		if x.Low != nil && !isConstInt(x.Low, 0) {
			return capBounded(x.X, s, n, at, d+1) // slicing from a higher index only lowers the capacity
		}
		return capBounded(x.X, s, n, at, d+1)
	case *ssa.MakeSlice:
		if isLenPlusN(x.Cap, s, n) || isLenOf(x.Cap, s) {
			return ""
		}
		return "make with capacity " + path(x.Cap) + ", which is not len(s)+n"
	case *ssa.Phi:
		for _, e := range x.Edges {
			if why := capBounded(e, s, n, at, d+1); why != "" {
				return why
			}
		}
		return ""
	case *ssa.Call:
		if isCallTo(&x.Call, "slices", "", "Clip") {
			return ""
		}
		if b, ok := x.Call.Value.(*ssa.Builtin); ok && b.Name() == "append" {
			return "the result comes from append, whose capacity is chosen by the allocator"
		}
		return "the result comes from " + calleeName(&x.Call) + ", whose result capacity is not bounded by len(s)+n"
	}
	return "capacity of " + path(v) + " is not bounded"
}

func isCapOf(v ssa.Value, of ssa.Value) bool {
	c, ok := v.(*ssa.Call)
	if !ok {
		return false
	}
	b, ok := c.Call.Value.(*ssa.Builtin)
	return ok && b.Name() == "cap" && len(c.Call.Args) == 1 && resolveVal(c.Call.Args[0]) == of
}

func isLenPlusN(v ssa.Value, s, n ssa.Value) bool {
	b, ok := resolveVal(v).(*ssa.BinOp)
	if !ok || b.Op != token.ADD {
		return false
	}
	return (isLenOf(b.X, s) && resolveVal(b.Y) == n) || (isLenOf(b.Y, s) && resolveVal(b.X) == n)
}

// C19.runs-adjacent: Runs cuts s into consecutive runs. Each run appended inside the loop is s[lo:hi] and the next run starts
// at the value then assigned to lo; the two must be the same index on every path into the loop (first iteration included),
// or elements between hi and the new lo are dropped / an empty run is emitted. Decided by comparing, edge by edge, the
// loop-header phis of hi and of the new lo (both linear in the loop counter); the last run must be s[lo:].
func ruleRunsAdjacent(c *Ctx, r *R) {
	fn := c.fn("xslices.Runs")
	if fn == nil {
		r.undecided("xslices.Runs|missing", token.NoPos, "anchor not found")
		return
	}
	s := fn.Params[0]
	k := 0
	var openEnded int
	instrs(fn, func(b *ssa.BasicBlock, i int, in ssa.Instruction) {
		sl, ok := in.(*ssa.Slice)
		if !ok || resolveVal(sl.X) != s {
			return
		}
		// is it appended to the result?
		appended := false
		for _, ref := range *sl.Referrers() {
			if cc := callCommon(ref); cc != nil {
				if bi, ok := cc.Value.(*ssa.Builtin); ok && bi.Name() == "append" {
					appended = true
				}
			}
			if _, ok := ref.(*ssa.Store); ok { // stored into the variadic temp of append(runs, s[a:b])
				appended = true
			}
		}
		if !appended {
			return
		}
		if sl.High == nil {
			openEnded++
			return
		}
		k++
		key := "xslices.Runs|run#" + itoa(k)
		// the value assigned to lo after this append: lo is a loop-header phi; its back-edge value coming from this block
		lo, ok := sl.Low.(*ssa.Phi)
		if !ok {
			r.undecided(key, sl.Pos(), "the run's lower bound is not a loop-carried variable")
			return
		}
		next := valueCarriedFrom(lo, b, 0)
		if next == nil {
			r.undecided(key, sl.Pos(), "could not find the start of the following run")
			return
		}
		why := equalOnAllPaths(sl.High, next, 0, b, s)
		r.ok(why == "", key, sl.Pos(), "the run s[lo:hi] is followed by a run starting at "+path(next)+", which is not hi on every path ("+why+"): elements in between are dropped or an empty run is produced (e.g. a leading run of length one)")
	})
	if k == 0 {
		r.undecided("xslices.Runs|runs", fn.Pos(), "no run is appended inside the loop")
	}
	// every adjacent pair is compared: the call same(s[i-1], s[i]) sits under i < len(s) - the length itself, not a shortened
	// one (the last pair would go uncompared and the last element always start a run of its own)
	{
		n := 0
		for _, d := range deepInstrs(fn, 2) {
			call, ok := d.in.(*ssa.Call)
			if !ok || call.Call.IsInvoke() || staticCallee(&call.Call) != nil || len(call.Call.Args) != 2 {
				continue
			}
			if _, isB := call.Call.Value.(*ssa.Builtin); isB {
				continue
			}
			ld, ok := call.Call.Args[1].(*ssa.UnOp)
			if !ok || ld.Op != token.MUL {
				continue
			}
			ia, ok := ld.X.(*ssa.IndexAddr)
			if !ok {
				continue
			}
			n++
			bounded := false
			for _, g := range guardsOf(call.Block()) {
				cf, ok := g.asCmp()
				if !ok || cf.x != ia.Index || cf.op != token.LSS {
					continue
				}
				if lc, isCall := cf.y.(*ssa.Call); isCall {
					if bi, isB := lc.Call.Value.(*ssa.Builtin); isB && bi.Name() == "len" {
						bounded = true
					}
				}
			}
			r.ok(bounded, "xslices.Runs|pair-scan-bound#"+itoa(n), call.Pos(), "same(s[i-1], s[i]) must be evaluated for every i < len(s): under a shorter bound the last pair is never compared and the last element always starts a run of its own")
		}
	}
	if openEnded == 0 && k > 0 {
		// `for start := 0; start < len(s); { end := runEnd(…); runs = append(runs, s[start:end]); start = end }`: no run is
		// special - the loop is left only where the start of the next run has reached len(s), and each run starts where the
		// one before ended (the run#k obligations above): the runs reach the end of s
		consumed := false
		instrs(fn, func(b *ssa.BasicBlock, _ int, in ssa.Instruction) {
			sl, ok := in.(*ssa.Slice)
			if !ok || resolveVal(sl.X) != s || sl.High == nil {
				return
			}
			lo, ok := sl.Low.(*ssa.Phi)
			if !ok {
				return
			}
			hb := lo.Block()
			iff, ok := hb.Instrs[len(hb.Instrs)-1].(*ssa.If)
			if !ok {
				return
			}
			cf, ok := (guard{cond: iff.Cond, val: true}).asCmp()
			if !ok || cf.x != ssa.Value(lo) || cf.op != token.LSS {
				return
			}
			lc, ok := cf.y.(*ssa.Call)
			if !ok {
				return
			}
			if bi, isB := lc.Call.Value.(*ssa.Builtin); !isB || bi.Name() != "len" || resolveVal(lc.Call.Args[0]) != s {
				return
			}
			// the body (the blocks from which the header is reached again) leaves only through the header
			only := true
			for _, bb := range fn.Blocks {
				if bb == hb || !reaches(bb, hb) || !hb.Succs[0].Dominates(bb) {
					continue
				}
				for _, sc := range bb.Succs {
					if sc != hb && !(reaches(sc, hb) && hb.Succs[0].Dominates(sc)) {
						only = false
					}
				}
			}
			if only && hb.Succs[0].Dominates(b) {
				consumed = true
			}
		})
		r.ok(consumed, "xslices.Runs|last-run", fn.Pos(), "the final run must extend to the end of s (s[lo:], or a loop that cuts runs until their start reaches len(s))")
	} else {
		r.ok(openEnded >= 1, "xslices.Runs|last-run", fn.Pos(), "the final run must extend to the end of s (s[lo:])")
	}
	// the final run must be appended whenever s is non-empty
	instrs(fn, func(b *ssa.BasicBlock, i int, in ssa.Instruction) {
		sl, ok := in.(*ssa.Slice)
		if !ok || resolveVal(sl.X) != s || sl.High != nil {
			return
		}
		// guards of this block must be implied by len(s) > 0: accept no guard, or a guard on len(s) itself
		key := "xslices.Runs|last-run-guard"
		good := true
		detail := ""
		for _, g := range guardsOfSelf(b) {
			cf, ok := g.asCmp()
			if !ok {
				good = false
				detail = "non-comparison guard"
				continue
			}
			if !(isLenOf(cf.x, s) || isLenOf(cf.y, s)) {
				// a guard on a loop variable: must hold whenever len(s) > 0
				if why := positiveWheneverNonEmpty(cf, s); why != "" {
					good = false
					detail = why
				}
			}
		}
		r.ok(good, key, sl.Pos(), "the final run is appended only under a condition that can be false for a non-empty s: "+detail+" - e.g. a one-element slice yields no run at all")
	})
}

// valueCarriedFrom: the value that the loop-carried variable phi receives on the way back from block b (following merge phis
// between b and the loop header).
func valueCarriedFrom(phi *ssa.Phi, b *ssa.BasicBlock, d int) ssa.Value {
	if d > 4 {
		return nil
	}
	var out ssa.Value
	for ei, e := range phi.Edges {
		pred := phi.Block().Preds[ei]
		if pred == b || b.Dominates(pred) {
			if e == ssa.Value(phi) {
				continue
			}
			out = e
		} else if p2, ok := e.(*ssa.Phi); ok && p2 != phi && p2.Block() != phi.Block() {
			if v := valueCarriedFrom(p2, b, d+1); v != nil {
				out = v
			}
		}
	}
	return out
}

// linear: v = base + off (base nil for a constant)
func linearOf(v ssa.Value) (ssa.Value, int64, bool) {
	v = resolveVal(v)
	if k, ok := v.(*ssa.Const); ok && k.Value != nil && isIntegerish(k.Type()) {
		return nil, k.Int64(), true
	}
	if b, ok := v.(*ssa.BinOp); ok && (b.Op == token.ADD || b.Op == token.SUB) {
		if k, ok := resolveVal(b.Y).(*ssa.Const); ok && k.Value != nil {
			base, off, ok2 := linearOf(b.X)
			if ok2 {
				if b.Op == token.ADD {
					return base, off + k.Int64(), true
				}
				return base, off - k.Int64(), true
			}
		}
		if k, ok := resolveVal(b.X).(*ssa.Const); ok && k.Value != nil && b.Op == token.ADD {
			base, off, ok2 := linearOf(b.Y)
			if ok2 {
				return base, off + k.Int64(), true
			}
		}
	}
	if p, ok := v.(*ssa.Phi); ok {
		// a merge of identical alternatives
		var base ssa.Value
		var off int64
		n := 0
		same := true
		for _, e := range p.Edges {
			if e == ssa.Value(p) {
				continue
			}
			if inner, isPhi := resolveVal(e).(*ssa.Phi); isPhi && inner.Block().Dominates(p.Block()) && inner != p {
				// fine: an outer loop-carried variable
			}
			b2, o2, _ := linearOfShallow(e)
			if n == 0 {
				base, off = b2, o2
			} else if b2 != base || o2 != off {
				same = false
			}
			n++
		}
		if same && n > 0 && base != ssa.Value(p) {
			return base, off, true
		}
	}
	return v, 0, true
}

// linearOfShallow: like linearOf but never merges phis (used on phi edges to avoid cycles).
func linearOfShallow(v ssa.Value) (ssa.Value, int64, bool) {
	v = resolveVal(v)
	if k, ok := v.(*ssa.Const); ok && k.Value != nil && isIntegerish(k.Type()) {
		return nil, k.Int64(), true
	}
	if b, ok := v.(*ssa.BinOp); ok && (b.Op == token.ADD || b.Op == token.SUB) {
		if k, ok := resolveVal(b.Y).(*ssa.Const); ok && k.Value != nil {
			base, off, _ := linearOfShallow(b.X)
			if b.Op == token.ADD {
				return base, off + k.Int64(), true
			}
			return base, off - k.Int64(), true
		}
	}
	return v, 0, true
}

// equalOnAllPaths: are a and b the same integer whenever both are live? Handles the case of two phis of one loop header by
// comparing them edge by edge (induction: on back edges the phis themselves may be assumed equal).
func equalOnAllPaths(a, b ssa.Value, d int, at *ssa.BasicBlock, s ssa.Value) string {
	ba, oa, _ := linearOf(a)
	bb, ob, _ := linearOf(b)
	if ba == bb {
		if oa == ob {
			return ""
		}
		return path(a) + " and " + path(b) + " differ by " + itoa(int(oa-ob))
	}
	pa, okA := ba.(*ssa.Phi)
	pb, okB := bb.(*ssa.Phi)
	if okA && okB && pa.Block() == pb.Block() && d < 3 {
		for i := range pa.Edges {
			ea, eoa, _ := linearOf(pa.Edges[i])
			eb, eob, _ := linearOf(pb.Edges[i])
			// an incoming value that is itself a merge made before the loop: compare each of its feasible alternatives
			if pre, ok := ea.(*ssa.Phi); ok && pre != pa && pre.Block() != pa.Block() && eb == nil {
				bad := ""
				for j, alt := range pre.Edges {
					if emptyOnlyEdge(pre.Block().Preds[j], pre.Block(), s) && needsNonEmpty(at, s) {
						continue // this alternative is taken only for an empty slice, for which `at` is unreachable
					}
					ab, ao, _ := linearOf(alt)
					if ab != nil || ao+eoa-eob != ob-oa {
						bad = "before the loop " + path(alt) + " vs " + path(pb.Edges[i]) + " do not agree"
					}
				}
				if bad != "" {
					return bad
				}
				continue
			}
			// induction hypothesis: pa + oa == pb + ob, i.e. pa - pb == ob - oa
			var diff int64
			switch {
			case ea == eb:
				diff = eoa - eob
			case ea == ssa.Value(pa) && eb == ssa.Value(pb):
				diff = (ob - oa) + eoa - eob
			case ea == ssa.Value(pa) && eb != nil, eb == ssa.Value(pb) && ea != nil:
				// one side carried, the other recomputed from something else: try through the hypothesis
				return "cannot relate " + path(pa.Edges[i]) + " and " + path(pb.Edges[i])
			default:
				if ea == nil && eb == nil {
					diff = eoa - eob
				} else {
					return "cannot relate " + path(pa.Edges[i]) + " and " + path(pb.Edges[i]) + " on the edge from block " + itoa(pa.Block().Preds[i].Index)
				}
			}
			if diff != ob-oa {
				from := "a loop back edge"
				if !pa.Block().Dominates(pa.Block().Preds[i]) {
					from = "the entry into the loop"
				}
				return "on " + from + " " + path(pa.Edges[i]) + " vs " + path(pb.Edges[i]) + " are " + itoa(int(diff-(ob-oa))) + " apart"
			}
		}
		return ""
	}
	return "cannot relate " + path(a) + " and " + path(b)
}

// emptyOnlyEdge: the edge pred→succ is taken only when len(s) == 0.
func emptyOnlyEdge(pred, succ *ssa.BasicBlock, s ssa.Value) bool {
	for _, g := range append(guardsOf(pred), edgeGuard(pred, succ)...) {
		if c2, ok := g.asCmp(); ok {
			x, y, op := c2.x, c2.y, c2.op
			if isLenOf(y, s) {
				x, y, op = y, x, flip(op)
			}
			if isLenOf(x, s) && isConstInt(y, 0) && (op == token.EQL || op == token.LEQ) {
				return true
			}
			if isLenOf(x, s) && isConstInt(y, 1) && op == token.LSS {
				return true
			}
		}
	}
	return false
}

// needsNonEmpty: block b is reached only where some non-negative index is below len(s) (so s is not empty).
func needsNonEmpty(b *ssa.BasicBlock, s ssa.Value) bool {
	for _, g := range guardsOf(b) {
		c2, ok := g.asCmp()
		if !ok {
			continue
		}
		x, y, op := c2.x, c2.y, c2.op
		if isLenOf(x, s) {
			x, y, op = y, x, flip(op)
		}
		if !isLenOf(y, s) || (op != token.LSS && op != token.LEQ) {
			continue
		}
		base, off, _ := linearOf(x)
		switch bx := base.(type) {
		case nil:
			if (op == token.LSS && off >= 0) || (op == token.LEQ && off >= 1) {
				return true
			}
		case *ssa.Phi:
			need := -off
			if op == token.LEQ {
				need++
			}
			if lowerBound(bx, need) == "" {
				return true
			}
		}
	}
	return false
}

// positiveWheneverNonEmpty: the guard cf (over a loop variable) on the final append must be true whenever len(s) > 0.
// Accepts `v > 0` / `v != 0` / `v >= 1` where every definition of v is >= 1 once the slice is non-empty, decided for the
// simple shape "v is a phi of constants and loop-counter+const values": all incoming constants must be >= 1 unless the edge
// is only taken when len(s) == 0.
func positiveWheneverNonEmpty(cf cmpFact, s ssa.Value) string {
	v, k, op := cf.x, cf.y, cf.op
	if _, isConst := resolveVal(v).(*ssa.Const); isConst {
		v, k, op = cf.y, cf.x, flip(op)
	}
	kc, ok := resolveVal(k).(*ssa.Const)
	if !ok || kc.Value == nil {
		return "guard " + path(cf.x) + " " + cf.op.String() + " " + path(cf.y) + " is not understood"
	}
	need := int64(0)
	switch {
	case op == token.GTR:
		need = kc.Int64() + 1
	case op == token.GEQ:
		need = kc.Int64()
	case op == token.NEQ && kc.Int64() == 0:
		need = 1
	default:
		return "guard " + path(cf.x) + " " + cf.op.String() + " " + path(cf.y) + " is not understood"
	}
	phi, ok := resolveVal(v).(*ssa.Phi)
	if !ok {
		return "guard on " + path(v) + " is not understood"
	}
	// every non-loop-carried incoming constant must be >= need, unless that edge comes from a block guarded by len(s) == 0
	seen := map[*ssa.Phi]bool{}
	var check func(p *ssa.Phi) string
	check = func(p *ssa.Phi) string {
		if seen[p] {
			return ""
		}
		seen[p] = true
		for i, e := range p.Edges {
			base, off, _ := linearOf(e)
			switch bx := base.(type) {
			case nil:
				if off < need {
					// is the edge only taken for an empty slice?
					if !emptyOnlyEdge(p.Block().Preds[i], p.Block(), s) {
						return path(v) + " can still be " + itoa(int(off)) + " when the loop body never runs (a one-element slice), so the guard " + cf.op.String() + " fails although s is non-empty"
					}
				}
			case *ssa.Phi:
				if off < 0 {
					return "cannot bound " + path(e)
				}
				if why := check(bx); why != "" && bx.Block() != p.Block() {
					return why
				}
				// loop counter + positive offset: counters start at >= 0, fine when off >= need
				if bx.Block() == p.Block() && off < need {
					if why := lowerBound(bx, need-off); why != "" {
						return why
					}
				}
			default:
				return "cannot bound " + path(e)
			}
		}
		return ""
	}
	return check(phi)
}

// lowerBound: is phi >= n on every path (constants and self+const increments only)?
func lowerBound(p *ssa.Phi, n int64) string {
	for _, e := range p.Edges {
		base, off, _ := linearOf(e)
		if base == nil {
			if off < n {
				return path(p) + " starts at " + itoa(int(off))
			}
		} else if base == ssa.Value(p) {
			if off < 0 {
				return path(p) + " decreases"
			}
		} else {
			return "cannot bound " + path(e)
		}
	}
	return ""
}

// edgeGuard: the fact implied by taking the edge pred→succ.
func edgeGuard(pred, succ *ssa.BasicBlock) []guard {
	if len(pred.Instrs) == 0 {
		return nil
	}
	iff, ok := pred.Instrs[len(pred.Instrs)-1].(*ssa.If)
	if !ok || len(pred.Succs) != 2 || pred.Succs[0] == pred.Succs[1] {
		return nil
	}
	return expandGuard(guard{cond: iff.Cond, val: pred.Succs[0] == succ}, 0)
}

// C19.sample-bounds: in rSample / rSampleSlice the store out[replace] = item(next) happens only where next < n (resp.
// next < len(a)): `next == n` must end the loop, or Sample(n, k) can return n itself (outside [0, n)) and SampleSlice reads
// past the end. Both index operands come from one and the same call of sampler.Next.
func ruleSampleBounds(c *Ctx, r *R) {
	for _, spec := range []struct{ fn string }{{"xmath/xrand.rSample"}, {"xmath/xrand.rSampleSlice"}} {
		fn := c.fn(spec.fn)
		if fn == nil {
			r.undecided(spec.fn+"|missing", token.NoPos, "anchor not found")
			continue
		}
		found := 0
		for _, fr := range deepFrames(fn, 2) {
			fr := fr
			instrs(fr.f, func(b *ssa.BasicBlock, i int, in ssa.Instruction) {
				st, ok := in.(*ssa.Store)
				if !ok {
					return
				}
				ia, ok := st.Addr.(*ssa.IndexAddr)
				if !ok {
					return
				}
				ex, ok := resolveVal(ia.Index).(*ssa.Extract)
				if !ok {
					return
				}
				call, ok := ex.Tuple.(*ssa.Call)
				if !ok || !strings.HasSuffix(calleeName(&call.Call), "Next") {
					return
				}
				found++
				key := spec.fn + "|reservoir-store#" + itoa(found)
				if ex.Index != 1 {
					r.violated(key, st.Pos(), "the reservoir slot must be the second result (replace) of sampler.Next")
					return
				}
				// the bound: the int parameter n, or len(a) of the slice parameter
				var next ssa.Value
				for _, ref := range *call.Referrers() {
					if e2, ok := ref.(*ssa.Extract); ok && e2.Index == 0 {
						next = e2
					}
				}
				if next == nil {
					r.undecided(key, st.Pos(), "first result of sampler.Next is not used")
					return
				}
				// stored value must be next itself or input[next]
				val := resolveVal(st.Val)
				okVal := val == next
				if ld, ok := val.(*ssa.UnOp); ok && ld.Op == token.MUL {
					if src, ok := ld.X.(*ssa.IndexAddr); ok && resolveVal(src.Index) == next {
						okVal = true
					}
				}
				// … or at(next) where at is a function parameter bound (through the call chain) to a closure returning its
				// argument or input[argument]
				if vc, ok := val.(*ssa.Call); ok && len(vc.Call.Args) == 1 && resolveVal(vc.Call.Args[0]) == next {
					if fp, ok := vc.Call.Value.(*ssa.Parameter); ok {
						if clo := resolveFuncValue(argOf(fp, fr.chain), 0); clo != nil && len(clo.Params) == 1 {
							all, any := true, false
							for _, rv := range returnedBy(clo, 0) {
								any = true
								rv = resolveVal(rv)
								if rv == ssa.Value(clo.Params[0]) {
									continue
								}
								if ld, ok := rv.(*ssa.UnOp); ok && ld.Op == token.MUL {
									if src, ok := ld.X.(*ssa.IndexAddr); ok && resolveVal(src.Index) == ssa.Value(clo.Params[0]) {
										continue
									}
								}
								all = false
							}
							okVal = any && all
						}
					}
				}
				if !okVal {
					r.violated(key, st.Pos(), "the value stored into the reservoir must be the item at position next (same sampler.Next call as the slot)")
					return
				}
				// guard: next < bound
				guarded := false
				for _, g := range guardsOf(b) {
					cf, ok := g.asCmp()
					if !ok {
						continue
					}
					x, y, op := cf.x, cf.y, cf.op
					if resolveVal(y) == next {
						x, y, op = y, x, flip(op)
					}
					if resolveVal(x) != next || op != token.LSS {
						continue
					}
					yb := resolveVal(argOf(resolveVal(y), fr.chain))
					if p, ok := yb.(*ssa.Parameter); ok && isIntType(p.Type()) {
						guarded = true
					}
					for _, p := range fn.Params {
						if isLenOf(yb, p) {
							guarded = true
						}
					}
				}
				r.ok(guarded, key, st.Pos(), "the reservoir store must be reached only where next < n (resp. next < len(a)): with `next == n` allowed, Sample can return n itself and SampleSlice reads past the end")
			})
		}
		if found == 0 {
			r.undecided(spec.fn+"|reservoir-store", fn.Pos(), "no store into the reservoir indexed by sampler.Next's result found")
		}
	}
}

func sortedKeys(m map[string]map[int]string) []string {
	var ks []string
	for k := range m {
		ks = append(ks, k)
	}
	sort.Strings(ks)
	return ks
}

// C19.empty-in-empty-out: a necessary condition only. For every exported function of xslices that takes a slice and returns a
// slice: if EVERY value it can return is provably non-empty - append(x, e) with at least one explicit element, a composite
// literal with elements, make with a positive constant length - then the empty input is answered with a non-empty result.
// (That the result is right for non-empty inputs is not decided here.)
func ruleEmptyInEmptyOut(c *Ctx, r *R) {
	sp := c.SSA["xslices"]
	if sp == nil {
		r.undecided("xslices|missing", token.NoPos, "package not found")
		return
	}
	var names []string
	for n, m := range sp.Members {
		if f, ok := m.(*ssa.Function); ok && token.IsExported(n) && f.Blocks != nil {
			names = append(names, n)
		}
	}
	sort.Strings(names)
	for _, n := range names {
		fn := sp.Members[n].(*ssa.Function)
		res := fn.Signature.Results()
		if res.Len() != 1 {
			continue
		}
		if _, ok := res.At(0).Type().Underlying().(*types.Slice); !ok {
			continue
		}
		takesSlice := false
		for _, p := range fn.Params {
			if _, ok := p.Type().Underlying().(*types.Slice); ok {
				takesSlice = true
			}
		}
		// a function that is given elements to add (Insert(s, i, vs...)) may rightly return a non-empty result for an empty s
		elem := res.At(0).Type().Underlying().(*types.Slice).Elem()
		addsElems := false
		for i := 0; i < fn.Signature.Params().Len(); i++ {
			pt := fn.Signature.Params().At(i).Type()
			if _, isSl := pt.Underlying().(*types.Slice); types.Identical(pt, elem) && !isSl {
				addsElems = true // (Chunk(s []T) [][]T is not such a function: its []T parameter is what gets cut up)
			}
			if fn.Signature.Variadic() && i == fn.Signature.Params().Len()-1 {
				if st, ok := pt.Underlying().(*types.Slice); ok && types.Identical(st.Elem(), elem) {
					addsElems = true
				}
			}
		}
		if !takesSlice || addsElems {
			continue
		}
		nRet, nonEmpty := 0, 0
		var pos, rpos token.Pos
		reachable := false
		instrs(fn, func(b *ssa.BasicBlock, i int, in ssa.Instruction) {
			ret, ok := in.(*ssa.Return)
			if !ok || len(ret.Results) != 1 {
				return
			}
			nRet++
			all := true
			ls := valueLeaves(returnedValue(ret, 0), nil, 0)
			for _, lf := range ls {
				if !provablyNonEmptySlice(lf.v, 0) {
					all = false
				}
			}
			if all && len(ls) > 0 {
				nonEmpty++
				pos = retPos(ret)
				// a non-empty result on a path the empty input can take: no dominating test, or only tests of the form
				// len(param) <= x / len(param) < x / len(param) == 0, which the empty input passes
				if emptyInputReaches(fn, b) {
					reachable = true
					rpos = retPos(ret)
				}
			}
		})
		if nRet == 0 {
			continue
		}
		if pos == token.NoPos {
			pos = fn.Pos()
		}
		if reachable {
			r.violated("xslices."+n+"|can-return-empty", rpos, n+" returns a result with at least one element on a path that an empty input takes (the only tests in front of it are upper bounds on len): for an empty input the result must be empty")
			continue
		}
		r.ok(nonEmpty < nRet, "xslices."+n+"|can-return-empty", pos, "every value "+n+" can return has at least one element (an element is appended / the result is built with a positive length unconditionally): for an empty input the result must be empty")
	}
}

// provablyNonEmptySlice: v certainly has len >= 1.
func provablyNonEmptySlice(v ssa.Value, d int) bool {
	if d > 4 {
		return false
	}
	switch x := v.(type) {
	case *ssa.Call:
		if b, ok := x.Call.Value.(*ssa.Builtin); ok && b.Name() == "append" && len(x.Call.Args) == 2 {
			// append(s, e1, …): the variadic part is a fresh array slice (new [k]T)[:] with k >= 1
			if sl, ok := x.Call.Args[1].(*ssa.Slice); ok {
				if al, ok := sl.X.(*ssa.Alloc); ok {
					if at, ok := al.Type().Underlying().(*types.Pointer).Elem().Underlying().(*types.Array); ok && at.Len() >= 1 && sl.Low == nil && sl.High == nil {
						return true
					}
				}
			}
			return provablyNonEmptySlice(x.Call.Args[0], d+1)
		}
	case *ssa.MakeSlice:
		if k, ok := x.Len.(*ssa.Const); ok && k.Value != nil && k.Int64() >= 1 {
			return true
		}
	case *ssa.Slice:
		// a composite literal []T{a, b}: (new [k]T)[:]
		if al, ok := x.X.(*ssa.Alloc); ok && x.Low == nil && x.High == nil {
			if at, ok := al.Type().Underlying().(*types.Pointer).Elem().Underlying().(*types.Array); ok && at.Len() >= 1 {
				return true
			}
		}
	case *ssa.Phi:
		for _, e := range x.Edges {
			if e != ssa.Value(x) && !provablyNonEmptySlice(e, d+1) {
				return false
			}
		}
		return true
	}
	return false
}

// emptyInputReaches: can a call whose slice parameters are all empty reach block b, judging only by the dominating branch
// conditions? Yes when there is none, or when every one of them is a test that len(param) == 0 satisfies (len(p) <= x with x
// not provably negative, len(p) < x, len(p) == 0). Any other condition makes the answer "unknown" = false.
func emptyInputReaches(fn *ssa.Function, b *ssa.BasicBlock) bool {
	isLenOfParam := func(v ssa.Value) bool {
		call, ok := resolveVal(v).(*ssa.Call)
		if !ok {
			return false
		}
		bi, ok := call.Call.Value.(*ssa.Builtin)
		if !ok || bi.Name() != "len" {
			return false
		}
		_, isP := resolveVal(call.Call.Args[0]).(*ssa.Parameter)
		return isP
	}
	for _, g := range guardsOf(b) {
		cf, ok := g.asCmp()
		if !ok {
			return false
		}
		x, y, op := cf.x, cf.y, cf.op
		if isLenOfParam(y) {
			x, y, op = y, x, flip(op)
		}
		if !isLenOfParam(x) {
			return false
		}
		switch op {
		case token.LEQ:
			// len <= y: fine for len == 0 unless y is a negative constant
			if k, ok := resolveVal(y).(*ssa.Const); ok && k.Value != nil && k.Int64() < 0 {
				return false
			}
		case token.LSS:
			if k, ok := resolveVal(y).(*ssa.Const); ok && k.Value != nil && k.Int64() <= 0 {
				return false
			}
			if _, isK := resolveVal(y).(*ssa.Const); !isK {
				return false // len < chunkSize with an unknown chunkSize: could be 0
			}
		case token.EQL:
			if !isConstInt(y, 0) {
				return false
			}
		default:
			return false
		}
	}
	return true
}

// C19.intersect-universal: Intersection / Intersects decide, for a key k of the first set, "k is in EVERY other set". The
// positive effect (out[k] = …, return true) must not be reachable in the same outer iteration after a membership test of k
// failed (typestate over the loop nest; a boolean `include` flag is followed through its constant assignments by the engine's
// flag threading), and a library quantifier used instead of the loop must be xslices.All, not xslices.Any.
func ruleIntersectUniversal(c *Ctx, r *R) {
	for _, n := range []string{"Intersection", "Intersects"} {
		fn := c.fn("xmaps." + n)
		if fn == nil {
			r.undecided("xmaps."+n+"|missing", token.NoPos, "anchor not found")
			continue
		}
		isPositive := func(in ssa.Instruction) bool {
			switch x := in.(type) {
			case *ssa.MapUpdate:
				return true
			case *ssa.Return:
				if len(x.Results) == 1 {
					if k, ok := returnedValue(x, 0).(*ssa.Const); ok && k.Value != nil && k.Value.String() == "true" {
						return true
					}
				}
			}
			return false
		}
		lookups, quantAll, quantAny := 0, 0, 0
		scan := withAnon(fn)
		for _, fr := range deepFrames(fn, 2) { // the quantifier may live in a helper (inAll(sets[1:], k))
			if fr.f != fn {
				scan = append(scan, fr.f)
			}
		}
		for _, g := range scan {
			instrs(g, func(_ *ssa.BasicBlock, _ int, in ssa.Instruction) {
				if lk, ok := in.(*ssa.Lookup); ok && lk.CommaOk {
					lookups++
				}
				if call, ok := in.(*ssa.Call); ok {
					if cal := calleeOf(&call.Call); cal != nil && origin(cal).Pkg != nil && strings.HasSuffix(origin(cal).Pkg.Pkg.Path(), "/xslices") {
						switch origin(cal).Name() {
						case "All":
							quantAll++
						case "Any":
							quantAny++
						}
					}
				}
			})
		}
		pkgI := fn.Pkg
		pf := &PF{N: 2, InScope: func(f *ssa.Function) bool { return rootFn(origin(f)).Pkg == pkgI && f.Blocks != nil && origin(f) != fn }}
		pf.Instr = func(f *ssa.Function, in ssa.Instruction, q int) (StateSet, bool) {
			if _, ok := in.(*ssa.Next); ok {
				return ss(0), true // next key of the first set: a fresh decision
			}
			return 0, false
		}
		pf.Edge = func(f *ssa.Function, g guard, q int) (StateSet, bool) {
			v, val := g.boolVal()
			if ex, ok := v.(*ssa.Extract); ok && ex.Index == 1 {
				if lk, ok := ex.Tuple.(*ssa.Lookup); ok && lk.CommaOk && !val {
					return ss(1), true
				}
			}
			return 0, false
		}
		bad := false
		var badPos token.Pos
		pf.Visit = func(f *ssa.Function, in ssa.Instruction, before StateSet) {
			if isPositive(in) && before.has(1) {
				bad = true
				badPos = posOf(in)
			}
		}
		pf.Exits(fn, ss(0))
		switch {
		case quantAny > 0:
			r.violated("xmaps."+n+"|universal", fn.Pos(), n+" decides membership in the other sets with xslices.Any: an element of the intersection must be in ALL of them (for three or more sets that overlap only pairwise the answer is wrong)")
		case bad:
			r.violated("xmaps."+n+"|universal", badPos, n+" keeps a key although a membership test in one of the other sets failed in the same iteration: an element of the intersection must be in ALL sets")
		case lookups == 0 && quantAll == 0:
			r.undecided("xmaps."+n+"|universal", fn.Pos(), "no membership test of the other sets found")
		default:
			r.discharged("xmaps."+n+"|universal", fn.Pos(), "a key is kept only when no membership test failed")
		}
	}
}

// C19.heap-nonempty: library code that uses a heap (xsort.Merge's iterator, xsort.MinK) calls Pop / Peek - which panic on an
// empty heap - only with evidence that the heap is non-empty: a dominating Len() > 0 / != 0 / >= 1 (or Len() > x with x a
// non-negative constant) on the same heap, a Push on the same heap earlier in the same block, or a count-down drain loop whose
// counter starts at len(make([]T, h.Len())) - 1. `Len() >= k` or `!(Len() < k)` with an arbitrary k is NOT evidence (k <= 0).
func ruleHeapNonEmpty(c *Ctx, r *R) {
	n := 0
	isHeapMethod := func(call *ssa.Call, names ...string) bool {
		cal := calleeOf(&call.Call)
		if cal == nil {
			return false
		}
		o := origin(cal)
		if o.Signature.Recv() == nil || o.Pkg == nil {
			return false
		}
		pp := o.Pkg.Pkg.Path()
		if !strings.HasSuffix(pp, "internal/heap") && !strings.HasSuffix(pp, "container/xheap") {
			return false
		}
		for _, nm := range names {
			if o.Name() == nm {
				return true
			}
		}
		return false
	}
	sameHeap := func(a, b ssa.Value) bool {
		return valueProv(a, provEnv{}).String() == valueProv(b, provEnv{}).String()
	}
	for _, fn := range c.funcsOfPkg("xsort") {
		if fn.Blocks == nil {
			continue
		}
		name := c.nameOf(fn)
		instrs(fn, func(b *ssa.BasicBlock, i int, in ssa.Instruction) {
			call, ok := in.(*ssa.Call)
			if !ok || !isHeapMethod(call, "Pop", "Peek") || len(call.Call.Args) == 0 {
				return
			}
			n++
			h := call.Call.Args[0]
			isLen := func(v ssa.Value) bool {
				lc, ok := resolveVal(v).(*ssa.Call)
				return ok && isHeapMethod(lc, "Len") && len(lc.Call.Args) > 0 && sameHeap(lc.Call.Args[0], h)
			}
			evidence := ""
			for _, g := range guardsOf(b) {
				cf, ok := g.asCmp()
				if !ok {
					continue
				}
				x, y, op := cf.x, cf.y, cf.op
				if isLen(y) {
					x, y, op = y, x, flip(op)
				}
				if isLen(x) {
					if k, ok := resolveVal(y).(*ssa.Const); ok && k.Value != nil {
						kv := k.Int64()
						if (op == token.GTR && kv >= 0) || (op == token.GEQ && kv >= 1) || (op == token.NEQ && kv == 0) {
							evidence = "Len() test"
						}
					}
					continue
				}
				// the drain loop: i >= 0 with i counting down from len(make([]T, h.Len())) - 1
				if phi, ok := x.(*ssa.Phi); ok && op == token.GEQ && isConstInt(y, 0) {
					initOK, stepOK := false, false
					for _, e := range phi.Edges {
						if bin, ok := e.(*ssa.BinOp); ok && bin.Op == token.SUB && isConstInt(bin.Y, 1) {
							if bin.X == ssa.Value(phi) {
								stepOK = true
								continue
							}
							if lc, ok := resolveVal(bin.X).(*ssa.Call); ok {
								if bi, ok := lc.Call.Value.(*ssa.Builtin); ok && bi.Name() == "len" {
									if ms, ok := resolveVal(lc.Call.Args[0]).(*ssa.MakeSlice); ok && isLen(ms.Len) {
										initOK = true
									}
								}
							}
						}
					}
					if initOK && stepOK && len(phi.Edges) == 2 {
						evidence = "count-down from Len()"
					}
				}
				// the same drain counting up: `for i := range out` / `for i := 0; i < len(out); i++` with out = make([]T, h.Len())
				if op == token.LSS {
					isLenOfDrainBuf := func(v ssa.Value) bool {
						lc, ok := resolveVal(v).(*ssa.Call)
						if !ok {
							return false
						}
						if bi, ok := lc.Call.Value.(*ssa.Builtin); !ok || bi.Name() != "len" {
							return false
						}
						ms, ok := resolveVal(lc.Call.Args[0]).(*ssa.MakeSlice)
						return ok && isLen(ms.Len)
					}
					countsUp := func(v ssa.Value) bool {
						// i = phi[0, i+1], or (range loop) i+1 with i = phi[-1, i+1]
						if phi, ok := v.(*ssa.Phi); ok && len(phi.Edges) == 2 {
							z, st := false, false
							for _, e := range phi.Edges {
								if isConstInt(e, 0) {
									z = true
								}
								if bin, ok := e.(*ssa.BinOp); ok && bin.Op == token.ADD && bin.X == ssa.Value(phi) && isConstInt(bin.Y, 1) {
									st = true
								}
							}
							return z && st
						}
						if bin, ok := v.(*ssa.BinOp); ok && bin.Op == token.ADD && isConstInt(bin.Y, 1) {
							if phi, ok := bin.X.(*ssa.Phi); ok && len(phi.Edges) == 2 {
								m1, st := false, false
								for _, e := range phi.Edges {
									if isConstInt(e, -1) {
										m1 = true
									}
									if e == ssa.Value(bin) {
										st = true
									}
								}
								return m1 && st
							}
						}
						return false
					}
					if isLenOfDrainBuf(y) && countsUp(x) {
						evidence = "count-up to Len()"
					}
				}
			}
			// a Push on the same heap earlier in this block, no Pop in between
			for j := i - 1; j >= 0 && evidence == ""; j-- {
				if pc, ok := b.Instrs[j].(*ssa.Call); ok && len(pc.Call.Args) > 0 {
					if isHeapMethod(pc, "Pop") && sameHeap(pc.Call.Args[0], h) {
						break
					}
					if isHeapMethod(pc, "Push") && sameHeap(pc.Call.Args[0], h) {
						evidence = "Push just before"
					}
				}
			}
			// … or in a dominating block with the Len() > k test in between (MinK: push, then `if Len() > k { Pop }`)
			if evidence == "" {
				for d := b.Idom(); d != nil && evidence == ""; d = d.Idom() {
					for j := len(d.Instrs) - 1; j >= 0; j-- {
						if pc, ok := d.Instrs[j].(*ssa.Call); ok && len(pc.Call.Args) > 0 {
							if isHeapMethod(pc, "Pop") && sameHeap(pc.Call.Args[0], h) {
								d = nil
								break
							}
							if isHeapMethod(pc, "Push") && sameHeap(pc.Call.Args[0], h) {
								// nothing that can pop lies between: the only blocks between d and b are b's dominators
								evidence = "Push on every path before"
								break
							}
						}
					}
					if d == nil {
						break
					}
				}
			}
			r.ok(evidence != "", name+"|"+origin(calleeOf(&call.Call)).Name()+"#"+itoa(n), call.Pos(), "Pop/Peek on a heap that may be empty here (no Len() > 0 test, no Push before it, no counted drain): it panics - e.g. MinK with k <= 0 must return an empty result")
		})
	}
	if n == 0 {
		r.undecided("xsort|heap-uses", token.NoPos, "no Pop/Peek on a heap found in xsort")
	}
}
