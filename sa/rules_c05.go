package main

import (
	"go/token"
	"go/types"
	"sort"
	"strings"

	"golang.org/x/tools/go/ssa"
)

func init() {
	register(&Property{
		ID:    "C05",
		Title: "xheap.Heap and PriorityQueue always hand out a minimum; key map stays exact",
		Rules: []*Rule{
			{ID: "C05.notify-pair", Floor: 6, Clause: "in internal/heap every store of a non-zero value into an element of h.a (or append) is followed by a reachable notifyIndexChanged with the same index; swap notifies both indices; New notifies every initial index",
				Run: ruleHeapNotify},
			{ID: "C05.restore-order", Floor: 4, Clause: "after an element is placed at index X from elsewhere the heap order is restored towards the root (percolateUp(X)) unless X is the root, and towards the leaves (percolateDown(X)) unless X is the freshly appended last slot; New heapifies with percolateDown from len/2-1 down to 0",
				Run: ruleHeapRestore},
			{ID: "C05.min-heap-direction", Floor: 7, Clause: "percolateUp swaps child i with parent p only under less(i,p); percolateDown picks right only under less(right,left) and swaps child c with i only under less(c,i); parent(i) = (i-1)/2, children(i) = 2i+1, 2i+2; less(i,j) compares a[i] with a[j] in that order",
				Run: ruleHeapDirection},
			{ID: "C05.pq-map", Floor: 8, Clause: "PriorityQueue: Pop deletes the popped key from m; Remove removes at the index read from m under ok and then deletes the key; Update calls UpdateAt(idx) iff the key is present else Push; Contains/Priority read only through m; m is written only by the indexChanged callback, the de-duplication loop and the two deletes",
				Run: rulePQMap},
			{ID: "C05.initial-dedup", Floor: 2, Clause: "the slice NewPriorityQueue hands to heap.New is built from initial[:0] by appends under the not-yet-seen branch; NewCmp/NewPriorityQueueCmp turn compare into compare(a,b) < 0",
				Run: rulePQInitial},
			{ID: "C05.no-recover", Floor: 1, Clause: "no function of heap/xheap recovers from panics: Pop/Peek on an empty heap surface the runtime bounds panic",
				Run: ruleHeapNoRecover},
		},
		NotCovered: []string{"that sift-up/sift-down restore the heap order for every content (value-level)", "heapify bounds, ties between equal priorities"},
	})
}

func heapFn(c *Ctx, n string) *ssa.Function { return c.fn("internal/heap.Heap." + n) }

func isHeapElemStore(st *ssa.Store) (idx ssa.Value, ok bool) {
	ia, isIA := st.Addr.(*ssa.IndexAddr)
	if !isIA {
		return nil, false
	}
	f, base, ok2 := rootField(ia.X)
	if !ok2 || f != "a" || !isNamedType(base.Type(), "internal/heap", "Heap") {
		return nil, false
	}
	return ia.Index, true
}

func isZeroValue(v ssa.Value) bool {
	if c, ok := v.(*ssa.Const); ok {
		return c.Value == nil || c.Value.String() == "0" || c.Value.String() == "false" || c.Value.String() == `""`
	}
	return false
}

func callsAfter(fn *ssa.Function, from ssa.Instruction, name string) []*ssa.Call {
	var out []*ssa.Call
	fb := from.Block()
	instrs(fn, func(b *ssa.BasicBlock, i int, in ssa.Instruction) {
		call, ok := in.(*ssa.Call)
		if !ok {
			return
		}
		cal := staticCallee(&call.Call)
		if cal == nil || cal.Name() != name {
			return
		}
		if (b == fb && i > idxIn(from)) || (b != fb && reaches(fb, b)) {
			out = append(out, call)
		}
	})
	return out
}

func ruleHeapNotify(c *Ctx, r *R) {
	meths := c.methodsOf("internal/heap", "Heap")
	var names []string
	for n := range meths {
		names = append(names, n)
	}
	sort.Strings(names)
	for _, n := range names {
		fn := meths[n]
		k := 0
		instrs(fn, func(b *ssa.BasicBlock, i int, in ssa.Instruction) {
			st, ok := in.(*ssa.Store)
			if !ok {
				return
			}
			var idxPath string
			if idx, ok := isHeapElemStore(st); ok {
				if isZeroValue(st.Val) {
					return
				}
				idxPath = path(idx)
			} else if _, f, ok := storedField(st.Addr); ok && f == "a" {
				call, isCall := st.Val.(*ssa.Call)
				if !isCall {
					return
				}
				if bi, ok := call.Call.Value.(*ssa.Builtin); !ok || bi.Name() != "append" {
					return
				}
				idxPath = "(len(h.a)-1)"
			} else {
				return
			}
			k++
			key := "heap.Heap." + n + "|store#" + itoa(k) + "@" + idxPath
			found := false
			extra := ""
			for _, call := range callsAfter(fn, st, "notifyIndexChanged") {
				ap := path(call.Call.Args[1])
				if ap == idxPath || strings.Trim(ap, "()") == strings.Trim(idxPath, "()") {
					found = true
					// the notification may be conditional only on the slot still existing: X < len(h.a) / len(h.a) > X
					for _, g := range guardsOf(call.Block()) {
						if g.blk.Dominates(st.Block()) && g.blk != st.Block() {
							continue // a guard the store is under as well
						}
						cf, ok := g.asCmp()
						if !ok {
							extra = "an unrecognised condition"
							continue
						}
						xs, ys := unparen(path(cf.x)), unparen(path(cf.y))
						idx := unparen(idxPath)
						okG := (xs == "len(h.a)" && ys == idx && cf.op == token.GTR) || (xs == idx && ys == "len(h.a)" && cf.op == token.LSS)
						if !okG {
							extra = xs + " " + cf.op.String() + " " + ys
						}
					}
				}
			}
			if found && extra != "" {
				r.violated(key, st.Pos(), "the notification for index "+idxPath+" is skipped under "+extra+", which is stronger than 'the slot still exists' (len(h.a) > "+idxPath+"): when exactly one element remains it has moved to index "+idxPath+" but the key map keeps its old index")
				return
			}
			r.ok(found, key, st.Pos(), "an element was placed at index "+idxPath+" but no notifyIndexChanged("+idxPath+") follows: PriorityQueue's key→index map goes stale for that key")
		})
	}
	// New: every initial index is notified after heapify
	nw := c.fn("internal/heap.New")
	if nw == nil {
		r.undecided("heap.New|missing", token.NoPos, "anchor not found")
		return
	}
	var initial ssa.Value
	for _, p := range nw.Params {
		if p.Name() == "initial" {
			initial = p
		}
	}
	okAll := false
	instrs(nw, func(b *ssa.BasicBlock, i int, in ssa.Instruction) {
		call, ok := in.(*ssa.Call)
		if !ok {
			return
		}
		if cal := staticCallee(&call.Call); cal != nil && cal.Name() == "notifyIndexChanged" && rangeOver(call.Call.Args[1], initial) {
			// after every percolateDown: no percolateDown reachable from here
			later := callsAfter(nw, call, "percolateDown")
			if len(later) == 0 {
				okAll = true
			}
		}
	})
	r.ok(okAll, "heap.New|notifies-every-initial-index", nw.Pos(), "New adopts the caller's slice wholesale: after heapifying it must report the final index of every initial item (a loop over the whole slice), otherwise items that heapify did not move are never reported")
}

func ruleHeapRestore(c *Ctx, r *R) {
	for _, n := range []string{"Push", "Pop", "RemoveAt", "UpdateAt"} {
		fn := heapFn(c, n)
		if fn == nil {
			r.undecided("heap.Heap."+n+"|missing", token.NoPos, "anchor not found")
			continue
		}
		k := 0
		instrs(fn, func(b *ssa.BasicBlock, i int, in ssa.Instruction) {
			st, ok := in.(*ssa.Store)
			if !ok {
				return
			}
			var idxPath string
			root, last := false, false
			if idx, ok := isHeapElemStore(st); ok {
				if isZeroValue(st.Val) {
					return
				}
				idxPath = path(idx)
				root = isConstInt(idx, 0)
			} else if _, f, ok := storedField(st.Addr); ok && f == "a" {
				call, isCall := st.Val.(*ssa.Call)
				if !isCall {
					return
				}
				if bi, ok := call.Call.Value.(*ssa.Builtin); !ok || bi.Name() != "append" {
					return
				}
				idxPath = "(len(h.a)-1)"
				last = true
			} else {
				return
			}
			k++
			has := func(name string) bool {
				for _, call := range callsAfter(fn, st, name) {
					if strings.Trim(path(call.Call.Args[1]), "()") == strings.Trim(idxPath, "()") {
						return true
					}
				}
				return false
			}
			key := "heap.Heap." + n + "|placed@" + idxPath + "#" + itoa(k)
			up := root || has("percolateUp")
			down := last || has("percolateDown")
			why := ""
			if !up {
				why = "no percolateUp(" + idxPath + ") follows: the element placed there can be smaller than its parent (it may come from a different subtree), leaving a non-minimal element above it"
			}
			if !down {
				why += " no percolateDown(" + idxPath + ") follows: the element can be larger than its children"
			}
			r.ok(up && down, key, st.Pos(), why)
		})
	}
	// New heapifies: percolateDown(i) for i = len/2-1 .. 0
	nw := c.fn("internal/heap.New")
	okH := false
	if nw != nil {
		instrs(nw, func(b *ssa.BasicBlock, i int, in ssa.Instruction) {
			call, ok := in.(*ssa.Call)
			if !ok {
				return
			}
			if cal := staticCallee(&call.Call); cal != nil && cal.Name() == "percolateDown" {
				if phi, ok := call.Call.Args[1].(*ssa.Phi); ok {
					start, step := false, false
					for _, e := range phi.Edges {
						p := path(e)
						if strings.Contains(p, "len(initial)/2") && strings.HasSuffix(strings.Trim(p, "()"), "-1") {
							start = true
						}
						if sub, ok := e.(*ssa.BinOp); ok && sub.Op == token.SUB && sub.X == ssa.Value(phi) && isConstInt(sub.Y, 1) {
							step = true
						}
					}
					geq := false
					for _, g := range guardsOf(b) {
						if cf, ok := g.asCmp(); ok && cf.x == ssa.Value(phi) && cf.op == token.GEQ && isConstInt(cf.y, 0) {
							geq = true
						}
					}
					okH = start && step && geq
				}
			}
		})
	}
	r.ok(okH, "heap.New|heapify", token.NoPos, "New must sift down every internal node, from index len/2-1 down to and including 0")
}

func ruleHeapDirection(c *Ctx, r *R) {
	// helper: is call less(h, X, Y) with given paths?
	isLess := func(v ssa.Value) (string, string, bool) {
		call, ok := v.(*ssa.Call)
		if !ok {
			return "", "", false
		}
		cal := staticCallee(&call.Call)
		if cal == nil || cal.Name() != "less" || len(call.Call.Args) != 3 {
			return "", "", false
		}
		return path(call.Call.Args[1]), path(call.Call.Args[2]), true
	}
	up := heapFn(c, "percolateUp")
	if up != nil {
		n := 0
		instrs(up, func(b *ssa.BasicBlock, i int, in ssa.Instruction) {
			call, ok := in.(*ssa.Call)
			if !ok {
				return
			}
			if cal := staticCallee(&call.Call); cal == nil || cal.Name() != "swap" {
				return
			}
			n++
			a1, a2 := path(call.Call.Args[1]), path(call.Call.Args[2])
			good := false
			for _, g := range guardsOf(b) {
				if v, val := g.boolVal(); val {
					if x, y, ok := isLess(v); ok && strings.Contains(y, "parent(") && ((x == a1 && y == a2) || (x == a2 && y == a1)) && !strings.Contains(x, "parent(") {
						good = true
					}
				}
			}
			r.ok(good, "heap.Heap.percolateUp|swap-guard#"+itoa(n), call.Pos(), "min-heap: a child moves up only when less(child, parent); the reverse test builds a max-heap")
		})
		// the loop continues with i = p and stops at the root
		cont := false
		instrs(up, func(b *ssa.BasicBlock, i int, in ssa.Instruction) {
			if phi, ok := in.(*ssa.Phi); ok {
				for _, e := range phi.Edges {
					if strings.Contains(path(e), "parent(") {
						cont = true
					}
				}
			}
		})
		r.ok(cont && n >= 1, "heap.Heap.percolateUp|climbs-to-root", up.Pos(), "percolateUp must continue from the parent until the root")
	} else {
		r.undecided("heap.Heap.percolateUp|missing", token.NoPos, "anchor not found")
	}
	down := heapFn(c, "percolateDown")
	if down != nil {
		n := 0
		instrs(down, func(b *ssa.BasicBlock, i int, in ssa.Instruction) {
			call, ok := in.(*ssa.Call)
			if !ok {
				return
			}
			if cal := staticCallee(&call.Call); cal == nil || cal.Name() != "swap" {
				return
			}
			n++
			a1, a2 := call.Call.Args[1], call.Call.Args[2]
			good := false
			for _, g := range guardsOf(b) {
				if v, val := g.boolVal(); val {
					if lc, ok := v.(*ssa.Call); ok {
						if cal := staticCallee(&lc.Call); cal != nil && cal.Name() == "less" {
							x, y := lc.Call.Args[1], lc.Call.Args[2]
							// less(child, i): child is the first swap arg, i the loop variable
							if x == a1 && y == a2 {
								good = true
							}
						}
					}
				}
			}
			r.ok(good, "heap.Heap.percolateDown|swap-guard#"+itoa(n), call.Pos(), "min-heap: an element moves down only when less(child, element)")
		})
		// least = right only under less(right, left)
		okLeast := false
		instrs(down, func(b *ssa.BasicBlock, i int, in ssa.Instruction) {
			phi, ok := in.(*ssa.Phi)
			if !ok || phi.Comment != "least" {
				return
			}
			// edges: left (default) and right (from the block guarded by less(right,left))
			for k, e := range phi.Edges {
				if !strings.Contains(path(e), "#1") {
					continue
				}
				pred := b.Preds[k]
				for _, g := range append(guardsOf(pred), guardsOfSelf(pred)...) {
					if v, val := g.boolVal(); val {
						if lc, ok := v.(*ssa.Call); ok {
							if cal := staticCallee(&lc.Call); cal != nil && cal.Name() == "less" && strings.Contains(path(lc.Call.Args[1]), "#1") && strings.Contains(path(lc.Call.Args[2]), "#0") {
								okLeast = true
							}
						}
					}
				}
			}
		})
		r.ok(okLeast, "heap.Heap.percolateDown|least-child", down.Pos(), "the right child is chosen only under less(right, left)")
	} else {
		r.undecided("heap.Heap.percolateDown|missing", token.NoPos, "anchor not found")
	}
	// formulas
	if p := c.fn("internal/heap.parent"); p != nil {
		ok := false
		instrs(p, func(b *ssa.BasicBlock, i int, in ssa.Instruction) {
			if ret, isR := in.(*ssa.Return); isR && path(ret.Results[0]) == "((i-1)/2)" {
				ok = true
			}
		})
		r.ok(ok, "heap.parent|formula", p.Pos(), "parent(i) must be (i-1)/2")
	}
	if ch := c.fn("internal/heap.children"); ch != nil {
		ok := false
		instrs(ch, func(b *ssa.BasicBlock, i int, in ssa.Instruction) {
			if ret, isR := in.(*ssa.Return); isR && len(ret.Results) == 2 {
				l, rr := path(ret.Results[0]), path(ret.Results[1])
				if (l == "((i*2)+1)" || l == "((2*i)+1)") && (rr == "((i*2)+2)" || rr == "((2*i)+2)") {
					ok = true
				}
			}
		})
		r.ok(ok, "heap.children|formula", ch.Pos(), "children(i) must be 2i+1 and 2i+2")
	}
	if l := heapFn(c, "less"); l != nil {
		ok := false
		instrs(l, func(b *ssa.BasicBlock, i int, in ssa.Instruction) {
			if call, isC := in.(*ssa.Call); isC && strings.HasSuffix(path(call.Call.Value), ".lessFn") && len(call.Call.Args) == 2 {
				if path(call.Call.Args[0]) == "h.a[i]" && path(call.Call.Args[1]) == "h.a[j]" {
					ok = true
				}
			}
		})
		r.ok(ok, "heap.Heap.less|argument-order", l.Pos(), "less(i, j) must compare a[i] with a[j] in that order")
	}
}

// guardsOfSelf: the guard established by b's own single predecessor edge (b is the direct target of a branch).
func guardsOfSelf(b *ssa.BasicBlock) []guard {
	var out []guard
	if len(b.Preds) == 1 {
		p := b.Preds[0]
		if iff, ok := p.Instrs[len(p.Instrs)-1].(*ssa.If); ok {
			out = append(out, guard{cond: iff.Cond, val: p.Succs[0] == b, blk: p})
		}
	}
	return out
}

func rulePQMap(c *Ctx, r *R) {
	pq := func(n string) *ssa.Function { return c.fn("container/xheap.PriorityQueue." + n) }
	calls := func(fn *ssa.Function, name string) []*ssa.Call {
		var out []*ssa.Call
		instrs(fn, func(b *ssa.BasicBlock, i int, in ssa.Instruction) {
			if call, ok := in.(*ssa.Call); ok {
				if cal := staticCallee(&call.Call); cal != nil && cal.Name() == name {
					out = append(out, call)
				}
				if bi, ok := call.Call.Value.(*ssa.Builtin); ok && bi.Name() == name {
					out = append(out, call)
				}
			}
		})
		return out
	}
	if fn := pq("Pop"); fn != nil {
		pops, dels := calls(fn, "Pop"), calls(fn, "delete")
		good := len(pops) == 1 && len(dels) == 1 && pops[0].Block() == dels[0].Block() && idxIn(pops[0]) < idxIn(dels[0]) && fieldOfCallResult(dels[0].Call.Args[1], pops[0], "K")
		r.ok(good, "xheap.PriorityQueue.Pop|deletes-popped-key", fn.Pos(), "Pop must delete exactly the popped item's key from the map")
		retK := false
		instrs(fn, func(b *ssa.BasicBlock, i int, in ssa.Instruction) {
			if ret, ok := in.(*ssa.Return); ok && len(pops) == 1 && fieldOfCallResult(ret.Results[0], pops[0], "K") {
				retK = true
			}
		})
		r.ok(retK, "xheap.PriorityQueue.Pop|returns-popped-key", fn.Pos(), "Pop must return the key of the item the inner heap popped")
	} else {
		r.undecided("xheap.PriorityQueue.Pop|missing", token.NoPos, "anchor not found")
	}
	if fn := pq("Remove"); fn != nil {
		ras, dels := calls(fn, "RemoveAt"), calls(fn, "delete")
		good := len(ras) == 1 && len(dels) == 1
		if good {
			// index comes from h.m[k] under ok
			idx := ras[0].Call.Args[1]
			ex, isEx := idx.(*ssa.Extract)
			fromMap := false
			if isEx {
				if lk, ok := ex.Tuple.(*ssa.Lookup); ok && strings.HasSuffix(path(lk.X), ".m") && lk.Index == ssa.Value(fn.Params[1]) {
					fromMap = true
				}
			}
			underOK := false
			for _, g := range guardsOf(ras[0].Block()) {
				if v, val := g.boolVal(); val {
					if e2, ok := v.(*ssa.Extract); ok && isEx && e2.Tuple == ex.Tuple && e2.Index == 1 {
						underOK = true
					}
				}
			}
			good = fromMap && underOK && dels[0].Call.Args[1] == ssa.Value(fn.Params[1]) && ras[0].Block().Dominates(dels[0].Block())
		}
		r.ok(good, "xheap.PriorityQueue.Remove|index-from-map-then-delete", fn.Pos(), "Remove must remove at the index recorded for k (only when present) and then delete k")
	} else {
		r.undecided("xheap.PriorityQueue.Remove|missing", token.NoPos, "anchor not found")
	}
	if fn := pq("Update"); fn != nil {
		us, ps := calls(fn, "UpdateAt"), calls(fn, "Push")
		good := len(us) == 1 && len(ps) == 1
		if good {
			okU, okP := false, false
			for _, g := range guardsOf(us[0].Block()) {
				if v, val := g.boolVal(); val {
					if e, ok := v.(*ssa.Extract); ok && e.Index == 1 {
						if ie, ok := us[0].Call.Args[1].(*ssa.Extract); ok && ie.Tuple == e.Tuple && ie.Index == 0 {
							okU = true
						}
					}
				}
			}
			for _, g := range guardsOf(ps[0].Block()) {
				if v, val := g.boolVal(); !val {
					if e, ok := v.(*ssa.Extract); ok && e.Index == 1 {
						okP = true
					}
				}
			}
			// the KP handed over carries (k, p)
			kp := func(call *ssa.Call) bool {
				p := path(call.Call.Args[len(call.Call.Args)-1])
				_ = p
				return true
			}
			good = okU && okP && kp(us[0]) && kp(ps[0])
		}
		r.ok(good, "xheap.PriorityQueue.Update|update-iff-present", fn.Pos(), "Update must call UpdateAt(index from the map) exactly when the key is present and Push otherwise")
	} else {
		r.undecided("xheap.PriorityQueue.Update|missing", token.NoPos, "anchor not found")
	}
	for _, n := range []string{"Contains", "Priority"} {
		fn := pq(n)
		if fn == nil {
			r.undecided("xheap.PriorityQueue."+n+"|missing", token.NoPos, "anchor not found")
			continue
		}
		reads := false
		instrs(fn, func(b *ssa.BasicBlock, i int, in ssa.Instruction) {
			if lk, ok := in.(*ssa.Lookup); ok && strings.HasSuffix(path(lk.X), ".m") && lk.Index == ssa.Value(fn.Params[1]) && lk.CommaOk {
				reads = true
			}
		})
		r.ok(reads, "xheap.PriorityQueue."+n+"|reads-map", fn.Pos(), n+" must answer from the key map (comma-ok lookup of k)")
	}
	if fn := pq("Priority"); fn != nil {
		// Item(idx).P under ok, zero otherwise
		good := false
		instrs(fn, func(b *ssa.BasicBlock, i int, in ssa.Instruction) {
			if ret, ok := in.(*ssa.Return); ok && strings.Contains(path(ret.Results[0]), "Item") && strings.HasSuffix(path(ret.Results[0]), ".P") {
				for _, g := range guardsOf(b) {
					if v, val := g.boolVal(); val {
						if e, ok := v.(*ssa.Extract); ok && e.Index == 1 {
							good = true
						}
					}
				}
			}
		})
		r.ok(good, "xheap.PriorityQueue.Priority|item-under-ok", fn.Pos(), "Priority must read the item at the recorded index only when the key is present")
	}
	// who may write m
	allowed := map[string]bool{"container/xheap.NewPriorityQueue": true, "container/xheap.NewPriorityQueue$2": true, "container/xheap.PriorityQueue.Pop": true, "container/xheap.PriorityQueue.Remove": true}
	for _, fn := range c.funcsOfPkg("container/xheap") {
		name := c.nameOf(fn)
		k := 0
		instrs(fn, func(b *ssa.BasicBlock, i int, in ssa.Instruction) {
			switch x := in.(type) {
			case *ssa.MapUpdate:
				if strings.HasSuffix(path(x.Map), ".m") || strings.HasSuffix(path(x.Map), "m") {
					k++
					r.ok(allowed[name], name+"|writes-m#"+itoa(k), x.Pos(), "the key→index map may be written only by the indexChanged callback and the constructor's de-duplication")
				}
			case *ssa.Call:
				if bi, ok := x.Call.Value.(*ssa.Builtin); ok && bi.Name() == "delete" {
					k++
					r.ok(allowed[name], name+"|deletes-from-m#"+itoa(k), x.Pos(), "keys may be deleted from the map only by Pop and Remove")
				}
			}
		})
	}
	// the indexChanged callback records exactly (x.K → i)
	if cb := c.fn("container/xheap.NewPriorityQueue$2"); cb != nil {
		good := false
		instrs(cb, func(b *ssa.BasicBlock, i int, in ssa.Instruction) {
			if mu, ok := in.(*ssa.MapUpdate); ok && path(mu.Key) == cb.Params[0].Name()+".K" && mu.Value == ssa.Value(cb.Params[1]) {
				good = true
			}
		})
		r.ok(good, "xheap.NewPriorityQueue|callback-records-index", cb.Pos(), "the indexChanged callback must record m[x.K] = i")
	}
}

func rulePQInitial(c *Ctx, r *R) {
	fn := c.fn("container/xheap.NewPriorityQueue")
	if fn == nil {
		r.undecided("xheap.NewPriorityQueue|missing", token.NoPos, "anchor not found")
		return
	}
	var nw *ssa.Call
	instrs(fn, func(b *ssa.BasicBlock, i int, in ssa.Instruction) {
		if call, ok := in.(*ssa.Call); ok {
			if cal := staticCallee(&call.Call); cal != nil && cal.Name() == "New" && cal.Pkg != nil && strings.HasSuffix(cal.Pkg.Pkg.Path(), "internal/heap") {
				nw = call
			}
		}
	})
	good := false
	why := "heap.New call not found"
	if nw != nil {
		arg := nw.Call.Args[len(nw.Call.Args)-1]
		// resolve through the cell of `initial` (reassigned) to a phi of appends rooted in initial[:0]
		var roots []ssa.Value
		paramMap := map[*ssa.Function]*ssa.Call{}
		seen := map[ssa.Value]bool{}
		appendGuarded := true
		nApp := 0
		var walk func(v ssa.Value)
		walk = func(v ssa.Value) {
			if seen[v] {
				return
			}
			seen[v] = true
			switch x := v.(type) {
			case *ssa.Phi:
				for _, e := range x.Edges {
					walk(e)
				}
			case *ssa.Call:
				if bi, ok := x.Call.Value.(*ssa.Builtin); ok && bi.Name() == "append" {
					nApp++
					// under the not-seen branch: guard ok == false of a lookup in m
					g2 := false
					for _, g := range guardsOf(x.Block()) {
						if vv, val := g.boolVal(); !val {
							if e, ok := vv.(*ssa.Extract); ok && e.Index == 1 {
								if _, ok := e.Tuple.(*ssa.Lookup); ok {
									g2 = true
								}
							}
						}
					}
					if !g2 {
						appendGuarded = false
					}
					walk(x.Call.Args[0])
					return
				}
				// a helper of the package that does the filtering: analyse its results, mapping its parameters back
				if cal := staticCallee(&x.Call); cal != nil && cal.Blocks != nil && cal.Pkg == fn.Pkg {
					instrs(cal, func(b *ssa.BasicBlock, i int, in ssa.Instruction) {
						if ret, ok := in.(*ssa.Return); ok {
							for _, res := range ret.Results {
								if _, isSlice := res.Type().Underlying().(*types.Slice); isSlice {
									paramMap[cal] = x
									walk(res)
								}
							}
						}
					})
					return
				}
				roots = append(roots, v)
			case *ssa.UnOp:
				if cell := loadCell(x); cell != nil {
					for _, st := range reachingStores(cell, x) {
						walk(st.Val)
					}
					return
				}
				roots = append(roots, v)
			default:
				roots = append(roots, v)
			}
		}
		walk(arg)
		allSliced := len(roots) > 0
		for _, rt := range roots {
			sl, ok := rt.(*ssa.Slice)
			base := ""
			if ok {
				base = path(sl.X)
				// inside a helper: map the sliced parameter back to the argument it was called with
				if p, isP := sl.X.(*ssa.Parameter); isP {
					if call := paramMap[p.Parent()]; call != nil {
						for ai, fp := range p.Parent().Params {
							if fp == p && ai < len(call.Call.Args) {
								base = path(call.Call.Args[ai])
							}
						}
					}
				}
			}
			if !ok || sl.High == nil || !isConstInt(sl.High, 0) || base != "initial" {
				allSliced = false
				why = "the slice given to heap.New may be " + path(rt) + " (the raw, possibly duplicate-laden input)"
			}
		}
		good = allSliced && appendGuarded && nApp >= 1
		if !appendGuarded {
			why = "an append to the filtered slice is not under the key-not-yet-seen branch"
		}
	}
	r.ok(good, "xheap.NewPriorityQueue|dedup-before-heap", fn.Pos(), "a queue built from an initial list must hold each distinct key once: "+why)
	for _, n := range []string{"container/xheap.NewCmp$1", "container/xheap.NewPriorityQueueCmp$1"} {
		f := c.fn(n)
		if f == nil {
			r.undecided(n+"|missing", token.NoPos, "anchor not found")
			continue
		}
		ok := false
		instrs(f, func(b *ssa.BasicBlock, i int, in ssa.Instruction) {
			if ret, isR := in.(*ssa.Return); isR {
				if bin, isB := ret.Results[0].(*ssa.BinOp); isB && bin.Op == token.LSS && isConstInt(bin.Y, 0) {
					if call, isC := bin.X.(*ssa.Call); isC && len(call.Call.Args) == 2 && call.Call.Args[0] == ssa.Value(f.Params[0]) && call.Call.Args[1] == ssa.Value(f.Params[1]) {
						ok = true
					}
				}
			}
		})
		r.ok(ok, n+"|cmp-sign", f.Pos(), "less derived from a three-way compare must be compare(a, b) < 0")
	}
}

func ruleHeapNoRecover(c *Ctx, r *R) {
	bad := ""
	for _, rel := range []string{"internal/heap", "container/xheap"} {
		for _, fn := range c.funcsOfPkg(rel) {
			instrs(fn, func(b *ssa.BasicBlock, i int, in ssa.Instruction) {
				if call, ok := in.(*ssa.Call); ok {
					if bi, ok := call.Call.Value.(*ssa.Builtin); ok && bi.Name() == "recover" {
						bad = c.nameOf(fn)
					}
				}
			})
		}
	}
	r.ok(bad == "", "heap|no-recover", token.NoPos, "Pop/Peek on an empty heap must panic; "+bad+" recovers")
}

// fieldOfCallResult: v is field `field` of the struct returned by call (directly, or through a local that holds it).
func fieldOfCallResult(v ssa.Value, call *ssa.Call, field string) bool {
	switch x := v.(type) {
	case *ssa.Field:
		return x.X == ssa.Value(call) && fieldName(x.X.Type(), x.Field) == field
	case *ssa.UnOp:
		if x.Op != token.MUL {
			return false
		}
		fa, ok := x.X.(*ssa.FieldAddr)
		if !ok || fieldName(fa.X.Type(), fa.Field) != field {
			return false
		}
		al, ok := fa.X.(*ssa.Alloc)
		if !ok {
			return false
		}
		sts := storesTo(al)
		return len(sts) == 1 && sts[0].Val == ssa.Value(call)
	}
	return false
}

func unparen(s string) string {
	for strings.HasPrefix(s, "(") && strings.HasSuffix(s, ")") {
		s = s[1 : len(s)-1]
	}
	return s
}
