package main

import (
	"go/token"
	"go/types"
	"sort"
	"strings"

	"golang.org/x/tools/go/ssa"
)

func init() {
	register(&Property{
		ID:    "C05",
		Title: "xheap.Heap and PriorityQueue always hand out a minimum; key map stays exact",
		Rules: []*Rule{
			{ID: "C05.notify-pair", Floor: 6, Clause: "in internal/heap every store of a non-zero value into an element of h.a (or append) is followed by a reachable notifyIndexChanged with the same index; swap notifies both indices; New notifies every initial index",
				Run: ruleHeapNotify},
			{ID: "C05.restore-order", Floor: 4, Clause: "after an element is placed at index X from elsewhere the heap order is restored towards the root (percolateUp(X)) unless X is the root, and towards the leaves (percolateDown(X)) unless X is the freshly appended last slot; New heapifies with percolateDown from len/2-1 down to 0",
				Run: ruleHeapRestore},
			{ID: "C05.min-heap-direction", Floor: 7, Clause: "percolateUp swaps child i with parent p only under less(i,p); percolateDown picks right only under less(right,left) and swaps child c with i only under less(c,i); parent(i) = (i-1)/2, children(i) = 2i+1, 2i+2; less(i,j) compares a[i] with a[j] in that order",
				Run: ruleHeapDirection},
			{ID: "C05.pq-map", Floor: 8, Clause: "PriorityQueue: Pop deletes the popped key from m; Remove removes at the index read from m under ok and then deletes the key; Update calls UpdateAt(idx) iff the key is present else Push; Contains/Priority read only through m; m is written only by the indexChanged callback, the de-duplication loop and the two deletes",
				Run: rulePQMap},
			{ID: "C05.initial-dedup", Floor: 2, Clause: "the slice NewPriorityQueue hands to heap.New is built from initial[:0] by appends under the not-yet-seen branch; NewCmp/NewPriorityQueueCmp turn compare into compare(a,b) < 0",
				Run: rulePQInitial},
			{ID: "C05.no-recover", Floor: 1, Clause: "no function of heap/xheap recovers from panics: Pop/Peek on an empty heap surface the runtime bounds panic",
				Run: ruleHeapNoRecover},
		},
		NotCovered: []string{"that sift-up/sift-down restore the heap order for every content (value-level)", "heapify bounds, ties between equal priorities"},
	})
}

func heapFn(c *Ctx, n string) *ssa.Function { return c.fn("internal/heap.Heap." + n) }

func isHeapElemStore(st *ssa.Store) (idx ssa.Value, ok bool) {
	ia, isIA := st.Addr.(*ssa.IndexAddr)
	if !isIA {
		return nil, false
	}
	f, base, ok2 := rootField(ia.X)
	if !ok2 || f != "a" || !isNamedType(base.Type(), "internal/heap", "Heap") {
		return nil, false
	}
	return ia.Index, true
}

func isZeroValue(v ssa.Value) bool {
	if c, ok := v.(*ssa.Const); ok {
		return c.Value == nil || c.Value.String() == "0" || c.Value.String() == "false" || c.Value.String() == `""`
	}
	return false
}

func callsAfter(fn *ssa.Function, from ssa.Instruction, name string) []*ssa.Call {
	var out []*ssa.Call
	fb := from.Block()
	instrs(fn, func(b *ssa.BasicBlock, i int, in ssa.Instruction) {
		call, ok := in.(*ssa.Call)
		if !ok {
			return
		}
		cal := staticCallee(&call.Call)
		if cal == nil || fname(cal) != name {
			return
		}
		if (b == fb && i > idxIn(from)) || (b != fb && reaches(fb, b)) {
			out = append(out, call)
		}
	})
	return out
}

// ---- deep placement / follow-up view (robust to helper extraction) ----------------------------------------------------------

type heapPlace struct {
	d    deepInstr
	idx  string // canonical index expression in the root function's terms
	root bool   // index 0
	last bool   // the freshly appended slot
}

type heapFollow struct {
	d    deepInstr
	name string
	idx  string
}

// inFrames: d was reached through a call of one of the named heap methods
func throughAny(d deepInstr, names ...string) bool {
	for _, cc := range d.calls {
		if cal := staticCallee(&cc.Call); cal != nil {
			for _, n := range names {
				if fname(cal) == n {
					return true
				}
			}
		}
	}
	return false
}

// heapDeep collects, for a root function, every placement of an element into the heap's backing slice and every call of the
// notify / sift helpers, each with its index written over the root function's values.
func heapDeep(fn *ssa.Function, prune func(*ssa.Function) bool) (places []heapPlace, follows []heapFollow) {
	recv := "?"
	for _, d := range deepInstrsPruned(fn, 4, prune) {
		env := provEnv{chain: d.calls}
		switch x := d.in.(type) {
		case *ssa.Store:
			if idx, ok := isHeapElemStore(x); ok {
				if isZeroValue(x.Val) {
					continue
				}
				e := symOf(idx, env)
				places = append(places, heapPlace{d: d, idx: e.String(), root: e.isConst(0)})
			} else if fa, ok := x.Addr.(*ssa.FieldAddr); ok && fieldName(fa.X.Type(), fa.Field) == "a" && isNamedType(fa.X.Type(), "internal/heap", "Heap") {
				call, isCall := x.Val.(*ssa.Call)
				if !isCall {
					continue
				}
				if bi, ok := call.Call.Value.(*ssa.Builtin); !ok || bi.Name() != "append" {
					continue
				}
				recv = valueProv(fa.X, env).String()
				places = append(places, heapPlace{d: d, idx: "(len(" + recv + ".a)-1:int)", last: true})
			}
		case *ssa.Call:
			cal := staticCallee(&x.Call)
			if cal == nil || len(x.Call.Args) < 2 {
				continue
			}
			switch fname(cal) {
			case "notifyIndexChanged", "percolateUp", "percolateDown":
				follows = append(follows, heapFollow{d: d, name: fname(cal), idx: symOf(x.Call.Args[1], env).String()})
			}
		}
	}
	return
}

// deepBefore: does a take effect before b can (a's instruction precedes or reaches b's in the innermost frame they share)?
func deepBefore(a, b deepInstr) bool {
	k := 0
	for k < len(a.calls) && k < len(b.calls) && a.calls[k] == b.calls[k] {
		k++
	}
	var ia, ib ssa.Instruction = a.in, b.in
	if k < len(a.calls) {
		ia = a.calls[k]
	}
	if k < len(b.calls) {
		ib = b.calls[k]
	}
	if ia == ib {
		return false
	}
	if ia.Block() == ib.Block() {
		return idxIn(ia) < idxIn(ib)
	}
	return reaches(ia.Block(), ib.Block())
}

// extraConditions: the branch facts under which follow-up f runs but placement p does not (in the frames below their common
// one, and in the common frame the guards of f that do not also guard p), rendered over the root function's values.
func extraConditions(p heapPlace, f heapFollow) []string {
	var out []string
	k := 0
	for k < len(p.d.calls) && k < len(f.d.calls) && p.d.calls[k] == f.d.calls[k] {
		k++
	}
	var ip ssa.Instruction = p.d.in
	if k < len(p.d.calls) {
		ip = p.d.calls[k]
	}
	frames := []ssa.Instruction{}
	for i := k; i < len(f.d.calls); i++ {
		frames = append(frames, f.d.calls[i])
	}
	frames = append(frames, f.d.in)
	for fi, in := range frames {
		chain := f.d.calls[:k+fi]
		for _, g := range guardsOf(in.Block()) {
			if fi == 0 && g.blk != nil && g.blk != ip.Block() && g.blk.Dominates(ip.Block()) {
				// also a guard of the placement - unless the placement sits on the other edge
				if edgeDominatesBlock(g, ip.Block()) {
					continue
				}
			}
			cf, ok := g.asCmp()
			if !ok {
				out = append(out, "an unrecognised condition")
				continue
			}
			env := provEnv{chain: chain}
			if cf.via != nil {
				// the comparison lives in a boolean helper (h.inBounds(0)): its operands are read in the helper's frame
				env = provEnv{chain: append(append([]*ssa.Call{}, chain...), cf.via)}
			}
			out = append(out, symOf(cf.x, env).String()+" "+cf.op.String()+" "+symOf(cf.y, env).String())
		}
	}
	return out
}

// edgeDominatesBlock: the edge of g's block on which g holds dominates b.
func edgeDominatesBlock(g guard, b *ssa.BasicBlock) bool {
	if g.blk == nil || len(g.blk.Succs) != 2 {
		return false
	}
	idx := 1
	if g.val {
		idx = 0
	}
	return edgeDominates(g.blk, idx, b)
}

func heapRoots(c *Ctx) []*ssa.Function {
	var out []*ssa.Function
	for _, fn := range c.funcsOfPkg("internal/heap") {
		if fn.Parent() == nil && fn.Blocks != nil && token.IsExported(fn.Name()) {
			out = append(out, fn)
		}
	}
	return out
}

// notifyUnsatisfied: the placements of fn's (pruned) deep view that are not followed by a matching notification.
func notifyUnsatisfied(fn *ssa.Function, prune func(*ssa.Function) bool) (all []heapPlace, bad map[int]string) {
	places, follows := heapDeep(fn, prune)
	bad = map[int]string{}
	for pi, p := range places {
		found := false
		extra := ""
		for _, f := range follows {
			if f.name != "notifyIndexChanged" || f.idx != p.idx || !deepBefore(p.d, f.d) {
				continue
			}
			found = true
			// the notification may be conditional only on the slot still existing: idx < len(h.a)
			for _, cond := range extraConditions(p, f) {
				parts := strings.SplitN(cond, " ", 3)
				okG := false
				if len(parts) == 3 {
					x, op, y := unparen(parts[0]), parts[1], unparen(parts[2])
					isLen := func(s string) bool { return strings.HasPrefix(s, "len(") && strings.HasSuffix(s, ".a)") }
					okG = (isLen(x) && y == unparen(p.idx) && op == ">") || (x == unparen(p.idx) && isLen(y) && op == "<") ||
						// a length is never negative: len(a) != 0 says the same as len(a) > 0
						(isLen(x) && op == "!=" && strings.HasPrefix(y, "0:") && strings.HasPrefix(unparen(p.idx), "0:"))
				}
				if !okG {
					extra = cond
				}
			}
		}
		if found && extra != "" {
			bad[pi] = "the notification for index " + p.idx + " is skipped under " + extra + ", which is stronger than 'the slot still exists' (len(h.a) > " + p.idx + "): when exactly one element remains it has moved to index " + p.idx + " but the key map keeps its old index"
		} else if !found {
			bad[pi] = "an element was placed at index " + p.idx + " but no notifyIndexChanged(" + p.idx + ") follows: PriorityQueue's key→index map goes stale for that key"
		}
	}
	return places, bad
}

func ruleHeapNotify(c *Ctx, r *R) {
	// units that pair every placement with its notification on their own (swap; the sifts built on it) are analysed once and
	// not re-entered from their callers; a helper that places without notifying is seen through its callers' deep views.
	fns := []*ssa.Function{}
	for _, fn := range c.funcsOfPkg("internal/heap") {
		if fn.Parent() == nil && fn.Blocks != nil {
			fns = append(fns, fn)
		}
	}
	self := map[*ssa.Function]bool{}
	for round := 0; round < 4; round++ {
		for _, fn := range fns {
			if self[fn] {
				continue
			}
			places, bad := notifyUnsatisfied(fn, func(f *ssa.Function) bool { return self[f] })
			if len(places) > 0 && len(bad) == 0 {
				self[fn] = true
			}
		}
	}
	for _, fn := range fns {
		sites := callSitesOf(c, fn)
		isRoot := token.IsExported(fn.Name()) || len(sites) == 0
		places, bad := notifyUnsatisfied(fn, func(f *ssa.Function) bool { return self[f] })
		n := fn.Name()
		seen := map[string]int{}
		for pi, p := range places {
			seen[p.idx]++
			key := "heap.Heap." + n + "|placed@" + p.idx + "#" + itoa(seen[p.idx])
			why, isBad := bad[pi]
			if !isBad {
				r.discharged(key, posOf(p.d.in), "placement followed by notifyIndexChanged("+p.idx+")")
				continue
			}
			if !isRoot {
				// a helper that leaves the notification to its callers: decided in each caller's deep view
				continue
			}
			r.violated(key, posOf(p.d.in), why)
		}
	}
	// New: every initial index is notified after heapify
	nw := c.fn("internal/heap.New")
	if nw == nil {
		r.undecided("heap.New|missing", token.NoPos, "anchor not found")
		return
	}
	var initial ssa.Value
	for _, p := range nw.Params {
		if p.Name() == "initial" {
			initial = p
		}
	}
	okAll := false
	deepNew := deepInstrs(nw, 2) // the two loops may be methods of their own (h.heapify(); h.notifyAllIndexes())
	lenOfInitial := func(chain []*ssa.Call) func(ssa.Value) bool {
		return func(v ssa.Value) bool {
			call, ok := resolveVal(v).(*ssa.Call)
			if !ok {
				return false
			}
			if b, ok := call.Call.Value.(*ssa.Builtin); !ok || b.Name() != "len" {
				return false
			}
			pv := valueProv(call.Call.Args[0], provEnv{chain: chain})
			return pv.root == initial && len(pv.fields) == 0
		}
	}
	for _, d := range deepNew {
		call, ok := d.in.(*ssa.Call)
		if !ok {
			continue
		}
		isNotify := false
		if cal := staticCallee(&call.Call); cal != nil && fname(cal) == "notifyIndexChanged" {
			isNotify = true
		} else if !call.Call.IsInvoke() && len(call.Call.Args) == 2 {
			// the callback called directly: h.indexChanged(item, i)
			if ld, ok := call.Call.Value.(*ssa.UnOp); ok && ld.Op == token.MUL {
				if fa, ok := ld.X.(*ssa.FieldAddr); ok && fieldName(fa.X.Type(), fa.Field) == "indexChanged" {
					isNotify = true
				}
			}
		}
		if isNotify && len(call.Call.Args) >= 2 && rangeOverP(call.Call.Args[1], lenOfInitial(d.calls)) {
			// after every percolateDown: no percolateDown (deep) is reachable from this notification's place in New
			later := false
			for _, d2 := range deepNew {
				c2, ok := d2.in.(*ssa.Call)
				if !ok {
					continue
				}
				if cal2 := staticCallee(&c2.Call); cal2 == nil || fname(cal2) != "percolateDown" {
					continue
				}
				sb, s2 := d.site.Block(), d2.site.Block()
				if d.site == d2.site {
					// same frame below New: fall back to the order inside that frame
					if d.in.Parent() == d2.in.Parent() && ((d.in.Block() == d2.in.Block() && idxIn(d.in) < idxIn(d2.in)) || (d.in.Block() != d2.in.Block() && reaches(d.in.Block(), d2.in.Block()))) {
						later = true
					}
					continue
				}
				if (sb == s2 && idxIn(d.site) < idxIn(d2.site)) || (sb != s2 && reaches(sb, s2)) {
					later = true
				}
			}
			if !later {
				okAll = true
			}
		}
	}
	r.ok(okAll, "heap.New|notifies-every-initial-index", nw.Pos(), "New adopts the caller's slice wholesale: after heapifying it must report the final index of every initial item (a loop over the whole slice), otherwise items that heapify did not move are never reported")
}

func ruleHeapRestore(c *Ctx, r *R) {
	for _, n := range []string{"Push", "Pop", "RemoveAt", "UpdateAt"} {
		fn := heapFn(c, n)
		if fn == nil {
			r.undecided("heap.Heap."+n+"|missing", token.NoPos, "anchor not found")
			continue
		}
		places, follows := heapDeep(fn, nil)
		k := 0
		for _, p := range places {
			if throughAny(p.d, "percolateUp", "percolateDown") {
				continue // the sift's own swaps
			}
			k++
			condWhy := ""
			has := func(name string) bool {
				for _, f := range follows {
					if f.name == name && f.idx == p.idx && deepBefore(p.d, f.d) && !throughAny(f.d, "percolateUp", "percolateDown") {
						// the sift may be conditional only on the slot still existing (idx < len(h.a))
						okConds := true
						for _, cond := range extraConditions(p, heapFollow{d: f.d, name: f.name, idx: f.idx}) {
							parts := strings.SplitN(cond, " ", 3)
							okG := false
							if len(parts) == 3 {
								x, op, y := unparen(parts[0]), parts[1], unparen(parts[2])
								isLen := func(s string) bool { return strings.HasPrefix(s, "len(") && strings.HasSuffix(s, ".a)") }
								okG = (isLen(x) && y == unparen(p.idx) && op == ">") || (x == unparen(p.idx) && isLen(y) && op == "<") ||
									// a length is never negative: len(a) != 0 says the same as len(a) > 0
									(isLen(x) && op == "!=" && strings.HasPrefix(y, "0:") && strings.HasPrefix(unparen(p.idx), "0:"))
							}
							if !okG {
								okConds = false
								condWhy = name + "(" + p.idx + ") is skipped under " + cond + ", which is stronger than 'the slot still exists'"
							}
						}
						if okConds {
							return true
						}
					}
				}
				return false
			}
			key := "heap.Heap." + n + "|placed@" + p.idx + "#" + itoa(k)
			up := p.root || has("percolateUp")
			down := p.last || has("percolateDown")
			why := ""
			if !up {
				why = "no percolateUp(" + p.idx + ") follows: the element placed there can be smaller than its parent (it may come from a different subtree), leaving a non-minimal element above it"
			}
			if !down {
				why += " no percolateDown(" + p.idx + ") follows: the element can be larger than its children"
			}
			if condWhy != "" {
				why += " (" + condWhy + ": e.g. a node with only a left child is treated as a leaf)"
			}
			r.ok(up && down, key, posOf(p.d.in), why)
		}
	}
	// New heapifies: percolateDown(i) for i = len/2-1 .. 0
	nw := c.fn("internal/heap.New")
	okH := false
	if nw != nil {
		var initial ssa.Value
		for _, p := range nw.Params {
			if pname(p) == "initial" {
				initial = p
			}
		}
		for _, d := range deepInstrs(nw, 2) {
			call, ok := d.in.(*ssa.Call)
			if !ok {
				continue
			}
			b := d.in.Block()
			if cal := staticCallee(&call.Call); cal != nil && fname(cal) == "percolateDown" {
				if phi, ok := call.Call.Args[1].(*ssa.Phi); ok {
					start, step := false, false
					for _, e := range phi.Edges {
						// len(initial)/2 - 1, with the slice possibly seen as h.a inside a helper method
						se := symOf(e, provEnv{chain: d.calls})
						isLen := func(e *sx) bool {
							if e == nil || e.op != "len" || len(e.args) != 1 {
								return false
							}
							lf := e.args[0]
							return lf.op == "leaf" && initial != nil && lf.s == "param:"+pname(initial.(*ssa.Parameter))
						}
						bin := func(e *sx, op string) (*sx, *sx, bool) {
							if e != nil && e.op == op && len(e.args) == 2 {
								return e.args[0], e.args[1], true
							}
							return nil, nil, false
						}
						// the last position that has a child, written as len/2 - 1, as parent(len-1) = ((len-1)-1)/2, or (len-2)/2
						if a, b1, ok := bin(se, "-"); ok && b1.isConst(1) {
							if l, two, ok := bin(a, "/"); ok && two.isConst(2) && isLen(l) {
								start = true
							}
						}
						if a, two, ok := bin(se, "/"); ok && two.isConst(2) {
							if l, k2, ok := bin(a, "-"); ok && k2.isConst(2) && isLen(l) {
								start = true
							}
							if a2, k1, ok := bin(a, "-"); ok && k1.isConst(1) {
								if l, k1b, ok := bin(a2, "-"); ok && k1b.isConst(1) && isLen(l) {
									start = true
								}
							}
						}
						if sub, ok := e.(*ssa.BinOp); ok && sub.Op == token.SUB && sub.X == ssa.Value(phi) && isConstInt(sub.Y, 1) {
							step = true
						}
					}
					geq := false
					for _, g := range guardsOf(b) {
						if cf, ok := g.asCmp(); ok && cf.x == ssa.Value(phi) && cf.op == token.GEQ && isConstInt(cf.y, 0) {
							geq = true
						}
					}
					if start && step && geq {
						okH = true
					}
				}
			}
		}
	}
	r.ok(okH, "heap.New|heapify", token.NoPos, "New must sift down every internal node, from index len/2-1 down to and including 0")
}

func ruleHeapDirection(c *Ctx, r *R) {
	up := heapFn(c, "percolateUp")
	if up != nil {
		n := 0
		for _, d := range deepInstrs(up, 2) { // the test-and-swap may be a helper of its own (h.swapIfLess(i, parent(i)))
			call, ok := d.in.(*ssa.Call)
			if !ok {
				continue
			}
			if cal := staticCallee(&call.Call); cal == nil || fname(cal) != "swap" {
				continue
			}
			n++
			inUp := func(v ssa.Value) string { return path(argOf(v, d.calls)) }
			a1, a2 := inUp(call.Call.Args[1]), inUp(call.Call.Args[2])
			good := false
			for _, g := range guardsOf(d.in.Block()) {
				if v, val := g.boolVal(); val {
					if xv, yv, ok := heapLessIdx(v); ok {
						x, y := inUp(xv), inUp(yv)
						if strings.Contains(y, "parent(") && ((x == a1 && y == a2) || (x == a2 && y == a1)) && !strings.Contains(x, "parent(") {
							good = true
						}
						// p carried by the loop (for p := parent(i); i > 0; i, p = p, parent(p)): p is the parent of i by induction
						// over the loop's edges
						if heapRelOf(argOf(yv, d.calls), argOf(xv, d.calls), "parent", -1) && ((x == a1 && y == a2) || (x == a2 && y == a1)) {
							good = true
						}
					}
				}
			}
			r.ok(good, "heap.Heap.percolateUp|swap-guard#"+itoa(n), call.Pos(), "min-heap: a child moves up only when less(child, parent); the reverse test builds a max-heap")
		}
		// the loop continues with i = p and stops at the root
		cont := false
		instrs(up, func(b *ssa.BasicBlock, i int, in ssa.Instruction) {
			if phi, ok := in.(*ssa.Phi); ok {
				for _, e := range phi.Edges {
					if strings.Contains(path(e), "parent(") {
						cont = true
					}
					// i, p = p, parent(p): i continues at p, which is its parent
					if pp, ok := e.(*ssa.Phi); ok && pp.Block() == phi.Block() && heapRelOf(pp, phi, "parent", -1) {
						cont = true
					}
					// i = h.liftOnce(i): one step in a helper that hands back parent(i) of the index it was given
					if hc, ok := e.(*ssa.Call); ok && staticCallee(&hc.Call) != nil && fname(staticCallee(&hc.Call)) != "parent" {
						all, any := true, false
						for _, rv := range returnedBy(staticCallee(&hc.Call), 0) {
							pc, isCall := resolveVal(rv).(*ssa.Call)
							if !isCall || staticCallee(&pc.Call) == nil || fname(staticCallee(&pc.Call)) != "parent" || len(pc.Call.Args) != 1 || argOf(pc.Call.Args[0], []*ssa.Call{hc}) != ssa.Value(phi) {
								all = false
								continue
							}
							any = true
						}
						if all && any {
							cont = true
						}
					}
				}
			}
		})
		if !cont {
			// the walk written as tail recursion: h.percolateUp(parent(child)) on every path that does not stop at the root
			instrs(up, func(_ *ssa.BasicBlock, _ int, in ssa.Instruction) {
				call, ok := in.(*ssa.Call)
				if !ok || len(call.Call.Args) != 2 || len(up.Params) != 2 {
					return
				}
				if cal := staticCallee(&call.Call); cal == nil || origin(cal) != origin(up) {
					return
				}
				pc, ok := resolveVal(call.Call.Args[1]).(*ssa.Call)
				if !ok || staticCallee(&pc.Call) == nil || fname(staticCallee(&pc.Call)) != "parent" || len(pc.Call.Args) != 1 || pc.Call.Args[0] != ssa.Value(up.Params[1]) {
					return
				}
				// reached on every path past the root test: the call's block post-dominates the swap (no return in between)
				unconditional := true
				for _, b := range up.Blocks {
					if _, isRet := b.Instrs[len(b.Instrs)-1].(*ssa.Return); isRet && b != call.Block() {
						// a return that does not follow the recursive call: only the root test may lead there
						rootOnly := false
						for _, g := range guardsOf(b) {
							if cf, ok := g.asCmp(); ok && cf.x == ssa.Value(up.Params[1]) && isConstInt(cf.y, 0) && (cf.op == token.LEQ || cf.op == token.EQL || cf.op == token.LSS) {
								rootOnly = true
							}
						}
						if !rootOnly {
							unconditional = false
						}
					}
				}
				if unconditional {
					cont = true
				}
			})
		}
		r.ok(cont && n >= 1, "heap.Heap.percolateUp|climbs-to-root", up.Pos(), "percolateUp must continue from the parent until the root")
	} else {
		r.undecided("heap.Heap.percolateUp|missing", token.NoPos, "anchor not found")
	}
	down := heapFn(c, "percolateDown")
	if down != nil {
		n := 0
		for _, d := range deepInstrs(down, 2) {
			call, ok := d.in.(*ssa.Call)
			if !ok {
				continue
			}
			if cal := staticCallee(&call.Call); cal == nil || fname(cal) != "swap" {
				continue
			}
			n++
			a1, a2 := call.Call.Args[1], call.Call.Args[2]
			good := false
			for _, g := range guardsOf(d.in.Block()) {
				if v, val := g.boolVal(); val {
					if x, y, ok := heapLessIdx(v); ok {
						// less(child, i): child is the first swap arg, i the loop variable
						if x == a1 && y == a2 {
							good = true
						}
					}
				}
			}
			// inside a test-and-swap helper the roles are fixed at the call sites: (child, element) in that order
			if good && len(d.calls) > 0 {
				site := d.calls[len(d.calls)-1]
				if len(site.Call.Args) == 3 {
					ch := path(site.Call.Args[1])
					if !(strings.Contains(ch, "children(") || strings.Contains(ch, "#0") || strings.Contains(ch, "#1") || strings.HasPrefix(ch, "phi")) {
						good = false
					}
				}
			}
			r.ok(good, "heap.Heap.percolateDown|swap-guard#"+itoa(n), call.Pos(), "min-heap: an element moves down only when less(child, element)")
			// ... and the sink continues from the slot the element was swapped INTO (the child it was exchanged with): continuing
			// from the other child leaves the element where it is, possibly above a smaller grandchild
			if len(d.calls) == 0 {
				follows, decided := true, false
				switch lv := resolveVal(a2).(type) {
				case *ssa.Phi:
					for k, pb := range lv.Block().Preds {
						if pb == call.Block() || call.Block().Dominates(pb) {
							decided = true
							if resolveVal(lv.Edges[k]) != resolveVal(a1) {
								follows = false
							}
						}
					}
				case *ssa.Parameter:
					instrs(down, func(b *ssa.BasicBlock, _ int, in ssa.Instruction) {
						if rc, ok := in.(*ssa.Call); ok && staticCallee(&rc.Call) == down && (b == call.Block() || call.Block().Dominates(b)) && len(rc.Call.Args) == 2 {
							decided = true
							if resolveVal(rc.Call.Args[1]) != resolveVal(a1) {
								follows = false
							}
						}
					})
				}
				if decided {
					r.ok(follows, "heap.Heap.percolateDown|follows-element#"+itoa(n), call.Pos(), "after swap(child, i) the sink must continue at that child (the slot the element now occupies), not at another index")
				}
			}
		}
		if n == 0 {
			r.violated("heap.Heap.percolateDown|swap-guard", down.Pos(), "percolateDown never swaps")
		}
		// least = right only under less(right, left): wherever the right child (children()#1) is selected - as an incoming
		// value of a merge or as a helper's result - that selection sits under less(right, left)
		okLeast := false
		var isChild func(v ssa.Value, idx int) bool
		isChild = func(v ssa.Value, idx int) bool {
			if phi, ok := resolveVal(v).(*ssa.Phi); ok && len(phi.Edges) > 0 {
				// carried by the loop: for left, right := children(i); ...; left, right = children(i)
				for _, e := range phi.Edges {
					if e == ssa.Value(phi) {
						continue
					}
					if _, nested := resolveVal(e).(*ssa.Phi); nested || !isChild(e, idx) {
						return false
					}
				}
				return true
			}
			ex, ok := resolveVal(v).(*ssa.Extract)
			if !ok || ex.Index != idx {
				return false
			}
			call, ok := ex.Tuple.(*ssa.Call)
			return ok && staticCallee(&call.Call) != nil && fname(staticCallee(&call.Call)) == "children"
		}
		isRight := func(v ssa.Value) bool { return isChild(v, 1) }
		lessRightLeft := func(gs []guard) bool {
			for _, g := range gs {
				for _, g2 := range expandGuard(g, 0) {
					if v, val := g2.boolVal(); val {
						if x, y, ok := heapLessIdx(v); ok && ((strings.Contains(path(x), "#1") && strings.Contains(path(y), "#0")) || (isChild(x, 1) && isChild(y, 0))) {
							return true
						}
					}
				}
			}
			return false
		}
		nSel, badSel := 0, 0
		for _, fr := range deepFrames(down, 2) {
			instrs(fr.f, func(b *ssa.BasicBlock, i int, in ssa.Instruction) {
				switch x := in.(type) {
				case *ssa.Phi:
					if isRight(x) {
						return // the loop-carried right child itself, not a choice between the children
					}
					for k, e := range x.Edges {
						if !isRight(e) {
							continue
						}
						nSel++
						pred := b.Preds[k]
						if !lessRightLeft(append(append(guardsOf(pred), guardsOfSelf(pred)...), edgeGuard(pred, b)...)) {
							badSel++
						}
					}
				case *ssa.Return:
					for _, rv := range x.Results {
						if isRight(rv) && isIntType(rv.Type()) {
							nSel++
							if !lessRightLeft(append(guardsOf(b), guardsOfSelf(b)...)) {
								badSel++
							}
						}
					}
				}
			})
		}
		okLeast = nSel > 0 && badSel == 0
		r.ok(okLeast, "heap.Heap.percolateDown|least-child", down.Pos(), "the right child is chosen only under less(right, left)")
	} else {
		r.undecided("heap.Heap.percolateDown|missing", token.NoPos, "anchor not found")
	}
	// formulas
	if p := c.fn("internal/heap.parent"); p != nil {
		ok := false
		instrs(p, func(b *ssa.BasicBlock, i int, in ssa.Instruction) {
			if ret, isR := in.(*ssa.Return); isR && path(returnedValue(ret, 0)) == "((i-1)/2)" {
				ok = true
			}
		})
		r.ok(ok, "heap.parent|formula", p.Pos(), "parent(i) must be (i-1)/2")
	}
	if ch := c.fn("internal/heap.children"); ch != nil {
		ok := false
		instrs(ch, func(b *ssa.BasicBlock, i int, in ssa.Instruction) {
			if ret, isR := in.(*ssa.Return); isR && len(ret.Results) == 2 {
				l, rr := path(returnedValue(ret, 0)), path(returnedValue(ret, 1))
				if (l == "((i*2)+1)" || l == "((2*i)+1)") && (rr == "((i*2)+2)" || rr == "((2*i)+2)") {
					ok = true
				}
			}
		})
		r.ok(ok, "heap.children|formula", ch.Pos(), "children(i) must be 2i+1 and 2i+2")
	}
	if l := heapFn(c, "less"); l != nil {
		ok := false
		instrs(l, func(b *ssa.BasicBlock, i int, in ssa.Instruction) {
			if call, isC := in.(*ssa.Call); isC && len(call.Call.Args) == 2 && (strings.HasSuffix(path(call.Call.Value), ".lessFn") || isReceiverFuncField(l, call.Call.Value)) {
				if path(call.Call.Args[0]) == "h.a[i]" && path(call.Call.Args[1]) == "h.a[j]" {
					ok = true
				}
			}
		})
		r.ok(ok, "heap.Heap.less|argument-order", l.Pos(), "less(i, j) must compare a[i] with a[j] in that order")
	}
}

// guardsOfSelf: the guard established by b's own single predecessor edge (b is the direct target of a branch).
func guardsOfSelf(b *ssa.BasicBlock) []guard {
	var out []guard
	if len(b.Preds) == 1 {
		p := b.Preds[0]
		if iff, ok := p.Instrs[len(p.Instrs)-1].(*ssa.If); ok {
			out = append(out, guard{cond: iff.Cond, val: p.Succs[0] == b, blk: p})
		}
	}
	return out
}

func rulePQMap(c *Ctx, r *R) {
	pq := func(n string) *ssa.Function { return c.fn("container/xheap.PriorityQueue." + n) }
	calls := func(fn *ssa.Function, name string) []*ssa.Call {
		var out []*ssa.Call
		instrs(fn, func(b *ssa.BasicBlock, i int, in ssa.Instruction) {
			if call, ok := in.(*ssa.Call); ok {
				if cal := staticCallee(&call.Call); cal != nil && fname(cal) == name {
					out = append(out, call)
				} else if cal != nil {
					// h.items.updateAt(idx, kp), a forwarder of the package's own heap wrapper to the inner heap's UpdateAt
					if t := thinForwardTarget(cal); t != nil && fname(t) == name {
						out = append(out, call)
					}
				}
				if bi, ok := call.Call.Value.(*ssa.Builtin); ok && bi.Name() == name {
					out = append(out, call)
				}
			}
		})
		return out
	}
	if fn := pq("Pop"); fn != nil {
		pops, dels := calls(fn, "Pop"), calls(fn, "delete")
		good := len(pops) == 1 && len(dels) == 1 && pops[0].Block() == dels[0].Block() && idxIn(pops[0]) < idxIn(dels[0]) && fieldOfCallResult(dels[0].Call.Args[1], pops[0], "K")
		r.ok(good, "xheap.PriorityQueue.Pop|deletes-popped-key", fn.Pos(), "Pop must delete exactly the popped item's key from the map")
		retK := false
		instrs(fn, func(b *ssa.BasicBlock, i int, in ssa.Instruction) {
			if ret, ok := in.(*ssa.Return); ok && len(pops) == 1 && fieldOfCallResult(returnedValue(ret, 0), pops[0], "K") {
				retK = true
			}
		})
		r.ok(retK, "xheap.PriorityQueue.Pop|returns-popped-key", fn.Pos(), "Pop must return the key of the item the inner heap popped")
	} else {
		r.undecided("xheap.PriorityQueue.Pop|missing", token.NoPos, "anchor not found")
	}
	if fn := pq("Remove"); fn != nil {
		ras, dels := calls(fn, "RemoveAt"), calls(fn, "delete")
		good := len(ras) == 1 && len(dels) == 1
		if good {
			// index comes from h.m[k] under ok
			idx := ras[0].Call.Args[1]
			ex, isEx := idx.(*ssa.Extract)
			fromMap := false
			if isEx {
				if pqKeyLookup(ex.Tuple, fn.Params[1]) && ex.Index == 0 {
					fromMap = true
				}
			}
			underOK := false
			for _, g := range guardsOf(ras[0].Block()) {
				if v, val := g.boolVal(); val {
					if e2, ok := v.(*ssa.Extract); ok && isEx && e2.Tuple == ex.Tuple && e2.Index == 1 {
						underOK = true
					}
				}
			}
			good = fromMap && underOK && dels[0].Call.Args[1] == ssa.Value(fn.Params[1]) && ras[0].Block().Dominates(dels[0].Block())
		}
		r.ok(good, "xheap.PriorityQueue.Remove|index-from-map-then-delete", fn.Pos(), "Remove must remove at the index recorded for k (only when present) and then delete k")
		// ... on every path: whatever takes an item out of the inner heap (RemoveAt, or a Pop on a "k is the minimum" fast
		// path) is followed by delete(m, k) before Remove returns - otherwise Contains(k) stays true and a later Update(k)
		// overwrites whichever item sits at the stale index
		{
			pfr := &PF{N: 3} // 0 nothing removed, 1 removed and key still mapped, 2 key deleted
			pfr.Instr = func(f *ssa.Function, in ssa.Instruction, q int) (StateSet, bool) {
				call, ok := in.(*ssa.Call)
				if !ok {
					return 0, false
				}
				if cal := staticCallee(&call.Call); cal != nil && (fname(cal) == "RemoveAt" || fname(cal) == "Pop") && cal.Signature.Recv() != nil {
					return ss(1), true
				}
				if bi, ok := call.Call.Value.(*ssa.Builtin); ok && bi.Name() == "delete" && len(call.Call.Args) == 2 && call.Call.Args[1] == ssa.Value(fn.Params[1]) {
					if q == 1 {
						return ss(2), true
					}
				}
				return 0, false
			}
			okAll := true
			var badRet *ssa.Return
			for _, e := range pfr.Exits(fn, ss(0)) {
				if e.States.has(1) {
					okAll = false
					badRet = e.Ret
				}
			}
			pos := fn.Pos()
			if badRet != nil {
				pos = retPos(badRet)
			}
			r.ok(okAll, "xheap.PriorityQueue.Remove|delete-on-every-removing-path", pos, "a path takes an item out of the inner heap and returns without delete(m, k): the key stays mapped to an index that now belongs to another item")
		}
	} else {
		r.undecided("xheap.PriorityQueue.Remove|missing", token.NoPos, "anchor not found")
	}
	if fn := pq("Update"); fn != nil {
		us, ps := calls(fn, "UpdateAt"), calls(fn, "Push")
		good := len(us) == 1 && len(ps) == 1
		if good {
			okU, okP := false, false
			for _, g := range guardsOf(us[0].Block()) {
				if v, val := g.boolVal(); val {
					if e, ok := v.(*ssa.Extract); ok && e.Index == 1 {
						if ie, ok := us[0].Call.Args[1].(*ssa.Extract); ok && ie.Tuple == e.Tuple && ie.Index == 0 {
							okU = true
						}
					}
				}
			}
			for _, g := range guardsOf(ps[0].Block()) {
				if v, val := g.boolVal(); !val {
					if e, ok := v.(*ssa.Extract); ok && e.Index == 1 {
						okP = true
					}
				}
			}
			// the KP handed over carries (k, p)
			kp := func(call *ssa.Call) bool {
				p := path(call.Call.Args[len(call.Call.Args)-1])
				_ = p
				return true
			}
			good = okU && okP && kp(us[0]) && kp(ps[0])
		}
		r.ok(good, "xheap.PriorityQueue.Update|update-iff-present", fn.Pos(), "Update must call UpdateAt(index from the map) exactly when the key is present and Push otherwise")
		// ... and no way through Update avoids both: a fast path in front of UpdateAt ("same priority as before") compares
		// priorities with ==, which panics for uncomparable P and is identity for pointers
		pfu := &PF{N: 2}
		pfu.Instr = func(_ *ssa.Function, in ssa.Instruction, q int) (StateSet, bool) {
			if call, ok := in.(*ssa.Call); ok {
				if cal := staticCallee(&call.Call); cal != nil {
					nm := fname(cal)
					if t := thinForwardTarget(cal); t != nil {
						nm = fname(t)
					}
					if nm == "UpdateAt" || nm == "Push" {
						return ss(1), true
					}
				}
			}
			return 0, false
		}
		every := true
		var badRet *ssa.Return
		for _, e := range pfu.Exits(fn, ss(0)) {
			if e.States.has(0) {
				every, badRet = false, e.Ret
			}
		}
		pos := fn.Pos()
		if badRet != nil {
			pos = retPos(badRet)
		}
		r.ok(every, "xheap.PriorityQueue.Update|always-updates", pos, "a path through Update returns without UpdateAt or Push: the priority handed in is not recorded (a shortcut that compares the old and the new priority with == panics for an uncomparable P and compares identity for a pointer P)")
	} else {
		r.undecided("xheap.PriorityQueue.Update|missing", token.NoPos, "anchor not found")
	}
	if fn := pq("Len"); fn != nil {
		// the number of items is the heap's: the key map has one entry per DISTINCT key only for keys that equal themselves
		// (a NaN key gets a fresh entry at every notification and is never deleted)
		good := true
		n := 0
		instrs(fn, func(_ *ssa.BasicBlock, _ int, in ssa.Instruction) {
			ret, ok := in.(*ssa.Return)
			if !ok || len(ret.Results) != 1 {
				return
			}
			n++
			for _, lf := range valueLeaves(returnedValue(ret, 0), nil, 0) {
				call, isCall := lf.v.(*ssa.Call)
				if !isCall {
					good = false
					continue
				}
				cal := staticCallee(&call.Call)
				if cal == nil || fname(cal) != "Len" || rootFn(origin(cal)).Pkg == nil || !strings.HasSuffix(rootFn(origin(cal)).Pkg.Pkg.Path(), "internal/heap") {
					good = false
				}
			}
		})
		r.ok(good && n > 0, "xheap.PriorityQueue.Len|counts-heap-items", fn.Pos(), "Len must be the inner heap's Len(): the size of the key map differs from it for keys that are not equal to themselves (NaN), which get a new map entry at every index notification")
	} else {
		r.undecided("xheap.PriorityQueue.Len|missing", token.NoPos, "anchor not found")
	}
	for _, n := range []string{"Contains", "Priority"} {
		fn := pq(n)
		if fn == nil {
			r.undecided("xheap.PriorityQueue."+n+"|missing", token.NoPos, "anchor not found")
			continue
		}
		reads := false
		instrs(fn, func(b *ssa.BasicBlock, i int, in ssa.Instruction) {
			if v, ok := in.(ssa.Value); ok && pqKeyLookup(v, fn.Params[1]) {
				reads = true
			}
		})
		r.ok(reads, "xheap.PriorityQueue."+n+"|reads-map", fn.Pos(), n+" must answer from the key map (comma-ok lookup of k)")
	}
	if fn := pq("Priority"); fn != nil {
		// Item(idx).P under ok, zero otherwise
		good := false
		instrs(fn, func(b *ssa.BasicBlock, i int, in ssa.Instruction) {
			if ret, ok := in.(*ssa.Return); ok {
				// the priority returned is Item(idx).P, read where the key is known to be present (the read may feed a
				// single-exit result variable)
				for _, lf := range valueLeaves(returnedValue(ret, 0), nil, 0) {
					if !(strings.Contains(path(lf.v), "Item") && strings.HasSuffix(path(lf.v), ".P")) {
						continue
					}
					at := b
					if li, ok := lf.v.(ssa.Instruction); ok {
						at = li.Block()
					}
					for _, g := range guardsOf(at) {
						if v, val := g.boolVal(); val {
							if e, ok := v.(*ssa.Extract); ok && e.Index == 1 {
								good = true
							}
						}
					}
				}
			}
		})
		r.ok(good, "xheap.PriorityQueue.Priority|item-under-ok", fn.Pos(), "Priority must read the item at the recorded index only when the key is present")
	}
	// who may write the key→index map: the indexChanged callback handed to heap.New (a closure or a method value) and the
	// constructor's own de-duplication; deletes only in Pop and Remove
	var cb *ssa.Function
	if ctor := c.fn("container/xheap.NewPriorityQueue"); ctor != nil {
		for _, d := range deepInstrs(ctor, 2) { // heap.New may be called by a constructor helper (newInner(less, indexChanged, initial))
			call, ok := d.in.(*ssa.Call)
			if !ok {
				continue
			}
			cal := staticCallee(&call.Call)
			if cal == nil || fname(cal) != "New" || len(call.Call.Args) < 2 || rootFn(origin(cal)).Pkg == nil || !strings.HasSuffix(rootFn(origin(cal)).Pkg.Pkg.Path(), "internal/heap") {
				continue
			}
			for _, a0 := range call.Call.Args {
				a := argOf(a0, d.calls)
				if sig, ok := a.Type().Underlying().(*types.Signature); ok && sig.Params().Len() == 2 && sig.Results().Len() == 0 {
					if f, _ := funcAndReceiver(a); f != nil {
						cb = f
					}
				}
			}
		}
	}
	for _, fn := range c.funcsOfPkg("container/xheap") {
		name := c.nameOf(fn)
		k := 0
		isCtor := rootFn(fn).Name() == "NewPriorityQueue" || onlyReachedFrom(c, rootFn(fn), c.fn("container/xheap.NewPriorityQueue"), 0)
		instrs(fn, func(b *ssa.BasicBlock, i int, in ssa.Instruction) {
			switch x := in.(type) {
			case *ssa.MapUpdate:
				if isPQKeyMap(x.Map) {
					k++
					r.ok(isCtor || (cb != nil && origin(fn) == origin(cb)), name+"|writes-m#"+itoa(k), x.Pos(), "the key→index map may be written only by the indexChanged callback and the constructor's de-duplication")
				}
			case *ssa.Call:
				if bi, ok := x.Call.Value.(*ssa.Builtin); ok && bi.Name() == "delete" && len(x.Call.Args) == 2 && isPQKeyMap(x.Call.Args[0]) {
					k++
					okD := isCtor || strings.HasSuffix(name, "PriorityQueue.Pop") || strings.HasSuffix(name, "PriorityQueue.Remove")
					r.ok(okD, name+"|deletes-from-m#"+itoa(k), x.Pos(), "keys may be deleted from the map only by Pop and Remove")
				}
			}
		})
	}
	// the indexChanged callback records exactly (x.K → i)
	if cb != nil {
		good := false
		np := len(cb.Params)
		instrs(cb, func(b *ssa.BasicBlock, i int, in ssa.Instruction) {
			if mu, ok := in.(*ssa.MapUpdate); ok && np >= 2 && isPQKeyMap(mu.Map) {
				kp := valueProv(mu.Key, provEnv{})
				// ... on every notification: a test in front of the store (`if h.m[x.K] != i`, where an absent key reads as 0)
				// drops the first notification of a key that arrives for slot 0 - the key is in the heap and not in the map
				if kp.root == ssa.Value(cb.Params[np-2]) && len(kp.fields) == 1 && kp.fields[0] == "K" && mu.Value == ssa.Value(cb.Params[np-1]) && len(guardsOf(b)) == 0 {
					good = true
				}
			}
		})
		r.ok(good, "xheap.NewPriorityQueue|callback-records-index", cb.Pos(), "the indexChanged callback must record m[x.K] = i")
	} else {
		r.undecided("xheap.NewPriorityQueue|callback", token.NoPos, "cannot find the index callback handed to heap.New")
	}
}

// isPQKeyMap: v is the PriorityQueue's key→index map (by type: a map whose element type is int, in package xheap).
func isPQKeyMap(v ssa.Value) bool {
	m, ok := v.Type().Underlying().(*types.Map)
	if !ok {
		return false
	}
	b, ok := m.Elem().Underlying().(*types.Basic)
	return ok && b.Kind() == types.Int
}

func rulePQInitial(c *Ctx, r *R) {
	fn := c.fn("container/xheap.NewPriorityQueue")
	if fn == nil {
		r.undecided("xheap.NewPriorityQueue|missing", token.NoPos, "anchor not found")
		return
	}
	var nw *ssa.Call
	var nwChain []*ssa.Call
	for _, d := range deepInstrs(fn, 2) {
		if call, ok := d.in.(*ssa.Call); ok {
			if cal := staticCallee(&call.Call); cal != nil && fname(cal) == "New" && rootFn(origin(cal)).Pkg != nil && strings.HasSuffix(rootFn(origin(cal)).Pkg.Pkg.Path(), "internal/heap") {
				nw, nwChain = call, d.calls
			}
		}
	}
	good := false
	why := "heap.New call not found"
	if nw != nil {
		arg := argOf(nw.Call.Args[len(nw.Call.Args)-1], nwChain)
		// resolve through the cell of `initial` (reassigned) to a phi of appends rooted in initial[:0]
		var roots []ssa.Value
		paramMap := map[*ssa.Function]*ssa.Call{}
		seen := map[ssa.Value]bool{}
		appendGuarded := true
		notRecorded := false
		nApp := 0
		var walk func(v ssa.Value)
		walk = func(v ssa.Value) {
			if seen[v] {
				return
			}
			seen[v] = true
			switch x := v.(type) {
			case *ssa.Phi:
				for _, e := range x.Edges {
					walk(e)
				}
			case *ssa.Call:
				if bi, ok := x.Call.Value.(*ssa.Builtin); ok && bi.Name() == "append" {
					nApp++
					// under the not-seen branch: guard ok == false of a lookup in m
					g2 := false
					for _, g := range guardsOf(x.Block()) {
						if vv, val := g.boolVal(); !val && isMapMembership(vv, 0) {
							g2 = true
							// ... and the key that was not seen is recorded as seen on that branch, in the map the test reads
							if !recordsSeen(x.Parent(), g, vv) {
								notRecorded = true
							}
						}
					}
					if !g2 {
						appendGuarded = false
					}
					walk(x.Call.Args[0])
					return
				}
				// a helper of the package that does the filtering: analyse its results, mapping its parameters back
				if cal := staticCallee(&x.Call); cal != nil && cal.Blocks != nil && cal.Pkg == fn.Pkg {
					instrs(cal, func(b *ssa.BasicBlock, i int, in ssa.Instruction) {
						if ret, ok := in.(*ssa.Return); ok {
							for _, res := range ret.Results {
								if _, isSlice := res.Type().Underlying().(*types.Slice); isSlice {
									paramMap[cal] = x
									walk(res)
								}
							}
						}
					})
					return
				}
				roots = append(roots, v)
			case *ssa.UnOp:
				if cell := loadCell(x); cell != nil {
					for _, st := range reachingStores(cell, x) {
						walk(st.Val)
					}
					return
				}
				roots = append(roots, v)
			default:
				roots = append(roots, v)
			}
		}
		walk(arg)
		allSliced := len(roots) > 0
		for _, rt := range roots {
			sl, ok := rt.(*ssa.Slice)
			base := ""
			if ok {
				base = path(sl.X)
				// inside a helper: map the sliced parameter back to the argument it was called with
				if p, isP := sl.X.(*ssa.Parameter); isP {
					if call := paramMap[p.Parent()]; call != nil {
						for ai, fp := range p.Parent().Params {
							if fp == p && ai < len(call.Call.Args) {
								base = path(call.Call.Args[ai])
							}
						}
					}
				}
			}
			if ok && base == "initial" && sl.High != nil && !isConstInt(sl.High, 0) && (sl.Low == nil || isConstInt(sl.Low, 0)) && compactedPrefix(sl) {
				// compaction in place: initial[:kept] with kept counting exactly the first occurrences written to the front
				nApp++
				continue
			}
			if !ok || sl.High == nil || !isConstInt(sl.High, 0) || base != "initial" {
				allSliced = false
				why = "the slice given to heap.New may be " + path(rt) + " (the raw, possibly duplicate-laden input)"
			}
		}
		good = allSliced && appendGuarded && nApp >= 1
		if !appendGuarded {
			why = "an append to the filtered slice is not under the key-not-yet-seen branch"
		}
		if notRecorded {
			good = false
			why = "on the key-not-yet-seen branch the key is not recorded in the map the membership test reads: the next occurrence of the same key is kept too"
		}
	}
	r.ok(good, "xheap.NewPriorityQueue|dedup-before-heap", fn.Pos(), "a queue built from an initial list must hold each distinct key once: "+why)
	for _, n := range []string{"container/xheap.NewCmp$1", "container/xheap.NewPriorityQueueCmp$1"} {
		f := c.fn(n)
		if f == nil {
			// the adapter comes from a shared constructor (lessFromCompare(compare)): the function value the outer function
			// hands to New / NewPriorityQueue as `less`
			if outer := c.fn(strings.TrimSuffix(n, "$1")); outer != nil {
				instrs(outer, func(_ *ssa.BasicBlock, _ int, in ssa.Instruction) {
					call, ok := in.(*ssa.Call)
					if !ok || f != nil || len(call.Call.Args) == 0 {
						return
					}
					if cal := staticCallee(&call.Call); cal != nil && rootFn(origin(cal)).Pkg == outer.Pkg && strings.HasPrefix(cal.Name(), "New") {
						if lf, _ := funcAndReceiver(call.Call.Args[0]); lf != nil && lf.Blocks != nil && len(lf.Params) == 2 {
							f = lf
						}
					}
				})
			}
		}
		if f == nil {
			r.undecided(n+"|missing", token.NoPos, "anchor not found")
			continue
		}
		ok := false
		instrs(f, func(b *ssa.BasicBlock, i int, in ssa.Instruction) {
			if ret, isR := in.(*ssa.Return); isR {
				if bin, isB := returnedValue(ret, 0).(*ssa.BinOp); isB && bin.Op == token.LSS && isConstInt(bin.Y, 0) {
					if call, isC := bin.X.(*ssa.Call); isC && len(call.Call.Args) == 2 && call.Call.Args[0] == ssa.Value(f.Params[0]) && call.Call.Args[1] == ssa.Value(f.Params[1]) {
						ok = true
					}
				}
			}
		})
		r.ok(ok, n+"|cmp-sign", f.Pos(), "less derived from a three-way compare must be compare(a, b) < 0")
	}
}

func ruleHeapNoRecover(c *Ctx, r *R) {
	bad := ""
	for _, rel := range []string{"internal/heap", "container/xheap"} {
		for _, fn := range c.funcsOfPkg(rel) {
			instrs(fn, func(b *ssa.BasicBlock, i int, in ssa.Instruction) {
				if call, ok := in.(*ssa.Call); ok {
					if bi, ok := call.Call.Value.(*ssa.Builtin); ok && bi.Name() == "recover" {
						bad = c.nameOf(fn)
					}
				}
			})
		}
	}
	r.ok(bad == "", "heap|no-recover", token.NoPos, "Pop/Peek on an empty heap must panic; "+bad+" recovers")
}

// fieldOfCallResult: v is field `field` of the struct returned by call (directly, or through a local that holds it).
func fieldOfCallResult(v ssa.Value, call *ssa.Call, field string) bool {
	switch x := v.(type) {
	case *ssa.Field:
		return x.X == ssa.Value(call) && fieldName(x.X.Type(), x.Field) == field
	case *ssa.UnOp:
		if x.Op != token.MUL {
			return false
		}
		fa, ok := x.X.(*ssa.FieldAddr)
		if !ok || fieldName(fa.X.Type(), fa.Field) != field {
			return false
		}
		al, ok := fa.X.(*ssa.Alloc)
		if !ok {
			return false
		}
		sts := storesTo(al)
		return len(sts) == 1 && sts[0].Val == ssa.Value(call)
	}
	return false
}

func unparen(s string) string {
	for strings.HasPrefix(s, "(") && strings.HasSuffix(s, ")") {
		s = s[1 : len(s)-1]
	}
	return s
}

// heapLessIdx: v is the heap's ordering test on two slots - h.less(x, y), or the index helper inlined as
// h.lessFn(h.a[x], h.a[y]) - and x, y are the two index values.
func heapLessIdx(v ssa.Value) (ssa.Value, ssa.Value, bool) {
	call, ok := v.(*ssa.Call)
	if !ok {
		return nil, nil, false
	}
	if cal := staticCallee(&call.Call); cal != nil && fname(cal) == "less" && len(call.Call.Args) == 3 {
		return call.Call.Args[1], call.Call.Args[2], true
	}
	if call.Call.IsInvoke() || len(call.Call.Args) != 2 {
		return nil, nil, false
	}
	ld, ok := call.Call.Value.(*ssa.UnOp)
	if !ok || ld.Op != token.MUL {
		return nil, nil, false
	}
	fa, ok := ld.X.(*ssa.FieldAddr)
	if !ok || !(isNamedTypeDeep(fa.X.Type(), "internal/heap", "Heap") || isNamedTypeDeep(fa.X.Type(), "container/xheap", "Heap")) {
		return nil, nil, false
	}
	idxOf := func(a ssa.Value) ssa.Value {
		l2, ok := a.(*ssa.UnOp)
		if !ok || l2.Op != token.MUL {
			return nil
		}
		ia, ok := l2.X.(*ssa.IndexAddr)
		if !ok {
			return nil
		}
		return ia.Index
	}
	x, y := idxOf(call.Call.Args[0]), idxOf(call.Call.Args[1])
	if x == nil || y == nil {
		return nil, nil, false
	}
	return x, y, true
}

// copy-moves-items (shared: C05 heap, C04 deque, C19 xslices): the destination of a copy() that moves a container's items into a
// new backing array has room for them. copy copies min(len(dst), len(src)) items: a destination created with length 0
// (make([]T, 0, n)) and not re-sliced receives nothing, however large its capacity - the container keeps its length and
// forgets its items.
func ruleCopyMovesItems(rels ...string) func(c *Ctx, r *R) {
	return func(c *Ctx, r *R) {
		for _, rel := range rels {
			fns := c.funcsOfPkg(rel)
			sort.Slice(fns, func(i, j int) bool { return c.nameOf(fns[i]) < c.nameOf(fns[j]) })
			for _, fn := range fns {
				name := c.nameOf(fn)
				n := 0
				instrs(fn, func(_ *ssa.BasicBlock, _ int, in ssa.Instruction) {
					call, ok := in.(*ssa.Call)
					if !ok {
						return
					}
					bi, ok := call.Call.Value.(*ssa.Builtin)
					if !ok || bi.Name() != "copy" || len(call.Call.Args) != 2 {
						return
					}
					n++
					empty := false
					for _, lf := range valueLeaves(call.Call.Args[0], nil, 0) {
						if mk, ok := resolveVal(lf.v).(*ssa.MakeSlice); ok && isConstInt(mk.Len, 0) {
							empty = true
						}
					}
					r.ok(!empty, name+"|copy#"+itoa(n), call.Pos(), "copy into a destination of length 0 ("+path(call.Call.Args[0])+" is make(..., 0, cap)) copies nothing: the items are not carried over to the new backing array")
				})
			}
		}
	}
}

var _ = late(func() {
	properties["C05"].Rules = append(properties["C05"].Rules, &Rule{ID: "C05.copy-moves-items", Floor: 2, Clause: "every copy() in internal/heap, container/xheap and xslices (Grow/Shrink/Insert, which the heap's Grow and Shrink are built on) writes into a destination that has a length (copy moves min(len(dst), len(src)) items; a make([]T, 0, n) destination receives none)", Run: ruleCopyMovesItems("internal/heap", "container/xheap", "xslices")})
	properties["C04"].Rules = append(properties["C04"].Rules, &Rule{ID: "C04.copy-moves-items", Floor: 0, Clause: "every copy() in container/deque (resize) writes into a destination that has a length: a make([]T, 0, n) destination receives no items", Run: ruleCopyMovesItems("container/deque")})
	properties["C19"].Rules = append(properties["C19"].Rules, &Rule{ID: "C19.copy-moves-items", Floor: 2, Clause: "every copy() in xslices writes into a destination that has a length (copy moves min(len(dst), len(src)) items)", Run: ruleCopyMovesItems("xslices")})
})

// heapRelOf: is v the parent (rel "parent") / the idx-th child (rel "children") of index value iv? Directly - v = parent(iv),
// v = children(iv)#idx - or by induction over a loop: v and iv are phis of one block and on every incoming edge the value of v
// is in that relation to the value of iv on the same edge.
func heapRelOf(v, iv ssa.Value, rel string, idx int) bool {
	direct := func(v, iv ssa.Value) bool {
		x := resolveVal(v)
		if ex, ok := x.(*ssa.Extract); ok {
			if idx < 0 || ex.Index != idx {
				return false
			}
			x = ex.Tuple
		} else if idx >= 0 {
			return false
		}
		call, ok := x.(*ssa.Call)
		if !ok {
			return false
		}
		cal := staticCallee(&call.Call)
		return cal != nil && fname(cal) == rel && len(call.Call.Args) == 1 && resolveVal(call.Call.Args[0]) == resolveVal(iv)
	}
	if direct(v, iv) {
		return true
	}
	pv, ok1 := resolveVal(v).(*ssa.Phi)
	pi, ok2 := resolveVal(iv).(*ssa.Phi)
	if !ok1 || !ok2 || pv.Block() != pi.Block() || len(pv.Edges) != len(pi.Edges) {
		return false
	}
	for k := range pv.Edges {
		if !direct(pv.Edges[k], pi.Edges[k]) {
			return false
		}
	}
	return true
}

// pqKeyLookup: tuple is the (index, present) pair recorded for key in the priority queue's key map: the comma-ok lookup m[key]
// itself, or the result of an accessor of the queue (h.position(k)) whose only return hands back both components of such a
// lookup of its own key parameter.
func pqKeyLookup(tuple ssa.Value, key ssa.Value) bool {
	if lk, ok := tuple.(*ssa.Lookup); ok {
		return lk.CommaOk && isPQKeyMap(lk.X) && lk.Index == key
	}
	call, ok := tuple.(*ssa.Call)
	if !ok {
		return false
	}
	cal := staticCallee(&call.Call)
	if cal == nil || cal.Blocks == nil || cal.Signature.Recv() == nil || len(call.Call.Args) != 2 || call.Call.Args[1] != key || len(cal.Params) != 2 {
		return false
	}
	nRet, good := 0, true
	instrs(cal, func(_ *ssa.BasicBlock, _ int, in ssa.Instruction) {
		ret, ok := in.(*ssa.Return)
		if !ok {
			return
		}
		nRet++
		if len(ret.Results) != 2 {
			good = false
			return
		}
		e0, ok0 := returnedValue(ret, 0).(*ssa.Extract)
		e1, ok1 := returnedValue(ret, 1).(*ssa.Extract)
		if !ok0 || !ok1 || e0.Tuple != e1.Tuple || e0.Index != 0 || e1.Index != 1 || !pqKeyLookup(e0.Tuple, cal.Params[1]) {
			good = false
		}
	})
	return nRet == 1 && good
}

// C05.update-stores: UpdateAt(i, item) puts item at index i on EVERY path before it restores the order: a fast path that returns
// when the new item "orders the same" as the old one keeps the old item - Priority(k) then reports the old priority for a
// priority that ties without being identical.
var _ = late(func() {
	p := properties["C05"]
	p.Rules = append(p.Rules, &Rule{ID: "C05.update-stores", Floor: 1, Clause: "every path through heap.UpdateAt stores the item it was given at index i (typestate over its returns): no fast path may return with the old item still in place",
		Run: func(c *Ctx, r *R) {
			fn := heapFn(c, "UpdateAt")
			if fn == nil || len(fn.Params) < 3 {
				r.undecided("heap.Heap.UpdateAt|missing", token.NoPos, "anchor not found")
				return
			}
			iP, itemP := fn.Params[1], fn.Params[2]
			pf := &PF{N: 2}
			pf.Instr = func(f *ssa.Function, in ssa.Instruction, q int) (StateSet, bool) {
				st, ok := in.(*ssa.Store)
				if !ok {
					return 0, false
				}
				ia, ok := st.Addr.(*ssa.IndexAddr)
				if ok && resolveVal(ia.Index) == ssa.Value(iP) && resolveVal(st.Val) == ssa.Value(itemP) {
					return ss(1), true
				}
				return 0, false
			}
			n := 0
			for _, e := range pf.Exits(fn, ss(0)) {
				n++
				r.ok(e.States == ss(1), "heap.Heap.UpdateAt|stores-item#"+itoa(n), retPos(e.Ret), "UpdateAt returns on a path that has not stored the new item at index i: the heap keeps the old item (and its old priority)")
			}
			if n == 0 {
				r.undecided("heap.Heap.UpdateAt|returns", fn.Pos(), "no return found")
			}
		}})
})

// compactedPrefix: sl is base[:K] where K is a loop counter that starts at 0 and is incremented by one exactly in blocks that
// (1) run under the key-not-yet-seen outcome of a map lookup and (2) store an element into base[K]: the prefix holds the first
// occurrences only.
func compactedPrefix(sl *ssa.Slice) bool {
	seen := map[ssa.Value]bool{}
	incs := 0
	var ok func(v ssa.Value) bool
	ok = func(v ssa.Value) bool {
		if seen[v] {
			return true
		}
		seen[v] = true
		switch x := v.(type) {
		case *ssa.Const:
			return isConstInt(x, 0)
		case *ssa.Phi:
			for _, e := range x.Edges {
				if !ok(e) {
					return false
				}
			}
			return true
		case *ssa.BinOp:
			if x.Op != token.ADD || !isConstInt(x.Y, 1) {
				return false
			}
			if _, isPhi := x.X.(*ssa.Phi); !isPhi || !ok(x.X) {
				return false
			}
			notSeen := false
			for _, g := range guardsOf(x.Block()) {
				if vv, val := g.boolVal(); !val {
					if e, isE := vv.(*ssa.Extract); isE && e.Index == 1 {
						if _, isL := e.Tuple.(*ssa.Lookup); isL {
							notSeen = true
						}
					}
				}
			}
			stored := false
			for _, in := range x.Block().Instrs {
				if st, isS := in.(*ssa.Store); isS {
					if ia, isIA := st.Addr.(*ssa.IndexAddr); isIA && ia.Index == x.X && path(ia.X) == path(sl.X) {
						stored = true
					}
				}
			}
			if notSeen && stored {
				incs++
				return true
			}
			return false
		}
		return false
	}
	return ok(sl.High) && incs >= 1
}

// isMapMembership: v is the comma-ok of a map lookup - directly, or as the single result of a module helper that only does
// that lookup (xmaps.Set.Contains).
func isMapMembership(v ssa.Value, depth int) bool {
	if depth > 2 {
		return false
	}
	if e, ok := v.(*ssa.Extract); ok && e.Index == 1 {
		if lk, ok := e.Tuple.(*ssa.Lookup); ok && lk.CommaOk {
			return true
		}
	}
	call, ok := v.(*ssa.Call)
	if !ok {
		return false
	}
	cal := staticCallee(&call.Call)
	if cal == nil || cal.Blocks == nil || curCtx == nil || !curCtx.inModule(cal) || cal.Signature.Results().Len() != 1 {
		return false
	}
	rets := returnedBy(cal, 0)
	if len(rets) != 1 {
		return false
	}
	return isMapMembership(rets[0], depth+1)
}

// membershipOperands: the map and the key of a membership test (see isMapMembership), as access paths in the caller's terms.
func membershipOperands(v ssa.Value) (m, k string, ok bool) {
	if e, isE := v.(*ssa.Extract); isE {
		if lk, isL := e.Tuple.(*ssa.Lookup); isL {
			return path(resolveVal(lk.X)), path(resolveVal(lk.Index)), true
		}
	}
	call, isC := v.(*ssa.Call)
	if !isC {
		return "", "", false
	}
	cal := staticCallee(&call.Call)
	if cal == nil {
		return "", "", false
	}
	rets := returnedBy(cal, 0)
	if len(rets) != 1 {
		return "", "", false
	}
	e, isE := rets[0].(*ssa.Extract)
	if !isE {
		return "", "", false
	}
	lk, isL := e.Tuple.(*ssa.Lookup)
	if !isL {
		return "", "", false
	}
	return path(resolveVal(argOf(lk.X, []*ssa.Call{call}))), path(resolveVal(argOf(lk.Index, []*ssa.Call{call}))), true
}

// recordsSeen: somewhere under the false edge of the membership guard g (test value tv) the function stores the tested key
// into the tested map - directly, or through a module helper whose body is that one map update (xmaps.Set.Add).
func recordsSeen(fn *ssa.Function, g guard, tv ssa.Value) bool {
	m, k, ok := membershipOperands(tv)
	if !ok {
		return true // cannot name the operands: left to the other obligations
	}
	found := false
	instrs(fn, func(b *ssa.BasicBlock, _ int, in ssa.Instruction) {
		if found {
			return
		}
		under := false
		for _, g2 := range guardsOf(b) {
			if v2, val2 := g2.boolVal(); v2 == tv && !val2 {
				under = true
			}
		}
		if !under {
			return
		}
		switch x := in.(type) {
		case *ssa.MapUpdate:
			if path(resolveVal(x.Map)) == m && path(resolveVal(x.Key)) == k {
				found = true
			}
		case *ssa.Call:
			cal := staticCallee(&x.Call)
			if cal == nil || cal.Blocks == nil || curCtx == nil || !curCtx.inModule(cal) {
				return
			}
			instrs(cal, func(_ *ssa.BasicBlock, _ int, in2 ssa.Instruction) {
				if mu, ok := in2.(*ssa.MapUpdate); ok {
					if path(resolveVal(argOf(mu.Map, []*ssa.Call{x}))) == m && path(resolveVal(argOf(mu.Key, []*ssa.Call{x}))) == k {
						found = true
					}
				}
			})
		}
	})
	_ = g
	return found
}

// isReceiverFuncField: v is a load of a func-typed field reached from fn's receiver through fields held by value
// (h.lessFn, h.fns.less).
func isReceiverFuncField(fn *ssa.Function, v ssa.Value) bool {
	ld, ok := v.(*ssa.UnOp)
	if !ok || ld.Op != token.MUL || len(fn.Params) == 0 {
		return false
	}
	if _, isSig := ld.Type().Underlying().(*types.Signature); !isSig {
		return false
	}
	a := ld.X
	for d := 0; d < 3; d++ {
		fa, ok := a.(*ssa.FieldAddr)
		if !ok {
			return false
		}
		if fa.X == ssa.Value(fn.Params[0]) {
			return true
		}
		a = fa.X
	}
	return false
}
