package main

import (
	"go/token"
	"go/types"
	"strings"

	"golang.org/x/tools/go/ssa"
)

func init() {
	register(&Property{
		ID:    "C17",
		Title: "xsync.Group: StopAndWait is a barrier; triggers are never lost or overlapped",
		Rules: []*Rule{
			{ID: "C17.spawn-discipline", Floor: 6, Clause: "the only go statement of Group is in spawn; there wg.Add(1) runs holding g.m, dominated by the g.ctx.Err() == nil edge evaluated under the same lock; Stop calls cancel holding g.m for writing; the goroutine calls wg.Done() after f on every path; StopAndWait is Stop then wg.Wait",
				Run: ruleGroupSpawn},
			{ID: "C17.no-run-after-stop", Floor: 6, Clause: "in Periodic, Trigger and PeriodicOrTrigger every call of f is preceded in the same iteration by a select with a g.ctx.Done() arm that returns, and the loop head re-checks g.ctx.Err()",
				Run: ruleGroupNoRunAfterStop},
			{ID: "C17.trigger-kept", Floor: 6, Clause: "a trigger function is a non-blocking send on a channel of constant capacity 1; the worker receives from it only in the select that precedes f (never between f's return and the next select); one goroutine per registration runs f sequentially",
				Run: ruleGroupTrigger},
			{ID: "C17.timer-idiom", Floor: 1, Clause: "PeriodicOrTrigger drains the timer with the !t.Stop() ⇒ <-t.C idiom before Reset",
				Run: ruleGroupTimerIdiom},
		},
		NotCovered: []string{"periodic cadence (timing)"},
		Trusted:    []string{"sync.WaitGroup / RWMutex semantics", "time.Timer semantics"},
	})
}

func ruleGroupSpawn(c *Ctx, r *R) {
	meths := c.methodsOf("xsync", "Group")
	// who may `go`
	for name, fn := range meths {
		for _, g := range withAnon(fn) {
			instrs(g, func(b *ssa.BasicBlock, i int, in ssa.Instruction) {
				if _, ok := in.(*ssa.Go); ok {
					r.ok(name == "spawn" && g == fn, "xsync.Group."+name+"|go-statement", in.Pos(), "goroutines of a Group may be started only by spawn (which registers them with the WaitGroup under the lock)")
				}
			})
		}
	}
	sp := meths["spawn"]
	if sp == nil {
		r.undecided("xsync.Group.spawn|missing", token.NoPos, "anchor not found")
		return
	}
	// Typestate over spawn and the in-package helpers it is built from (stopped(), register(), …):
	//   LCK  g.m is held (R or W)              ERRL the last g.ctx.Err() was evaluated during the current hold
	//   OK / NOK  the outcome of the `g.ctx.Err() == nil` test on that evaluation is known to be true / false on this path
	//             (kept across the unlock so that a second branch on the same boolean is correlated with the first)
	//   ADD  wg.Add(1) ran
	const (
		gLCK = 1 << iota
		gERRL
		gOK
		gNOK
		gADD
	)
	muFields := fieldsOfKind(c, "xsync", "Group", func(t types.Type) bool {
		return isNamedType(t, "sync", "RWMutex") || isNamedType(t, "sync", "Mutex")
	})
	isGroupMu := func(m string) bool {
		for _, f := range muFields {
			if strings.HasSuffix(m, "."+f) {
				return true
			}
		}
		return false
	}
	isCtxErr := func(v ssa.Value) bool {
		ec, ok := v.(*ssa.Call)
		if !ok || !ec.Call.IsInvoke() || ec.Call.Method.Name() != "Err" || !isContextType(ec.Call.Value.Type()) {
			return false
		}
		if len(valueProv(ec.Call.Value, provEnv{}).fields) >= 1 {
			return true
		}
		// the context arrives as a parameter of a helper (r.enter(g.ctx)): what its callers pass is the field
		var viaParam func(v ssa.Value, d int) bool
		viaParam = func(v ssa.Value, d int) bool {
			if len(valueProv(v, provEnv{}).fields) >= 1 {
				return true
			}
			prm, isP := v.(*ssa.Parameter)
			if !isP || d > 2 || prm.Parent() == nil || prm.Parent().Parent() != nil || token.IsExported(prm.Parent().Name()) {
				return false
			}
			idx := -1
			for i, q := range prm.Parent().Params {
				if q == prm {
					idx = i
				}
			}
			sites := callCommonsOf(c, prm.Parent())
			if idx < 0 || len(sites) == 0 {
				return false
			}
			for _, cc := range sites {
				if idx >= len(cc.Args) || !viaParam(cc.Args[idx], d+1) {
					return false
				}
			}
			return true
		}
		return viaParam(ec.Call.Value, 0)
	}
	isAdd := func(in ssa.Instruction) *ssa.Call {
		if call, ok := in.(*ssa.Call); ok {
			if cal := call.Call.StaticCallee(); cal != nil && cal.Name() == "Add" && cal.Signature.Recv() != nil && isNamedType(cal.Signature.Recv().Type(), "sync", "WaitGroup") {
				return call
			}
		}
		return nil
	}
	pkg := sp.Pkg
	spf := &PF{N: 32, DeepVisit: true, InScope: func(f *ssa.Function) bool {
		return rootFn(f).Pkg == pkg && f.Blocks != nil && f != sp && f.Parent() == nil
	}}
	spf.Instr = func(f *ssa.Function, in ssa.Instruction, q int) (StateSet, bool) {
		var cc *ssa.CallCommon
		switch x := in.(type) {
		case *ssa.Call:
			cc = &x.Call
			if isCtxErr(x) {
				q &^= gOK | gNOK
				if q&gLCK != 0 {
					return ss(q | gERRL), true
				}
				return ss(q &^ gERRL), true
			}
			if isAdd(x) != nil {
				return ss(q | gADD), true
			}
		case deferredCall:
			cc = &x.Defer.Call
		}
		if cc != nil {
			if m, op := lockEvent(cc); m != "" && isGroupMu(m) {
				switch op {
				case "Lock", "RLock":
					return ss(q | gLCK), true
				default:
					return ss(q &^ (gLCK | gERRL)), true
				}
			}
		}
		return 0, false
	}
	spf.Edge = func(f *ssa.Function, g guard, q int) (StateSet, bool) {
		cf, ok := g.asCmp()
		if !ok || (cf.op != token.EQL && cf.op != token.NEQ) {
			return 0, false
		}
		x, y := cf.x, cf.y
		if isNilConst(x) {
			x, y = y, x
		}
		if !isNilConst(y) || !isCtxErr(x) {
			return 0, false
		}
		if cf.op == token.EQL {
			if q&gNOK != 0 {
				return 0, true // this path already took the "stopped" side of the same test
			}
			return ss(q | gOK), true
		}
		if q&gOK != 0 {
			return 0, true
		}
		return ss(q | gNOK), true
	}
	var add *ssa.Call
	var goIn *ssa.Go
	addOK, chkOK, goOK, nAdd := true, true, true, 0
	spf.Visit = func(f *ssa.Function, in ssa.Instruction, st StateSet) {
		if a := isAdd(in); a != nil {
			add = a
			nAdd++
			if !isConstInt(a.Call.Args[1], 1) {
				addOK = false
			}
			st.each(func(q int) {
				if q&gLCK == 0 {
					addOK = false
				}
				if q&gOK == 0 || q&gERRL == 0 {
					chkOK = false
				}
			})
		}
		if g, ok := in.(*ssa.Go); ok && f == sp {
			goIn = g
			st.each(func(q int) {
				if q&gADD == 0 {
					goOK = false
				}
			})
		}
	}
	spf.Exits(sp, ss(0))
	if add == nil {
		r.violated("xsync.Group.spawn|add", sp.Pos(), "spawn does not register the goroutine with the WaitGroup")
		return
	}
	r.ok(addOK, "xsync.Group.spawn|add-under-lock", add.Pos(), "wg.Add(1) must run while holding g.m, after g.ctx.Err() was found nil during the same hold: otherwise Add can take the counter 0→1 while StopAndWait is inside wg.Wait(), or a goroutine starts after StopAndWait returned")
	r.ok(chkOK, "xsync.Group.spawn|stopped-check-under-lock", add.Pos(), "the 'already stopped?' test g.ctx.Err() must be evaluated while holding g.m and must dominate wg.Add: checked outside the lock it can pass just before Stop cancels, and the goroutine then starts after StopAndWait returned")
	r.ok(goIn != nil && goOK && len(spf.Undecided) == 0, "xsync.Group.spawn|go-after-add", sp.Pos(), "the goroutine must be started only on the path that registered it")
	if goIn != nil {
		if clo := staticCallee(&goIn.Call); clo != nil {
			// every return of the closure is preceded by wg.Done (directly or deferred)
			pf := &PF{N: 2}
			pf.Instr = func(f *ssa.Function, in ssa.Instruction, q int) (StateSet, bool) {
				var cc *ssa.CallCommon
				switch x := in.(type) {
				case *ssa.Call:
					cc = &x.Call
				case deferredCall:
					cc = &x.Defer.Call
				}
				if cc != nil {
					if cal := cc.StaticCallee(); cal != nil && fname(cal) == "Done" {
						return ss(1), true
					}
				}
				return 0, false
			}
			good := true
			for _, e := range pf.Exits(clo, ss(0)) {
				if e.States.has(0) {
					good = false
				}
			}
			r.ok(good, "xsync.Group.spawn|goroutine-done", clo.Pos(), "the spawned goroutine must call wg.Done() on every path after f returns")
		}
	}
	// Stop: cancel under W
	st := meths["Stop"]
	if st != nil {
		okC := false
		for _, di := range deepInstrs(st, 2) { // possibly through a lock wrapper: withLock(&g.m, g.cancel)
			call, ok := di.in.(*ssa.Call)
			if !ok {
				continue
			}
			v := argOf(call.Call.Value, di.calls)
			if ct, isCT := v.(*ssa.ChangeType); isCT {
				v = ct.X
			}
			if strings.HasSuffix(path(v), ".cancel") {
				for lk, mode := range deepLocks(st, di) {
					if isGroupMu(lk) && mode == 'W' {
						okC = true
					}
				}
			}
		}
		r.ok(okC, "xsync.Group.Stop|cancel-under-write-lock", st.Pos(), "cancel() must be called holding g.m for writing so that no spawn is between its stopped-check and wg.Add")
	}
	sw := meths["StopAndWait"]
	if sw != nil {
		var stopIn, waitIn ssa.Instruction
		instrs(sw, func(b *ssa.BasicBlock, i int, in ssa.Instruction) {
			if call, ok := in.(*ssa.Call); ok {
				if cal := staticCallee(&call.Call); cal != nil && cal == st {
					stopIn = call
				}
				if cal := call.Call.StaticCallee(); cal != nil && fname(cal) == "Wait" {
					waitIn = call
				}
			}
		})
		if stopIn == nil {
			// Stop inlined: cancel() under the write lock
			hs := locksIn(sw, lockset{})
			instrs(sw, func(b *ssa.BasicBlock, i int, in ssa.Instruction) {
				if call, ok := in.(*ssa.Call); ok && strings.HasSuffix(path(call.Call.Value), ".cancel") && len(muFields) == 1 && hs[call].heldSuffix(muFields[0], true) {
					stopIn = call
				}
			})
		}
		direct := stopIn != nil && waitIn != nil && stopIn.Block() == waitIn.Block() && idxIn(stopIn) < idxIn(waitIn)
		if !direct {
			// both steps live in a helper shared with Stop (g.shutdown(true)): in the deep view a cancel under the write lock
			// is followed by the Wait (that every path does so is C17.barrier's typestate)
			deep := deepInstrs(sw, 2)
			for i, di := range deep {
				call, ok := di.in.(*ssa.Call)
				if !ok {
					continue
				}
				v := argOf(call.Call.Value, di.calls)
				if ct, isCT := v.(*ssa.ChangeType); isCT {
					v = ct.X
				}
				if !strings.HasSuffix(path(v), ".cancel") {
					continue
				}
				underW := false
				for lk, mode := range deepLocks(sw, di) {
					if isGroupMu(lk) && mode == 'W' {
						underW = true
					}
				}
				if !underW {
					continue
				}
				for _, dj := range deep[i+1:] {
					if c2, ok := dj.in.(*ssa.Call); ok {
						if cal := c2.Call.StaticCallee(); cal != nil && fname(cal) == "Wait" && cal.Signature.Recv() != nil && isNamedType(cal.Signature.Recv().Type(), "sync", "WaitGroup") {
							direct = true
						}
					}
				}
			}
		}
		r.ok(direct, "xsync.Group.StopAndWait|stop-then-wait", sw.Pos(), "StopAndWait must Stop (cancel under the write lock) and then wg.Wait()")
	}
}

// workers: the closures handed to spawn by Periodic, Trigger, PeriodicOrTrigger.
func groupWorkers(c *Ctx) map[string]*ssa.Function {
	out := map[string]*ssa.Function{}
	for _, n := range []string{"Periodic", "Trigger", "PeriodicOrTrigger"} {
		fn := c.fn("xsync.Group." + n)
		if fn == nil {
			continue
		}
		instrs(fn, func(b *ssa.BasicBlock, i int, in ssa.Instruction) {
			if call, ok := in.(*ssa.Call); ok {
				if cal := staticCallee(&call.Call); cal != nil && fname(cal) == "spawn" && len(call.Call.Args) == 2 {
					if w := resolveFuncValue(call.Call.Args[1], 0); w != nil {
						out[n] = thinLiteralTarget(w)
					}
				}
			}
		})
	}
	// a variant that spawns nothing itself but unconditionally hands its arguments to a sibling (Periodic as a
	// PeriodicOrTrigger whose trigger is never pulled) is served by the sibling's worker
	for _, n := range []string{"Periodic", "Trigger", "PeriodicOrTrigger"} {
		fn := c.fn("xsync.Group." + n)
		if fn == nil || out[n] != nil || len(fn.Blocks) == 0 {
			continue
		}
		for _, in := range fn.Blocks[0].Instrs {
			if call, ok := in.(*ssa.Call); ok {
				if cal := staticCallee(&call.Call); cal != nil && cal != fn {
					for _, m := range []string{"Periodic", "Trigger", "PeriodicOrTrigger"} {
						if cal == c.fn("xsync.Group."+m) && out[m] != nil {
							out[n] = out[m]
						}
					}
				}
			}
		}
	}
	return out
}

// isUserF: a call of the user's function - by role: a dynamic call of a func(context.Context) value (the only such values in
// Group are the functions handed to Do / Periodic / Trigger / PeriodicOrTrigger), or of a thin adaptor built from one
// (run := g.withCtx(f); run()) whose body is nothing but that call.
func isUserF(call *ssa.Call) bool { return isUserFDepth(call, 0) }

func isUserFDepth(call *ssa.Call, depth int) bool {
	if call.Call.IsInvoke() {
		return false
	}
	if _, ok := call.Call.Value.(*ssa.Function); ok {
		return false
	}
	if _, ok := call.Call.Value.(*ssa.Builtin); ok {
		return false
	}
	if path(call.Call.Value) == "f" {
		return true
	}
	sig := call.Call.Signature()
	if sig != nil && sig.Recv() == nil && sig.Params().Len() == 1 && sig.Results().Len() == 0 && isContextType(sig.Params().At(0).Type()) {
		if _, isMC := call.Call.Value.(*ssa.MakeClosure); !isMC {
			return true
		}
	}
	if depth > 1 {
		return false
	}
	if f := resolveFuncValue(call.Call.Value, 0); f != nil && f.Blocks != nil && f.Parent() != nil {
		nCalls, user := 0, false
		instrs(f, func(_ *ssa.BasicBlock, _ int, in ssa.Instruction) {
			switch x := in.(type) {
			case *ssa.Call:
				nCalls++
				if isUserFDepth(x, depth+1) {
					user = true
				}
			case *ssa.Go, *ssa.Defer, *ssa.Select, *ssa.Send:
				nCalls += 2
			}
		})
		return nCalls == 1 && user
	}
	return false
}

// deepFrames: the functions reachable from root through static in-package calls, each once, with a call chain leading to it.
type deepFrame struct {
	f     *ssa.Function
	chain []*ssa.Call
}

// chanOps: the channel operations of the frame's function that this frame can execute - the calls that lead to it may pass
// constant flags (s.offer(ctx, x, false)) that switch parts of it off.
func (fr deepFrame) chanOps() []chanOp {
	var out []chanOp
	withChainFlags(fr.chain, func() { out = chanOpsOf(fr.f) })
	return out
}

// withChainFlags runs f with the boolean parameters that the calls of chain bind to constants known (variants.go).
func withChainFlags(chain []*ssa.Call, f func()) {
	var spec map[*ssa.Parameter]bool
	for _, call := range chain {
		if cal := staticCallee(&call.Call); cal != nil {
			for k, v := range constBoolArgs(cal, &call.Call) {
				if spec == nil {
					spec = map[*ssa.Parameter]bool{}
				}
				spec[k] = v
			}
		}
	}
	if spec == nil {
		f()
		return
	}
	saved := activeParamFlags
	merged := map[*ssa.Parameter]bool{}
	for k, v := range saved {
		merged[k] = v
	}
	for k, v := range spec {
		merged[k] = v
	}
	activeParamFlags = merged
	defer func() { activeParamFlags = saved }()
	f()
}

func deepFrames(root *ssa.Function, depth int) []deepFrame {
	var out []deepFrame
	seen := map[*ssa.Function]bool{}
	for _, di := range deepInstrs(root, depth) {
		f := di.in.Parent()
		if !seen[f] {
			seen[f] = true
			out = append(out, deepFrame{f, di.calls})
		}
	}
	return out
}

func ruleGroupNoRunAfterStop(c *Ctx, r *R) {
	ws := groupWorkers(c)
	defer rebindWorker(nil)
	for _, n := range []string{"Periodic", "Trigger", "PeriodicOrTrigger"} {
		w := ws[n]
		if w == nil {
			r.undecided("xsync.Group."+n+"|worker", token.NoPos, "worker closure not found")
			continue
		}
		rebindWorker(w)
		// typestate per loop iteration: bit0 = g.ctx.Err() == nil was established, bit1 = came out of a blocking select (which
		// has a g.ctx.Done() arm) through another arm, bit2 = came through the g.ctx.Done() arm. Reset by each run of f.
		pkg := rootFn(w).Pkg
		pf := &PF{N: 8, DeepVisit: true, InScope: func(f *ssa.Function) bool {
			return (rootFn(f).Pkg == pkg || ctxBlockingHelper(c, origin(f))) && f.Blocks != nil && f != w && f.Name() != "spawn" && !isUserAdaptor(f)
		}}
		var isGroupCtx func(v ssa.Value) bool
		isGroupCtx = func(v ssa.Value) bool {
			for _, lf := range valueLeaves(v, nil, 0) {
				// the context parameter of a module helper the worker waits in (chans.RecvContext(g.ctx, c)): what the worker
				// (its literals included) passes there
				if prm, ok := lf.v.(*ssa.Parameter); ok && prm.Parent() != nil && prm.Parent().Parent() == nil && rootFn(prm.Parent()).Pkg != pkg {
					idx := -1
					for i, q := range prm.Parent().Params {
						if q == prm {
							idx = i
						}
					}
					n := 0
					okAll := true
					for _, g := range withAnon(rootFn(w)) {
						instrs(g, func(_ *ssa.BasicBlock, _ int, in ssa.Instruction) {
							if cc := callCommon(in); cc != nil {
								if cal := staticCallee(cc); cal != nil && origin(cal) == origin(prm.Parent()) && idx >= 0 && idx < len(cc.Args) {
									n++
									if !isGroupCtx(cc.Args[idx]) {
										okAll = false
									}
								}
							}
						})
					}
					if n == 0 || !okAll {
						return false
					}
					continue
				}
				// the worker literal is built by a function of the package that is handed the context
				// (g.spawn(periodicLoop(g.ctx, interval, jitter, f))): what every call site of that builder passes
				if prm, ok := lf.v.(*ssa.Parameter); ok && prm.Parent() != nil && prm.Parent().Parent() == nil && rootFn(prm.Parent()).Pkg == pkg && w.Parent() == prm.Parent() {
					idx := paramIndex(prm)
					sites := callSitesOf(c, prm.Parent())
					if len(sites) == 0 || idx < 0 {
						return false
					}
					for _, site := range sites {
						if idx >= len(site.Call.Args) || !isGroupCtx(site.Call.Args[idx]) {
							return false
						}
					}
					continue
				}
				// the worker literal is handed the context by the launcher (g.spawn(func(ctx context.Context) {...}) with
				// spawn calling f(g.ctx)): what the launcher passes
				if prm, ok := lf.v.(*ssa.Parameter); ok && prm.Parent() != nil && prm.Parent().Parent() != nil {
					args := literalParamArgs(prm)
					if len(args) == 0 {
						return false
					}
					for _, a := range args {
						if !isGroupCtx(a) {
							return false
						}
					}
					continue
				}
				pv := valueProv(lf.v, provEnv{})
				if len(pv.fields) == 0 || pv.fields[len(pv.fields)-1] != "ctx" {
					return false
				}
			}
			return true
		}
		pf.Instr = func(f *ssa.Function, in ssa.Instruction, q int) (StateSet, bool) {
			if call, ok := in.(*ssa.Call); ok && isUserF(call) {
				return ss(0), true
			}
			return 0, false
		}
		pf.Edge = func(f *ssa.Function, g guard, q int) (StateSet, bool) {
			cf, ok := g.asCmp()
			if !ok || cf.op != token.EQL {
				return 0, false
			}
			// g.ctx.Err() == nil
			if ec, ok := cf.x.(*ssa.Call); ok && ec.Call.IsInvoke() && ec.Call.Method.Name() == "Err" && isNilConst(cf.y) && isGroupCtx(ec.Call.Value) {
				return ss(q | 1), true
			}
			ex, ok := cf.x.(*ssa.Extract)
			if !ok || ex.Index != 0 {
				return 0, false
			}
			sel, ok := ex.Tuple.(*ssa.Select)
			k, isK := cf.y.(*ssa.Const)
			if !ok || !isK || k.Value == nil || !sel.Blocking {
				return 0, false
			}
			idx := int(k.Int64())
			if idx < 0 || idx >= len(sel.States) {
				return 0, false
			}
			hasCtx := false
			isCtxArm := false
			for si, st := range sel.States {
				if st.Dir != types.RecvOnly {
					continue
				}
				if isGroupDone(st.Chan, isGroupCtx, 0) {
					hasCtx = true
					if si == idx {
						isCtxArm = true
					}
				}
			}
			switch {
			case isCtxArm:
				return ss(q | 4), true
			case hasCtx:
				return ss(q | 2), true
			}
			return 0, false
		}
		nf := 0
		okSel, okHead := true, true
		var fpos token.Pos
		pf.Visit = func(f *ssa.Function, in ssa.Instruction, before StateSet) {
			call, ok := in.(*ssa.Call)
			if !ok || !isUserF(call) {
				return
			}
			nf++
			fpos = call.Pos()
			before.each(func(q int) {
				if q&2 == 0 || q&4 != 0 {
					okSel = false
				}
				if q&1 == 0 {
					okHead = false
				}
			})
		}
		pf.Exits(w, ss(0))
		if nf == 0 {
			r.violated("xsync.Group."+n+"|calls-f", w.Pos(), "worker never calls f")
			continue
		}
		r.ok(okSel, "xsync.Group."+n+"|select-before-f", fpos, "each call of f must be preceded, in the same loop iteration, by a select whose g.ctx.Done() arm returns")
		r.ok(okHead, "xsync.Group."+n+"|err-recheck", fpos, "the loop must re-check g.ctx.Err() before waiting again (a stopped group must not run f because another arm was also ready)")
	}
}

func endsInRundefersReturn(b *ssa.BasicBlock) bool {
	n := len(b.Instrs)
	if n >= 2 {
		if _, ok := b.Instrs[n-1].(*ssa.Return); ok {
			return true
		}
	}
	// jump to a block that is rundefers; return
	if n >= 1 {
		if _, ok := b.Instrs[n-1].(*ssa.Jump); ok && len(b.Succs) == 1 {
			s := b.Succs[0]
			if _, ok := s.Instrs[len(s.Instrs)-1].(*ssa.Return); ok {
				return true
			}
		}
	}
	return false
}

func ruleGroupTrigger(c *Ctx, r *R) {
	ws := groupWorkers(c)
	defer rebindWorker(nil)
	for _, n := range []string{"Trigger", "PeriodicOrTrigger"} {
		fn := c.fn("xsync.Group." + n)
		w := ws[n]
		if fn == nil || w == nil {
			r.undecided("xsync.Group."+n+"|missing", token.NoPos, "anchor not found")
			continue
		}
		rebindWorker(w)
		// channel c: make(chan struct{}, 1)
		var mk *ssa.MakeChan
		for _, d := range deepInstrs(fn, 2) { // possibly made by a small constructor (newTriggerChan())
			if m, ok := d.in.(*ssa.MakeChan); ok && chanElemIsEmptyStruct(m.Type()) {
				mk = m
			}
		}
		r.ok(mk != nil && isConstInt(mk.Size, 1), "xsync.Group."+n+"|trigger-chan-capacity", fn.Pos(), "the trigger channel must have capacity exactly 1: 0 loses a trigger that arrives while f runs, more than 1 queues redundant runs")
		var trigCell *ssa.Alloc
		if mk != nil && mk.Referrers() != nil {
			for _, ref := range *mk.Referrers() {
				if st, ok := ref.(*ssa.Store); ok {
					if al, ok := st.Addr.(*ssa.Alloc); ok {
						trigCell = al
					}
				}
			}
		}
		isMk := func(v ssa.Value) bool {
			if mk == nil {
				return false
			}
			mks := madeChans(v)
			return len(mks) == 1 && mks[mk]
		}
		if trigCell == nil && mk != nil {
			// the variable of fn that holds the constructor's result
			instrs(fn, func(_ *ssa.BasicBlock, _ int, in ssa.Instruction) {
				if st, ok := in.(*ssa.Store); ok {
					if al, ok := st.Addr.(*ssa.Alloc); ok && al.Parent() == fn && isMk(st.Val) {
						trigCell = al
					}
				}
			})
		}
		// the returned function: single non-blocking send on c
		var trig *ssa.Function
		var trigRecv ssa.Value // for a method value (c.fire): the receiver it is bound to
		instrs(fn, func(b *ssa.BasicBlock, i int, in ssa.Instruction) {
			if ret, ok := in.(*ssa.Return); ok && len(ret.Results) == 1 {
				trig = resolveFuncValue(returnedValue(ret, 0), 0)
				if f2, rv := funcAndReceiver(returnedValue(ret, 0)); f2 != nil && rv != nil {
					trig, trigRecv = origin(f2), rv
				}
			}
		})
		okTrig := false
		startsF := false
		_ = startsF
		condSend := false
		if trig != nil {
			nOps := 0
			seenFn := map[*ssa.Function]bool{}
			for _, di := range deepInstrs(trig, 2) {
				f := di.in.Parent()
				if seenFn[f] {
					continue
				}
				seenFn[f] = true
				for _, op := range chanOpsOf(f) {
					nOps++
					if op.kind == "select" && !op.blocking && len(op.arms) == 1 && op.arms[0].send && (loadCell(argOf(op.arms[0].ch, di.calls)) == trigCell || (mk != nil && resolveVal(argOf(op.arms[0].ch, di.calls)) == ssa.Value(mk))) {
						okTrig = true
						// ... attempted on EVERY call of the trigger function: a "one is already outstanding" flag in front
						// of it swallows the calls made while f runs (the flag is only cleared after f returns), and those
						// calls are followed by no run
						if len(guardsOf(op.in.Block())) > 0 {
							condSend = true
						}
					}
					// the method value's receiver IS the channel (func (c triggerChan) fire())
					if op.kind == "select" && !op.blocking && len(op.arms) == 1 && op.arms[0].send && trigRecv != nil && len(trig.Params) > 0 && op.arms[0].ch == ssa.Value(trig.Params[0]) && f == trig && isMk(trigRecv) {
						okTrig = true
					}
				}
			}
			if nOps != 1 {
				okTrig = false
			}
			// ... and nothing else: a trigger that finds the buffer full means a run is already queued; starting f from here
			// (g.Do(f) "so that it is not dropped") runs it beside the worker - two runs of f overlap
			for _, di := range deepInstrs(trig, 2) {
				cc := callCommon(di.in)
				if cc == nil {
					continue
				}
				if _, isGo := di.in.(*ssa.Go); isGo {
					okTrig, startsF = false, true
					continue
				}
				if cal := staticCallee(cc); cal != nil {
					if cal.Signature.Recv() != nil && isNamedTypeDeep(cal.Signature.Recv().Type(), "xsync", "Group") {
						okTrig, startsF = false, true
					}
					continue
				}
				if _, isB := cc.Value.(*ssa.Builtin); isB || cc.IsInvoke() {
					continue
				}
				// a call of a function value: f itself
				okTrig, startsF = false, true
			}
		}
		r.ok(okTrig, "xsync.Group."+n+"|trigger-is-nonblocking-send", fn.Pos(), "the trigger function must be exactly one non-blocking send on the trigger channel")
		r.ok(!condSend, "xsync.Group."+n+"|trigger-send-unconditional", fn.Pos(), "the trigger function attempts its send only under a condition (e.g. a pending flag): a call made while the flag is set - in particular while f is running - leaves no token, so no run begins after that call")
		// worker: receives from c only as an arm of the blocking select that dominates the f call
		var fcall *ssa.Call
		for _, di := range deepInstrs(w, 2) { // possibly in a loop helper shared by the workers
			if call, ok := di.in.(*ssa.Call); ok && isUserF(call) {
				fcall = call
			}
		}
		nRecv := 0
		good := true
		why := ""
		isTrigChan := func(v ssa.Value, chain []*ssa.Call) bool {
			ls := valueLeaves(v, chain, 0)
			all := len(ls) > 0 && mk != nil
			for _, lf := range ls {
				if lf.v != ssa.Value(mk) {
					all = false
				}
			}
			if all {
				return true
			}
			// the worker is a named method that is handed the channel as a parameter
			if mks := madeChans(v); len(mks) == 1 && mk != nil {
				if mm, ok := ssa.Value(mk).(*ssa.MakeChan); ok && mks[mm] {
					return true
				}
			}
			return false
		}
		var frames []deepFrame
		for _, g := range withAnon(w) {
			frames = append(frames, deepFrames(g, 2)...)
		}
		seenF := map[*ssa.Function]bool{}
		for _, fr := range frames {
			if seenF[fr.f] {
				continue
			}
			seenF[fr.f] = true
			for _, op := range fr.chanOps() {
				for _, a := range op.arms {
					if a.send || !isTrigChan(a.ch, fr.chain) {
						continue
					}
					nRecv++
					if !(op.kind == "select" && op.blocking && rootFn(fr.f) == rootFn(w) || (op.kind == "select" && op.blocking && fr.f.Parent() == nil)) {
						good = false
						why = "a receive from the trigger channel outside the select that precedes f (at " + c.pos(posOf(op.in)) + ") discards a trigger that no run of f has served"
					}
				}
			}
		}
		r.ok(good && nRecv == 1, "xsync.Group."+n+"|single-trigger-receive", w.Pos(), "the worker must consume trigger tokens only in the select that precedes a run of f: "+why)
		// f is called after the select on every path through the trigger arm; no go inside
		nested := false
		for _, di := range deepInstrs(w, 2) {
			if _, ok := di.in.(*ssa.Go); ok {
				nested = true
			}
		}
		r.ok(!nested && fcall != nil, "xsync.Group."+n+"|sequential-runs", w.Pos(), "runs of one f must not overlap: the worker calls f itself, sequentially")
	}
	_ = types.Typ
}

func ruleGroupTimerIdiom(c *Ctx, r *R) {
	ws := groupWorkers(c)
	w := ws["PeriodicOrTrigger"]
	if w == nil {
		r.undecided("xsync.Group.PeriodicOrTrigger|worker", token.NoPos, "worker closure not found")
		return
	}
	n := 0
	for _, fr := range deepFrames(w, 2) {
		for _, op := range fr.chanOps() {
			if op.kind == "recv" && op.arms[0].kind == "timer" {
				n++
				r.ok(timerDrainIdiom(op.in), "xsync.Group.PeriodicOrTrigger|timer-drain#"+itoa(n), posOf(op.in), "a bare receive from t.C must be guarded by !t.Stop() (the timer already fired), otherwise it blocks for a full interval or forever")
			}
		}
	}
	if n == 0 {
		r.violated("xsync.Group.PeriodicOrTrigger|timer-drain", w.Pos(), "the trigger arm must stop and drain the timer before Reset, or a stale tick causes an extra run")
	}
}

var _ = late(func() {
	p := properties["C17"]
	p.Rules = append(p.Rules, &Rule{ID: "C17.timer-rearmed", Floor: 4, Clause: "in Periodic and PeriodicOrTrigger the timer is re-armed (Reset) on every path from the select to the next run of f: a path that only drains the timer leaves the periodic schedule dead and the next trigger blocked on an empty timer channel",
		Run: func(c *Ctx, r *R) {
			ws := groupWorkers(c)
			defer rebindWorker(nil)
			for _, n := range []string{"Periodic", "PeriodicOrTrigger"} {
				w := ws[n]
				if w == nil {
					r.undecided("xsync.Group."+n+"|worker", token.NoPos, "worker closure not found")
					continue
				}
				rebindWorker(w)
				wpkg := rootFn(w).Pkg
				pf := &PF{N: 2, DeepVisit: true, InScope: func(f *ssa.Function) bool {
					return rootFn(f).Pkg == wpkg && f.Blocks != nil && f != w && f.Name() != "spawn" && !isUserAdaptor(f)
				}} // 0 = not re-armed since the select, 1 = re-armed
				pf.Instr = func(f *ssa.Function, in ssa.Instruction, q int) (StateSet, bool) {
					switch x := in.(type) {
					case *ssa.Select:
						if x.Blocking {
							return ss(0), true
						}
					case *ssa.Call:
						if cal := x.Call.StaticCallee(); cal != nil && fname(cal) == "Reset" && cal.Signature.Recv() != nil && isNamedType(cal.Signature.Recv().Type(), "time", "Timer") {
							return ss(1), true
						}
					}
					return 0, false
				}
				k := 0
				pf.Visit = func(f *ssa.Function, in ssa.Instruction, before StateSet) {
					if call, ok := in.(*ssa.Call); ok && isUserF(call) {
						k++
						r.ok(before == ss(1), "xsync.Group."+n+"|rearmed-before-f#"+itoa(k), call.Pos(), "f is reached on a path that has not re-armed the timer since the select: the periodic schedule stops, and a later trigger blocks forever draining a timer that never fires")
					}
				}
				pf.Exits(w, ss(1))
				if k == 0 {
					r.violated("xsync.Group."+n+"|rearmed-before-f", w.Pos(), "no call of f found")
				}
				// ... and whenever the worker waits for the timer, the timer is armed: every tick taken off t.C (by the select, by a
				// drain, by a non-blocking "drop a stale tick" receive) is followed by a Reset before the next wait. 0 = not armed
				// (tick consumed / stopped), 1 = armed
				isTimerC := func(v ssa.Value) bool { k, _ := classifyChan(v); return k == "timer" }
				pa := &PF{N: 2, DeepVisit: true, InScope: pf.InScope}
				pa.Instr = func(f *ssa.Function, in ssa.Instruction, q int) (StateSet, bool) {
					switch x := in.(type) {
					case *ssa.Call:
						if cal := x.Call.StaticCallee(); cal != nil && cal.Pkg != nil && cal.Pkg.Pkg.Path() == "time" {
							isT := cal.Signature.Recv() != nil && isNamedType(cal.Signature.Recv().Type(), "time", "Timer")
							switch {
							case fname(cal) == "NewTimer", fname(cal) == "Reset" && isT:
								return ss(1), true
							case fname(cal) == "Stop" && isT:
								return ss(0), true
							}
						}
					case *ssa.UnOp:
						if x.Op == token.ARROW && isTimerC(x.X) {
							return ss(0), true
						}
					}
					return 0, false
				}
				pa.Edge = func(f *ssa.Function, g guard, q int) (StateSet, bool) {
					cf, ok := g.asCmp()
					if !ok || cf.op != token.EQL {
						return 0, false
					}
					ex, ok := cf.x.(*ssa.Extract)
					if !ok || ex.Index != 0 {
						return 0, false
					}
					sel, ok := ex.Tuple.(*ssa.Select)
					kc, isK := cf.y.(*ssa.Const)
					if !ok || !isK || kc.Value == nil {
						return 0, false
					}
					idx := int(kc.Int64())
					if idx >= 0 && idx < len(sel.States) && sel.States[idx].Dir == types.RecvOnly && isTimerC(sel.States[idx].Chan) {
						return ss(0), true // this arm took the tick
					}
					return 0, false
				}
				nw := 0
				pa.Visit = func(f *ssa.Function, in ssa.Instruction, before StateSet) {
					sel, ok := in.(*ssa.Select)
					if !ok || !sel.Blocking {
						return
					}
					for _, st := range sel.States {
						if st.Dir == types.RecvOnly && isTimerC(st.Chan) {
							nw++
							r.ok(!before.has(0), "xsync.Group."+n+"|armed-at-wait#"+itoa(nw), sel.Pos(), "the worker can reach this wait for the timer on a path on which the last tick was taken off the timer's channel (or the timer was stopped) and the timer has not been re-armed since: the periodic schedule is dead until the group stops")
						}
					}
				}
				unbindT := bindChanParams(w) // (g.awaitWake(t.C, c): the helper's timer parameter is this worker's t.C)
				pa.Exits(w, ss(0))
				unbindT()
				if nw == 0 {
					r.undecided("xsync.Group."+n+"|armed-at-wait", w.Pos(), "no wait on the timer found")
				}
			}
		}})
})

// C17.barrier: StopAndWait is a barrier. Every path through it cancels the group's context (Stop / cancel under the lock) and
// then waits for the WaitGroup; there is no early way out ("already stopped" does not mean "already finished"). Wait precedes
// no further spawning: Stop's cancel happens before the Wait on every path.
var _ = late(func() {
	p := properties["C17"]
	p.Rules = append(p.Rules, &Rule{ID: "C17.barrier", Floor: 1, Clause: "every path through StopAndWait cancels the group's context and then calls wg.Wait() (typestate over StopAndWait and the helpers it calls): an early return - e.g. when the context is already cancelled - lets StopAndWait return while spawned functions are still running",
		Run: func(c *Ctx, r *R) {
			fn := c.fn("xsync.Group.StopAndWait")
			if fn == nil {
				r.undecided("xsync.Group.StopAndWait|missing", token.NoPos, "anchor not found")
				return
			}
			pkg := fn.Pkg
			// 0 = nothing, 1 = cancelled, 2 = cancelled then waited, 3 = waited without cancelling first
			pf := &PF{N: 4, InScope: func(f *ssa.Function) bool { return rootFn(f).Pkg == pkg && f.Blocks != nil && f != fn }}
			pf.Instr = func(f *ssa.Function, in ssa.Instruction, q int) (StateSet, bool) {
				call, ok := in.(*ssa.Call)
				if !ok {
					return 0, false
				}
				// cancel(): a call of a func-typed field / value of the group named by its role: context.CancelFunc
				if isCancelFuncCall(call) {
					if q == 0 {
						return ss(1), true
					}
					return ss(q), true
				}
				if cal := call.Call.StaticCallee(); cal != nil && fname(cal) == "Wait" && cal.Signature.Recv() != nil && isNamedType(cal.Signature.Recv().Type(), "sync", "WaitGroup") {
					if q == 1 {
						return ss(2), true
					}
					if q == 0 {
						return ss(3), true
					}
				}
				return 0, false
			}
			k := 0
			for _, e := range pf.Exits(fn, ss(0)) {
				k++
				r.ok(e.States == ss(2), "xsync.Group.StopAndWait|return#"+itoa(k), retPos(e.Ret), "a path through StopAndWait returns without having cancelled the context and then waited for the WaitGroup ("+describeStates(e.States)+"): StopAndWait would return while spawned functions are still running, or wait for goroutines that were never told to stop")
			}
			if k == 0 {
				r.undecided("xsync.Group.StopAndWait|returns", fn.Pos(), "no return found")
			}
		}})
})

// thinLiteralTarget: a function literal whose whole body is one call of an in-package function or method
// (g.spawn(func() { g.runPeriodicOrTriggered(interval, jitter, c, f) })) stands for that function.
func thinLiteralTarget(w *ssa.Function) *ssa.Function {
	if len(w.Blocks) != 1 {
		return w
	}
	var only *ssa.Call
	for _, in := range w.Blocks[0].Instrs {
		switch x := in.(type) {
		case *ssa.Call:
			if only != nil {
				return w
			}
			only = x
		case *ssa.Return, *ssa.UnOp, *ssa.DebugRef, *ssa.FieldAddr, *ssa.MakeInterface, *ssa.ChangeType:
		default:
			return w
		}
	}
	if only == nil {
		return w
	}
	cal := staticCallee(&only.Call)
	if cal == nil || cal.Blocks == nil || cal.Parent() != nil || rootFn(origin(cal)).Pkg != rootFn(w).Pkg {
		return w
	}
	return origin(cal)
}

var workerUnbind func()

// rebindWorker: make w the worker under analysis - the func-typed parameters of the helpers it calls stand for the literals it
// passes (bindFuncParams); the previous worker's bindings are dropped first.
func rebindWorker(w *ssa.Function) {
	if workerUnbind != nil {
		workerUnbind()
		workerUnbind = nil
	}
	if w != nil {
		workerUnbind = bindFuncParams(w)
	}
}

// isCancelFuncCall: a call of a context.CancelFunc value - directly, or as the parameter of an unexported helper that is handed a
// CancelFunc (possibly converted to func()) at every call site.
func isCancelFuncCall(call *ssa.Call) bool {
	if call.Call.IsInvoke() {
		return false
	}
	isCF := func(v ssa.Value) bool {
		if ct, ok := v.(*ssa.ChangeType); ok {
			v = ct.X
		}
		t, ok := v.Type().(*types.Named)
		return ok && t.Obj().Name() == "CancelFunc" && t.Obj().Pkg() != nil && t.Obj().Pkg().Path() == "context"
	}
	switch v := call.Call.Value.(type) {
	case *ssa.Function, *ssa.Builtin:
		return false
	case *ssa.Parameter:
		if isCF(v) {
			return true
		}
		fn := v.Parent()
		if fn == nil || fn.Parent() != nil || token.IsExported(fn.Name()) || curCtx == nil {
			return false
		}
		idx := -1
		for i, q := range fn.Params {
			if q == v {
				idx = i
			}
		}
		sites := callCommonsOf(curCtx, fn)
		if idx < 0 || len(sites) == 0 {
			return false
		}
		for _, cc := range sites {
			if idx >= len(cc.Args) || !isCF(cc.Args[idx]) {
				return false
			}
		}
		return true
	default:
		return isCF(v)
	}
}

// isUserAdaptor: a function literal that is nothing but one call of the user's function (func() { f(g.ctx) }): a call of it IS
// the run of f, so the typestates do not look inside.
func isUserAdaptor(f *ssa.Function) bool {
	if f == nil || f.Parent() == nil || f.Blocks == nil {
		return false
	}
	nCalls, user := 0, false
	instrs(f, func(_ *ssa.BasicBlock, _ int, in ssa.Instruction) {
		switch x := in.(type) {
		case *ssa.Call:
			nCalls++
			if isUserFDepth(x, 1) {
				user = true
			}
		case *ssa.Go, *ssa.Defer, *ssa.Select, *ssa.Send:
			nCalls += 2
		}
	})
	return nCalls == 1 && user
}

// literalParamArgs: prm is a parameter of a function literal that is handed to an in-package function H as the argument for
// H's func-typed parameter P; the result is what H (or a literal of H) passes for prm wherever it calls P.
func literalParamArgs(prm *ssa.Parameter) []ssa.Value {
	lit := prm.Parent()
	idx := -1
	for i, q := range lit.Params {
		if q == prm {
			idx = i
		}
	}
	if idx < 0 || lit.Parent() == nil {
		return nil
	}
	var out []ssa.Value
	for _, g := range withAnon(rootFn(lit)) {
		instrs(g, func(_ *ssa.BasicBlock, _ int, in ssa.Instruction) {
			call, ok := in.(*ssa.Call)
			if !ok {
				return
			}
			h := call.Call.StaticCallee()
			if h == nil || h.Blocks == nil || rootFn(h).Pkg != rootFn(lit).Pkg {
				return
			}
			for ai, a := range call.Call.Args {
				if f := resolveFuncValue(a, 0); f != lit || ai >= len(h.Params) {
					continue
				}
				P := h.Params[ai]
				// calls of P in h and its literals (through the capture)
				for _, hg := range withAnon(h) {
					instrs(hg, func(_ *ssa.BasicBlock, _ int, in2 ssa.Instruction) {
						c2, ok := in2.(*ssa.Call)
						if !ok || c2.Call.IsInvoke() {
							return
						}
						v := c2.Call.Value
						isP := v == ssa.Value(P)
						if ld, ok := v.(*ssa.UnOp); ok && ld.Op == token.MUL {
							if cell := cellOf(ld.X); cell != nil {
								for _, st := range storesTo(cell) {
									if st.Val == ssa.Value(P) {
										isP = true
									}
								}
							}
						}
						if fv, ok := v.(*ssa.FreeVar); ok && fv.Name() == P.Name() {
							isP = true
						}
						if isP && idx < len(c2.Call.Args) {
							out = append(out, c2.Call.Args[idx])
						}
					})
				}
			}
		})
	}
	return out
}

// isGroupDone: ch is the Done channel of the group's context: g.ctx.Done() itself; a field of the group that is only ever set,
// where the group is built, to the Done channel of the context stored in its ctx field (done: bgCtx.Done() next to ctx: bgCtx);
// or the channel parameter of a helper of the package to which every call site hands such a channel (recvOrDone(g.done, c)).
func isGroupDone(ch ssa.Value, isGroupCtx func(ssa.Value) bool, d int) bool {
	if d > 3 {
		return false
	}
	v := resolveVal(ch)
	for {
		if ct, ok := v.(*ssa.ChangeType); ok {
			v = ct.X
			continue
		}
		break
	}
	switch x := v.(type) {
	case *ssa.Call:
		return x.Call.IsInvoke() && x.Call.Method.Name() == "Done" && isGroupCtx(x.Call.Value)
	case *ssa.Parameter:
		args := helperChanArgs(x)
		if len(args) == 0 {
			return false
		}
		for _, a := range args {
			if !isGroupDone(a, isGroupCtx, d+1) {
				return false
			}
		}
		return true
	case *ssa.UnOp:
		if x.Op != token.MUL {
			return false
		}
		fa, ok := x.X.(*ssa.FieldAddr)
		if !ok || curCtx == nil {
			return false
		}
		nt, ok := derefType(fa.X.Type()).(*types.Named)
		if !ok || nt.Obj().Name() != "Group" {
			return false
		}
		n, good := 0, true
		for _, f := range curCtx.Funcs {
			instrs(f, func(_ *ssa.BasicBlock, _ int, in ssa.Instruction) {
				st, ok := in.(*ssa.Store)
				if !ok {
					return
				}
				fa2, ok := st.Addr.(*ssa.FieldAddr)
				if !ok || fa2.Field != fa.Field {
					return
				}
				if nt2, ok := derefType(fa2.X.Type()).(*types.Named); !ok || nt2.Origin() != nt.Origin() {
					return
				}
				n++
				// bgCtx.Done(), with the same bgCtx stored into the ctx field of the same object
				dc, ok := resolveVal(st.Val).(*ssa.Call)
				if ct, isCT := st.Val.(*ssa.ChangeType); isCT && !ok {
					dc, ok = resolveVal(ct.X).(*ssa.Call)
				}
				if !ok || !dc.Call.IsInvoke() || dc.Call.Method.Name() != "Done" {
					good = false
					return
				}
				same := false
				for _, ref := range refsOf(fa2.X) {
					if fa3, isFA := ref.(*ssa.FieldAddr); isFA && fieldName(fa3.X.Type(), fa3.Field) == "ctx" {
						for _, r2 := range refsOf(fa3) {
							if st3, isSt := r2.(*ssa.Store); isSt && resolveVal(st3.Val) == resolveVal(dc.Call.Value) {
								same = true
							}
						}
					}
				}
				if !same {
					good = false
				}
			})
		}
		return n > 0 && good
	}
	return false
}
