package main

import (
	"go/ast"
	"go/constant"
	"go/token"
	"go/types"

	"golang.org/x/tools/go/ssa"
)

// Dual implementations merged under a flag.
//
// Two sibling implementations that rules treat as a pair (forwardIterator.Next / backwardIterator.Next) can legitimately be
// folded into ONE type with a boolean field that selects the direction (`if iter.reverse { c.Prev() } else { c.Next() }`).
// The pair is therefore found by ROLE - the types the two constructors (cursor.Forward / cursor.Backward) return and their
// method of the given name. When both constructors return the same type and differ in a constant boolean field, each member of
// the pair is that one method SPECIALISED to its flag value: SSA rules see only the blocks that are live under the flag
// (instrs, deepInstrs and the PF engine skip the others while a specialisation is active), AST rules get the declaration with
// `if x.flag {A} else {B}` replaced by the live branch.

type variant struct {
	anchor string // the canonical anchor name rules use in their keys
	fn     *ssa.Function
	decl   *ast.FuncDecl
	merged bool
	typ    *types.Named
	flag   string
	val    bool
}

// activeSpec: the specialisation in force (nil = none).
var activeSpec *variant

func (v *variant) enter() {
	if v != nil && v.merged {
		activeSpec = v
	}
}
func (v *variant) leave() { activeSpec = nil }

// activeCellFlags: captured boolean flag variables whose value is known while a deferred function literal is analysed for one
// particular exit of its parent (`reacquire := false; defer func() { if reacquire { c.L.Lock() } }(); …; reacquire = true; return
// nil`): see PF.step, RunDefers.
var activeCellFlags map[*ssa.Alloc]bool

// activeParamFlags: boolean parameters bound to the constants a particular call passes while the callee is analysed for that
// call (see PF.step).
var activeParamFlags map[*ssa.Parameter]bool

// specFlagValue: cond is (a negation of) a load of the active specialisation's flag field → the value the condition has.
func specFlagValue(cond ssa.Value) (val bool, ok bool) {
	if activeSpec == nil && len(activeCellFlags) == 0 && len(activeParamFlags) == 0 {
		return false, false
	}
	pol := true
	for {
		if u, isU := cond.(*ssa.UnOp); isU && u.Op == token.NOT {
			cond = u.X
			pol = !pol
			continue
		}
		break
	}
	if prm, isP := cond.(*ssa.Parameter); isP {
		if v, known := activeParamFlags[prm]; known {
			return v == pol, true
		}
	}
	ld, isLd := cond.(*ssa.UnOp)
	if !isLd || ld.Op != token.MUL {
		return false, false
	}
	if cell := cellOf(ld.X); cell != nil {
		// a spilled flag parameter
		for _, st := range storesTo(cell) {
			if prm, isP := st.Val.(*ssa.Parameter); isP && len(storesTo(cell)) == 1 {
				if v, known := activeParamFlags[prm]; known {
					return v == pol, true
				}
			}
		}
	}
	if cell := cellOf(ld.X); cell != nil {
		if v, known := activeCellFlags[cell]; known {
			return v == pol, true
		}
	}
	if activeSpec == nil {
		return false, false
	}
	fa, isFA := ld.X.(*ssa.FieldAddr)
	if !isFA || fieldName(fa.X.Type(), fa.Field) != activeSpec.flag {
		return false, false
	}
	nt, isN := derefType(fa.X.Type()).(*types.Named)
	if !isN || nt.Origin() != activeSpec.typ.Origin() {
		return false, false
	}
	return activeSpec.val == pol, true
}

// specDead: b can only be reached through a branch on the flag that the active specialisation does not take.
func specDead(b *ssa.BasicBlock) bool {
	if activeSpec == nil && len(activeCellFlags) == 0 && len(activeParamFlags) == 0 {
		return false
	}
	for _, g := range guardsOfRaw(b) {
		if v, ok := specFlagValue(g.cond); ok && v != g.val {
			return true
		}
	}
	return false
}

// pairVariants: the two members of a dual pair by role. ctorA / ctorB are the constructor anchors, method the method name,
// anchorA / anchorB the names rules know the members by.
func pairVariants(c *Ctx, ctorA, ctorB, method, anchorA, anchorB string) (*variant, *variant) {
	type made struct {
		typ   *types.Named
		flags map[string]bool
		lits  map[string]*ssa.Function // function literals the constructor stores into fields of what it builds
	}
	madeBy := func(name string) *made {
		fn := c.fn(name)
		if fn == nil {
			return nil
		}
		var out *made
		instrs(fn, func(b *ssa.BasicBlock, i int, in ssa.Instruction) {
			ret, ok := in.(*ssa.Return)
			if !ok || len(ret.Results) != 1 {
				return
			}
			v := returnedValue(ret, 0)
			if mi, ok := v.(*ssa.MakeInterface); ok {
				v = mi.X
			}
			for _, lv := range throughHelper(v) {
				al, ok := lv.(*ssa.Alloc)
				if !ok {
					continue
				}
				nt, ok := derefType(al.Type()).(*types.Named)
				if !ok {
					continue
				}
				m := &made{typ: nt, flags: map[string]bool{}, lits: map[string]*ssa.Function{}}
				for _, ref := range refsOf(al) {
					fa, ok := ref.(*ssa.FieldAddr)
					if !ok {
						continue
					}
					for _, r2 := range refsOf(fa) {
						if st, ok := r2.(*ssa.Store); ok {
							if k, ok := st.Val.(*ssa.Const); ok && k.Value != nil && k.Value.Kind() == constant.Bool {
								m.flags[fieldName(fa.X.Type(), fa.Field)] = constant.BoolVal(k.Value)
							}
							if mc, ok := st.Val.(*ssa.MakeClosure); ok {
								if lf, ok := mc.Fn.(*ssa.Function); ok {
									m.lits[fieldName(fa.X.Type(), fa.Field)] = lf
								}
							}
						}
					}
				}
				out = m
			}
		})
		return out
	}
	methodOf := func(nt *types.Named) (*ssa.Function, *ast.FuncDecl) {
		for _, f := range c.Funcs {
			if f.Parent() != nil || f.Name() != method || f.Signature.Recv() == nil {
				continue
			}
			rt, ok := derefType(f.Signature.Recv().Type()).(*types.Named)
			if ok && rt.Origin() == nt.Origin() {
				return f, c.decl(c.nameOf(f))
			}
		}
		return nil, nil
	}
	ma, mb := madeBy(ctorA), madeBy(ctorB)
	if ma == nil || mb == nil {
		return nil, nil
	}
	fa, da := methodOf(ma.typ)
	fb, db := methodOf(mb.typ)
	if fa == nil || fb == nil {
		return nil, nil
	}
	// &funcIterator[T]{next: func() (T, bool) {…}}: the method of the shared adapter only calls the function kept in a field -
	// the member of the pair is the literal this constructor put there
	throughAdapter := func(f *ssa.Function, m *made) (*ssa.Function, *ast.FuncDecl, bool) {
		if f == nil || len(f.Blocks) != 1 || len(m.lits) == 0 {
			return nil, nil, false
		}
		var only *ssa.Call
		for _, in := range f.Blocks[0].Instrs {
			switch x := in.(type) {
			case *ssa.Call:
				if only != nil {
					return nil, nil, false
				}
				only = x
			case *ssa.FieldAddr, *ssa.UnOp, *ssa.Extract, *ssa.Return, *ssa.DebugRef:
			default:
				return nil, nil, false
			}
		}
		if only == nil {
			return nil, nil, false
		}
		ld, ok := only.Call.Value.(*ssa.UnOp)
		if !ok || ld.Op != token.MUL {
			return nil, nil, false
		}
		fld, ok := ld.X.(*ssa.FieldAddr)
		if !ok {
			return nil, nil, false
		}
		lit := m.lits[fieldName(fld.X.Type(), fld.Field)]
		if lit == nil {
			return nil, nil, false
		}
		var decl *ast.FuncDecl
		if fl, isLit := lit.Syntax().(*ast.FuncLit); isLit {
			decl = &ast.FuncDecl{Name: ast.NewIdent(method), Type: fl.Type, Body: fl.Body}
		}
		return lit, decl, true
	}
	adapted := false
	if la, dla, ok := throughAdapter(fa, ma); ok {
		if lb, dlb, ok := throughAdapter(fb, mb); ok {
			fa, da, fb, db = la, dla, lb, dlb
			adapted = true
		}
	}
	va := &variant{anchor: anchorA, fn: fa, decl: da, typ: ma.typ}
	vb := &variant{anchor: anchorB, fn: fb, decl: db, typ: mb.typ}
	if adapted {
		return va, vb
	}
	if ma.typ.Origin() == mb.typ.Origin() {
		// one type: the direction is a constant boolean field set differently by the two constructors
		flag := ""
		for f, bv := range mb.flags {
			if av := ma.flags[f]; av != bv {
				flag = f
			}
		}
		for f, av := range ma.flags {
			if bv := mb.flags[f]; av != bv {
				flag = f
			}
		}
		if flag == "" {
			return nil, nil
		}
		va.merged, va.flag, va.val = true, flag, ma.flags[flag]
		vb.merged, vb.flag, vb.val = true, flag, mb.flags[flag]
	}
	return va, vb
}

// specialisedDecl: fd with every `if <x>.flag {A} else {B}` (or `!<x>.flag`) replaced by the statements of the branch taken
// when flag == val.
func specialisedDecl(fd *ast.FuncDecl, flag string, val bool) *ast.FuncDecl {
	if fd == nil || fd.Body == nil {
		return fd
	}
	flagCond := func(e ast.Expr) (bool, bool) {
		pol := true
		for {
			switch x := e.(type) {
			case *ast.ParenExpr:
				e = x.X
				continue
			case *ast.UnaryExpr:
				if x.Op == token.NOT {
					e = x.X
					pol = !pol
					continue
				}
			}
			break
		}
		if sel, ok := e.(*ast.SelectorExpr); ok && sel.Sel.Name == flag {
			return val == pol, true
		}
		return false, false
	}
	var rewriteList func(list []ast.Stmt) []ast.Stmt
	var rewriteStmt func(s ast.Stmt) []ast.Stmt
	rewriteBlock := func(b *ast.BlockStmt) *ast.BlockStmt {
		if b == nil {
			return nil
		}
		return &ast.BlockStmt{Lbrace: b.Lbrace, List: rewriteList(b.List), Rbrace: b.Rbrace}
	}
	rewriteStmt = func(s ast.Stmt) []ast.Stmt {
		switch x := s.(type) {
		case *ast.IfStmt:
			if x.Init == nil {
				if taken, ok := flagCond(x.Cond); ok {
					if taken {
						return rewriteList(x.Body.List)
					}
					switch e := x.Else.(type) {
					case nil:
						return nil
					case *ast.BlockStmt:
						return rewriteList(e.List)
					default:
						return rewriteStmt(e)
					}
				}
			}
			cp := *x
			cp.Body = rewriteBlock(x.Body)
			if x.Else != nil {
				el := rewriteStmt(x.Else)
				switch {
				case len(el) == 1:
					cp.Else = el[0]
				default:
					cp.Else = &ast.BlockStmt{List: el}
				}
			}
			return []ast.Stmt{&cp}
		case *ast.BlockStmt:
			return []ast.Stmt{rewriteBlock(x)}
		case *ast.ForStmt:
			cp := *x
			cp.Body = rewriteBlock(x.Body)
			return []ast.Stmt{&cp}
		case *ast.RangeStmt:
			cp := *x
			cp.Body = rewriteBlock(x.Body)
			return []ast.Stmt{&cp}
		}
		return []ast.Stmt{s}
	}
	rewriteList = func(list []ast.Stmt) []ast.Stmt {
		var out []ast.Stmt
		for _, s := range list {
			out = append(out, rewriteStmt(s)...)
		}
		return out
	}
	cp := *fd
	cp.Body = rewriteBlock(fd.Body)
	return &cp
}

// withoutFlagField: fd with the key-value `flag: <const>` removed from composite literals (the constructors of a merged pair
// differ in exactly that).
func withoutFlagField(fd *ast.FuncDecl, flag string) *ast.FuncDecl {
	if fd == nil || fd.Body == nil {
		return fd
	}
	var strip func(e ast.Expr) ast.Expr
	strip = func(e ast.Expr) ast.Expr {
		switch x := e.(type) {
		case *ast.UnaryExpr:
			cp := *x
			cp.X = strip(x.X)
			return &cp
		case *ast.CompositeLit:
			cp := *x
			cp.Elts = nil
			for _, el := range x.Elts {
				if kv, ok := el.(*ast.KeyValueExpr); ok {
					if id, ok := kv.Key.(*ast.Ident); ok && id.Name == flag {
						continue
					}
				}
				cp.Elts = append(cp.Elts, el)
			}
			return &cp
		}
		return e
	}
	cp := *fd
	body := &ast.BlockStmt{Lbrace: fd.Body.Lbrace, Rbrace: fd.Body.Rbrace}
	for _, s := range fd.Body.List {
		if rs, ok := s.(*ast.ReturnStmt); ok {
			r2 := *rs
			r2.Results = nil
			for _, e := range rs.Results {
				r2.Results = append(r2.Results, strip(e))
			}
			body.List = append(body.List, &r2)
			continue
		}
		body.List = append(body.List, s)
	}
	cp.Body = body
	return &cp
}
