package main

import (
	"go/constant"
	"go/token"
	"go/types"
	"strings"

	"golang.org/x/tools/go/ssa"
)

func init() {
	register(&Property{
		ID:    "C13",
		Title: "parallel.Do/DoContext/Map(Context): exactly once, bounded, barrier, first error",
		Rules: []*Rule{
			{ID: "C13.barrier", Floor: 4, Clause: "Do waits on the WaitGroup on every path from a spawn to a return, each worker defers wg.Done() first and wg.Add's argument is the spawn loop's bound; DoContext returns eg.Wait()",
				Run: ruleDoBarrier},
			{ID: "C13.unique-index", Floor: 6, Clause: "the index given to f in a worker is atomic.AddInt32(&x,1) (x initialised to -1) through conversions only, under i < n; the sequential path passes the loop variable of for i := 0; i < n; i++",
				Run: ruleDoUniqueIndex},
			{ID: "C13.bounded", Floor: 2, Clause: "the number of workers is the clamped parallelism: the spawn bound's reaching definitions are the parameter, GOMAXPROCS(-1) under <= 0, and n under > n; each worker runs f sequentially (no go inside the worker loop)",
				Run: ruleDoBounded},
			{ID: "C13.error-contract", Floor: 7, Clause: "DoContext's worker re-checks ctx.Err() before each call and returns that error; f receives the errgroup's context, not the caller's; the worker returns f's error unchanged; the sequential path returns f's error; MapContext/Map callbacks pass their own context parameter and return the error unchanged; MapContext returns nil, err",
				Run: ruleDoErrorContract},
			{ID: "C13.positional", Floor: 2, Clause: "in Map/MapContext's callbacks the same parameter i indexes in and out; out has len(in) elements",
				Run: ruleMapPositional},
		},
		NotCovered: []string{"the dynamic number of concurrently running calls (equals the number of workers because each runs f sequentially, which is what C13.bounded checks)", "which of several errors errgroup reports (errgroup semantics trusted)"},
		Trusted:    []string{"sync.WaitGroup, errgroup and sync/atomic semantics"},
	})
}

// doImpl: an API function of package parallel together with the function that actually starts its workers (the API function
// itself, or the helper it delegates the parallel case to) and the call chain leading there.
type doImpl struct {
	api   *ssa.Function
	name  string // "parallel.Do"
	fn    *ssa.Function
	chain []*ssa.Call
}

func spawnsWorkers(in ssa.Instruction) bool {
	switch x := in.(type) {
	case *ssa.Go:
		return true
	case *ssa.Call:
		if cal := x.Call.StaticCallee(); cal != nil && fname(cal) == "Go" && cal.Pkg != nil && strings.HasSuffix(cal.Pkg.Pkg.Path(), "errgroup") {
			return true
		}
	}
	return false
}

func doImpls(c *Ctx) []doImpl {
	var out []doImpl
	for _, n := range []string{"parallel.Do", "parallel.DoContext"} {
		api := c.fn(n)
		if api == nil {
			continue
		}
		im := doImpl{api: api, name: n, fn: api}
		for _, d := range deepInstrs(api, 3) {
			if spawnsWorkers(d.in) && d.in.Parent().Parent() == nil {
				im.fn = d.in.Parent()
				im.chain = d.calls
				break
			}
		}
		out = append(out, im)
	}
	return out
}

func doFns(c *Ctx) []*ssa.Function {
	var out []*ssa.Function
	for _, im := range doImpls(c) {
		out = append(out, im.fn)
	}
	return out
}

// apiName: the report name of the API function an implementation function belongs to.
func apiName(c *Ctx, fn *ssa.Function) string {
	for _, im := range doImpls(c) {
		if im.fn == fn {
			return im.name
		}
	}
	return c.nameOf(fn)
}

// isUserFn: call of the user's callback f (a parameter / captured parameter of function type, not a package function).
func isUserFn(call *ssa.Call) bool {
	if call.Call.IsInvoke() {
		return false
	}
	switch call.Call.Value.(type) {
	case *ssa.Function, *ssa.Builtin, *ssa.MakeClosure:
		return false
	}
	v := call.Call.Value
	// the callback handed to the goroutine's literal as an argument (go func(…, call func(i int), …) {...}(…, f, …))
	if lp, isP := resolveVal(v).(*ssa.Parameter); isP {
		if a := literalCallArg(lp); a != nil {
			v = a
		}
	}
	pv := valueProv(v, provEnv{})
	_, isParam := pv.root.(*ssa.Parameter)
	return isParam && len(pv.fields) <= 1 && (path(v) == "f" || strings.HasSuffix(path(v), ".f"))
}

func ruleDoBarrier(c *Ctx, r *R) {
	var do, dc *ssa.Function
	for _, im := range doImpls(c) {
		if im.name == "parallel.Do" {
			do = im.fn
		} else {
			dc = im.fn
		}
	}
	if do == nil {
		r.undecided("parallel.Do|missing", token.NoPos, "anchor not found")
		return
	}
	// typestate: 0 = no goroutine started, 1 = started and not waited, 2 = waited
	pf := &PF{N: 3, InScope: func(f *ssa.Function) bool { return f.Pkg == do.Pkg && f.Blocks != nil && f != do }}
	pf.Instr = func(fn *ssa.Function, in ssa.Instruction, q int) (StateSet, bool) {
		switch x := in.(type) {
		case *ssa.Go:
			return ss(1), true
		case *ssa.Call:
			if cal := x.Call.StaticCallee(); cal != nil && fname(cal) == "Wait" && cal.Signature.Recv() != nil && isNamedType(cal.Signature.Recv().Type(), "sync", "WaitGroup") {
				return ss(2), true
			}
		case deferredCall:
			// defer wg.Wait(), replayed at every exit
			if cal := x.Defer.Call.StaticCallee(); cal != nil && cal.Name() == "Wait" && cal.Signature.Recv() != nil && isNamedType(cal.Signature.Recv().Type(), "sync", "WaitGroup") {
				return ss(2), true
			}
		}
		return 0, false
	}
	k := 0
	for _, e := range pf.Exits(do, ss(0)) {
		k++
		r.ok(!e.States.has(1), "parallel.Do|return#"+itoa(k), retPos(e.Ret), "a path returns after starting workers without wg.Wait(): Do would return while calls of f are still running")
	}
	bi := bgAnalyseFn(c, do, "parallel.Do")
	// wg.Add(parallelism) with the spawn loop's bound
	var add *ssa.Call
	instrs(do, func(b *ssa.BasicBlock, i int, in ssa.Instruction) {
		if call, ok := in.(*ssa.Call); ok {
			if cal := call.Call.StaticCallee(); cal != nil && fname(cal) == "Add" && cal.Signature.Recv() != nil && isNamedType(cal.Signature.Recv().Type(), "sync", "WaitGroup") {
				add = call
			}
		}
	})
	okAdd := false
	if add != nil && len(bi.spawned) == 1 {
		site := bi.spawnAt[bi.spawned[0]]
		if bound, hb := spawnLoopBound(do, site); bound != nil {
			if sameVar(bound, add.Call.Args[1]) && add.Block().Dominates(hb) {
				okAdd = true
			}
		}
	}
	r.ok(okAdd, "parallel.Do|wg-add-is-spawn-bound", do.Pos(), "wg.Add must be given the same value that bounds the spawn loop, before the loop")
	for _, g := range bi.spawned {
		first := false
		for _, in := range g.Blocks[0].Instrs {
			if d, ok := in.(*ssa.Defer); ok {
				if cal := d.Call.StaticCallee(); cal != nil && fname(cal) == "Done" {
					first = true
				}
				// defer done() with done the method value wg.Done the literal was started with
				if lp, isP := resolveVal(d.Call.Value).(*ssa.Parameter); isP {
					if a := literalCallArg(lp); a != nil {
						if m, rv := funcAndReceiver(a); m != nil && rv != nil && fname(m) == "Done" && m.Signature.Recv() != nil && isNamedType(m.Signature.Recv().Type(), "sync", "WaitGroup") {
							first = true
						}
					}
				}
				break
			}
		}
		r.ok(first, "parallel.Do|worker-defers-done", g.Pos(), "each worker must defer wg.Done() before anything else so a panic or early return still releases the barrier")
	}
	if dc == nil {
		r.undecided("parallel.DoContext|missing", token.NoPos, "anchor not found")
		return
	}
	// every return reachable after an eg.Go returns eg.Wait()
	pf2 := &PF{N: 2}
	pf2.Instr = func(fn *ssa.Function, in ssa.Instruction, q int) (StateSet, bool) {
		if call, ok := in.(*ssa.Call); ok {
			if cal := call.Call.StaticCallee(); cal != nil && fname(cal) == "Go" {
				return ss(1), true
			}
		}
		return 0, false
	}
	k = 0
	for _, e := range pf2.Exits(dc, ss(0)) {
		if !e.States.has(1) {
			continue
		}
		k++
		okW := false
		if call, ok := returnedValue(e.Ret, 0).(*ssa.Call); ok {
			if cal := call.Call.StaticCallee(); cal != nil && fname(cal) == "Wait" {
				okW = true
			}
		}
		r.ok(okW, "parallel.DoContext|return-wait#"+itoa(k), retPos(e.Ret), "after starting workers DoContext must return eg.Wait() (barrier + first error)")
	}
	if k == 0 {
		r.violated("parallel.DoContext|return-wait", dc.Pos(), "no return after the spawn loop found")
	}
}

// sameVar: two SSA values denote the same variable at nearby points (same value, or loads of the same cell).
func sameVar(a, b ssa.Value) bool {
	if a == b {
		return true
	}
	ca, cb := loadCell(a), loadCell(b)
	return ca != nil && ca == cb
}

func ruleDoUniqueIndex(c *Ctx, r *R) {
	for _, im := range doImpls(c) {
		fn := im.fn
		name := im.name
		bi := bgAnalyseFn(c, fn, name)
		// the shared counter: the variable (a local, or a field of a local struct) whose address reaches atomic.AddInt32,
		// directly or inside a helper
		var counter *prov
		stripConv := func(v ssa.Value) ssa.Value {
			for {
				if cv, ok := v.(*ssa.Convert); ok {
					v = cv.X
					continue
				}
				return v
			}
		}
		var claimDelta int64 // index = AddInt32(&x, 1) + claimDelta (claimIndex: `atomic.AddInt32(claimed, 1) - 1`)
		isClaimLeaf := func(lf leafVal) bool {
			cv := stripConv(lf.v)
			if bin, isBin := cv.(*ssa.BinOp); isBin && (bin.Op == token.SUB || bin.Op == token.ADD) {
				if k, isK := bin.Y.(*ssa.Const); isK && k.Value != nil {
					if _, isCall := stripConv(bin.X).(*ssa.Call); isCall {
						claimDelta = k.Int64()
						if bin.Op == token.SUB {
							claimDelta = -claimDelta
						}
						cv = stripConv(bin.X)
					}
				}
			}
			ac, ok := cv.(*ssa.Call)
			if !ok {
				return false
			}
			cal := ac.Call.StaticCallee()
			if cal == nil || fname(cal) != "AddInt32" || !isConstInt(ac.Call.Args[1], 1) {
				return false
			}
			chain := lf.chain
			if ac.Parent() != nil {
				// the leaf lives in the innermost helper of the chain that produced it: rebuild the chain to that frame
				for k := len(chain); k >= 0; k-- {
					if k == 0 || staticCallee(&chain[k-1].Call) == origin(ac.Parent()) || staticCallee(&chain[k-1].Call) == ac.Parent() {
						chain = chain[:k]
						break
					}
				}
			}
			addr := ac.Call.Args[0]
			// the worker literal is built by a constructor that is handed the counter's address (newContextWorker(ctx, &x, n, f)):
			// the parameter stands for the argument of the constructor's only call
			if prm, isP := resolveVal(addr).(*ssa.Parameter); isP {
				// ... or of the goroutine's literal itself, started with &x as an argument
				if a := literalCallArg(prm); a != nil {
					addr, chain = a, nil
				}
			}
			if prm, isP := resolveVal(addr).(*ssa.Parameter); isP && prm.Parent() != nil && prm.Parent().Parent() == nil && !token.IsExported(prm.Parent().Name()) {
				if sites := callCommonsOf(c, prm.Parent()); len(sites) == 1 {
					for k, q := range prm.Parent().Params {
						if q == prm && k < len(sites[0].Args) {
							addr, chain = sites[0].Args[k], nil
						}
					}
				}
			}
			ap := addrProv(addr, provEnv{chain: chain})
			if al, ok := ap.root.(*ssa.Alloc); ok && (rootFn(al.Parent()) == rootFn(fn) || rootFn(al.Parent()) == rootFn(im.api)) {
				counter = &ap
				return true
			}
			// the counter lives in a small constructor that returns the claiming function (claim := indexClaimer(n)): one
			// counter per call of the constructor - which must therefore be called once, by the function that spawns the
			// workers (not inside a worker: each would then count for itself)
			if al, ok := ap.root.(*ssa.Alloc); ok {
				ctor := rootFn(al.Parent())
				if ctor.Parent() == nil && !token.IsExported(ctor.Name()) && rootFn(ctor).Pkg == rootFn(fn).Pkg {
					sites := callSitesOf(c, ctor)
					okSites := len(sites) > 0
					for _, site := range sites {
						if site.Parent() != fn && site.Parent() != im.api {
							// another implementation's own call (Do and DoContext each make their claimer) is fine as long as
							// it is not made from inside a function literal
							if site.Parent().Parent() != nil {
								okSites = false
							}
						}
					}
					if okSites {
						counter = &ap
						return true
					}
				}
			}
			return false
		}
		claimLeaves := func(v ssa.Value, chain []*ssa.Call) ([]leafVal, bool) {
			ls := leavesKeepingChain(v, chain, 0)
			if len(ls) == 0 {
				return nil, false
			}
			for _, lf := range ls {
				if !isClaimLeaf(lf) {
					return ls, false
				}
			}
			return ls, true
		}
		for _, g := range effectiveWorkers(im, bi.spawned) {
			nf := 0
			for _, di := range deepInstrs(g, 2) {
				call, ok := di.in.(*ssa.Call)
				if !ok || !isUserFn(call) {
					continue
				}
				nf++
				idx := call.Call.Args[len(call.Call.Args)-1]
				ls, fromAdd := claimLeaves(idx, di.calls)
				r.ok(fromAdd, name+"|worker-index-from-atomic-add", call.Pos(), "the index handed to f must be the result of atomic.AddInt32(&x, 1) itself (through conversions only): any other derivation can hand the same index to two workers or skip one")
				bounded := false
				isIdxLeaf := func(v ssa.Value) bool {
					for _, lf := range ls {
						if lf.v == v || stripConv(lf.v) == stripConv(v) {
							return true
						}
					}
					return false
				}
				// the bound may be tested in the worker before it hands the index to a helper that calls f
				for _, site := range di.calls {
					for _, gd := range guardsOf(site.Block()) {
						if cf, ok := gd.asCmp(); ok && ((cf.op == token.LSS && isIdxLeaf(cf.x)) || (cf.op == token.GTR && isIdxLeaf(cf.y))) {
							bounded = true // i < n, or written the other way round: n > i
						}
					}
				}
				for _, gd := range guardsOf(call.Block()) {
					if cf, ok := gd.asCmp(); ok && ((cf.x == idx && cf.op == token.LSS) || (cf.y == idx && cf.op == token.GTR)) {
						bounded = true
					}
					// the claim helper reports `index < n` through its boolean result
					if bv, pol := gd.boolVal(); pol {
						if ex, ok := bv.(*ssa.Extract); ok {
							if hc, ok := ex.Tuple.(*ssa.Call); ok {
								if cal := staticCallee(&hc.Call); cal != nil && cal.Blocks != nil {
									all, any := true, false
									instrs(cal, func(_ *ssa.BasicBlock, _ int, in2 ssa.Instruction) {
										ret, ok := in2.(*ssa.Return)
										if !ok || ex.Index >= len(ret.Results) {
											return
										}
										any = true
										bo, ok := returnedValue(ret, ex.Index).(*ssa.BinOp)
										if !ok || !((bo.Op == token.LSS && isIdxLeaf(bo.X)) || (bo.Op == token.GTR && isIdxLeaf(bo.Y))) {
											if kc, isK := returnedValue(ret, ex.Index).(*ssa.Const); isK && kc.Value != nil && kc.Value.String() == "false" {
												return
											}
											all = false
										}
									})
									if all && any {
										bounded = true
									}
								}
							}
						}
					}
				}
				// the index is the parameter of a literal that a driver of the package calls with each claimed index
				// (claimEach(&x, n, func(i int) error {...})): the bound is tested by the driver before it calls the literal
				if prm, isP := stripConv(idx).(*ssa.Parameter); isP && !bounded && prm.Parent() != nil && prm.Parent().Parent() != nil {
					pidx := -1
					for k, q := range prm.Parent().Params {
						if q == prm {
							pidx = k
						}
					}
					sites := closureCallSites(prm.Parent())
					all := len(sites) > 0 && pidx >= 0
					for _, cs := range sites {
						okSite := false
						if pidx < len(cs.inner.Call.Args) {
							arg := cs.inner.Call.Args[pidx]
							for _, gd := range guardsOf(cs.inner.Block()) {
								if cf, ok := gd.asCmp(); ok && ((cf.op == token.LSS && (cf.x == arg || isIdxLeaf(cf.x))) || (cf.op == token.GTR && (cf.y == arg || isIdxLeaf(cf.y)))) {
									okSite = true
								}
							}
						}
						all = all && okSite
					}
					bounded = all
				}
				r.ok(bounded, name+"|worker-index-below-n", call.Pos(), "f must be called only under i < n for the claimed index")
			}
			if nf != 1 {
				r.violated(name+"|worker-calls-f-once-per-claim", g.Pos(), "the worker loop must contain exactly one call of f per claimed index, found "+itoa(nf))
			}
		}
		okInit := false
		if counter != nil {
			if cell, ok := counter.root.(*ssa.Alloc); ok {
				// the initial value: the constant stored by the owning function (none = the zero value); the first claim
				// must yield index 0: initial + 1 + claimDelta == 0
				var init int64
				known, nStores := true, 0
				for _, f := range withAnon(rootFn(cell.Parent())) {
					instrs(f, func(_ *ssa.BasicBlock, _ int, in ssa.Instruction) {
						st, ok := in.(*ssa.Store)
						if !ok {
							return
						}
						ap := addrProv(st.Addr, provEnv{})
						if ap.root != counter.root || strings.Join(ap.fields, ".") != strings.Join(counter.fields, ".") {
							return
						}
						nStores++
						if k, isK := resolveVal(st.Val).(*ssa.Const); isK && k.Value != nil {
							init = k.Int64()
						} else {
							known = false
						}
					})
				}
				_ = cell
				okInit = known && nStores <= 1 && init+1+claimDelta == 0
			}
		}
		r.ok(okInit, name+"|x-starts-at-minus-one", fn.Pos(), "the shared counter must start so that the first claim yields index 0 (-1 for `AddInt32(&x, 1)`, 0 for `AddInt32(&x, 1) - 1`)")
		// sequential path: f(i) with i the induction variable 0..n-1, reached only under parallelism == 1 (in the API function
		// or in the helper it delegates the serial case to)
		okSeq := false
		var pPar, nPar *ssa.Parameter
		for _, p := range im.api.Params {
			if isIntType(p.Type()) {
				if pPar == nil {
					pPar = p
				} else if nPar == nil {
					nPar = p
				}
			}
		}
		for _, d := range deepInstrs(im.api, 3) {
			call, ok := d.in.(*ssa.Call)
			if !ok || !isUserFn(call) || pPar == nil || nPar == nil {
				continue
			}
			idx := call.Call.Args[len(call.Call.Args)-1]
			// the indexes drawn from the module's own counting iterator (indexes := iterator.Counter(n); i, ok :=
			// indexes.Next()): 0..n-1 in order by Counter's contract (C07), each under ok
			if ex, isEx := idx.(*ssa.Extract); isEx && ex.Index == 0 {
				if nx, isCall := ex.Tuple.(*ssa.Call); isCall && nx.Call.IsInvoke() && nx.Call.Method.Name() == "Next" {
					fromCounter := false
					for _, lf := range cellLeaves(nx.Call.Value, d.calls, 0) {
						cc, isC := stripChange(lf.v).(*ssa.Call)
						if !isC {
							fromCounter = false
							break
						}
						cal := cc.Call.StaticCallee()
						if cal != nil && baseName(cal) == "Counter" && calleePkgPath(cal) == modPath+"/iterator" && len(cc.Call.Args) == 1 && resolveVal(argOf(cc.Call.Args[0], lf.chain)) == ssa.Value(nPar) {
							fromCounter = true
						} else {
							fromCounter = false
							break
						}
					}
					underOK, one := false, false
					for _, g := range guardsOf(call.Block()) {
						if bv, val := g.boolVal(); val {
							if e1, isE := bv.(*ssa.Extract); isE && e1.Tuple == ex.Tuple && e1.Index == 1 {
								underOK = true
							}
						}
					}
					for _, gs := range deepGuardStrings(d) {
						parts := strings.SplitN(gs, " ", 3)
						if len(parts) == 3 && parts[1] == "==" && strings.HasPrefix(parts[2], "1:") && (strings.Contains(parts[0], "param:"+pname(pPar)) || strings.HasPrefix(parts[0], "phi")) {
							one = true
						}
					}
					if fromCounter && underOK && one {
						okSeq = true
					}
				}
				continue
			}
			// eachInOrder(n, func(i int) error { f(i); return nil }): the index is the parameter of a literal that a helper of the
			// package calls, once, in its own counting loop - the loop is judged there, under the guards of the helper's call
			if prm, isP := idx.(*ssa.Parameter); isP && prm.Parent() != nil && prm.Parent().Parent() == im.api {
				lit := prm.Parent()
				j := -1
				for k, q := range lit.Params {
					if q == prm {
						j = k
					}
				}
				instrs(im.api, func(_ *ssa.BasicBlock, _ int, in ssa.Instruction) {
					hc, isCall := in.(*ssa.Call)
					if !isCall {
						return
					}
					h := staticCallee(&hc.Call)
					if h == nil || h.Blocks == nil || rootFn(origin(h)).Pkg != rootFn(im.api).Pkg {
						return
					}
					for ai, a := range hc.Call.Args {
						if literalOf(a, im.api) != lit || !onlyCallsParam(h, ai) || ai >= len(origin(h).Params) {
							continue
						}
						var stepCalls []*ssa.Call
						for _, ref := range refsOf(origin(h).Params[ai]) {
							if sc, isSC := ref.(*ssa.Call); isSC && sc.Call.Value == ssa.Value(origin(h).Params[ai]) {
								stepCalls = append(stepCalls, sc)
							}
						}
						if len(stepCalls) == 1 && j >= 0 && j < len(stepCalls[0].Call.Args) {
							idx = stepCalls[0].Call.Args[j]
							d = deepInstr{in: stepCalls[0], site: hc, calls: []*ssa.Call{hc}}
						}
					}
				})
			}
			phi, ok := idx.(*ssa.Phi)
			if !ok {
				continue
			}
			zero, step := false, false
			for _, e := range phi.Edges {
				if isConstInt(e, 0) {
					zero = true
				}
				if add, ok := e.(*ssa.BinOp); ok && add.Op == token.ADD && add.X == ssa.Value(phi) && isConstInt(add.Y, 1) {
					step = true
				}
			}
			bounded, one := false, false
			for _, gs := range deepGuardStrings(d) {
				parts := strings.SplitN(gs, " ", 3)
				if len(parts) != 3 {
					continue
				}
				if parts[0] == symOf(phi, provEnv{chain: d.calls}).String() && parts[1] == "<" && parts[2] == "param:"+pname(nPar) {
					bounded = true
				}
				if parts[1] == "==" && strings.HasPrefix(parts[2], "1:") {
					// the tested value derives from the parallelism parameter
					if parts[0] == "param:"+pname(pPar) || strings.Contains(parts[0], "param:"+pname(pPar)) || strings.HasPrefix(parts[0], "phi") {
						one = true
					}
				}
			}
			if zero && step && bounded && one {
				okSeq = true
			}
		}
		r.ok(okSeq, name+"|sequential-path", fn.Pos(), "the parallelism == 1 path must call f(i) for i = 0..n-1 in a plain counting loop")
	}
}

func ruleDoBounded(c *Ctx, r *R) {
	for _, im := range doImpls(c) {
		fn := im.fn
		name := im.name
		bi := bgAnalyseFn(c, fn, name)
		if len(bi.spawned) != 1 {
			r.violated(name+"|one-spawn-site", fn.Pos(), "expected exactly one spawn site")
			continue
		}
		site := bi.spawnAt[bi.spawned[0]]
		bound, _ := spawnLoopBound(fn, site)
		good := false
		why := "spawn loop bound not found"
		// the API function's two integer parameters, in order: parallelism and n
		var pPar, nPar *ssa.Parameter
		for _, p := range im.api.Params {
			if isIntType(p.Type()) {
				if pPar == nil {
					pPar = p
				} else if nPar == nil {
					nPar = p
				}
			}
		}
		if bound != nil && pPar != nil && nPar != nil {
			good = true
			hasParam, hasClampN, hasMaxprocs := false, false, false
			minClamp := false
			leaves := valueLeaves(bound, im.chain, 0)
			// xmath.Min(parallelism, n) is the clamp written with the module's helper: its operands are the alternatives
			for changed := true; changed; {
				changed = false
				var next []leafVal
				for _, lf := range leaves {
					if mc, ok := lf.v.(*ssa.Call); ok && isXmathMin(mc) {
						for _, a := range mc.Call.Args {
							next = append(next, valueLeaves(a, lf.chain, 0)...)
						}
						minClamp = true
						changed = true
						continue
					}
					next = append(next, lf)
				}
				leaves = next
			}
			for _, lf := range leaves {
				switch x := lf.v.(type) {
				case *ssa.Parameter:
					switch x {
					case pPar:
						hasParam = true
					case nPar:
						hasClampN = true
					default:
						good = false
						why = "spawn bound may be parameter " + x.Name()
					}
				case *ssa.Call:
					if cal := x.Call.StaticCallee(); cal != nil && fname(cal) == "GOMAXPROCS" && isQueryOnlyArg(x.Call.Args[0]) {
						hasMaxprocs = true
					} else {
						good = false
						why = "spawn bound may be " + path(lf.v)
					}
				default:
					good = false
					why = "spawn bound may be " + path(lf.v)
				}
			}
			if !(hasParam && hasClampN && hasMaxprocs) {
				good = false
				why = "spawn bound must come from {parallelism, GOMAXPROCS(-1), n}"
			}
			// the default and the clamp: branches on `parallelism <= 0` and `parallelism > n` on the way to the spawn loop
			// (in the API function, in the implementation, or in a helper that normalises the value)
			clamp, dflt := false, false
			pn, nn := "param:"+pname(pPar), "param:"+pname(nPar)
			for _, d := range deepInstrs(im.api, 3) {
				iff, ok := d.in.(*ssa.If)
				if !ok {
					continue
				}
				bin, ok := iff.Cond.(*ssa.BinOp)
				if !ok {
					continue
				}
				env := provEnv{chain: d.calls}
				// the tested value is the parallelism parameter or the value derived from it so far (a merge with its default);
				// the test may be written either way round (parallelism > n / n < parallelism)
				for _, side := range []struct {
					x, y ssa.Value
					op   token.Token
				}{{bin.X, bin.Y, bin.Op}, {bin.Y, bin.X, flip(bin.Op)}} {
					xs, ys := symOf(side.x, env), symOf(side.y, env)
					isP := xs.String() == pn
					if !isP {
						for _, lf := range valueLeaves(side.x, d.calls, 0) {
							if lf.v == ssa.Value(pPar) {
								isP = true
							}
						}
					}
					if !isP {
						continue
					}
					if side.op == token.GTR && ys.String() == nn {
						clamp = true
					}
					if side.op == token.LEQ && ys.isConst(0) {
						dflt = true
					}
				}
			}
			if minClamp {
				clamp = true // min(parallelism, n): the same bound as `if parallelism > n { parallelism = n }`
			}
			if !clamp || !dflt {
				good = false
				why = "missing `parallelism <= 0 → GOMAXPROCS` default or `parallelism > n → n` clamp before the spawn loop"
			}
		}
		r.ok(good, name+"|spawn-bound", posOf(site), why)
		// no go statement inside the worker
		nested := false
		for _, g := range bi.all {
			instrs(g, func(b *ssa.BasicBlock, i int, in ssa.Instruction) {
				if _, ok := in.(*ssa.Go); ok {
					nested = true
				}
			})
		}
		r.ok(!nested, name+"|worker-sequential", fn.Pos(), "a worker must run f sequentially; a nested go would exceed the requested parallelism")
		// the spawning goroutine itself does not call f on a path that also spawns workers (the sequential parallelism == 1
		// path returns before the spawn loop): "let the caller help" makes parallelism+1 calls run at once
		inline := false
		var inlinePos token.Pos
		spawnBlock := site.Block()
		for _, di := range deepInstrs(fn, 2) {
			call, ok := di.in.(*ssa.Call)
			if !ok || !isUserFn(call) {
				continue
			}
			sb := di.site.Block()
			if sb == spawnBlock || reaches(spawnBlock, sb) || reaches(sb, spawnBlock) {
				inline = true
				inlinePos = di.site.Pos()
			}
		}
		r.ok(!inline, name+"|caller-does-not-work", inlinePos, "the goroutine that spawns the workers also calls f itself on the same path: with the requested number of workers running, that is one call more than the requested parallelism")
	}
}

func ruleDoErrorContract(c *Ctx, r *R) {
	var dc, dcAPI *ssa.Function
	for _, im := range doImpls(c) {
		if im.name == "parallel.DoContext" {
			dc, dcAPI = im.fn, im.api
		}
	}
	if dc == nil {
		r.undecided("parallel.DoContext|missing", token.NoPos, "anchor not found")
		return
	}
	bi := bgAnalyseFn(c, dc, "parallel.DoContext")
	var egCtx ssa.Value
	instrs(dc, func(b *ssa.BasicBlock, i int, in ssa.Instruction) {
		if call, ok := in.(*ssa.Call); ok {
			if cal := call.Call.StaticCallee(); cal != nil && fname(cal) == "WithContext" && strings.HasSuffix(cal.Pkg.Pkg.Path(), "errgroup") {
				for _, ref := range *call.Referrers() {
					if ex, ok := ref.(*ssa.Extract); ok && ex.Index == 1 {
						egCtx = ex
					}
				}
			}
		}
	})
	for _, g := range bi.spawned {
		for _, di := range deepInstrs(g, 2) {
			di := di
			b := di.in.Block()
			call, ok := di.in.(*ssa.Call)
			if !ok || call.Call.IsInvoke() || len(call.Call.Args) != 2 || !isContextType(call.Call.Args[0].Type()) {
				continue
			}
			if cal := staticCallee(&call.Call); cal != nil && cal.Blocks != nil && rootFn(cal) == rootFn(g) {
				continue // a local helper of the worker (callOne(i)), not the user's function
			}
			// f(ctx, i)
			os := ctxOrigins(call.Call.Args[0], map[ssa.Value]bool{})
			okCtx := len(os) == 1 && os[0] == egCtx
			r.ok(okCtx, "parallel.DoContext|f-gets-group-ctx", call.Pos(), "f must receive the errgroup's context (cancelled on the first error), not the caller's")
			// pre-check dominates in the same iteration
			pre := false
			blocks := []*ssa.BasicBlock{b}
			for _, site := range di.calls {
				blocks = append(blocks, site.Block())
			}
			for _, bb := range blocks {
				for _, gd := range guardsOf(bb) {
					if cf, ok := gd.asCmp(); ok && cf.op == token.EQL && isNilConst(cf.y) {
						if ec, ok := cf.x.(*ssa.Call); ok && ec.Call.IsInvoke() && ec.Call.Method.Name() == "Err" && (reaches(bb, gd.blk) || bb.Parent() != g) {
							if eo := ctxOrigins(ec.Call.Value, map[ssa.Value]bool{}); len(eo) == 1 && eo[0] == egCtx {
								pre = true
							}
						}
					}
					// the same question asked with a non-blocking poll of Done: select { case <-ctx.Done(): return ...; default: }
					if cv, done, ok := ctxPollGuard(gd); ok && !done && (reaches(bb, gd.blk) || bb.Parent() != g) {
						if eo := ctxOrigins(cv, map[ssa.Value]bool{}); len(eo) == 1 && eo[0] == egCtx {
							pre = true
						}
					}
				}
			}
			r.ok(pre, "parallel.DoContext|recheck-before-call", call.Pos(), "each iteration must re-check ctx.Err() on the group context before calling f: otherwise calls keep starting after a failure")
			// error returned unchanged
			// the error travels up the frames: returned under `err != nil`, or returned as it is by a helper whose caller then
			// returns it under `err != nil`
			var flows func(v *ssa.Call, chain []*ssa.Call) bool
			flows = func(v *ssa.Call, chain []*ssa.Call) bool {
				if v.Referrers() == nil {
					return false
				}
				// through a result variable: the frame returns a merge that this error flows into; whether anything else can
				// happen first on the failing path is decided by f-error-not-swallowed below
				carried := false
				instrs(v.Parent(), func(_ *ssa.BasicBlock, _ int, in ssa.Instruction) {
					if ret, ok := in.(*ssa.Return); ok && len(ret.Results) > 0 {
						if rv := returnedValue(ret, 0); rv != ssa.Value(v) && phiCarries(rv, v) {
							carried = true
						}
					}
				})
				if carried {
					if len(chain) == 0 || v.Parent() == g {
						return true
					}
					return flows(chain[len(chain)-1], chain[:len(chain)-1])
				}
				for _, ref := range *v.Referrers() {
					ret, ok := ref.(*ssa.Return)
					if !ok || returnedValue(ret, 0) != ssa.Value(v) {
						continue
					}
					for _, gd := range guardsOf(ret.Block()) {
						if cf, ok := gd.asCmp(); ok && cf.x == ssa.Value(v) && cf.op == token.NEQ && isNilConst(cf.y) {
							return true
						}
					}
					// handed up unconditionally: the caller decides
					if len(chain) > 0 && flows(chain[len(chain)-1], chain[:len(chain)-1]) {
						return true
					}
					// ... the caller being a driver of the package that was handed this literal (claimEach(&x, n, func(i int) error
					// { ...; return f(ctx, i) })): the driver's call of its parameter carries the error on, and the driver's own
					// result must in turn be what the frame that called the driver returns
					if len(chain) == 0 && v.Parent().Parent() != nil {
						for _, cs := range closureCallSites(v.Parent()) {
							if !flows(cs.inner, []*ssa.Call{cs.outer}) {
								continue
							}
							handedUp := false
							instrs(cs.outer.Parent(), func(_ *ssa.BasicBlock, _ int, in ssa.Instruction) {
								if ret, ok := in.(*ssa.Return); ok && len(ret.Results) > 0 {
									if rv := returnedValue(ret, 0); rv == ssa.Value(cs.outer) || phiCarries(rv, cs.outer) {
										handedUp = true
									}
								}
							})
							if handedUp {
								return true
							}
						}
					}
				}
				return false
			}
			unchanged := flows(call, di.calls)
			r.ok(unchanged, "parallel.DoContext|worker-returns-f-error", call.Pos(), "the worker must return f's non-nil error itself")
			// … on EVERY path: once f's error is known non-nil (or is untested), the frame neither claims another index nor
			// calls f again nor returns something else (an `if errors.Is(err, context.Canceled) { continue }` swallows a
			// call's own failure)
			{
				frame := call.Parent()
				swallowed := false
				var swPos token.Pos
				pfe := &PF{N: 3} // 0 clean, 1 f returned - untested, 2 f's error is non-nil
				pfe.Instr = func(f *ssa.Function, in ssa.Instruction, q int) (StateSet, bool) {
					if in == ssa.Instruction(call) {
						return ss(1), true
					}
					return 0, false
				}
				pfe.Edge = func(f *ssa.Function, g guard, q int) (StateSet, bool) {
					cf, ok := g.asCmp()
					if !ok || q == 0 {
						return 0, false
					}
					x, y := cf.x, cf.y
					if y == ssa.Value(call) || (y != x && phiCarries(y, call) && isNilConst(x)) {
						x, y = y, x
					}
					// (a result variable that the error was just assigned to stands for the error on this path)
					if (x != ssa.Value(call) && !phiCarries(x, call)) || !isNilConst(y) {
						return 0, false
					}
					if cf.op == token.EQL {
						return ss(0), true
					}
					return ss(2), true
				}
				pfe.Visit = func(f *ssa.Function, in ssa.Instruction, before StateSet) {
					if !before.has(2) && !before.has(1) {
						return
					}
					switch x := in.(type) {
					case *ssa.Call:
						if x == call {
							swallowed, swPos = true, x.Pos()
						}
						if cal := x.Call.StaticCallee(); cal != nil && cal.Name() == "AddInt32" {
							swallowed, swPos = true, x.Pos()
						}
					case *ssa.Return:
						if len(x.Results) > 0 && !phiCarries(returnedValue(x, 0), call) {
							swallowed, swPos = true, retPos(x)
						}
					}
				}
				pfe.Exits(frame, ss(0))
				r.ok(!swallowed, "parallel.DoContext|f-error-not-swallowed", swPos, "on a path where f returned a non-nil error the worker goes on (claims the next index / returns something else): that call's failure is lost and DoContext can return nil although a call failed")
			}
		}
		// the branch taken when ctx.Err() != nil returns ctx.Err(), not nil
		nb := 0
		for _, di := range deepInstrs(g, 2) {
			ret, ok := di.in.(*ssa.Return)
			if !ok || len(ret.Results) == 0 {
				continue
			}
			for _, vr := range virtualReturnsOf(ret, 0) {
				b := vr.blk
				for _, gd := range guardsOf(b) {
					if gd.blk.Succs[0] != b && gd.blk.Succs[1] != b {
						continue
					}
					stopped := false
					if cf, ok := gd.asCmp(); ok && cf.op == token.NEQ && isNilConst(cf.y) {
						if ec, ok := cf.x.(*ssa.Call); ok && ec.Call.IsInvoke() && ec.Call.Method.Name() == "Err" {
							stopped = true
						}
					}
					if _, done, ok := ctxPollGuard(gd); ok && done {
						stopped = true // inside the <-ctx.Done() arm of a non-blocking poll
					}
					if stopped {
						nb++
						good := false
						if rc, ok := vr.val.(*ssa.Call); ok && rc.Call.IsInvoke() && rc.Call.Method.Name() == "Err" {
							good = true
						}
						r.ok(good, "parallel.DoContext|cancelled-worker-reports", retPos(ret), "a worker that stops because the context is done must return ctx.Err(): returning nil turns a caller-side cancellation into a successful result with indices never processed")
					}
				}
			}
		}
		if nb == 0 {
			r.violated("parallel.DoContext|cancelled-worker-reports", g.Pos(), "no ctx.Err() != nil exit in the worker")
		}
	}
	// sequential path: returns f's error
	seq := false
	for _, d := range deepInstrs(dcAPI, 3) {
		ret, ok := d.in.(*ssa.Return)
		if !ok || len(ret.Results) == 0 {
			continue
		}
		for _, vr := range virtualReturnsOf(ret, 0) {
			if call, ok := vr.val.(*ssa.Call); ok && len(call.Call.Args) == 2 && isUserFn(call) {
				seq = true
			}
		}
		// a result variable carried by the loop (`for i := 0; i < n && err == nil; i++ { err = f(ctx, i) }; return err`)
		if rv := returnedValue(ret, 0); !seq {
			instrs(ret.Parent(), func(_ *ssa.BasicBlock, _ int, in ssa.Instruction) {
				if call, ok := in.(*ssa.Call); ok && len(call.Call.Args) == 2 && isUserFn(call) && phiCarries(rv, call) {
					seq = true
				}
			})
		}
	}
	r.ok(seq, "parallel.DoContext|sequential-returns-f-error", dc.Pos(), "the sequential path must return f's error as soon as it occurs")
	// Map / MapContext callbacks
	mc := c.fn("parallel.MapContext")
	cb := mapCallback(mc)
	if mc == nil || cb == nil {
		r.undecided("parallel.MapContext|callback", token.NoPos, "callback not found")
		return
	}
	instrs(cb, func(b *ssa.BasicBlock, i int, in ssa.Instruction) {
		call, ok := in.(*ssa.Call)
		if !ok || call.Call.IsInvoke() || len(call.Call.Args) != 2 || !isContextType(call.Call.Args[0].Type()) {
			return
		}
		var ownCtx ssa.Value
		for _, p := range cb.Params {
			if isContextType(p.Type()) && ownCtx == nil {
				ownCtx = p
			}
		}
		r.ok(ownCtx != nil && call.Call.Args[0] == ownCtx, "parallel.MapContext|callback-passes-own-ctx", call.Pos(), "the callback must hand f the context it was given by DoContext (the one that is cancelled on the first error), not the captured outer context")
		// error returned unchanged
		okErr := false
		for _, ref := range *call.Referrers() {
			if ex, ok := ref.(*ssa.Extract); ok && ex.Index == 1 {
				for _, r2 := range *ex.Referrers() {
					if ret, ok := r2.(*ssa.Return); ok && returnedValue(ret, 0) == ssa.Value(ex) {
						okErr = true
					}
					if st, ok := r2.(*ssa.Store); ok {
						// var err error; out[i], err = f(...); return err
						if cell, ok := st.Addr.(*ssa.Alloc); ok {
							for _, r3 := range *cell.Referrers() {
								if ld, ok := r3.(*ssa.UnOp); ok && ld.Referrers() != nil {
									for _, r4 := range *ld.Referrers() {
										if _, ok := r4.(*ssa.Return); ok {
											okErr = true
										}
									}
								}
							}
						}
					}
				}
			}
		}
		r.ok(okErr, "parallel.MapContext|callback-returns-f-error", call.Pos(), "the callback must return f's error unchanged")
	})
	// MapContext returns (nil, err) on error, (out, nil) otherwise
	okRet := false
	instrs(mc, func(b *ssa.BasicBlock, i int, in ssa.Instruction) {
		ret, ok := in.(*ssa.Return)
		if !ok || len(ret.Results) != 2 {
			return
		}
		if call, ok := returnedValue(ret, 1).(*ssa.Call); ok {
			if cal := staticCallee(&call.Call); cal != nil && fname(cal) == "DoContext" && isNilConst(returnedValue(ret, 0)) {
				for _, gd := range guardsOf(b) {
					if cf, ok := gd.asCmp(); ok && cf.x == ssa.Value(call) && cf.op == token.NEQ {
						okRet = true
					}
				}
			}
		}
	})
	r.ok(okRet, "parallel.MapContext|returns-nil-err", mc.Pos(), "MapContext must return (nil, err) with DoContext's error")
}

func ruleMapPositional(c *Ctx, r *R) {
	for _, name := range []string{"parallel.Map", "parallel.MapContext"} {
		fn := c.fn(name)
		cb := mapCallback(fn)
		if fn != nil && cb == nil && name == "parallel.Map" {
			// Map written as MapContext with an f that cannot fail: the slice goes through unchanged, the adapter applies f to
			// the very item it is handed, and MapContext's slice is what Map returns - positions are MapContext's business
			if why := mapDelegatesToMapContext(c, fn); why == "" {
				r.discharged(name+"|positional", fn.Pos(), "delegates to MapContext with the same slice and an adapter that applies f to its own item")
				r.discharged(name+"|out-len", fn.Pos(), "the result slice is MapContext's")
				continue
			} else if why != "-" {
				r.violated(name+"|positional", fn.Pos(), "Map hands its work to MapContext, but "+why)
				continue
			}
		}
		if fn == nil || cb == nil {
			r.undecided(name+"|callback", token.NoPos, "callback not found")
			continue
		}
		iP := cb.Params[len(cb.Params)-1]
		inIdx, outIdx := false, false
		bad := ""
		for _, di := range deepInstrs(cb, 2) { // the element access may sit in a helper (mapAt(in, out, i, f))
			ia, ok := di.in.(*ssa.IndexAddr)
			if !ok {
				continue
			}
			if len(di.calls) > 0 {
				if cal := staticCallee(&di.calls[0].Call); cal == nil || rootFn(origin(cal)).Pkg != rootFn(cb).Pkg {
					continue
				}
			}
			base := path(argOf(ia.X, di.calls))
			if resolveVal(argOf(ia.Index, di.calls)) != ssa.Value(iP) {
				bad = base + " is indexed by " + path(ia.Index) + " instead of " + iP.Name()
				continue
			}
			// by role, whatever the names: the input is Map's slice parameter, the output the slice Map makes
			role := ""
			{
				v := resolveVal(argOf(ia.X, di.calls))
				if ld, isLd := v.(*ssa.UnOp); isLd && ld.Op == token.MUL {
					if cell := cellOf(ld.X); cell != nil && cell.Parent() == fn {
						if sts := storesTo(cell); len(sts) == 1 {
							v = resolveVal(sts[0].Val)
						}
					}
				}
				switch x := v.(type) {
				case *ssa.Parameter:
					if _, isSl := x.Type().Underlying().(*types.Slice); isSl && x.Parent() == fn {
						role = "in"
					}
				case *ssa.MakeSlice:
					if x.Parent() == fn {
						role = "out"
					}
				}
			}
			if strings.HasSuffix(base, "in") || role == "in" {
				inIdx = true
			}
			if strings.HasSuffix(base, "out") || role == "out" {
				// must be stored to
				for _, ref := range *ia.Referrers() {
					if _, ok := ref.(*ssa.Store); ok {
						outIdx = true
					}
				}
			}
		}
		r.ok(inIdx && outIdx && bad == "", name+"|positional", cb.Pos(), "result i must be f(in[i]) stored at out[i] with the callback's own index parameter: "+bad)
		// out := make([]U, len(in)) and n = len(in)
		okLen := false
		instrs(fn, func(b *ssa.BasicBlock, i int, in ssa.Instruction) {
			if ms, ok := in.(*ssa.MakeSlice); ok && strings.HasPrefix(path(ms.Len), "len(") && strings.Contains(path(ms.Len), "in") {
				okLen = true
			}
		})
		r.ok(okLen, name+"|out-len", fn.Pos(), "out must have len(in) elements")
	}
}

// mapCallback: the function value Map / MapContext hands to Do / DoContext (a function literal or a method value).
func mapCallback(fn *ssa.Function) *ssa.Function {
	if fn == nil {
		return nil
	}
	var cb *ssa.Function
	instrs(fn, func(b *ssa.BasicBlock, i int, in ssa.Instruction) {
		call, ok := in.(*ssa.Call)
		if !ok {
			return
		}
		cal := staticCallee(&call.Call)
		if cal == nil || (fname(cal) != "Do" && fname(cal) != "DoContext") || len(call.Call.Args) == 0 {
			return
		}
		if f, _ := funcAndReceiver(call.Call.Args[len(call.Call.Args)-1]); f != nil {
			cb = f
		}
	})
	return cb
}

// spawnLoopBound: the number of iterations of the loop around the spawn site: `for j := 0; j < B; j++` (B) or the count-down
// form `for w := B; w > 0; w--` (B = the value the counter starts with). Returns the bound and the loop-header block.
func spawnLoopBound(fn *ssa.Function, site ssa.Instruction) (ssa.Value, *ssa.BasicBlock) {
	for _, b := range fn.Blocks {
		iff, ok := b.Instrs[len(b.Instrs)-1].(*ssa.If)
		if !ok {
			continue
		}
		bin, ok := iff.Cond.(*ssa.BinOp)
		if !ok || !b.Succs[0].Dominates(site.Block()) || !reaches(site.Block(), b) {
			continue
		}
		switch {
		case bin.Op == token.LSS:
			// counter from 0 upwards
			if phi, ok := bin.X.(*ssa.Phi); ok {
				zero := false
				for _, e := range phi.Edges {
					if isConstInt(e, 0) {
						zero = true
					}
				}
				if zero {
					return bin.Y, b
				}
			}
			return bin.Y, b
		case bin.Op == token.GTR && isConstInt(bin.Y, 0):
			if phi, ok := bin.X.(*ssa.Phi); ok {
				for _, e := range phi.Edges {
					if sub, ok := e.(*ssa.BinOp); ok && sub.Op == token.SUB && sub.X == ssa.Value(phi) && isConstInt(sub.Y, 1) {
						continue
					}
					if e != ssa.Value(phi) {
						return e, b
					}
				}
			}
		}
	}
	return nil, nil
}

// effectiveWorkers: the function literals that are the workers' bodies. When the spawn loop lives in a helper that is handed
// the body as a func parameter (fanOut(k, body): `go func() { defer wg.Done(); body() }()`), the goroutine literal of the
// helper only calls that parameter; the worker to look at is the literal the API function passed in.
func effectiveWorkers(im doImpl, spawned []*ssa.Function) []*ssa.Function {
	var out []*ssa.Function
	for _, g := range spawned {
		repl := g
		instrs(g, func(_ *ssa.BasicBlock, _ int, in ssa.Instruction) {
			call, ok := in.(*ssa.Call)
			if !ok || call.Call.IsInvoke() {
				return
			}
			pv := valueProv(call.Call.Value, provEnv{})
			p, isP := pv.root.(*ssa.Parameter)
			if !isP || len(pv.fields) != 0 || p.Parent() != im.fn || len(im.chain) == 0 {
				return
			}
			if _, isSig := p.Type().Underlying().(*types.Signature); !isSig {
				return
			}
			if lit := resolveFuncValue(argOf(p, im.chain), 0); lit != nil {
				repl = lit
			}
		})
		out = append(out, repl)
	}
	return out
}

// isXmathMin: a call of the module's xmath.Min with two arguments.
func isXmathMin(call *ssa.Call) bool {
	cal := calleeOf(&call.Call)
	if cal == nil || len(call.Call.Args) != 2 {
		return false
	}
	o := origin(cal)
	return o.Name() == "Min" && o.Pkg != nil && strings.HasSuffix(o.Pkg.Pkg.Path(), "/xmath")
}

// phiCarries: v is x, or a merge (possibly through a loop header's own merge) that x flows into - the SSA form of a result
// variable: `var err error; for err == nil { ...; err = f(ctx, i) }; return err`.
func phiCarries(v ssa.Value, x ssa.Value) bool {
	seen := map[ssa.Value]bool{}
	var walk func(v ssa.Value, d int) bool
	walk = func(v ssa.Value, d int) bool {
		if v == x {
			return true
		}
		phi, ok := v.(*ssa.Phi)
		if !ok || seen[v] || d > 4 {
			return false
		}
		seen[v] = true
		for _, e := range phi.Edges {
			if walk(e, d+1) {
				return true
			}
		}
		return false
	}
	return walk(v, 0)
}

// virtualReturn: one way into a return whose operand is a merge: the value on that way and the block it comes from.
type virtualReturn struct {
	val ssa.Value
	blk *ssa.BasicBlock
}

// virtualReturnsOf expands `return r` with r a merge in the returning block (a result variable set on several paths) into one
// virtual return per incoming edge; merges that feed it from their own blocks are expanded in turn.
func virtualReturnsOf(ret *ssa.Return, idx int) []virtualReturn {
	var out []virtualReturn
	seen := map[*ssa.Phi]bool{}
	var expand func(v ssa.Value, blk *ssa.BasicBlock, d int)
	expand = func(v ssa.Value, blk *ssa.BasicBlock, d int) {
		phi, ok := v.(*ssa.Phi)
		if !ok || seen[phi] || d > 4 || (phi.Block() != blk && !onlyJumpsBetween(phi.Block(), blk)) {
			out = append(out, virtualReturn{v, blk})
			return
		}
		seen[phi] = true
		for k, e := range phi.Edges {
			expand(e, phi.Block().Preds[k], d+1)
		}
	}
	expand(returnedValue(ret, idx), ret.Block(), 0)
	return out
}

// onlyJumpsBetween: b is reached from a through unconditional jumps only (or is a itself).
func onlyJumpsBetween(a, b *ssa.BasicBlock) bool {
	for d := 0; d < 4; d++ {
		if a == b {
			return true
		}
		if len(a.Succs) != 1 {
			return false
		}
		a = a.Succs[0]
	}
	return false
}

// isQueryOnlyArg: a constant argument below 1: runtime.GOMAXPROCS(n) with n < 1 only reports the current setting.
func isQueryOnlyArg(v ssa.Value) bool {
	k, ok := v.(*ssa.Const)
	if !ok || k.Value == nil {
		return false
	}
	n, exact := constant.Int64Val(k.Value)
	return exact && n < 1
}

// mapDelegatesToMapContext: "" when Map is MapContext(ctx, parallelism, in, adapter) with Map's own slice, an adapter whose
// every return is (f(item), nil) for Map's f and the adapter's own item parameter, and Map returns MapContext's slice; "-" when
// Map does not call MapContext at all; otherwise what is wrong.
func mapDelegatesToMapContext(c *Ctx, fn *ssa.Function) string {
	var call *ssa.Call
	instrs(fn, func(_ *ssa.BasicBlock, _ int, in ssa.Instruction) {
		if x, ok := in.(*ssa.Call); ok {
			if cal := staticCallee(&x.Call); cal != nil && fname(cal) == "MapContext" {
				call = x
			}
		}
	})
	if call == nil {
		return "-"
	}
	if len(call.Call.Args) != 4 || len(fn.Params) != 3 {
		return "the call has an unexpected shape"
	}
	if call.Call.Args[2] != ssa.Value(fn.Params[1]) {
		return "the slice handed over is not Map's own input"
	}
	if resolveVal(call.Call.Args[1]) != ssa.Value(fn.Params[0]) {
		return "the parallelism handed over is not Map's own"
	}
	ad, _ := funcAndReceiver(call.Call.Args[3])
	if ad == nil || ad.Blocks == nil || len(ad.Params) != 2 {
		return "the adapter handed to MapContext cannot be resolved"
	}
	nRet := 0
	bad := ""
	instrs(ad, func(_ *ssa.BasicBlock, _ int, in ssa.Instruction) {
		ret, ok := in.(*ssa.Return)
		if !ok {
			return
		}
		nRet++
		if len(ret.Results) != 2 || !isNilConst(returnedValue(ret, 1)) {
			bad = "the adapter can return an error"
			return
		}
		fc, ok := returnedValue(ret, 0).(*ssa.Call)
		if !ok || len(fc.Call.Args) != 1 || fc.Call.Args[0] != ssa.Value(ad.Params[1]) {
			bad = "the adapter does not return f applied to the item it was handed"
			return
		}
		if resolveVal(fc.Call.Value) != ssa.Value(fn.Params[2]) && path(fc.Call.Value) != pname(fn.Params[2]) {
			bad = "the adapter calls something other than Map's f"
		}
	})
	if nRet == 0 {
		return "the adapter never returns"
	}
	if bad != "" {
		return bad
	}
	// Map returns MapContext's slice
	okRet := false
	instrs(fn, func(_ *ssa.BasicBlock, _ int, in ssa.Instruction) {
		if ret, ok := in.(*ssa.Return); ok && len(ret.Results) == 1 {
			if ex, ok := returnedValue(ret, 0).(*ssa.Extract); ok && ex.Tuple == ssa.Value(call) && ex.Index == 0 {
				okRet = true
			}
		}
	})
	if !okRet {
		return "Map does not return the slice MapContext produced"
	}
	return ""
}

// ctxPollGuard: the guard is the outcome of a non-blocking select that has a receive arm on some context's Done channel
// (possibly fetched into a local before: cancelled := ctx.Done()): the context, and whether the guard says the arm was taken
// (the context is done - exactly when ctx.Err() != nil) or not taken.
func ctxPollGuard(gd guard) (ctx ssa.Value, done bool, ok bool) {
	cf, isCmp := gd.asCmp()
	if !isCmp || (cf.op != token.EQL && cf.op != token.NEQ) {
		return nil, false, false
	}
	ex, isEx := cf.x.(*ssa.Extract)
	k, isK := cf.y.(*ssa.Const)
	if !isEx || !isK || ex.Index != 0 || k.Value == nil {
		return nil, false, false
	}
	sel, isSel := ex.Tuple.(*ssa.Select)
	if !isSel || sel.Blocking {
		return nil, false, false
	}
	arm := -1
	for i, st := range sel.States {
		if st.Dir != types.RecvOnly {
			continue
		}
		if kind, cx := classifyChan(resolveVal(st.Chan)); kind == "ctx-done" && cx != nil {
			arm, ctx = i, cx
		}
	}
	if arm < 0 {
		return nil, false, false
	}
	idx := int(k.Int64())
	switch {
	case idx == arm && cf.op == token.EQL:
		return ctx, true, true
	case idx == arm && cf.op == token.NEQ && len(sel.States) == 1:
		return ctx, false, true
	case idx == -1 && cf.op == token.EQL:
		return ctx, false, true
	}
	return nil, false, false
}
